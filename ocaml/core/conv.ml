(* Conversions between the extracted Coq datatypes and OCaml values.
   Numbers travel as lower-case hexadecimal text, strings as hex-encoded bytes. *)
open Model

let hexval c =
  match c with
  | '0' .. '9' -> Char.code c - 48
  | 'a' .. 'f' -> Char.code c - 87
  | 'A' .. 'F' -> Char.code c - 55
  | _ -> failwith ("bad hex digit: " ^ Stdlib.String.make 1 c)

let n_of_hex (s : Stdlib.String.t) : n =
  let acc = ref N0 in
  Stdlib.String.iter
    (fun ch ->
      let d = hexval ch in
      for b = 3 downto 0 do
        let bit = (d lsr b) land 1 = 1 in
        acc :=
          (match !acc with
           | N0 -> if bit then Npos XH else N0
           | Npos p -> Npos (if bit then XI p else XO p))
      done)
    s;
  !acc

let hex_of_n (x : n) : Stdlib.String.t =
  match x with
  | N0 -> "0"
  | Npos p ->
    (* bits, least significant first *)
    let rec bits p acc =
      match p with
      | XH -> List.rev (true :: acc)
      | XO q -> bits q (false :: acc)
      | XI q -> bits q (true :: acc)
    in
    let bs = Array.of_list (bits p []) in
    let nb = Array.length bs in
    let nd = (nb + 3) / 4 in
    let buf = Bytes.make nd '0' in
    for d = 0 to nd - 1 do
      let v = ref 0 in
      for b = 3 downto 0 do
        let i = (d * 4) + b in
        v := (!v lsl 1) lor (if i < nb && bs.(i) then 1 else 0)
      done;
      Bytes.set buf (nd - 1 - d) "0123456789abcdef".[!v]
    done;
    Bytes.to_string buf

let rec n_of_int (i : int) : n =
  if i = 0 then N0 else n_of_hex (Printf.sprintf "%x" i)

let int_of_n (x : n) : int = int_of_string ("0x" ^ hex_of_n x)

let rec nat_of_int (i : int) : nat = if i <= 0 then O else S (nat_of_int (i - 1))
let rec int_of_nat (x : nat) : int = match x with O -> 0 | S y -> 1 + int_of_nat y

let ascii_of_char (c : char) : ascii =
  let k = Char.code c in
  let b i = (k lsr i) land 1 = 1 in
  Ascii (b 0, b 1, b 2, b 3, b 4, b 5, b 6, b 7)

let char_of_ascii (a : ascii) : char =
  match a with
  | Ascii (b0, b1, b2, b3, b4, b5, b6, b7) ->
    let v b i = if b then 1 lsl i else 0 in
    Char.chr (v b0 0 + v b1 1 + v b2 2 + v b3 3 + v b4 4 + v b5 5 + v b6 6 + v b7 7)

let coq_string_of_bytes (s : Stdlib.String.t) : Model.string =
  let r = ref EmptyString in
  for i = Stdlib.String.length s - 1 downto 0 do
    r := String (ascii_of_char s.[i], !r)
  done;
  !r

let bytes_of_coq_string (s : Model.string) : Stdlib.String.t =
  let b = Buffer.create 32 in
  let rec go s =
    match s with
    | EmptyString -> ()
    | String (a, r) -> Buffer.add_char b (char_of_ascii a); go r
  in
  go s;
  Buffer.contents b

(* hex-encoded byte strings *)
let bytes_of_hexstr (h : Stdlib.String.t) : Stdlib.String.t =
  let n = Stdlib.String.length h / 2 in
  Stdlib.String.init n (fun i -> Char.chr ((hexval h.[2 * i] lsl 4) lor hexval h.[(2 * i) + 1]))

let hexstr_of_bytes (s : Stdlib.String.t) : Stdlib.String.t =
  let b = Buffer.create (2 * Stdlib.String.length s) in
  Stdlib.String.iter (fun c -> Buffer.add_string b (Printf.sprintf "%02x" (Char.code c))) s;
  Buffer.contents b

let show_bool b = if b then "1" else "0"
let bool_of_tok s = (s = "1")

let show_outcome f = function
  | Ok a -> "ok:" ^ f a
  | Err -> "err"
  | Panic -> "panic"

let show_option f = function
  | Some a -> "some:" ^ f a
  | None -> "none"

let split_ws (s : Stdlib.String.t) : Stdlib.String.t list =
  List.filter (fun x -> x <> "") (Stdlib.String.split_on_char ' ' s)
