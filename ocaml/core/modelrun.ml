(* modelrun: evaluates the extracted Coq model on the cases read from stdin,
   one case per line, and prints one canonical result line per case.
   usage: modelrun <component> < cases > results *)
open Conv

let h = hex_of_n
let n = n_of_hex

(* ---- component: ts (C10) ------------------------------------------------ *)
let run_ts (toks : string list) : string =
  match toks with
  | [ "new"; sec; ms; cnt; node ] ->
    show_outcome h (Model.ts_new (n sec) (n ms) (n cnt) (n node))
  | [ "acc"; t ] ->
    let t = n t in
    String.concat " "
      [ h (Model.ts_seconds t); h (Model.ts_fractional t); h (Model.ts_counter t);
        h (Model.ts_node t); h (Model.ts_tick t) ]
  | [ "show"; t ] -> hexstr_of_bytes (bytes_of_coq_string (Model.show (n t)))
  | [ "parse"; s ] -> show_outcome h (Model.parse (coq_string_of_bytes (bytes_of_hexstr s)))
  | [ "parse" ] -> show_outcome h (Model.parse (coq_string_of_bytes ""))
  | [ "lparse"; s ] -> show_outcome h (Model.legacy_parse (coq_string_of_bytes (bytes_of_hexstr s)))
  | [ "lparse" ] -> show_outcome h (Model.legacy_parse (coq_string_of_bytes ""))
  | [ "cmp"; a; b ] -> show_bool (Model.N.ltb (n a) (n b))
  | [ "le8"; t ] -> String.concat " " (List.map h (Model.to_le8 (n t)))
  | [ "ofle8"; b0; b1; b2; b3; b4; b5; b6; b7 ] ->
    show_option h (Model.of_le8 (List.map n [ b0; b1; b2; b3; b4; b5; b6; b7 ]))
  | _ -> "?bad-case"

(* ---- component: hlc (C09) ----------------------------------------------- *)
let show_hres = function
  | Model.HOk t -> "ok:" ^ h t
  | Model.HErr Model.ClockDrift -> "err:drift"
  | Model.HErr Model.Overflow -> "err:overflow"
  | Model.HErr Model.DuplicatedNode -> "err:dup"
  | Model.HPanic -> "panic"

let run_hlc (toks : string list) : string =
  match toks with
  | "run" :: c0 :: evs ->
    (* stop at the first panic, as the executor does *)
    let rec go c evs acc =
      match evs with
      | [] -> (List.rev acc, c)
      | e :: rest ->
        let r, c' =
          match String.split_on_char ':' e with
          | [ "s"; w ] -> Model.send (n w) c
          | [ "r"; w; m ] -> Model.recv (n w) c (n m)
          | _ -> failwith "bad event"
        in
        (match r with
         | Model.HPanic -> (List.rev (show_hres r :: acc), c')
         | _ -> go c' rest (show_hres r :: acc))
    in
    let outs, c = go (n c0) evs [] in
    String.concat " " outs ^ " | " ^ h c
  | _ -> "?bad-case"

(* ---- component: orswot (C03 C04 C05 C08) --------------------------------- *)
let sort_pairs (l : (Model.n * Model.n) list) : (Model.n * Model.n) list =
  let key (k, t) = (hex_of_n k, hex_of_n t) in
  let cmp a b =
    let (ka, ta) = key a and (kb, tb) = key b in
    let c = compare (String.length ka, ka) (String.length kb, kb) in
    if c <> 0 then c else compare (String.length ta, ta) (String.length tb, tb)
  in
  List.sort cmp l

let show_pairs l =
  "[" ^ String.concat "," (List.map (fun (k, t) -> h k ^ "=" ^ h t) (sort_pairs l)) ^ "]"

let run_orswot (toks : string list) : string =
  match toks with
  | "seq" :: nsrc :: legacy :: ops ->
    let nsrc = nat_of_int (int_of_string nsrc) in
    let legacy = legacy = "1" in
    let sets = Array.make 4 (Model.empty_set nsrc) in
    let cur = ref 0 in
    let out = Buffer.create 256 in
    let emit s = if Buffer.length out > 0 then Buffer.add_char out ' '; Buffer.add_string out s in
    List.iter
      (fun tok ->
        if String.length tok > 0 && tok.[0] = '@' then
          cur := int_of_string (String.sub tok 1 (String.length tok - 1))
        else
          match String.split_on_char ':' tok with
          | [ "i"; src; k; t ] ->
            let s', b = Model.insert_ws legacy sets.(!cur) (nat_of_int (int_of_string src)) (n k) (n t) in
            sets.(!cur) <- s'; emit (show_bool b)
          | [ "d"; src; k; t ] ->
            let s', b = Model.delete_ws legacy sets.(!cur) (nat_of_int (int_of_string src)) (n k) (n t) in
            sets.(!cur) <- s'; emit (show_bool b)
          | [ "w"; k; t ] -> emit (show_bool (Model.will_apply sets.(!cur) (n k) (n t)))
          | [ "g"; k ] -> emit (show_option h (Model.set_get sets.(!cur) (n k)))
          | [ "p" ] ->
            let purged, s' = Model.set_purge sets.(!cur) in
            sets.(!cur) <- s'; emit ("p" ^ show_pairs purged)
          | [ "M"; j ] -> sets.(!cur) <- Model.set_merge sets.(!cur) sets.(int_of_string j)
          | [ "F"; j ] ->
            let m, r = Model.set_diff sets.(!cur) sets.(int_of_string j) in
            emit ("F" ^ show_pairs m ^ show_pairs r)
          | "S" :: rest ->
            let probes = match rest with [ "" ] | [] -> [] | [ l ] -> String.split_on_char ',' l | _ -> [] in
            let s = sets.(!cur) in
            emit
              ("E" ^ show_pairs (Model.entries_list s) ^ "D" ^ show_pairs (Model.dead_list s) ^ "B["
               ^ String.concat "" (List.map (fun t -> show_bool (Model.before_set s (n t))) probes)
               ^ "]")
          | _ -> emit "?tok")
      ops;
    Buffer.contents out
  | _ -> "?bad-case"

let () =
  let comp = if Array.length Sys.argv > 1 then Sys.argv.(1) else "" in
  let f =
    match comp with
    | "ts" -> run_ts
    | "hlc" -> run_hlc
    | "orswot" -> run_orswot
    | _ -> prerr_endline ("unknown component " ^ comp); exit 2
  in
  let out = Buffer.create 65536 in
  (try
     while true do
       let line = input_line stdin in
       let r = try f (split_ws line) with e -> "?exn:" ^ Printexc.to_string e in
       Buffer.add_string out r;
       Buffer.add_char out '\n';
       if Buffer.length out > 60000 then (print_string (Buffer.contents out); Buffer.clear out)
     done
   with End_of_file -> ());
  print_string (Buffer.contents out)
