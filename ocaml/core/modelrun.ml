(* modelrun: evaluates the extracted Coq model on the cases read from stdin,
   one case per line, and prints one canonical result line per case.
   usage: modelrun <component> < cases > results *)
open Conv

let h = hex_of_n
let n = n_of_hex

(* ---- component: ts (C10) ------------------------------------------------ *)
let run_ts (toks : string list) : string =
  match toks with
  | [ "new"; sec; ms; cnt; node ] ->
    show_outcome h (Model.ts_new (n sec) (n ms) (n cnt) (n node))
  | [ "acc"; t ] ->
    let t = n t in
    String.concat " "
      [ h (Model.ts_seconds t); h (Model.ts_fractional t); h (Model.ts_counter t);
        h (Model.ts_node t); h (Model.ts_tick t) ]
  | [ "show"; t ] -> hexstr_of_bytes (bytes_of_coq_string (Model.show (n t)))
  | [ "parse"; s ] -> show_outcome h (Model.parse (coq_string_of_bytes (bytes_of_hexstr s)))
  | [ "parse" ] -> show_outcome h (Model.parse (coq_string_of_bytes ""))
  | [ "lparse"; s ] -> show_outcome h (Model.legacy_parse (coq_string_of_bytes (bytes_of_hexstr s)))
  | [ "lparse" ] -> show_outcome h (Model.legacy_parse (coq_string_of_bytes ""))
  | [ "cmp"; a; b ] -> show_bool (Model.N.ltb (n a) (n b))
  | [ "le8"; t ] -> String.concat " " (List.map h (Model.to_le8 (n t)))
  | [ "ofle8"; b0; b1; b2; b3; b4; b5; b6; b7 ] ->
    show_option h (Model.of_le8 (List.map n [ b0; b1; b2; b3; b4; b5; b6; b7 ]))
  | _ -> "?bad-case"

(* ---- component: hlc (C09) ----------------------------------------------- *)
let show_hres = function
  | Model.HOk t -> "ok:" ^ h t
  | Model.HErr Model.ClockDrift -> "err:drift"
  | Model.HErr Model.Overflow -> "err:overflow"
  | Model.HErr Model.DuplicatedNode -> "err:dup"
  | Model.HPanic -> "panic"

let run_hlc (toks : string list) : string =
  match toks with
  | "run" :: c0 :: evs ->
    (* stop at the first panic, as the executor does *)
    let rec go c evs acc =
      match evs with
      | [] -> (List.rev acc, c)
      | e :: rest ->
        let r, c' =
          match String.split_on_char ':' e with
          | [ "s"; w ] -> Model.send (n w) c
          | [ "r"; w; m ] -> Model.recv (n w) c (n m)
          | _ -> failwith "bad event"
        in
        (match r with
         | Model.HPanic -> (List.rev (show_hres r :: acc), c')
         | _ -> go c' rest (show_hres r :: acc))
    in
    let outs, c = go (n c0) evs [] in
    String.concat " " outs ^ " | " ^ h c
  | _ -> "?bad-case"

(* ---- component: orswot (C03 C04 C05 C08) --------------------------------- *)
let sort_pairs (l : (Model.n * Model.n) list) : (Model.n * Model.n) list =
  let key (k, t) = (hex_of_n k, hex_of_n t) in
  let cmp a b =
    let (ka, ta) = key a and (kb, tb) = key b in
    let c = compare (String.length ka, ka) (String.length kb, kb) in
    if c <> 0 then c else compare (String.length ta, ta) (String.length tb, tb)
  in
  List.sort cmp l

let show_pairs l =
  "[" ^ String.concat "," (List.map (fun (k, t) -> h k ^ "=" ^ h t) (sort_pairs l)) ^ "]"

let run_orswot (toks : string list) : string =
  match toks with
  | "seq" :: nsrc :: legacy :: ops ->
    let nsrc = nat_of_int (int_of_string nsrc) in
    let legacy = legacy = "1" in
    let sets = Array.make 4 (Model.empty_set nsrc) in
    let cur = ref 0 in
    let out = Buffer.create 256 in
    let emit s = if Buffer.length out > 0 then Buffer.add_char out ' '; Buffer.add_string out s in
    List.iter
      (fun tok ->
        if String.length tok > 0 && tok.[0] = '@' then
          cur := int_of_string (String.sub tok 1 (String.length tok - 1))
        else
          match String.split_on_char ':' tok with
          | [ "i"; src; k; t ] ->
            let s', b = Model.insert_ws legacy sets.(!cur) (nat_of_int (int_of_string src)) (n k) (n t) in
            sets.(!cur) <- s'; emit (show_bool b)
          | [ "d"; src; k; t ] ->
            let s', b = Model.delete_ws legacy sets.(!cur) (nat_of_int (int_of_string src)) (n k) (n t) in
            sets.(!cur) <- s'; emit (show_bool b)
          | [ "w"; k; t ] -> emit (show_bool (Model.will_apply sets.(!cur) (n k) (n t)))
          | [ "g"; k ] -> emit (show_option h (Model.set_get sets.(!cur) (n k)))
          | [ "p" ] ->
            let purged, s' = Model.set_purge sets.(!cur) in
            sets.(!cur) <- s'; emit ("p" ^ show_pairs purged)
          | [ "M"; j ] -> sets.(!cur) <- Model.set_merge sets.(!cur) sets.(int_of_string j)
          | [ "F"; j ] ->
            let m, r = Model.set_diff sets.(!cur) sets.(int_of_string j) in
            emit ("F" ^ show_pairs m ^ show_pairs r)
          | "S" :: rest ->
            let probes = match rest with [ "" ] | [] -> [] | [ l ] -> String.split_on_char ',' l | _ -> [] in
            let s = sets.(!cur) in
            emit
              ("E" ^ show_pairs (Model.entries_list s) ^ "D" ^ show_pairs (Model.dead_list s) ^ "B["
               ^ String.concat "" (List.map (fun t -> show_bool (Model.before_set s (n t))) probes)
               ^ "]")
          | _ -> emit "?tok")
      ops;
    Buffer.contents out
  | _ -> "?bad-case"

(* ---- component: actor (C02 C07) ------------------------------------------ *)
let show_set_dump (s : Model.oset) (probes : string list) : string =
  "E" ^ show_pairs (Model.entries_list s) ^ "D" ^ show_pairs (Model.dead_list s) ^ "B["
  ^ String.concat "" (List.map (fun t -> show_bool (Model.before_set s (n t))) probes)
  ^ "]"

let show_store_dump st : string =
  let rows = Model.store_list st in
  let cmpk (a, _) (b, _) =
    let ka = h a and kb = h b in
    compare (String.length ka, ka) (String.length kb, kb)
  in
  let rows = List.sort cmpk rows in
  let m =
    List.map
      (fun (k, (t, p)) -> h k ^ "=" ^ h t ^ "." ^ (match p with Some _ -> "0" | None -> "1"))
      rows
  in
  let g =
    List.filter_map
      (fun (k, (t, p)) -> match p with Some pl -> Some (h k ^ "=" ^ h t ^ "." ^ h pl) | None -> None)
      rows
  in
  "M[" ^ String.concat "," m ^ "]G[" ^ String.concat "," g ^ "]"

let parse_outcome (o : string) : Model.outcome_s =
  match o with
  | "k" -> Model.SOk
  | "f" -> Model.SFail
  | _ ->
    Model.SPartial
      (List.init (String.length o - 1) (fun i -> o.[i + 1] = '1'))

let parse_request (tok : string) : (Model.request * Model.outcome_s) option =
  let nat_ s = nat_of_int (int_of_string s) in
  let items s = List.filter (fun x -> x <> "") (String.split_on_char ',' s) in
  match String.split_on_char ':' tok with
  | [ "s"; src; k; t; p; o ] ->
    Some (Model.RSet (nat_ src, { Model.d_id = n k; d_ts = n t; d_data = n p }), parse_outcome o)
  | [ "d"; src; k; t; o ] ->
    Some (Model.RDel (nat_ src, { Model.m_id = n k; m_ts = n t }), parse_outcome o)
  | [ "S"; src; o; its ] ->
    let ds =
      List.map
        (fun it ->
          match String.split_on_char '.' it with
          | [ k; t; p ] -> { Model.d_id = n k; d_ts = n t; d_data = n p }
          | _ -> failwith "bad item")
        (items its)
    in
    Some (Model.RMultiSet (nat_ src, ds), parse_outcome o)
  | [ "D"; src; o; its ] ->
    let ms =
      List.map
        (fun it ->
          match String.split_on_char '.' it with
          | [ k; t ] -> { Model.m_id = n k; m_ts = n t }
          | _ -> failwith "bad item")
        (items its)
    in
    Some (Model.RMultiDel (nat_ src, ms), parse_outcome o)
  | [ "P"; o ] -> Some (Model.RPurge, parse_outcome o)
  | _ -> None

(* legacy flags: (legacy acceptance rule, no de-duplication) *)
let run_actor_gen (legacy : bool) (dedup : bool) (toks : string list) : string =
  match toks with
  | "act" :: pr :: reqs ->
    let probes =
      let p = String.sub pr 7 (String.length pr - 7) in
      List.filter (fun x -> x <> "") (String.split_on_char ',' p)
    in
    let two = nat_of_int 2 in
    let state = ref (Model.empty_set two, Model.gmap_empty_store) in
    let outs =
      List.map
        (fun tok ->
          let reply =
            if tok = "R" then begin
              let _, st = !state in
              state := (Model.rebuild two st, st);
              "restart"
            end
            else if String.length tok > 0 && tok.[0] = 'C' then begin
              (* the node dies after the storage write of this request: the store is as after
                 the request, the set is rebuilt from it *)
              let inner = String.sub tok 1 (String.length tok - 1) in
              match parse_request inner with
              | Some (r, _) ->
                let s0, st0 = !state in
                let applies =
                  match r with
                  | Model.RSet (_, d) -> Model.will_apply s0 d.Model.d_id d.Model.d_ts
                  | Model.RDel (_, m) -> Model.will_apply s0 m.Model.m_id m.Model.m_ts
                  | _ -> true
                in
                let (_, st1), _ = Model.actor_step legacy dedup (s0, st0) r Model.SOk in
                state := (Model.rebuild two st1, st1);
                (* a single request that does not apply never reaches storage: it returns *)
                if applies then "crash-hung" else "crash-ok"
              | None -> "?tok"
            end
            else
              match parse_request tok with
              | Some (r, o) ->
                let x', rep = Model.actor_step legacy dedup !state r o in
                state := x';
                (match rep with Model.ROk -> "ok" | Model.RErr -> "err")
              | None -> "?tok"
          in
          let s, st = !state in
          reply ^ " " ^ show_set_dump s probes ^ " " ^ show_store_dump st)
        reqs
    in
    String.concat " | " outs
  | _ -> "?bad-case"

let () =
  let comp = if Array.length Sys.argv > 1 then Sys.argv.(1) else "" in
  let f =
    match comp with
    | "ts" -> run_ts
    | "hlc" -> run_hlc
    | "orswot" -> run_orswot
    | "actor" -> run_actor_gen false true
    | "actor-legacy-d2" -> run_actor_gen false false
    | _ -> prerr_endline ("unknown component " ^ comp); exit 2
  in
  let out = Buffer.create 65536 in
  (try
     while true do
       let line = input_line stdin in
       let r = try f (split_ws line) with e -> "?exn:" ^ Printexc.to_string e in
       Buffer.add_string out r;
       Buffer.add_char out '\n';
       if Buffer.length out > 60000 then (print_string (Buffer.contents out); Buffer.clear out)
     done
   with End_of_file -> ());
  print_string (Buffer.contents out)
