(* modelrun: evaluates the extracted Coq model on the cases read from stdin,
   one case per line, and prints one canonical result line per case.
   usage: modelrun <component> < cases > results *)
open Conv

let h = hex_of_n
let n = n_of_hex

(* ---- component: ts (C10) ------------------------------------------------ *)
let run_ts (toks : string list) : string =
  match toks with
  | [ "new"; sec; ms; cnt; node ] ->
    show_outcome h (Model.ts_new (n sec) (n ms) (n cnt) (n node))
  | [ "acc"; t ] ->
    let t = n t in
    String.concat " "
      [ h (Model.ts_seconds t); h (Model.ts_fractional t); h (Model.ts_counter t);
        h (Model.ts_node t); h (Model.ts_tick t) ]
  | [ "show"; t ] -> hexstr_of_bytes (bytes_of_coq_string (Model.show (n t)))
  | [ "parse"; s ] -> show_outcome h (Model.parse (coq_string_of_bytes (bytes_of_hexstr s)))
  | [ "parse" ] -> show_outcome h (Model.parse (coq_string_of_bytes ""))
  | [ "lparse"; s ] -> show_outcome h (Model.legacy_parse (coq_string_of_bytes (bytes_of_hexstr s)))
  | [ "lparse" ] -> show_outcome h (Model.legacy_parse (coq_string_of_bytes ""))
  | "row" :: rest ->
    (* a stored row whose stamp column holds this text (hx-rows, SQLite): readable exactly when the
       text parses; otherwise an error on every read path, and the storage keeps serving *)
    let text = match rest with [ s ] -> bytes_of_hexstr s | _ -> "" in
    (match Model.parse (coq_string_of_bytes text) with
     | Model.Ok t -> "get=ok:" ^ h t ^ " meta=ok:" ^ h t ^ " alive=1"
     | _ -> "get=err meta=err alive=1")
  | [ "bulk"; _; _ ] ->
    (* hx-rows: a multi_put of which one row is refused by the store.  The storage contract the
       actor model relies on (ActorModel: a failed bulk reports exactly the ids it persisted; the
       SQLite backend reports none): nothing of the batch is stored, later calls are served *)
    "err rows=0 after=ok"
  | [ "cmp"; a; b ] -> show_bool (Model.N.ltb (n a) (n b))
  | [ "le8"; t ] -> String.concat " " (List.map h (Model.to_le8 (n t)))
  | [ "ofle8"; b0; b1; b2; b3; b4; b5; b6; b7 ] ->
    show_option h (Model.of_le8 (List.map n [ b0; b1; b2; b3; b4; b5; b6; b7 ]))
  | _ -> "?bad-case"

(* ---- component: hlc (C09) ----------------------------------------------- *)
let show_hres = function
  | Model.HOk t -> "ok:" ^ h t
  | Model.HErr Model.ClockDrift -> "err:drift"
  | Model.HErr Model.Overflow -> "err:overflow"
  | Model.HErr Model.DuplicatedNode -> "err:dup"
  | Model.HPanic -> "panic"

let run_hlc (toks : string list) : string =
  match toks with
  | "run" :: c0 :: evs ->
    (* stop at the first panic, as the executor does *)
    let rec go c evs acc =
      match evs with
      | [] -> (List.rev acc, c)
      | e :: rest ->
        let r, c' =
          match String.split_on_char ':' e with
          | [ "s"; w ] -> Model.send (n w) c
          | [ "r"; w; m ] -> Model.recv (n w) c (n m)
          | _ -> failwith "bad event"
        in
        (match r with
         | Model.HPanic -> (List.rev (show_hres r :: acc), c')
         | _ -> go c' rest (show_hres r :: acc))
    in
    let outs, c = go (n c0) evs [] in
    String.concat " " outs ^ " | " ^ h c
  | _ -> "?bad-case"

(* ---- component: orswot (C03 C04 C05 C08) --------------------------------- *)
let sort_pairs (l : (Model.n * Model.n) list) : (Model.n * Model.n) list =
  let key (k, t) = (hex_of_n k, hex_of_n t) in
  let cmp a b =
    let (ka, ta) = key a and (kb, tb) = key b in
    let c = compare (String.length ka, ka) (String.length kb, kb) in
    if c <> 0 then c else compare (String.length ta, ta) (String.length tb, tb)
  in
  List.sort cmp l

let show_pairs l =
  "[" ^ String.concat "," (List.map (fun (k, t) -> h k ^ "=" ^ h t) (sort_pairs l)) ^ "]"

let run_orswot (toks : string list) : string =
  match toks with
  | "seq" :: nsrc :: legacy :: ops ->
    let nsrc = nat_of_int (int_of_string nsrc) in
    let legacy = legacy = "1" in
    let sets = Array.make 8 (Model.empty_set nsrc) in
    let cur = ref 0 in
    let out = Buffer.create 256 in
    let emit s = if Buffer.length out > 0 then Buffer.add_char out ' '; Buffer.add_string out s in
    List.iter
      (fun tok ->
        if String.length tok > 0 && tok.[0] = '@' then
          cur := int_of_string (String.sub tok 1 (String.length tok - 1))
        else
          match String.split_on_char ':' tok with
          | [ "i"; src; k; t ] ->
            let s', b = Model.insert_ws legacy sets.(!cur) (nat_of_int (int_of_string src)) (n k) (n t) in
            sets.(!cur) <- s'; emit (show_bool b)
          | [ "d"; src; k; t ] ->
            let s', b = Model.delete_ws legacy sets.(!cur) (nat_of_int (int_of_string src)) (n k) (n t) in
            sets.(!cur) <- s'; emit (show_bool b)
          | [ "w"; k; t ] -> emit (show_bool (Model.will_apply sets.(!cur) (n k) (n t)))
          | [ "g"; k ] -> emit (show_option h (Model.set_get sets.(!cur) (n k)))
          | [ "p" ] ->
            let purged, s' = Model.set_purge sets.(!cur) in
            sets.(!cur) <- s'; emit ("p" ^ show_pairs purged)
          | [ "C"; j ] -> sets.(!cur) <- sets.(int_of_string j)
          | [ "M"; j ] -> sets.(!cur) <- Model.set_merge sets.(!cur) sets.(int_of_string j)
          | [ "F"; j ] ->
            let m, r = Model.set_diff sets.(!cur) sets.(int_of_string j) in
            emit ("F" ^ show_pairs m ^ show_pairs r)
          | "S" :: rest ->
            let probes = match rest with [ "" ] | [] -> [] | [ l ] -> String.split_on_char ',' l | _ -> [] in
            let s = sets.(!cur) in
            emit
              ("E" ^ show_pairs (Model.entries_list s) ^ "D" ^ show_pairs (Model.dead_list s) ^ "B["
               ^ String.concat "" (List.map (fun t -> show_bool (Model.before_set s (n t))) probes)
               ^ "]")
          | _ -> emit "?tok")
      ops;
    Buffer.contents out
  | _ -> "?bad-case"

(* ---- component: actor (C02 C07) ------------------------------------------ *)
let show_set_dump (s : Model.oset) (probes : string list) : string =
  "E" ^ show_pairs (Model.entries_list s) ^ "D" ^ show_pairs (Model.dead_list s) ^ "B["
  ^ String.concat "" (List.map (fun t -> show_bool (Model.before_set s (n t))) probes)
  ^ "]"

let show_store_dump st : string =
  let rows = Model.store_list st in
  let cmpk (a, _) (b, _) =
    let ka = h a and kb = h b in
    compare (String.length ka, ka) (String.length kb, kb)
  in
  let rows = List.sort cmpk rows in
  let m =
    List.map
      (fun (k, (t, p)) -> h k ^ "=" ^ h t ^ "." ^ (match p with Some _ -> "0" | None -> "1"))
      rows
  in
  let g =
    List.filter_map
      (fun (k, (t, p)) -> match p with Some pl -> Some (h k ^ "=" ^ h t ^ "." ^ h pl) | None -> None)
      rows
  in
  "M[" ^ String.concat "," m ^ "]G[" ^ String.concat "," g ^ "]"

let parse_outcome (o : string) : Model.outcome_s =
  match o with
  | "k" -> Model.SOk
  | "f" -> Model.SFail
  | _ ->
    Model.SPartial
      (List.init (String.length o - 1) (fun i -> o.[i + 1] = '1'))

let parse_request (tok : string) : (Model.request * Model.outcome_s) option =
  let nat_ s = nat_of_int (int_of_string s) in
  let items s = List.filter (fun x -> x <> "") (String.split_on_char ',' s) in
  match String.split_on_char ':' tok with
  | [ "s"; src; k; t; p; o ] ->
    Some (Model.RSet (nat_ src, { Model.d_id = n k; d_ts = n t; d_data = n p }), parse_outcome o)
  | [ "d"; src; k; t; o ] ->
    Some (Model.RDel (nat_ src, { Model.m_id = n k; m_ts = n t }), parse_outcome o)
  | [ "S"; src; o; its ] ->
    let ds =
      List.map
        (fun it ->
          match String.split_on_char '.' it with
          | [ k; t; p ] -> { Model.d_id = n k; d_ts = n t; d_data = n p }
          | _ -> failwith "bad item")
        (items its)
    in
    Some (Model.RMultiSet (nat_ src, ds), parse_outcome o)
  | [ "D"; src; o; its ] ->
    let ms =
      List.map
        (fun it ->
          match String.split_on_char '.' it with
          | [ k; t ] -> { Model.m_id = n k; m_ts = n t }
          | _ -> failwith "bad item")
        (items its)
    in
    Some (Model.RMultiDel (nat_ src, ms), parse_outcome o)
  | [ "P"; o ] -> Some (Model.RPurge, parse_outcome o)
  | _ -> None

(* legacy flags: (legacy acceptance rule, no de-duplication) *)
(* [canon]: dumps are taken modulo purgeable tombstones (the set as a purge would leave it; store
   rows of tombstones older than the cut-off dropped).  hx-restart runs on a real-time runtime, where
   the node's own purge task fires about a millisecond after every start, at a point of the history
   nobody controls; purging is invisible to every other observation (C08). *)
let canon_dump = ref false

let run_actor_gen (legacy : bool) (dedup : bool) (toks : string list) : string =
  match toks with
  | "act" :: pr :: reqs ->
    let probes =
      let p = String.sub pr 7 (String.length pr - 7) in
      List.filter (fun x -> x <> "") (String.split_on_char ',' p)
    in
    let two = nat_of_int 2 in
    let state = ref (Model.empty_set two, Model.gmap_empty_store) in
    let outs =
      List.map
        (fun tok ->
          let reply =
            if tok = "R" then begin
              let _, st = !state in
              state := (Model.rebuild two st, st);
              "restart"
            end
            else if String.length tok > 0 && tok.[0] = 'C' then begin
              (* the node dies after the storage write of this request: the store is as after
                 the request, the set is rebuilt from it *)
              let inner = String.sub tok 1 (String.length tok - 1) in
              match parse_request inner with
              | Some (r, _) ->
                let s0, st0 = !state in
                let applies =
                  match r with
                  | Model.RSet (_, d) -> Model.will_apply s0 d.Model.d_id d.Model.d_ts
                  | Model.RDel (_, m) -> Model.will_apply s0 m.Model.m_id m.Model.m_ts
                  | _ -> true
                in
                let (_, st1), _ = Model.actor_step legacy dedup (s0, st0) r Model.SOk in
                state := (Model.rebuild two st1, st1);
                (* a single request that does not apply never reaches storage: it returns *)
                if applies then "crash-hung" else "crash-ok"
              | None -> "?tok"
            end
            else
              match parse_request tok with
              | Some (r, o) ->
                (* a partial purge failure is defined on the purged keys in ascending order
                   (the implementation's order is a HashMap's): translate the mask *)
                let o =
                  match r, o with
                  | Model.RPurge, Model.SPartial mask ->
                    let purged, _ = Model.set_purge (fst !state) in
                    let keys = List.map fst (sort_pairs purged) in
                    let removed =
                      List.filteri (fun i _ -> match List.nth_opt mask i with Some true -> true | _ -> false) keys
                    in
                    Model.SPartial (List.map (fun (k, _) -> List.exists (fun k' -> hex_of_n k' = hex_of_n k) removed) purged)
                  | _ -> o
                in
                let x', rep = Model.actor_step legacy dedup !state r o in
                state := x';
                (match rep with Model.ROk -> "ok" | Model.RErr -> "err")
              | None -> "?tok"
          in
          let s, st = !state in
          if !canon_dump then begin
            let _, s' = Model.set_purge s in
            let st' =
              List.fold_left
                (fun acc (k, (t, p)) ->
                  match p with
                  | None when Model.before_set s t -> Model.st_remove acc k
                  | _ -> acc)
                st (Model.store_list st)
            in
            reply ^ " " ^ show_set_dump s' probes ^ " " ^ show_store_dump st'
          end
          else reply ^ " " ^ show_set_dump s probes ^ " " ^ show_store_dump st)
        reqs
    in
    String.concat " | " outs
  | _ -> "?bad-case"

(* ---- component: transfer (C19) --------------------------------------------- *)
(* Transfer.v: with a checked decoder the received state IS the sent state
   (C19_received_state_is_the_sent_state), and bytes that do not decode are an error
   (C19_undecodable_state).  The sender's state is the actor model's state after the case's
   requests. *)
let run_transfer (toks : string list) : string =
  match toks with
  | "tr" :: pr :: reqs ->
    let probes =
      let p = String.sub pr 7 (String.length pr - 7) in
      List.filter (fun x -> x <> "") (String.split_on_char ',' p)
    in
    let two = nat_of_int 2 in
    let state = ref (Model.empty_set two, Model.gmap_empty_store) in
    let outs = ref [] in
    (* `F`: the peer fetches the state as it is at this point; a final fetch is always made *)
    List.iter
      (fun tok ->
        if tok = "F" then outs := ("ok " ^ show_set_dump (fst !state) probes) :: !outs
        else
          match parse_request tok with
          | Some (r, o) ->
            let x', _ = Model.actor_step false true !state r o in
            state := x'
          | None -> ())
      (reqs @ [ "F" ]);
    String.concat " | " (List.rev !outs)
  | "bad" :: _ -> "err"
  | _ -> "?bad-case"

(* "a | b | c" -> ["a"; "b"; "c"] *)
let split_bar (s : string) : string list =
  let n = String.length s in
  let rec go start i acc =
    if i + 3 > n then List.rev (String.sub s start (n - start) :: acc)
    else if String.sub s i 3 = " | " then go (i + 3) (i + 3) (String.sub s start (i - start) :: acc)
    else go start (i + 1) acc
  in
  go 0 0 []

(* ---- component: tsdiff (C01) -----------------------------------------------
   case:   tsd <mine> <other>     each side `-` or name=stamp,name=stamp,... (hex stamps,
                                  names of one ASCII letter)
   result: the names KeyspaceTimestamps::diff lists, sorted                          *)
let run_tsdiff (toks : string list) : string =
  let side s =
      if s = "-" then []
      else
        List.map
          (fun it ->
            match String.split_on_char '=' it with
            | [ nm; t ] when String.length nm = 1 -> (n_of_int (Char.code nm.[0]), n t)
            | _ -> failwith "item")
          (String.split_on_char ',' s)
  in
  let show_names ks =
    let names = List.sort compare (List.map (fun k -> String.make 1 (Char.chr (int_of_n k))) ks) in
    if names = [] then "-" else String.concat "," names
  in
  match toks with
  | [ "tsd"; mine; other ] ->
    let _unused s =
      if s = "-" then []
      else
        List.map
          (fun it ->
            match String.split_on_char '=' it with
            | [ nm; t ] when String.length nm = 1 -> (n_of_int (Char.code nm.[0]), n t)
            | _ -> failwith "item")
          (String.split_on_char ',' s)
    in
    show_names (Model.ts_diff_lists (side mine) (side other))
  | "trk" :: ops ->
    (* a script on the poller's tracker: r<node>:<name>=<stamp> (an exchange recorded),
       l<node> (the node left), p<node>:<side> (the plan for what the node reports) *)
    let st = ref Model.p_init in
    let outs = ref [] in
    List.iter
      (fun op ->
        let body = String.sub op 1 (String.length op - 1) in
        match op.[0] with
        | 'r' ->
          (match String.split_on_char ':' body with
           | [ nd; it ] ->
             (match side it with
              | [ (k, t) ] -> st := Model.poller_record !st (nat_of_int (int_of_string nd)) k t
              | _ -> failwith "record")
           | _ -> failwith "record")
        | 'l' -> st := Model.poller_apply !st [] [ (nat_of_int (int_of_string body), n_of_int 0) ]
        | 'p' ->
          (match String.split_on_char ':' body with
           | [ nd; sd ] ->
             outs := show_names (Model.poller_plan_list !st (nat_of_int (int_of_string nd)) (side sd)) :: !outs
           | _ -> failwith "plan")
        | _ -> failwith "op")
      ops;
    String.concat " | " (List.rev !outs)
  | _ -> "?bad-case"

(* ---- component: cluster (C01 C06) ----------------------------------------- *)
let run_cluster (toks : string list) : string =
  match toks with
  | "cl" :: nn :: pr :: rest ->
    let nn = int_of_string nn in
    let probes =
      let p = String.sub pr 7 (String.length pr - 7) in
      List.filter (fun x -> x <> "") (String.split_on_char ',' p)
    in
    let c = ref (Model.cinit (nat_of_int nn)) in
    let links = Array.make nn true in
    let pending = Array.make nn [] in
    (* every node's task distributor (Distributor.v): it knows all other nodes as members (the
       executor hands it that membership change at start and after a restart; `T` occurs only in
       schedules where it does) *)
    let fresh_dist i =
      let others = List.filter (fun j -> j <> i) (List.init nn (fun x -> x)) in
      Model.d_register Model.d_init
        (Model.DMember (List.map (fun j -> (nat_of_int j, n_of_int j)) others, []))
    in
    let dist = Array.init nn fresh_dist in
    let register i m = dist.(i) <- Model.d_register dist.(i) (Model.DMutation m) in
    let slots = Array.make nn None in
    let nodeat i = Model.node !c (nat_of_int i) in
    let dump i =
      let s, st = nodeat i in
      Printf.sprintf "n%d{%s %s}" i (show_set_dump s probes) (show_store_dump st)
    in
    (* pair each schedule token with its observation token, if any *)
    let rec pairs = function
      | [] -> []
      | t :: o :: r when String.length o > 0 && o.[0] = '=' -> (t, Some o) :: pairs r
      | t :: r -> (t, None) :: pairs r
    in
    let obs_field o name =
      (* "=sel:1,2;ts:abc" *)
      let body = String.sub o 1 (String.length o - 1) in
      let fields = String.split_on_char ';' body in
      let pre = name ^ ":" in
      match List.find_opt (fun f -> String.length f >= String.length pre && String.sub f 0 (String.length pre) = pre) fields with
      | Some f -> String.sub f (String.length pre) (String.length f - String.length pre)
      | None -> ""
    in
    let ints s = List.map int_of_string (List.filter (fun x -> x <> "") (String.split_on_char ',' s)) in
    let required lvl =
      match lvl with
      | "none" -> 0 | "one" -> 1 | "two" -> 2 | "three" -> 3
      | "quorum" | "localquorum" | "eachquorum" -> nn / 2
      | "all" -> nn - 1
      | _ -> 0
    in
    let touched_dump l =
      let l = List.sort_uniq compare l in
      String.concat "" (List.map (fun i -> " " ^ dump i) l)
    in
    let full_repair j i = c := Model.cstep !c (Model.CRepair (nat_of_int j, nat_of_int i)) in
    let outs =
      List.map
        (fun (tok, obs) ->
          let p = String.split_on_char ':' tok in
          match p with
          | [ "W"; _ ] -> "W:"
          | "I" :: i :: lvl :: kind :: rest ->
            let i = int_of_string i in
            let o = match obs with Some o -> o | None -> "=" in
            let sel = ints (obs_field o "sel") in
            let ts = obs_field o "ts" in
            let stamp = if ts = "" then "0" else ts in
            if stamp = "0" then begin
              (* nothing was written (not enough nodes): no state change *)
              let avail = nn - 1 in
              let res = if sel = [] && required lvl > avail then Printf.sprintf "nen.%d.%d" avail (required lvl) else "err" in
              "I:" ^ res ^ touched_dump (i :: sel)
            end else begin
              let items s = List.filter (fun x -> x <> "") (String.split_on_char ',' s) in
              let m =
                match kind, rest with
                | "p", [ k; pl ] -> Model.MPut { Model.d_id = n k; d_ts = n stamp; d_data = n pl }
                | "P", [ its ] ->
                  Model.MPutMany
                    (List.map
                       (fun it ->
                         match String.split_on_char '.' it with
                         | [ k; pl ] -> { Model.d_id = n k; d_ts = n stamp; d_data = n pl }
                         | _ -> failwith "item")
                       (items its))
                | "d", [ k ] -> Model.MDel { Model.m_id = n k; m_ts = n stamp }
                | "D", [ its ] -> Model.MDelMany (List.map (fun k -> { Model.m_id = n k; m_ts = n stamp }) (items its))
                | _ -> failwith "bad issue"
              in
              let acks = List.filter (fun j -> links.(j)) sel in
              c := Model.cstep !c (Model.CIssue (nat_of_int i, m, List.map nat_of_int acks));
              pending.(i) <- pending.(i) @ [ m ];
              register i m;
              let res =
                if List.length acks = List.length sel then "ok"
                else Printf.sprintf "cf.%d.%d" (List.length acks) (List.length sel)
              in
              "I:" ^ res ^ touched_dump (i :: sel)
            end
          | [ "L"; j; b ] -> links.(int_of_string j) <- (b = "1"); "L:"
          | [ "B"; i; j ] ->
            let i = int_of_string i and j = int_of_string j in
            if pending.(i) = [] then "B:empty" ^ touched_dump [ j ]
            else if not links.(j) then "B:fail" ^ touched_dump [ j ]
            else begin
              c := Model.cstep !c (Model.CBatch (nat_of_int j, pending.(i)));
              "B:ok" ^ touched_dump [ j ]
            end
          | [ "F"; i ] -> pending.(int_of_string i) <- []; "F:"
          | [ "T" ] ->
            (* the distributors' interval: every node sends one batch with everything registered since
               its last flush to every reachable member *)
            for i = 0 to nn - 1 do
              let s', o = Model.d_tick dist.(i) in
              dist.(i) <- s';
              match o with
              | Some x ->
                List.iter (fun e -> c := Model.cstep !c e) (Model.tick_events (fun j -> links.(int_of_nat j)) x)
              | None -> ()
            done;
            "T:" ^ touched_dump (List.init nn (fun x -> x))
          | [ "X"; j; i ] ->
            let j = int_of_string j and i = int_of_string i in
            if links.(i) then full_repair j i;
            "X:" ^ touched_dump [ j ]
          | [ "XG"; j; i ] ->
            (* the peer's document reads fail: the difference is computed, its removal half applies, the
               modification half does not *)
            let j = int_of_string j and i = int_of_string i in
            if links.(i) then begin
              let _, r = Model.exchange_diff (nodeat j) (nodeat i) in
              c := Model.cstep !c (Model.CDiffRemovals (nat_of_int j, r))
            end;
            "XG:" ^ touched_dump [ j ]
          | [ "XF"; j; _ ] ->
            (* every storage write of j fails: every handler leaves set and store as they are (C02) *)
            "XF:" ^ touched_dump [ int_of_string j ]
          | [ "XD"; j; i ] ->
            let j = int_of_string j and i = int_of_string i in
            if links.(i) then begin
              let m, r = Model.exchange_diff (nodeat j) (nodeat i) in
              slots.(j) <- Some (m, r);
              "XD:F" ^ show_pairs m ^ show_pairs r
            end else begin
              slots.(j) <- None;
              "XD:fail"
            end
          | [ "XR"; j ] ->
            let j = int_of_string j in
            (match slots.(j) with
             | Some (_, r) ->
               c := Model.cstep !c (Model.CDiffRemovals (nat_of_int j, r));
               "XR:ok" ^ touched_dump [ j ]
             | None -> "XR:noslot" ^ touched_dump [ j ])
          | [ "XM"; j; i ] ->
            let j = int_of_string j and i = int_of_string i in
            (match slots.(j) with
             | Some (m, _) ->
               if links.(i) || m = [] then begin
                 c := Model.cstep !c (Model.CFetchApply (nat_of_int j, nat_of_int i, m));
                 "XM:ok" ^ touched_dump [ j ]
               end else "XM:fail" ^ touched_dump [ j ]
             | None -> "XM:noslot" ^ touched_dump [ j ])
          | [ "G"; j; i; kz; ka; kb ] ->
            (* an exchange of j against i racing with three puts on i: the observation says whether
               the exchange saw the last one - both serialisations are legal *)
            let j = int_of_string j and i = int_of_string i in
            let o = match obs with Some o -> o | None -> "=" in
            let stamps = List.filter (fun x -> x <> "") (String.split_on_char ',' (obs_field o "ts")) in
            let saw_b = obs_field o "b" = "1" in
            let put k t =
              if t <> "0" then begin
                let m = Model.MPut { Model.d_id = n k; d_ts = n t; d_data = n (Printf.sprintf "%x" (0x6000 + int_of_string ("0x" ^ k))) } in
                c := Model.cstep !c (Model.CIssue (nat_of_int i, m, []));
                pending.(i) <- pending.(i) @ [ m ];
                register i m
              end
            in
            (match stamps with
             | [ tz; ta; tb ] ->
               put kz tz;
               put ka ta;
               if saw_b then put kb tb;
               if links.(i) then full_repair j i;
               if not saw_b then put kb tb
             | _ -> ());
            "G:" ^ touched_dump [ i; j ]
          | [ "P"; i ] ->
            let i = int_of_string i in
            c := Model.cstep !c (Model.CPurge (nat_of_int i));
            "P:" ^ touched_dump [ i ]
          | [ "R"; i ] ->
            let i = int_of_string i in
            c := Model.cstep !c (Model.CRestart (nat_of_int i));
            slots.(i) <- None;
            dist.(i) <- fresh_dist i;
            "R:" ^ touched_dump [ i ]
          | [ "Q" ] ->
            Array.fill links 0 nn true;
            for j = 0 to nn - 1 do
              for i = 0 to nn - 1 do
                if i <> j then full_repair j i
              done
            done;
            "Q:" ^ touched_dump (List.init nn (fun x -> x))
          | _ -> "?tok")
        (pairs rest)
    in
    String.concat " | " outs
  | _ -> "?bad-case"

(* ---- component: clock (C11) ---------------------------------------------- *)
let run_clock (toks : string list) : string =
  let show_outs outs =
    String.concat " "
      (List.map (function Model.CStamp (_, t) -> h t | Model.CNone -> "-" | Model.CPanic -> "panic") outs)
  in
  match toks with
  | "seq" :: node :: wall0 :: evs ->
    let c0 = Model.mk_ts (n wall0) Model.N0 (n node) in
    let q =
      List.map
        (fun e ->
          match String.split_on_char ':' e with
          | [ "g"; w ] -> (false, Model.CGet (Model.N0, n w))
          | [ "x"; w ] -> (true, Model.CGet (Model.N0, n w))     (* the caller gave up: the actor still handles the request *)
          | [ "r"; w; ts ] -> (false, Model.CRegister (n w, n ts))
          | _ -> failwith "bad ev")
        evs
    in
    (* Clock::register_ts drops stamps of the clock's own node before they reach the actor *)
    let q' =
      List.map
        (fun (lost, r) ->
          match r with
          | Model.CRegister (_, ts) when hex_of_n (Model.ts_node ts) = hex_of_n (n node) -> None
          | r -> Some (lost, r))
        q
    in
    (* [dead]: the actor died handling a request nobody waited for; the next caller sees it *)
    let rec go dead c rs acc =
      match rs with
      | [] -> List.rev acc
      | None :: rest -> go dead c rest ("-" :: acc)
      | _ :: _ when dead -> List.rev ("panic" :: acc)
      | Some (lost, r) :: rest ->
        (match r with
         | Model.CGet (_, w) ->
           (match Model.send w c with
            | Model.HOk t, c' -> go false c' rest ((if lost then "x" else h t) :: acc)
            | _ -> if lost then go true c rest ("x" :: acc) else List.rev ("panic" :: acc))
         | Model.CRegister (w, ts) ->
           (match Model.recv w c ts with
            | Model.HPanic, _ -> List.rev ("panic" :: acc)
            | _, c' -> go false c' rest ("-" :: acc)))
    in
    ignore show_outs;
    String.concat " " (go false c0 q' [])
  | [ "conc"; _; node; k; m; wall ] ->
    let total = int_of_string ("0x" ^ k) * int_of_string ("0x" ^ m) in
    let c0 = Model.mk_ts (n wall) Model.N0 (n node) in
    let q = List.init total (fun _ -> Model.CGet (Model.N0, n wall)) in
    show_outs (Model.clock_run c0 q)
  | [ "mix"; _; _; _; _; _; _ ] -> "mix"
  | _ -> "?bad-case"

let () =
  let comp = if Array.length Sys.argv > 1 then Sys.argv.(1) else "" in
  let f =
    match comp with
    | "ts" -> run_ts
    | "hlc" -> run_hlc
    | "orswot" -> run_orswot
    | "actor" -> run_actor_gen false true
    | "cluster" -> run_cluster
    | "tsdiff" -> run_tsdiff
    | "clock" -> run_clock
    | "actor-legacy-d2" -> run_actor_gen false false
    | "transfer" -> run_transfer
    | "rows" -> run_ts
    (* hx-restart: "<backend> act ..." - the actor model, whatever the backend *)
    | "restart" ->
      canon_dump := true;
      (fun toks ->
        match toks with
        | _ :: "mks" :: pr :: reqs ->
          (* several keyspaces on one store (hx-restart `mks`): keyspaces never interact, so each is
             the actor model run on its own requests (plus every restart); a request shows its own
             keyspace, a restart shows all three *)
          let nks = 3 in
          let split tok =
            match String.index_opt tok '/' with
            | Some i -> (int_of_string (String.sub tok 0 i) mod nks, String.sub tok (i + 1) (String.length tok - i - 1))
            | None -> (0, tok)
          in
          let outs =
            Array.init nks (fun j ->
                let mine =
                  List.filter_map
                    (fun tok -> if tok = "R" then Some "R" else let k, inner = split tok in if k = j then Some inner else None)
                    reqs
                in
                let r = run_actor_gen false true ("act" :: pr :: mine) in
                ref (if mine = [] then [] else split_bar r))
          in
          let take j =
            match !(outs.(j)) with
            | x :: rest -> outs.(j) := rest; x
            | [] -> "?short"
          in
          String.concat " | "
            (List.map
               (fun tok ->
                 if tok = "R" then String.concat " ; " (List.init nks take)
                 else take (fst (split tok)))
               reqs)
        | _ :: rest -> run_actor_gen false true rest
        | [] -> "?bad-case")
    | _ -> prerr_endline ("unknown component " ^ comp); exit 2
  in
  let out = Buffer.create 65536 in
  (try
     while true do
       let line = input_line stdin in
       let r = try f (split_ws line) with e -> "?exn:" ^ Printexc.to_string e in
       Buffer.add_string out r;
       Buffer.add_char out '\n';
       if Buffer.length out > 60000 then (print_string (Buffer.contents out); Buffer.clear out)
     done
   with End_of_file -> ());
  print_string (Buffer.contents out)
