(* modelrun: evaluates the extracted Coq model (coq/rpclife/RpcLife.v) on the cases read
   from stdin, one case per line, and prints one canonical result line per case.
   usage: modelrun rpclife|rpclife-legacy < cases > results

   case line:  c <lat_ms> <salt> { q <lane> <tmo_us> <delay_us> <start_us> <hf> } { s <t_us> <p|h|l|r> }
               # { <t_us> <event> }
   events:     p | h | l | r | st <i> | sy <i> <c|h|d> | cn <i> | ex <i> | dn <i> | en <i> <res> | hz
   res:        ok:<hex> | ce | to | pn | st:<code>
   The model reads the request configuration and the observed trace; the schedule
   tokens ([s ..], the start time and handler-fault flag of [q ..]) only drive the
   executor and show up in the trace as observed events. *)
open Conv

let n = n_of_hex
let h = hex_of_n

exception Bad of string

let parse_res (s : string) : Model.result =
  if String.length s > 3 && String.sub s 0 3 = "ok:" then
    Model.ROk (n (String.sub s 3 (String.length s - 3)))
  else
    match s with
    | "ce" -> Model.RConnErr
    | "to" -> Model.RTimeout
    | _ -> Model.RPanic (* a panic or a status the specification does not list *)

let rec parse_head toks (salt, reqs) =
  match toks with
  | "q" :: lane :: tmo :: delay :: _start :: _hf :: rest ->
    (* ffffffffffffffff = a timeout of zero is configured *)
    let tmo_s = tmo in
    let zero = String.lowercase_ascii tmo = "ffffffffffffffff" in
    let tmo = n tmo in
    (* fffffffffffffffe = a timeout of Duration::MAX is configured: it bounds nothing *)
    let huge = String.lowercase_ascii tmo_s = "fffffffffffffffe" in
    let q = { Model.q_lane = n lane; q_tmo = (if zero then Some Model.N0 else if huge || tmo = Model.N0 then None else Some tmo); q_delay = n delay } in
    parse_head rest (salt, q :: reqs)
  | "s" :: _t :: _k :: rest -> parse_head rest (salt, reqs)
  | [] -> { Model.c_salt = salt; c_reqs = List.rev reqs }
  | t :: _ -> raise (Bad ("head token " ^ t))

let rec parse_trace toks acc =
  match toks with
  | [] -> List.rev acc
  | t :: "p" :: rest -> parse_trace rest ((n t, Model.EEnv Model.Partition) :: acc)
  | t :: "h" :: rest -> parse_trace rest ((n t, Model.EEnv Model.Hold) :: acc)
  | t :: "l" :: rest -> parse_trace rest ((n t, Model.EEnv Model.Release) :: acc)
  | t :: "r" :: rest -> parse_trace rest ((n t, Model.EEnv Model.Repair) :: acc)
  | t :: "hz" :: rest -> parse_trace rest ((n t, Model.EHorizon) :: acc)
  | t :: "st" :: i :: rest -> parse_trace rest ((n t, Model.EStart (n i)) :: acc)
  | t :: "cn" :: i :: rest -> parse_trace rest ((n t, Model.EConn (n i)) :: acc)
  | t :: "ex" :: i :: rest -> parse_trace rest ((n t, Model.EExec (n i)) :: acc)
  | t :: "dn" :: i :: rest -> parse_trace rest ((n t, Model.EDone (n i)) :: acc)
  | t :: "sy" :: i :: f :: rest ->
    let f =
      match f with
      | "c" -> Model.SynClean
      | "h" -> Model.SynHeld
      | "d" -> Model.SynDropped
      | _ -> raise (Bad "syn fate")
    in
    parse_trace rest ((n t, Model.ESyn (n i, f)) :: acc)
  | t :: "en" :: i :: r :: rest -> parse_trace rest ((n t, Model.EEnd (n i, parse_res r)) :: acc)
  | t :: _ -> raise (Bad ("trace token " ^ t))

let show_out = function
  | Model.OOk v -> "ok:" ^ h v
  | Model.OConnErr -> "conn-err"
  | Model.OTimeout -> "timeout"
  | Model.OPanic -> "panic"
  | Model.OPending -> "pending"

let run_case (legacy : bool) (line : string) : string =
  let head, trace =
    match String.index_opt line '#' with
    | Some k -> (String.sub line 0 k, String.sub line (k + 1) (String.length line - k - 1))
    | None -> (line, "")
  in
  match split_ws head with
  | "c" :: _lat :: salt :: rest ->
    let cfg = parse_head rest (n salt, []) in
    let tr = parse_trace (split_ws trace) [] in
    (match Model.verdict legacy cfg tr with
     | Model.Inl rs -> String.concat " " (List.map (fun (o, x) -> show_out o ^ " x" ^ h x) rs)
     | Model.Inr k -> "reject " ^ h k)
  | _ -> "?bad-case"

let () =
  let comp = if Array.length Sys.argv > 1 then Sys.argv.(1) else "" in
  let f =
    match comp with
    | "rpclife" -> run_case false
    | "rpclife-legacy" -> run_case true
    | _ -> prerr_endline ("unknown component " ^ comp); exit 2
  in
  let out = Buffer.create 65536 in
  (try
     while true do
       let line = input_line stdin in
       let r = try f line with e -> "?exn:" ^ Printexc.to_string e in
       Buffer.add_string out r;
       Buffer.add_char out '\n';
       if Buffer.length out > 60000 then (print_string (Buffer.contents out); Buffer.clear out)
     done
   with End_of_file -> ());
  print_string (Buffer.contents out)
