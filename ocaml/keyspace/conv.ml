(* Conversions between the extracted Coq datatypes and OCaml values (the subset of
   ocaml/core/conv.ml this model needs: the keyspace model only uses nat, bool, list).
   Numbers travel as lower-case hexadecimal text. *)
open Model

let rec nat_of_int (i : int) : nat = if i <= 0 then O else S (nat_of_int (i - 1))
let rec int_of_nat (x : nat) : int = match x with O -> 0 | S y -> 1 + int_of_nat y

let show_bool b = if b then "1" else "0"
let bool_of_tok s = (s = "1")

let split_ws (s : Stdlib.String.t) : Stdlib.String.t list =
  List.filter (fun x -> x <> "") (Stdlib.String.split_on_char ' ' s)
