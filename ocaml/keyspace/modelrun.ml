(* modelrun: evaluates the extracted Coq model on the cases read from stdin,
   one case per line, and prints one canonical result line per case.
   usage: modelrun <component> < cases > results *)
open Conv

(* ---- component: keyspace (C18) --------------------------------------------
   case:   sched <k> <p1> ... <pn>      (hex; polls of task indices, in order)
           lsched <k> <p1> ... <pn>     (same on the pre-fix model; model only)
           stress <k> <rounds>          (k spawned tasks on a multi-thread runtime, oracle only)
           purge <mode> <pre> <ticks>   (background purge ticks between two uses, oracle only)
   result: polls <per task> sets <per task id set> final <id set> ts <0|1>
           all-present | violated <n>                                            *)
let nat_of_hex s = nat_of_int (int_of_string ("0x" ^ s))
let hex_of_nat x = Printf.sprintf "%x" (int_of_nat x)

let show_set l =
  match l with
  | [] -> "-"
  | _ -> String.concat "," (List.map hex_of_nat l)

let show_outcome_ks (o : Model.outcome) : string =
  String.concat " "
    ([ "polls" ] @ List.map hex_of_nat (Model.o_polls o)
     @ [ "sets" ] @ List.map show_set (Model.o_sets o)
     @ [ "final"; show_set (Model.o_final o); "ts"; show_bool (Model.o_ts o) ])

let run_keyspace (toks : string list) : string =
  match toks with
  | "sched" :: k :: ps ->
    show_outcome_ks (Model.outcome_of (nat_of_hex k) (List.map nat_of_hex ps))
  | "lsched" :: k :: ps ->
    show_outcome_ks (Model.legacy_outcome_of (nat_of_hex k) (List.map nat_of_hex ps))
  | [ "stress"; k; _rounds ] ->
    (* The interleaving is chosen by the tokio scheduler and not recorded.  By theorem
       C18_complete_run_all_present the outcome of a complete run does not depend on the
       schedule, so the model's prediction is the outcome of the canonical complete run. *)
    let k = nat_of_hex k in
    let o = Model.outcome_of k [] in
    let all = List.init (int_of_nat k) (fun i -> i) in
    let ints l = List.map int_of_nat l in
    if ints (Model.o_final o) = all
       && List.for_all (fun s -> ints s = all) (Model.o_sets o)
       && Model.o_ts o
    then "all-present"
    else "violated"
  | [ "purge"; _; _; _ ] ->
    (* KeyspaceLife.v: a tick of the purge task is the identity on the group map and on the
       acknowledged documents whatever happens to the purge itself (it only reads the map), so
       by C18_life_of_the_node the acknowledged mutations stay in the one registered instance. *)
    "all-present"
  | _ -> "?bad-case"

let () =
  let comp = if Array.length Sys.argv > 1 then Sys.argv.(1) else "" in
  let f =
    match comp with
    | "keyspace" -> run_keyspace
    | _ -> prerr_endline ("unknown component " ^ comp); exit 2
  in
  let out = Buffer.create 65536 in
  (try
     while true do
       let line = input_line stdin in
       let r = try f (split_ws line) with e -> "?exn:" ^ Printexc.to_string e in
       Buffer.add_string out r;
       Buffer.add_char out '\n';
       if Buffer.length out > 60000 then (print_string (Buffer.contents out); Buffer.clear out)
     done
   with End_of_file -> ());
  print_string (Buffer.contents out)
