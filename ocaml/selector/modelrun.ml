(* modelrun: evaluates the extracted Coq model of the replica selector (C15) on the cases
   read from stdin, one case per line, and prints one canonical result line per case.
   usage: modelrun selector < cases > results

   Case syntax (numbers are lower-case hex, tokens separated by blanks):
     h <local> <local_dc> LAYOUT <nsteps> { <level> <total_nodes> HINT }*
     a <local> <local_dc> <nops> { s LAYOUT | g <level> HINT | x <level> }*
     LAYOUT = <ndcs> { <name> <nnodes> <addr>* }*          (ascending names, a BTreeMap)
     HINT   = - | ! | <k> <addr>*k
   A HINT is what the implementation answered on that step (- = NotEnoughNodes, ! = panic).
   It is used only to resolve the model's one nondeterministic input, the result of
   rand's choose_multiple: among all choices allowed by [choice_okb] the driver searches
   (depth first over the whole history, because a choice also moves cursors) for one under
   which the model gives the hinted answers.  Whatever is printed is the model's own output
   under a choice that [choice_okb] accepts; if no choice fits, the output under the first
   choice is printed and differs from the implementation's line. *)
open Conv
open Model

let h = hex_of_n
let n = n_of_hex
let nat_of_hex s = nat_of_int (int_of_string ("0x" ^ s))
let hex_of_nat x = Printf.sprintf "%x" (int_of_nat x)

let level_of = function
  | "none" -> LNone | "one" -> LOne | "two" -> LTwo | "three" -> LThree
  | "quorum" -> LQuorum | "localquorum" -> LLocalQuorum | "all" -> LAll
  | "eachquorum" -> LEachQuorum
  | s -> failwith ("bad level " ^ s)

let level_n = function LOne -> Some 1 | LTwo -> Some 2 | LThree -> Some 3 | _ -> None

let show_result = function
  | Ok sel -> "ok" ^ Stdlib.String.concat "" (List.map (fun a -> " " ^ h a) sel)
  | NotEnough (l, r) -> Printf.sprintf "err %s %s" (hex_of_nat l) (hex_of_nat r)

type hint = HOk of n list | HErr | HPanic

(* ---- token stream ---- *)
let toks = ref []
let next () = match !toks with [] -> failwith "short case" | t :: r -> toks := r; t
let rec times k f = if k <= 0 then [] else let x = f () in x :: times (k - 1) f
let int_tok () = int_of_string ("0x" ^ next ())

let parse_layout () : (n * n list) list =
  let ndcs = int_tok () in
  times ndcs (fun () ->
      let name = n (next ()) in
      let k = int_tok () in
      (name, times k (fun () -> n (next ()))))

let parse_hint () : hint =
  match next () with
  | "-" -> HErr
  | "!" -> HPanic
  | k -> HOk (times (int_of_string ("0x" ^ k)) (fun () -> n (next ())))

let matches hint res =
  match hint, res with
  | HOk a, Ok s -> a = s
  | HErr, NotEnough _ -> true
  | HPanic, _ -> true
  | _ -> false

(* all arrangements of k different elements of xs *)
let rec arrangements k xs =
  if k = 0 then [ [] ]
  else
    List.concat_map
      (fun x ->
        List.map (fun r -> x :: r) (arrangements (k - 1) (List.filter (fun y -> y <> x) xs)))
      xs

let choices_for local_dc total lay lv : nat list list =
  match level_n lv with
  | None -> [ [] ]
  | Some k ->
    let kn = nat_of_int k in
    if uses_choice local_dc kn total lay then begin
      let cands = candidates (can_skip_local local_dc kn total lay) local_dc O lay in
      let cs = arrangements k cands in
      List.iter (fun c -> if not (choice_okb local_dc kn total lay c) then failwith "bad-choice") cs;
      cs
    end
    else [ [] ]

let rec first_some f = function
  | [] -> None
  | x :: r -> (match f x with Some y -> Some y | None -> first_some f r)

(* ---- trait histories ---- *)
let run_h () =
  let local = n (next ()) in
  let local_dc = n (next ()) in
  let lay0 = fresh_layout (parse_layout ()) in
  let nsteps = int_tok () in
  let steps =
    times nsteps (fun () ->
        let lv = level_of (next ()) in
        let total = nat_of_hex (next ()) in
        let hint = parse_hint () in
        (lv, total, hint))
  in
  let rec solve lay = function
    | [] -> Some []
    | (lv, total, hint) :: r ->
      first_some
        (fun ch ->
          let res, lay1 = select_nodes local local_dc total ch lay lv in
          if matches hint res then
            (match solve lay1 r with Some rs -> Some (res :: rs) | None -> None)
          else None)
        (choices_for local_dc total lay lv)
  in
  let rec greedy lay = function
    | [] -> []
    | (lv, total, hint) :: r ->
      let cs = choices_for local_dc total lay lv in
      let run ch = select_nodes local local_dc total ch lay lv in
      let res, lay1 =
        match first_some (fun ch -> let x = run ch in if matches hint (fst x) then Some x else None) cs with
        | Some x -> x
        | None -> run (List.hd cs)
      in
      res :: greedy lay1 r
  in
  let rs = match solve lay0 steps with Some rs -> rs | None -> greedy lay0 steps in
  Stdlib.String.concat " | " (List.map show_result rs)

(* ---- the actor ---- *)
type aop = ASet of (n * n list) list | AGet of level * hint | AExp of level

let run_a () =
  let local = n (next ()) in
  let local_dc = n (next ()) in
  let nops = int_tok () in
  let ops =
    times nops (fun () ->
        match next () with
        | "s" -> ASet (parse_layout ())
        (* a membership snapshot handed to the node's membership watcher: the watcher must give
           the selector every member, the local node included, under its data centre *)
        | "w" -> ASet (parse_layout ())
        | "g" -> let lv = level_of (next ()) in AGet (lv, parse_hint ())
        | "x" -> AExp (level_of (next ()))
        | t -> failwith ("bad op " ^ t))
  in
  let show = function None -> "-" | Some r -> show_result r in
  let rec solve strict a = function
    | [] -> Some []
    | ASet l :: r ->
      let a1, rep = actor_step local local_dc a (SetNodes l) in
      (match solve strict a1 r with Some rs -> Some (show rep :: rs) | None -> None)
    | AExp lv :: r ->
      let a1, rep = actor_step local local_dc a (Expire lv) in
      (match solve strict a1 r with Some rs -> Some (show rep :: rs) | None -> None)
    | AGet (lv, hint) :: r ->
      let cs = choices_for local_dc a.a_total a.a_lay lv in
      let attempt ch =
        let a1, rep = actor_step local local_dc a (GetNodes (lv, ch)) in
        let ok = match rep with Some res -> matches hint res | None -> false in
        if ok || not strict then
          (match solve strict a1 r with Some rs -> Some (show rep :: rs) | None -> None)
        else None
      in
      (match first_some attempt cs with
       | Some x -> Some x
       | None -> if strict then None else attempt (List.hd cs))
  in
  let rs =
    match solve true actor_init ops with
    | Some rs -> rs
    | None -> (match solve false actor_init ops with Some rs -> rs | None -> [ "?" ])
  in
  Stdlib.String.concat " | " rs

let run_selector (ts : string list) : string =
  match ts with
  | "h" :: r -> toks := r; run_h ()
  | "a" :: r -> toks := r; run_a ()
  | _ -> "?bad-case"

let () =
  let comp = if Array.length Sys.argv > 1 then Sys.argv.(1) else "" in
  let f =
    match comp with
    | "selector" -> run_selector
    | _ -> prerr_endline ("unknown component " ^ comp); exit 2
  in
  let out = Buffer.create 65536 in
  (try
     while true do
       let line = input_line stdin in
       let r = try f (split_ws line) with e -> "?exn:" ^ Printexc.to_string e in
       Buffer.add_string out r;
       Buffer.add_char out '\n';
       if Buffer.length out > 60000 then (print_string (Buffer.contents out); Buffer.clear out)
     done
   with End_of_file -> ());
  print_string (Buffer.contents out)
