(* modelrun: evaluates the extracted Coq model (coq/registry) on the cases read from
   stdin, one case per line, and prints one canonical result line per case.
   usage: modelrun registry < cases > results

   case   ::= kind NS NM op*           kind = end | each | lend | leach | spec
   op     ::= +svc,msg.msg...,inst     add_service (instance inst of a service named svc
                                       registering the listed messages)
            | -svc                     remove_service
   result ::= one probe table (end) or one table per operation joined by " | " (each);
              a table lists, for svc in 0..NS-1 and msg in 0..NM-1, "inst:msg" of the
              handler that served the request or "-" when it was refused.
   lend/leach run the pre-repair remove_handlers; spec prints the specification. *)
open Conv

let h = hex_of_n
let n = n_of_hex

let parse_op (t : string) : Model.op =
  if t = "" then failwith "empty op"
  else if t.[0] = '-' then Model.Remove (n (String.sub t 1 (String.length t - 1)))
  else if t.[0] = '+' then
    match String.split_on_char ',' (String.sub t 1 (String.length t - 1)) with
    | [ s; ms; i ] ->
      let msgs = List.filter (fun x -> x <> "") (String.split_on_char '.' ms) in
      Model.Add (n s, List.map n msgs, n i)
    | _ -> failwith "bad add"
  else failwith "bad op"

let range k = List.init k (fun i -> n_of_int i)

let show_entry = function
  | Some (i, m) -> h i ^ ":" ^ h m
  | None -> "-"

let table f ops ns nm = String.concat " " (List.map show_entry (f ops (range ns) (range nm)))

let rec prefixes acc rev_pre = function
  | [] -> List.rev acc
  | o :: r -> let p = o :: rev_pre in prefixes (List.rev p :: acc) p r

let run_registry (toks : string list) : string =
  match toks with
  | kind :: ns :: nm :: ops ->
    let ns = int_of_string ("0x" ^ ns) and nm = int_of_string ("0x" ^ nm) in
    let ops = List.map parse_op ops in
    let each f = String.concat " | " (List.map (fun p -> table f p ns nm) (prefixes [] [] ops)) in
    (match kind with
     | "end" -> table Model.demo_probe ops ns nm
     | "each" -> each Model.demo_probe
     | "lend" -> table Model.demo_legacy_probe ops ns nm
     | "leach" -> each Model.demo_legacy_probe
     | "spec" -> table Model.demo_spec ops ns nm
     | _ -> "?bad-case")
  | _ -> "?bad-case"

let () =
  let comp = if Array.length Sys.argv > 1 then Sys.argv.(1) else "" in
  let f =
    match comp with
    | "registry" -> run_registry
    | _ -> prerr_endline ("unknown component " ^ comp); exit 2
  in
  let out = Buffer.create 65536 in
  (try
     while true do
       let line = input_line stdin in
       let r = try f (split_ws line) with e -> "?exn:" ^ Printexc.to_string e in
       Buffer.add_string out r;
       Buffer.add_char out '\n';
       if Buffer.length out > 60000 then (print_string (Buffer.contents out); Buffer.clear out)
     done
   with End_of_file -> ());
  print_string (Buffer.contents out)
