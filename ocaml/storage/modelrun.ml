(* modelrun: evaluates the extracted Coq reference model (coq/storage/StoreRef.v) on the
   cases read from stdin, one case per line, and prints one canonical result line per case
   (the same text hx-store prints for a backend that agrees with the reference).
   usage: modelrun store < cases > results        (the model as it stands)
          modelrun store-legacy < cases > results (the two pre-fix definitions: MemStore
                                                   D10 for `mem`, SQLite D11 for `sqlm`/`sqlf`) *)
open Conv

let h = hex_of_n
let n = n_of_hex
let nks = 3

let split c s = List.filter (fun x -> x <> "") (String.split_on_char c s)

(* payloads are opaque to the model: the token itself is the payload *)
let parse_op (tok : string) : string Model.call =
  match String.split_on_char '.' tok with
  | [ "r" ] -> Model.Reopen
  | [ "p"; ks; id; ts; pay ] -> Model.Call (n ks, Model.OPut (n id, n ts, pay))
  | [ "P"; ks; docs ] ->
    let one d =
      match String.split_on_char ',' d with
      | [ id; ts; pay ] -> ((n id, n ts), pay)
      | _ -> failwith "bad doc"
    in
    Model.Call (n ks, Model.OMultiPut (List.map one (split '/' docs)))
  | [ "t"; ks; id; ts ] -> Model.Call (n ks, Model.OTomb (n id, n ts))
  | [ "T"; ks; docs ] ->
    let one d =
      match String.split_on_char ',' d with
      | [ id; ts ] -> (n id, n ts)
      | _ -> failwith "bad doc"
    in
    Model.Call (n ks, Model.OMultiTomb (List.map one (split '/' docs)))
  | [ "x"; ks; ids ] -> Model.Call (n ks, Model.OPurge (List.map n (split '/' ids)))
  | _ -> failwith ("bad op " ^ tok)

(* order on numbers through their hex text *)
let cmp_hex a b =
  let c = compare (String.length a) (String.length b) in
  if c <> 0 then c else compare a b

let join = function [] -> "-" | l -> String.concat "," l

let dedup_keep_order l =
  let rec go seen = function
    | [] -> []
    | x :: r -> if List.mem x seen then go seen r else x :: go (x :: seen) r
  in
  go [] l

let observe ~legacy_sql (s : (Model.n, (Model.n, Model.n * string option) Model.gmap) Model.gmap)
    (universe : Model.n list) (tag : string) : string =
  let b = Buffer.create 512 in
  let ks_sorted = List.sort cmp_hex (List.map h (Model.ks_list s)) in
  Buffer.add_string b (tag ^ " K=" ^ join ks_sorted);
  for k = 0 to nks - 1 do
    let ks = n (Printf.sprintf "%x" k) in
    let rows =
      List.map (fun ((id, ts), tomb) -> (h id, h ts, if tomb then "1" else "0")) (Model.metadata s ks)
    in
    let rows = List.sort (fun (a, _, _) (c, _, _) -> cmp_hex a c) rows in
    let m = join (List.map (fun (i, t, f) -> i ^ ":" ^ t ^ ":" ^ f) rows) in
    let g =
      join
        (List.map
           (fun id ->
             match Model.get s ks id with
             | Some ((i, ts), pay) -> h i ^ ":" ^ h ts ^ ":" ^ pay
             | None -> h id ^ ":-")
           (dedup_keep_order universe))
    in
    let show_docs docs =
      let docs = List.map (fun ((i, ts), pay) -> (h i, h ts, pay)) docs in
      let docs = List.sort_uniq (fun (a, t1, p1) (c, t2, p2) ->
        let x = cmp_hex a c in if x <> 0 then x else compare (t1, p1) (t2, p2)) docs in
      join (List.map (fun (i, t, p) -> i ^ ":" ^ t ^ ":" ^ p) docs)
    in
    let q =
      if legacy_sql then
        match Model.legacy_sqlite_multi_get s ks universe with
        | None -> "err"
        | Some docs -> show_docs docs
      else show_docs (Model.multi_get s ks universe)
    in
    Buffer.add_string b (Printf.sprintf " M%d=%s G%d=%s Q%d=%s" k m k g k q)
  done;
  Buffer.contents b

let run_store ~legacy (toks : string list) : string =
  match toks with
  | backend :: u :: ops when String.length u >= 2 && String.sub u 0 2 = "u=" ->
    let universe = List.map n (split '/' (String.sub u 2 (String.length u - 2))) in
    let legacy_sql = legacy && (backend = "sqlm" || backend = "sqlf") in
    let legacy_mem = legacy && backend = "mem" in
    let ops = List.map parse_op ops in
    let out = ref [ observe ~legacy_sql Model.empty_store universe "init" ] in
    let st = ref (Model.empty_store, []) in
    (try
       List.iter
         (fun c ->
           let s, created = !st in
           if not (Model.allowed s c) then (out := "na" :: !out; raise Exit);
           st := (if legacy_mem then Model.legacy_mem_step (s, created) c else (Model.step s c, created));
           out := observe ~legacy_sql (fst !st) universe "ok" :: !out)
         ops
     with Exit -> ());
    String.concat " | " (List.rev !out)
  | _ -> "?bad-case"

let () =
  let comp = if Array.length Sys.argv > 1 then Sys.argv.(1) else "" in
  let f =
    match comp with
    | "store" -> run_store ~legacy:false
    | "store-legacy" -> run_store ~legacy:true
    | _ -> prerr_endline ("unknown component " ^ comp); exit 2
  in
  let out = Buffer.create 65536 in
  (try
     while true do
       let line = input_line stdin in
       let r = try f (split_ws line) with e -> "?exn:" ^ Printexc.to_string e in
       Buffer.add_string out r;
       Buffer.add_char out '\n';
       if Buffer.length out > 60000 then (print_string (Buffer.contents out); Buffer.clear out)
     done
   with End_of_file -> ());
  print_string (Buffer.contents out)
