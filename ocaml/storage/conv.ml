(* Conversions between the extracted Coq datatypes and OCaml values (copied from
   ocaml/core/conv.ml; the string/ascii/outcome helpers are dropped because the storage
   model extracts no such types).  Numbers travel as lower-case hexadecimal text. *)
open Model

let hexval c =
  match c with
  | '0' .. '9' -> Char.code c - 48
  | 'a' .. 'f' -> Char.code c - 87
  | 'A' .. 'F' -> Char.code c - 55
  | _ -> failwith ("bad hex digit: " ^ Stdlib.String.make 1 c)

let n_of_hex (s : Stdlib.String.t) : n =
  let acc = ref N0 in
  Stdlib.String.iter
    (fun ch ->
      let d = hexval ch in
      for b = 3 downto 0 do
        let bit = (d lsr b) land 1 = 1 in
        acc :=
          (match !acc with
           | N0 -> if bit then Npos XH else N0
           | Npos p -> Npos (if bit then XI p else XO p))
      done)
    s;
  !acc

let hex_of_n (x : n) : Stdlib.String.t =
  match x with
  | N0 -> "0"
  | Npos p ->
    (* bits, least significant first *)
    let rec bits p acc =
      match p with
      | XH -> List.rev (true :: acc)
      | XO q -> bits q (false :: acc)
      | XI q -> bits q (true :: acc)
    in
    let bs = Array.of_list (bits p []) in
    let nb = Array.length bs in
    let nd = (nb + 3) / 4 in
    let buf = Bytes.make nd '0' in
    for d = 0 to nd - 1 do
      let v = ref 0 in
      for b = 3 downto 0 do
        let i = (d * 4) + b in
        v := (!v lsl 1) lor (if i < nb && bs.(i) then 1 else 0)
      done;
      Bytes.set buf (nd - 1 - d) "0123456789abcdef".[!v]
    done;
    Bytes.to_string buf

let split_ws (s : Stdlib.String.t) : Stdlib.String.t list =
  List.filter (fun x -> x <> "") (Stdlib.String.split_on_char ' ' s)
