(* modelrun: evaluates the extracted Coq model on the cases read from stdin,
   one case per line, and prints one canonical result line per case.
   usage: modelrun <component> < cases > results *)
open Conv

let h = hex_of_n
let n = n_of_hex
let nat s = nat_of_int (int_of_string ("0x" ^ s))

(* ---- component: frame (C12) ---------------------------------------------
   crc <type> <body>                CRC-32 of the body
   frame <type> <body>              body ++ le32 (crc32 body)
   using <type> <fixed> <bytes>     DataView::<type>::using(bytes): ok | err
   flip <type> <fixed> <i> <bytes>  using after flipping bit i of bytes
   rpc <type> <fixed> <bytes>       bytes sent as a request to an echoing handler:
                                    handled | invalid <status code>
   echo <type> <fixed> <frame>      the value in <frame> sent through the typed client:
                                    handled <seen same|diff> <reply same|diff>
   status <code> <message>          a handler failing with that status: err <code> <message>
   lusing <fixed> <bytes>           the pre-repair using: ok | err | oob
   (the type token only tells the Rust executor which message type to use)   *)
let run_frame (toks : string list) : string =
  (* "echo@<n>" / "rpc@<n>" / "status@<n>": the same exchange with the transport delivering the
     request and reply bodies in pieces of <n> bytes without a length hint; the model has no
     notion of pieces - what is delivered is the concatenation *)
  let toks =
    match toks with
    | k :: rest when String.contains k '@' -> String.sub k 0 (String.index k '@') :: rest
    | _ -> toks
  in
  match toks with
  | [ "crc"; _; b ] -> h (Model.crc32 (bytes_of_hex b))
  | [ "frame"; _; b ] -> hex_of_bytes (Model.frame (bytes_of_hex b))
  | [ "using"; _; fixed; bs ] -> show_outcome (Model.view_using (nat fixed) (bytes_of_hex bs))
  | [ "flip"; _; fixed; i; bs ] ->
    show_outcome (Model.view_using (nat fixed) (Model.flip (n i) (bytes_of_hex bs)))
  | [ "rpc"; _; fixed; bs ] ->
    (match Model.model_echo (nat fixed) (bytes_of_hex bs) with
     | ([ _ ], Model.Inl _) -> "handled"
     | ([], Model.Inr (c, _)) -> "invalid " ^ h c
     | _ -> "?unexpected")
  | [ "echo"; _; fixed; bs ] ->
    let req = bytes_of_hex bs in
    let same a b = if a = b then "same" else "diff" in
    (match Model.model_echo (nat fixed) req with
     | ([ seen ], Model.Inl reply) ->
       (* the body the request carries is what precedes its four trailer bytes *)
       let keep = List.length req - 4 in
       let body = List.filteri (fun i _ -> i < keep) req in
       "handled " ^ same seen body ^ " " ^ same reply body
     | ([], Model.Inr (c, _)) -> "invalid " ^ h c
     | _ -> "?unexpected")
  | [ "status"; code; msg ] ->
    (match Model.model_status (n code) (bytes_of_hex msg) with
     | Model.Inr (c, m) -> "err " ^ h c ^ " " ^ hex_of_bytes m
     | Model.Inl _ -> "?reply")
  | [ "lusing"; fixed; bs ] -> show_outcome (Model.legacy_using (nat fixed) (bytes_of_hex bs))
  | _ -> "?bad-case"

(* ---- component: scratch (C12, the serializer's scratch space) ---------------
   lifo|free  p<size>:<align> ... o<k>:<size>:<align> ...      (hex)
   -> one token per step (s<off> h<off> a<id> | ok err panic bad), then
      "| <pos of the first buffer> <pos of the second buffer or -> <allocations in progress>" *)
let run_scratch (toks : string list) : string =
  match toks with
  | kind :: ops when kind = "lifo" || kind = "free" ->
    let parse t =
      let head = String.sub t 0 1 and rest = String.sub t 1 (String.length t - 1) in
      match head, String.split_on_char ':' rest with
      | "p", [ size; align ] -> Model.OPush (n size, n align)
      | "o", [ k; size; align ] -> Model.OPop (n k, n size, n align)
      | _ -> failwith "bad op"
    in
    let outs, sf = Model.run_trace (List.map parse ops) Model.init [] in
    let show = function
      | Model.SPushed (Model.HStack o) -> "s" ^ h o
      | Model.SPushed (Model.HHeap o) -> "h" ^ h o
      | Model.SPushed (Model.HAlloc i) -> "a" ^ h i
      | Model.SPopOk -> "ok"
      | Model.SPopErr -> "err"
      | Model.SPopPanic -> "panic"
      | Model.SBadIndex -> "bad"
    in
    let heap_pos = match sf.Model.heap with Some b -> h b.Model.pos | None -> "-" in
    String.concat " " (List.map show outs)
    ^ " | " ^ h sf.Model.stack.Model.pos ^ " " ^ heap_pos ^ " "
    ^ Printf.sprintf "%x" (List.length sf.Model.allocs)
  | _ -> "?bad-case"

let () =
  let comp = if Array.length Sys.argv > 1 then Sys.argv.(1) else "" in
  let f =
    match comp with
    | "frame" -> run_frame
    | "scratch" -> run_scratch
    | _ -> prerr_endline ("unknown component " ^ comp); exit 2
  in
  let out = Buffer.create 65536 in
  (try
     while true do
       let line = input_line stdin in
       let r = try f (split_ws line) with e -> "?exn:" ^ Printexc.to_string e in
       Buffer.add_string out r;
       Buffer.add_char out '\n';
       if Buffer.length out > 60000 then (print_string (Buffer.contents out); Buffer.clear out)
     done
   with End_of_file -> ());
  print_string (Buffer.contents out)
