(* Conversions between the extracted Coq datatypes and OCaml values.
   Numbers travel as lower-case hexadecimal text, byte strings as hex-encoded bytes
   ("-" is the empty byte string). *)
open Model

let hexval c =
  match c with
  | '0' .. '9' -> Char.code c - 48
  | 'a' .. 'f' -> Char.code c - 87
  | 'A' .. 'F' -> Char.code c - 55
  | _ -> failwith ("bad hex digit: " ^ String.make 1 c)

let n_of_hex (s : string) : n =
  let acc = ref N0 in
  String.iter
    (fun ch ->
      let d = hexval ch in
      for b = 3 downto 0 do
        let bit = (d lsr b) land 1 = 1 in
        acc :=
          (match !acc with
           | N0 -> if bit then Npos XH else N0
           | Npos p -> Npos (if bit then XI p else XO p))
      done)
    s;
  !acc

let hex_of_n (x : n) : string =
  match x with
  | N0 -> "0"
  | Npos p ->
    let rec bits p acc =
      match p with
      | XH -> List.rev (true :: acc)
      | XO q -> bits q (false :: acc)
      | XI q -> bits q (true :: acc)
    in
    let bs = Array.of_list (bits p []) in
    let nb = Array.length bs in
    let nd = (nb + 3) / 4 in
    let buf = Bytes.make nd '0' in
    for d = 0 to nd - 1 do
      let v = ref 0 in
      for b = 3 downto 0 do
        let i = (d * 4) + b in
        v := (!v lsl 1) lor (if i < nb && bs.(i) then 1 else 0)
      done;
      Bytes.set buf (nd - 1 - d) "0123456789abcdef".[!v]
    done;
    Bytes.to_string buf

let n_of_int (i : int) : n = if i = 0 then N0 else n_of_hex (Printf.sprintf "%x" i)
let int_of_n (x : n) : int = int_of_string ("0x" ^ hex_of_n x)

let nat_of_int (i : int) : nat =
  let r = ref O in
  for _ = 1 to i do r := S !r done;
  !r

(* the 256 byte values, shared *)
let byte_table : n array = Array.init 256 n_of_int

(* hex-encoded byte string -> list of N (built back to front, no recursion) *)
let bytes_of_hex (h : string) : n list =
  if h = "-" then []
  else begin
    let len = String.length h / 2 in
    let r = ref [] in
    for i = len - 1 downto 0 do
      let v = (hexval h.[2 * i] lsl 4) lor hexval h.[(2 * i) + 1] in
      r := byte_table.(v) :: !r
    done;
    !r
  end

let hex_of_bytes (l : n list) : string =
  if l = [] then "-"
  else begin
    let b = Buffer.create 64 in
    List.iter (fun x -> Buffer.add_string b (Printf.sprintf "%02x" (int_of_n x))) l;
    Buffer.contents b
  end

let show_outcome = function
  | Ok _ -> "ok"
  | Invalid -> "err"
  | OutOfBounds -> "oob"

let split_ws (s : string) : string list =
  List.filter (fun x -> x <> "") (String.split_on_char ' ' s)
