(* modelrun: evaluates the extracted Coq membership model on the cases read from stdin,
   one case per line, and prints one canonical result line per case.
   usage: modelrun membership < cases > results

   Case syntax (see harness/hx-membership/src/bin/hx-membership.rs):
     run  <self> <ev>...      ev = s:<id>.<addr>.<dc>,... | sub | rd
     lrun <self> <ev>...      the same on the model of the code before the repair of D8
     diff  <self> s:<prev> s:<new>
     ldiff <self> s:<prev> s:<new> *)
open Conv

let h = hex_of_n
let n = n_of_hex

let parse_member (t : string) : Model.member =
  match Stdlib.String.split_on_char '.' t with
  | [ i; a; d ] -> ((n i, n a), n d)
  | _ -> failwith "member"

let parse_snapshot (t : string) : Model.snapshot =
  let len = Stdlib.String.length t in
  if len < 2 || Stdlib.String.sub t 0 2 <> "s:" then failwith "snapshot"
  else
    let body = Stdlib.String.sub t 2 (len - 2) in
    if body = "" then [] else List.map parse_member (Stdlib.String.split_on_char ',' body)

let key_of_member (((i, a), d) : Model.member) = (int_of_n i, int_of_n a, int_of_n d)

(* canonical form: members sorted by (id, addr, dc) *)
let show_members (ms : Model.member list) : string =
  let ks = List.sort compare (List.map key_of_member ms) in
  Stdlib.String.concat "," (List.map (fun (i, a, d) -> Printf.sprintf "%x.%x.%x" i a d) ks)

let show_change (c : Model.change) : string =
  "J[" ^ show_members c.Model.ch_joined ^ "]L[" ^ show_members c.Model.ch_left ^ "]"

let show_live (l : Model.live_map) : string =
  let ks = List.sort compare (List.map (fun (i, a) -> (int_of_n i, int_of_n a)) l) in
  "[" ^ Stdlib.String.concat "," (List.map (fun (i, a) -> Printf.sprintf "%x.%x" i a) ks) ^ "]"

(* events -> history; exactly one [sub], no [rd] before it *)
let parse_history (toks : string list) : Model.history option =
  let rec pre acc = function
    | "sub" :: r -> Some (List.rev acc, r)
    | "rd" :: _ -> None
    | t :: r -> pre (parse_snapshot t :: acc) r
    | [] -> None
  in
  match pre [] toks with
  | None -> None
  | Some (p, rest) ->
    if List.mem "sub" rest then None
    else
      let post =
        List.map (fun t -> if t = "rd" then Model.Read else Model.Snap (parse_snapshot t)) rest
      in
      Some { Model.h_pre = p; Model.h_post = post }

let run_history stp (self : Model.n) (hist : Model.history) : string =
  let tr = Model.trace_of_with stp self hist in
  let polls = List.map (function Some c -> show_change c | None -> "-") tr in
  Stdlib.String.concat " " polls
  ^ " live=" ^ show_live (Model.final_live_with stp self hist)
  ^ " late=" ^ show_bool (Model.late_b hist)
  ^ " coal=" ^ show_bool (Model.coalesced_b hist)
  ^ " holds=" ^ show_bool (Model.holds_b_with stp self hist)

let run_membership (toks : string list) : string =
  match toks with
  | "run" :: self :: evs ->
    (match parse_history evs with
     | Some hist -> run_history Model.differ_step (n self) hist
     | None -> "?bad-case")
  | "lrun" :: self :: evs ->
    (match parse_history evs with
     | Some hist -> run_history Model.legacy_differ_step (n self) hist
     | None -> "?bad-case")
  | "glue" :: self :: evs ->
    (* the store's glue is a subscriber that reads every change as soon as it is published *)
    let self = n self in
    let rec split pre = function
      | [] -> (List.rev pre, [])
      | "sub" :: rest -> (List.rev pre, rest)
      | t :: rest -> split (t :: pre) rest
    in
    let pre, post = split [] evs in
    let hist =
      { Model.h_pre = List.map parse_snapshot pre;
        Model.h_post = Model.Read :: List.concat_map (fun t -> [ Model.Snap (parse_snapshot t); Model.Read ]) post }
    in
    let live = Model.final_live_with Model.differ_step self hist in
    let addrs = List.sort_uniq compare (List.map (fun (_, a) -> int_of_n a) live) in
    let s = "[" ^ String.concat "," (List.map (Printf.sprintf "%x") addrs) ^ "]" in
    "recv=" ^ s ^ " polled=" ^ s
  | ("dist" | "distf0" | "distf1") :: self :: snaps ->
    (* the consumer applies every published change in order (left, then joined): the batch goes to
       the addresses of the live map it then holds.  distf<v>: an earlier batch to one live peer
       failed; the live map is a function of the membership changes alone, so the prediction is
       the same *)
    let self = n self in
    let _, live =
      List.fold_left
        (fun (pb, live) t ->
          let c, pb' = Model.differ_step self pb (parse_snapshot t) in
          (pb', Model.apply live c))
        (Model.init_pub, []) snaps
    in
    let addrs = List.sort_uniq compare (List.map (fun (_, a) -> int_of_n a) live) in
    "recv=[" ^ String.concat "," (List.map (Printf.sprintf "%x") addrs) ^ "]"
  | [ "diff"; self; a; b ] -> show_change (Model.differ (n self) (parse_snapshot a) (parse_snapshot b))
  | [ "ldiff"; self; a; b ] ->
    show_change (Model.legacy_differ (n self) (parse_snapshot a) (parse_snapshot b))
  | _ -> "?bad-case"

let () =
  let comp = if Array.length Sys.argv > 1 then Sys.argv.(1) else "" in
  let f =
    match comp with
    | "membership" -> run_membership
    | _ -> prerr_endline ("unknown component " ^ comp); exit 2
  in
  let out = Buffer.create 65536 in
  (try
     while true do
       let line = input_line stdin in
       let r = try f (split_ws line) with e -> "?exn:" ^ Printexc.to_string e in
       Buffer.add_string out r;
       Buffer.add_char out '\n';
       if Buffer.length out > 60000 then (print_string (Buffer.contents out); Buffer.clear out)
     done
   with End_of_file -> ());
  print_string (Buffer.contents out)
