"""Common machinery for the per-property checks (see DESIGN.md section 5).

Every check = proof leg (Rocq/Coq build + audit) + correspondence leg (extracted
model vs implementation on the same cases) + the property's own oracle evaluated on
the implementation, followed by the verdict and the evidence file.
"""
import hashlib
import json
import os
import shutil
import re
import subprocess
import sys
import time

VERIF = os.path.dirname(os.path.dirname(os.path.abspath(__file__)))
REPO = os.environ.get("VERIF_REPO", "/repo")
WORK = os.path.join(VERIF, "work")
HARNESS = os.path.join(VERIF, "harness")
COQ = os.path.join(VERIF, "coq")
OCAML = os.path.join(VERIF, "ocaml")
NPROC = str(os.cpu_count() or 8)

FORBIDDEN = re.compile(
    r"\b(Admitted|admit|Axiom|Axioms|Parameter|Parameters|Conjecture|Conjectures|"
    r"Admit Obligations|bypass_check|Unset Guard Checking|Unset Positivity Checking|"
    r"Unset Universe Checking|type-in-type|impredicative-set|native_compute)\b")

# Axioms the standard library declares and that may appear in Print Assumptions
# (each use is named in DESIGN.md section 8).  Empty = every theorem must be closed.
ALLOWED_AXIOMS = set()

ENV = dict(os.environ)
ENV.update({"CARGO_NET_OFFLINE": "true", "RUST_BACKTRACE": "0", "CARGO_TERM_COLOR": "never"})


def sh(cmd, cwd=None, timeout=None, env=None, stdin=None):
    """Run a command, return (rc, stdout+stderr)."""
    try:
        p = subprocess.run(cmd, cwd=cwd, timeout=timeout, env=env or ENV, stdin=stdin,
                           stdout=subprocess.PIPE, stderr=subprocess.STDOUT,
                           shell=isinstance(cmd, str))
        return p.returncode, p.stdout.decode("utf-8", "replace")
    except subprocess.TimeoutExpired as e:
        out = (e.stdout or b"").decode("utf-8", "replace")
        return 124, out + "\n[timeout after %ss]" % timeout


class Check:
    def __init__(self, pid, argv):
        self.pid = pid
        self.tier = os.environ.get("VERIF_TIER", "quick")
        self.replay = None
        it = iter(argv)
        for a in it:
            if a == "--tier":
                self.tier = next(it)
            elif a == "--replay":
                self.replay = os.path.abspath(next(it))
        if self.tier not in ("quick", "thorough"):
            self.tier = "quick"
        try:
            self.seed = int(os.environ.get("VERIF_SEED", "1"))
        except ValueError:
            self.seed = 1
        self.t0 = time.time()
        self.work = os.path.join(WORK, pid)
        os.makedirs(self.work, exist_ok=True)
        os.makedirs(os.path.join(VERIF, "evidence"), exist_ok=True)
        os.makedirs(os.path.join(VERIF, "replays"), exist_ok=True)
        self.violations = []       # (replay_path, no_failing_input)
        self.known_printed = []
        self.notes = []
        self.proof = {"obligations": 0, "discharged": 0, "theorems": [], "axioms": {},
                      "checker_cmd": "", "broken": []}
        self.corr = {"evaluations": 0, "distinct_nontrivial": 0, "samples": [], "counters": {},
                     "components": {}, "divergences": 0, "oracle_failures": 0}
        self.known = [k for k in load_known() if k.get("property") == pid]

    # ------------------------------------------------------------------ logging
    def log(self, msg):
        print("[%s %6.1fs] %s" % (self.pid, time.time() - self.t0, msg), flush=True)

    # --------------------------------------------------------------- proof leg
    def proof_leg(self, project, prop_file, extra_targets=()):
        """Build the property's .vo closure with a full (non -vos) make, grep the sources
        for forbidden tokens, and audit Print Assumptions of every theorem in prop_file."""
        pdir = os.path.join(COQ, project)
        ok, log = coq_make(pdir, [prop_file] + list(extra_targets))
        names = theorem_names(os.path.join(pdir, prop_file))
        self.proof["obligations"] += len(names)
        self.proof["checker_cmd"] = (
            "cd coq/%s && coq_makefile -f _CoqProject -o Makefile && make %s  (coqc 8.16.1, full .vo); "
            "then coqc Audit with Print Assumptions for each theorem" % (project, prop_file + "o"))
        if not ok:
            self.proof["broken"].append({"file": prop_file, "log": log[-3000:]})
            self.log("PROOF BUILD FAILED for %s\n%s" % (prop_file, log[-2000:]))
            return False
        bad = forbidden_tokens(pdir)
        if bad:
            self.proof["broken"].append({"file": prop_file, "forbidden": bad})
            self.log("forbidden tokens: %s" % bad)
            return False
        ok2, ax, alog = audit_assumptions(pdir, project, prop_file, names, self.work)
        if not ok2:
            self.proof["broken"].append({"file": prop_file, "log": alog[-3000:]})
            self.log("AUDIT FAILED\n" + alog[-2000:])
            return False
        # statements are pinned (coq/<project>/Properties/PINS.json, written by bin/pin-theorems): a
        # property theorem whose statement was edited or which disappeared breaks the proof leg
        # until the pin is renewed on purpose, so that no statement is weakened in passing
        changed = pinned_statement_changes(pdir, prop_file)
        for n, why in changed:
            self.proof["broken"].append({"theorem": n, "log": why})
            self.log("pinned statement: %s %s" % (n, why))
        closed = 0
        for n in names:
            axs = ax.get(n)
            if axs is None:
                self.proof["broken"].append({"theorem": n, "log": "no Print Assumptions output"})
                continue
            extra = [a for a in axs if a not in ALLOWED_AXIOMS]
            if extra:
                self.proof["broken"].append({"theorem": n, "axioms": extra})
            else:
                closed += 1
            self.proof["axioms"][n] = axs
        self.proof["discharged"] += closed
        self.proof["theorems"] += names
        self.log("proof leg: %d/%d theorems of %s checked, axioms: %s" % (
            closed, len(names), prop_file,
            sorted({a for v in ax.values() for a in v}) or "none (closed under the global context)"))
        if self.tier == "thorough":
            self.coqchk(pdir, project, prop_file)
        return closed == len(names) and not changed

    def coqchk(self, pdir, project, prop_file):
        mod = "DC." + prop_file[:-2].replace("/", ".")
        rc, out = sh(["coqchk", "-silent", "-o", "-Q", ".", "DC", mod], cwd=pdir, timeout=1500)
        tail = out[-1500:]
        self.proof["coqchk"] = {"rc": rc, "tail": tail}
        self.log("coqchk rc=%d: %s" % (rc, " ".join(tail.split())[-400:]))
        if rc != 0:
            self.proof["broken"].append({"file": prop_file, "log": "coqchk failed: " + tail})

    # ------------------------------------------------------- correspondence leg
    def correspondence(self, exe, comp, package, model_project="core", extra_args=(),
                       nontrivial=None, timeout=1500, name=None):
        """Run the implementation executor and the extracted model on the same cases."""
        name = name or comp
        d = os.path.join(self.work, name)
        os.makedirs(d, exist_ok=True)
        for f in os.listdir(d):
            fp = os.path.join(d, f)
            if os.path.isdir(fp):
                shutil.rmtree(fp, ignore_errors=True)
            else:
                os.unlink(fp)
        binpath = os.path.join(HARNESS, "target", "release", exe)
        args = [binpath, "--seed", str(self.seed), "--tier", self.tier, "--dir", d] + list(extra_args)
        if self.replay:
            rp = replay_cases_file(self.replay, name, d)
            if rp is None:
                return None
            args += ["--replay", rp]
        rc, out = sh(args, timeout=timeout)
        stats = {}
        for line in out.splitlines():
            if line.startswith("HXSTATS "):
                stats = json.loads(line[8:])
        if rc != 0 or not stats:
            self.log("executor %s failed rc=%s\n%s" % (exe, rc, out[-3000:]))
            self.corr["components"][name] = {"error": "executor failed", "rc": rc}
            hang = re.search(r"^HXHANG .*? inside history: (.*)$", out, flags=re.M)
            if hang:
                # the executor's watchdog: the implementation stopped making progress (a lock it never
                # gets, a wait that never ends) inside this history - a concrete failing input
                path = self.write_replay({
                    "kind": "property-violation-on-implementation", "component": name,
                    "failing_clause": "no-progress (the implementation hangs on this history)",
                    "cases": [hang.group(1).strip()], "detail": hang.group(0)})
                self.violations.append((path, False))
                self.log("executor %s: implementation hangs on: %s" % (exe, hang.group(1)[:600]))
                return None
            self.broken_correspondence(name, "executor %s exited %s: %s" % (exe, rc, out[-1500:]), [])
            return None
        cases = os.path.join(d, comp + ".cases")
        impl = os.path.join(d, comp + ".impl")
        model = os.path.join(d, comp + ".model")
        mr = os.path.join(OCAML, model_project, "_build", "default", "modelrun.exe")
        err = run_model_parallel(mr, comp, cases, model, timeout)
        if err:
            self.broken_correspondence(name, "modelrun failed: " + err[-1000:], [])
            return None
        divs = diff_files(cases, model, impl, limit=50)
        n = stats.get("cases", 0)
        self.corr["evaluations"] += n
        self.corr["components"][name] = {
            "cases": n, "divergences": divs["count"], "oracle_failures": stats.get("oracle_failures", 0),
            "stats": {k: v for k, v in stats.items() if k not in ("cases", "counters")},
        }
        for k, v in stats.get("counters", {}).items():
            self.corr["counters"][name + "." + k] = v
        self.corr["divergences"] += divs["count"]
        self.corr["samples"] += sample_lines(cases, impl, 3)
        self.corr["distinct_nontrivial"] += count_distinct(cases, impl, nontrivial)
        fails = read_fails(os.path.join(d, comp + ".fail"))
        self.corr["oracle_failures"] += len(fails)
        self.log("correspondence %s: %d cases, %d divergences, %d oracle failures" % (
            name, n, divs["count"], len(fails)))
        self.handle_failures(name, fails, divs)
        return stats

    def handle_failures(self, name, fails, divs):
        unknown = []
        for cls, case, detail in fails:
            k = self.match_known(cls, case)
            if k is not None:
                if k["class"] not in self.known_printed:
                    self.known_printed.append(k["class"])
                    print("KNOWN-FINDING: property=%s %s" % (self.pid, k["what"]), flush=True)
            else:
                unknown.append((cls, case, detail))
        if unknown:
            # group by class, keep the shortest case of each class as the replay
            by = {}
            for cls, case, detail in unknown:
                if cls not in by or len(case) < len(by[cls][0]):
                    by[cls] = (case, detail)
            for cls, (case, detail) in sorted(by.items()):
                path = self.write_replay({
                    "kind": "property-violation-on-implementation", "component": name,
                    "failing_clause": cls, "cases": [case], "detail": detail,
                    "count_in_this_run": sum(1 for c, _, _ in unknown if c == cls)})
                self.violations.append((path, False))
                # also in the log: what failed, on which (shortest) input
                self.log("oracle failure [%s] on: %s -- %s" % (cls, case[:600], str(detail)[:400]))
        elif divs["count"] > 0:
            known_div = [d for d in divs["first"] if self.match_known("divergence", d["case"]) is not None]
            if len(known_div) == len(divs["first"]) and divs["count"] == len(divs["first"]):
                return
            self.broken_correspondence(
                name, "model and implementation differ on %d case(s)" % divs["count"], divs["first"][:10])

    def broken_correspondence(self, name, why, first):
        path = self.write_replay({
            "kind": "correspondence-broken", "component": name,
            "no_longer_checks": "correspondence %s (extracted Coq model vs /repo implementation)" % name,
            "why": why, "cases": [d["case"] for d in first], "diverging": first})
        self.violations.append((path, True))
        self.log("correspondence %s broken: %s%s" % (name, str(why)[:400], ("; first diverging case: " + first[0]["case"][:500]) if first else ""))

    def broken_proof(self):
        path = self.write_replay({
            "kind": "proof-obligation-broken",
            "no_longer_checks": [b.get("theorem") or b.get("file") for b in self.proof["broken"]],
            "detail": self.proof["broken"]})
        self.violations.append((path, True))

    def match_known(self, cls, case):
        for k in self.known:
            if k.get("status") != "known":
                continue
            if k.get("fail_class") == cls and re.search(k.get("case_regex", ""), case):
                return k
        return None

    def write_replay(self, obj):
        obj = dict(obj)
        obj["property"] = self.pid
        obj["seed"] = self.seed
        obj["tier"] = self.tier
        blob = json.dumps(obj, sort_keys=True, indent=1)
        hsh = hashlib.sha256(blob.encode()).hexdigest()[:12]
        path = os.path.join(VERIF, "replays", "%s-%s.json" % (self.pid, hsh))
        with open(path, "w") as f:
            f.write(blob + "\n")
        return path

    # ------------------------------------------------------------------ verdict
    def finish(self, level, rule, trusted_base, assumptions, explanation=None, extra=None, exhaustive=False):
        if self.proof["broken"]:
            self.broken_proof()
        wall = time.time() - self.t0
        cov = {
            "obligations": self.proof["obligations"],
            "discharged": self.proof["discharged"],
            "checker_cmd": self.proof["checker_cmd"] or "n/a",
            "trusted_base": trusted_base,
            "theorems": self.proof["theorems"],
            "print_assumptions": {k: (v or ["Closed under the global context"])
                                  for k, v in self.proof["axioms"].items()},
            "evaluations": self.corr["evaluations"],
            "distinct_nontrivial": self.corr["distinct_nontrivial"],
            "rule": rule,
            "samples": self.corr["samples"][:12] or ["(no correspondence cases in this run)"],
            "components": self.corr["components"],
            "counters": self.corr["counters"],
            "model_vs_impl_divergences": self.corr["divergences"],
            "oracle_failures_on_impl": self.corr["oracle_failures"],
            "known_findings_printed": self.known_printed,
            "exhaustive": bool(exhaustive),
        }
        if "coqchk" in self.proof:
            cov["coqchk"] = self.proof["coqchk"]
        if explanation:
            cov["explanation"] = explanation
        if extra:
            cov.update(extra)
        if self.notes:
            cov["notes"] = self.notes
        ev = {
            "property_id": self.pid, "tier": self.tier, "seed": self.seed, "level": level,
            "coverage": cov, "assumptions": assumptions, "wall_s": round(wall, 2),
            "violations": len(self.violations),
        }
        if not self.replay:
            with open(os.path.join(VERIF, "evidence", self.pid + ".json"), "w") as f:
                json.dump(ev, f, indent=1, sort_keys=True)
                f.write("\n")
        for path, nofail in self.violations:
            print("VIOLATION property=%s replay=%s%s" % (
                self.pid, path, " no-failing-input-found" if nofail else ""), flush=True)
        self.log("done in %.1fs: %s" % (wall, "VIOLATION" if self.violations else "ok"))
        if not self.violations:
            self.trim_work()
        sys.exit(1 if self.violations else 0)

    def trim_work(self, keep_lines=2000, big=20 * 1024 * 1024):
        """After a clean run the case/result files are only needed as samples: keep their head.
        (Disk space is limited; a thorough run writes gigabytes.)"""
        for r, _, fs in os.walk(self.work):
            for f in fs:
                if f.rsplit(".", 1)[-1] not in ("cases", "impl", "model"):
                    continue
                p = os.path.join(r, f)
                try:
                    if os.path.getsize(p) <= big:
                        continue
                    with open(p, "rb") as src:
                        head = b"".join(src.readline() for _ in range(keep_lines))
                    with open(p, "wb") as dst:
                        dst.write(head)
                except OSError:
                    pass


# ---------------------------------------------------------------------- helpers
def load_known():
    p = os.path.join(VERIF, "known_findings.json")
    if not os.path.exists(p):
        return []
    with open(p) as f:
        return json.load(f).get("findings", [])


def coq_make(pdir, files, timeout=3000):
    """Full .vo build of the given .v files (and their dependencies) via coq_makefile."""
    vs = sorted(
        os.path.relpath(os.path.join(r, f), pdir)
        for r, _, fs in os.walk(pdir) for f in fs
        if f.endswith(".v") and "/Audit" not in r and not f.startswith("."))
    proj = "-Q . DC\n" + "\n".join(vs) + "\n"
    cp = os.path.join(pdir, "_CoqProject")
    old = open(cp).read() if os.path.exists(cp) else ""
    if old != proj or not os.path.exists(os.path.join(pdir, "Makefile")):
        with open(cp, "w") as f:
            f.write(proj)
        rc, out = sh(["coq_makefile", "-f", "_CoqProject", "-o", "Makefile"], cwd=pdir, timeout=120)
        if rc != 0:
            return False, out
    targets = [f + "o" for f in files]
    rc, out = sh(["make", "-j" + NPROC] + targets, cwd=pdir, timeout=timeout)
    if rc != 0 and "inconsistent assumptions" in out:
        sh(["make", "clean"], cwd=pdir, timeout=120)
        rc, out = sh(["make", "-j" + NPROC] + targets, cwd=pdir, timeout=timeout)
    return rc == 0, out


def theorem_names(path):
    names = []
    with open(path) as f:
        for line in f:
            m = re.match(r"\s*(Theorem|Corollary)\s+([A-Za-z0-9_']+)", line)
            if m:
                names.append(m.group(2))
    return names


def theorem_statements(path):
    """name -> sha256 of the statement text (from `Theorem name` up to `Proof.`, comments stripped,
    white space normalised) for every property theorem of a Properties file."""
    import hashlib
    text = strip_comments(open(path).read())
    out = {}
    for m in re.finditer(r"(?:^|\n)\s*(?:Theorem|Corollary)\s+([A-Za-z0-9_']+)(.*?)\n\s*Proof\b", text, flags=re.S):
        stmt = " ".join(m.group(2).split())
        out[m.group(1)] = hashlib.sha256(stmt.encode()).hexdigest()[:16]
    return out


def pinned_statement_changes(pdir, prop_file):
    pins_path = os.path.join(pdir, "Properties", "PINS.json")
    try:
        pins = json.load(open(pins_path)).get(os.path.basename(prop_file), {})
    except (OSError, ValueError):
        return []
    now = theorem_statements(os.path.join(pdir, prop_file))
    bad = []
    for name, h in sorted(pins.items()):
        if name not in now:
            bad.append((name, "pinned theorem no longer present in %s" % prop_file))
        elif now[name] != h:
            bad.append((name, "statement differs from the pinned one (renew with bin/pin-theorems if intended)"))
    return bad


def strip_comments(text):
    out = []
    depth = 0
    i = 0
    while i < len(text):
        if text.startswith("(*", i):
            depth += 1
            i += 2
        elif text.startswith("*)", i) and depth > 0:
            depth -= 1
            i += 2
        else:
            if depth == 0:
                out.append(text[i])
            i += 1
    return "".join(out)


def forbidden_tokens(pdir):
    bad = []
    for r, _, fs in os.walk(pdir):
        for f in fs:
            if f.endswith(".v"):
                p = os.path.join(r, f)
                text = strip_comments(open(p).read())
                text = re.sub(r'"[^"]*"', '""', text)
                for m in FORBIDDEN.finditer(text):
                    bad.append("%s: %s" % (os.path.relpath(p, pdir), m.group(0)))
    for f in ("_CoqProject",):
        p = os.path.join(pdir, f)
        if os.path.exists(p):
            t = open(p).read()
            if "type-in-type" in t or "impredicative-set" in t:
                bad.append("_CoqProject: kernel flag")
    return bad


def audit_assumptions(pdir, project, prop_file, names, work):
    mod = "DC." + prop_file[:-2].replace("/", ".")
    lines = ["From DC Require Import %s." % prop_file[:-2].replace("/", ".").split(".")[-1]
             if False else "Require Import %s." % mod]
    for n in names:
        lines.append('Redirect "%s" Print Assumptions %s.' % (os.path.join(work, "pa_" + n), n))
    apath = os.path.join(work, "Audit_%s.v" % os.path.basename(prop_file)[:-2])
    with open(apath, "w") as f:
        f.write("\n".join(lines) + "\n")
    rc, out = sh(["coqc", "-Q", pdir, "DC", apath], cwd=work, timeout=600)
    if rc != 0:
        return False, {}, out
    ax = {}
    for n in names:
        p = os.path.join(work, "pa_" + n + ".out")
        if not os.path.exists(p):
            continue
        t = open(p).read()
        if "Closed under the global context" in t:
            ax[n] = []
        else:
            ax[n] = re.findall(r"^([A-Za-z0-9_.']+)\s*:", t, flags=re.M)
    return True, ax, out


def build_model(project="core", timeout=3000):
    """Extract.v -> model.ml (side effect of compiling Extract.v) -> dune build modelrun."""
    pdir = os.path.join(COQ, project)
    odir = os.path.join(OCAML, project)
    ok, out = coq_make(pdir, ["Extract.v"], timeout)
    if not ok:
        return False, out
    for f in ("model.ml", "model.mli"):
        src = os.path.join(pdir, f)
        dst = os.path.join(odir, f)
        if not os.path.exists(src):
            # Extract.vo is up to date but the .ml files were cleaned: force re-extraction
            os.unlink(os.path.join(pdir, "Extract.vo"))
            ok, out = coq_make(pdir, ["Extract.v"], timeout)
            if not ok:
                return False, out
        s = open(src).read()
        if not os.path.exists(dst) or open(dst).read() != s:
            with open(dst, "w") as g:
                g.write(s)
    rc, out = sh(["dune", "build", "--profile", "release", "./modelrun.exe"], cwd=odir, timeout=timeout)
    return rc == 0, out


def build_harness(packages, timeout=3000, profile="release"):
    lock = os.path.join(HARNESS, "Cargo.lock")
    if not os.path.exists(lock):
        import shutil
        shutil.copy(os.path.join(REPO, "Cargo.lock"), lock)
    cmd = ["cargo", "build", "--offline"]
    if profile == "release":
        cmd.append("--release")
    for p in packages:
        cmd += ["-p", p]
    rc, out = sh(cmd, cwd=HARNESS, timeout=timeout)
    return rc == 0, out


def run_model_parallel(mr, comp, cases, model, timeout):
    """Evaluate the extracted model on the cases, sharded over the cores (case lines are
    independent of each other); the outputs are concatenated in order."""
    size = os.path.getsize(cases)
    nshard = 1 if size < (1 << 20) else min(int(NPROC), 16)
    if nshard == 1:
        with open(cases, "rb") as fin, open(model, "wb") as fout:
            p = subprocess.run([mr, comp], stdin=fin, stdout=fout, stderr=subprocess.PIPE, timeout=timeout)
        return None if p.returncode == 0 else p.stderr.decode()
    with open(cases, "rb") as f:
        lines = f.readlines()
    per = (len(lines) + nshard - 1) // nshard
    procs = []
    for i in range(nshard):
        chunk = lines[i * per:(i + 1) * per]
        cin = "%s.shard%d" % (cases, i)
        cout = "%s.shard%d" % (model, i)
        with open(cin, "wb") as f:
            f.writelines(chunk)
        fin = open(cin, "rb")
        fout = open(cout, "wb")
        procs.append((subprocess.Popen([mr, comp], stdin=fin, stdout=fout, stderr=subprocess.PIPE), fin, fout, cin, cout))
    err = None
    deadline = time.time() + timeout
    for p, fin, fout, cin, cout in procs:
        try:
            _, e = p.communicate(timeout=max(1, deadline - time.time()))
        except subprocess.TimeoutExpired:
            p.kill()
            e = b"timeout"
        fin.close()
        fout.close()
        if p.returncode != 0:
            err = (e or b"").decode("utf-8", "replace") or "modelrun exited %s" % p.returncode
    with open(model, "wb") as out:
        for _, _, _, cin, cout in procs:
            with open(cout, "rb") as f:
                out.write(f.read())
            os.unlink(cin)
            os.unlink(cout)
    return err


def diff_files(cases, model, impl, limit=50):
    count = 0
    first = []
    with open(cases, errors="replace") as fc, open(model, errors="replace") as fm, open(impl, errors="replace") as fi:
        ln = 0
        for c in fc:
            ln += 1
            m = fm.readline()
            i = fi.readline()
            if m != i:
                count += 1
                if len(first) < limit:
                    first.append({"line": ln, "case": c.rstrip("\n"), "model": m.rstrip("\n"),
                                  "impl": i.rstrip("\n")})
        if fm.readline() or fi.readline():
            count += 1
            first.append({"line": ln + 1, "case": "(length mismatch)", "model": "", "impl": ""})
    return {"count": count, "first": first}


def sample_lines(cases, impl, k):
    out = []
    try:
        with open(cases, errors="replace") as fc, open(impl, errors="replace") as fi:
            lines = list(zip(fc, fi))
    except OSError:
        return out
    if not lines:
        return out
    step = max(1, len(lines) // k)
    for idx in range(0, len(lines), step):
        c, r = lines[idx]
        out.append({"case": c.strip()[:400], "result": r.strip()[:400]})
        if len(out) >= k:
            break
    return out


def count_distinct(cases, impl, nontrivial):
    """Number of distinct (case, result) lines that are non-trivial by the component's rule."""
    seen = set()
    with open(cases, errors="replace") as fc, open(impl, errors="replace") as fi:
        for c, r in zip(fc, fi):
            c = c.rstrip("\n")
            r = r.rstrip("\n")
            if nontrivial is None or nontrivial(c, r):
                seen.add(hashlib.blake2b((c + "|" + r).encode(), digest_size=8).digest())
    return len(seen)


def read_fails(path):
    out = []
    if os.path.exists(path):
        with open(path, errors="replace") as f:
            for line in f:
                parts = line.rstrip("\n").split("\t")
                while len(parts) < 3:
                    parts.append("")
                out.append((parts[0], parts[1], parts[2]))
    return out


def replay_cases_file(replay_json, name, d):
    """Write the case lines of a replay file for the executor; None if for another component."""
    with open(replay_json) as f:
        obj = json.load(f)
    comp = obj.get("component")
    if comp is not None and comp != name and not comp.startswith(name + "-") and not name.startswith(comp + "-"):
        return None
    p = os.path.join(d, "replay.cases")
    with open(p, "w") as f:
        for c in obj.get("cases", []):
            f.write(c + "\n")
    return p


def corpus_files(pid):
    d = os.path.join(VERIF, "corpus", pid)
    if not os.path.isdir(d):
        return []
    return sorted(os.path.join(d, f) for f in os.listdir(d))


def pin_constants(pairs):
    """pairs: list of (file under REPO, regex with one group, expected string, label).
    Returns list of mismatches (the constants the model hard-codes must still be the code's)."""
    bad = []
    for rel, rx, expected, label in pairs:
        try:
            text = open(os.path.join(REPO, rel)).read()
        except OSError as e:
            bad.append("%s: cannot read %s (%s)" % (label, rel, e))
            continue
        m = re.search(rx, text, flags=re.S)
        if not m:
            bad.append("%s: pattern not found in %s" % (label, rel))
        elif re.sub(r"[\s_]", "", m.group(1)) != re.sub(r"[\s_]", "", expected):
            bad.append("%s: expected %s, source has %s" % (label, expected, m.group(1)))
    return bad


# --------------------------------------------------------- extraction cross-check (set model)
def _coq_pairs(txt):
    """'[k=t,k=t]' (hex) -> Coq list of pairs of N"""
    body = txt.strip()[1:-1]
    items = [x for x in body.split(",") if x]
    return "[" + "; ".join("(%d, %d)" % tuple(int(y, 16) for y in it.split("=")) for it in items) + "]"


def _xtoks(case, result):
    """Translate one orswot case + the extracted model's output into a list of CrossCheck.xtok terms;
    None when the case uses tokens the cross-check does not cover."""
    t = case.split()
    if len(t) < 4 or t[0] != "seq":
        return None
    nsrc = int(t[1])
    if t[2] != "0":
        return None
    res = result.split()
    out = []
    ri = 0
    for tok in t[3:]:
        f = tok.split(":")
        if ri >= len(res):
            return None
        r = res[ri]
        if f[0] in ("i", "d") and len(f) == 4:
            out.append("X%s %d%%nat %d %d %s" % (f[0].upper(), int(f[1]), int(f[2], 16), int(f[3], 16), "true" if r == "1" else "false"))
        elif f[0] == "w" and len(f) == 3:
            out.append("XW %d %d %s" % (int(f[1], 16), int(f[2], 16), "true" if r == "1" else "false"))
        elif f[0] == "g" and len(f) == 2:
            out.append("XG %d %s" % (int(f[1], 16), "None" if r == "none" else "(Some %d)" % int(r.split(":")[1], 16)))
        elif f[0] == "p" and len(f) == 1:
            if not r.startswith("p["):
                return None
            out.append("XP %s" % _coq_pairs(r[1:]))
        elif f[0] == "S":
            m = re.match(r"^E(\[[^\]]*\])D(\[[^\]]*\])B\[([01]*)\]$", r)
            if not m:
                return None
            probes = [x for x in (f[1].split(",") if len(f) > 1 else []) if x]
            if len(probes) != len(m.group(3)):
                return None
            out.append("XS [%s] %s %s [%s]" % (
                "; ".join(str(int(x, 16)) for x in probes), _coq_pairs(m.group(1)), _coq_pairs(m.group(2)),
                "; ".join("true" if c == "1" else "false" for c in m.group(3))))
        else:
            return None
        ri += 1
    if ri != len(res):
        return None
    return nsrc, out


def crosscheck_orswot(ck, name="orswot", sample=150):
    """Re-evaluates a sample of the set-model cases with vm_compute inside Coq (CrossCheck.xcheck) and
    demands the outputs the extracted OCaml model printed.  Returns the number of cases checked."""
    d = os.path.join(ck.work, name)
    try:
        cases = open(os.path.join(d, name + ".cases")).read().splitlines()
        model = open(os.path.join(d, name + ".model")).read().splitlines()
    except OSError:
        return 0
    n = min(len(cases), len(model))
    if n == 0:
        return 0
    # a deterministic spread over the file, longer cases preferred
    step = max(1, n // (sample * 4))
    picked = []
    for i in range(0, n, step):
        x = _xtoks(cases[i], model[i])
        if x and len(x[1]) >= 2:
            picked.append((i, x))
        if len(picked) >= sample:
            break
    if not picked:
        return 0
    lines = ["From stdpp Require Import gmap list.", "From Coq Require Import NArith.",
             "From DC Require Import Ts Orswot CrossCheck.", "Open Scope N_scope.", ""]
    for i, (nsrc, toks) in picked:
        lines.append("Example x%d : xcheck (empty_set %d%%nat) [%s] = true.\nProof. vm_compute. reflexivity. Qed." % (
            i, nsrc, "; ".join(toks)))
    path = os.path.join(ck.work, "XCheck_%s.v" % name.replace("-", "_"))
    with open(path, "w") as f:
        f.write("\n".join(lines) + "\n")
    ok, out = coq_make(os.path.join(COQ, "core"), ["CrossCheck.v"], 1200)
    if not ok:
        ck.proof["broken"].append({"file": "CrossCheck.v", "log": out[-1500:]})
        return 0
    rc, out = sh(["coqc", "-Q", os.path.join(COQ, "core"), "DC", path], cwd=ck.work, timeout=1200)
    ck.log("extraction cross-check: %d sampled cases re-evaluated by vm_compute inside Coq: %s" % (
        len(picked), "agree" if rc == 0 else "DISAGREE"))
    if rc != 0:
        bad = re.search(r"Example x(\d+)", out) or re.search(r'line (\d+)', out)
        ck.broken_correspondence(name + "-extraction",
                                 "vm_compute inside Coq disagrees with the extracted model: " + out[-1200:],
                                 [cases[picked[0][0]]] if not bad else [])
        return 0
    ck.corr.setdefault("crosscheck", 0)
    ck.corr["crosscheck"] += len(picked)
    return len(picked)


def crosscheck_tsdiff(ck, name="tsdiff", sample=120):
    """Re-evaluates a sample of the `tsd` cases (the poller's sync plan) with vm_compute inside Coq and
    demands what the extracted OCaml model printed.  Returns the number of cases checked."""
    d = os.path.join(ck.work, name)
    try:
        cases = open(os.path.join(d, name + ".cases")).read().splitlines()
        model = open(os.path.join(d, name + ".model")).read().splitlines()
    except OSError:
        return 0
    n = min(len(cases), len(model))
    if n == 0:
        return 0

    def side(s):
        if s == "-":
            return "[]"
        items = []
        for it in s.split(","):
            nm, t = it.split("=")
            items.append("(%d, %d)" % (ord(nm), int(t, 16)))
        return "[" + "; ".join(items) + "]"

    step = max(1, n // (sample * 3))
    picked = []
    for i in range(0, n, step):
        t = cases[i].split()
        if len(t) == 3 and t[0] == "tsd":
            want = [] if model[i] == "-" else sorted(ord(x) for x in model[i].split(","))
            picked.append((i, side(t[1]), side(t[2]), want))
        if len(picked) >= sample:
            break
    if not picked:
        return 0
    lines = ["From stdpp Require Import gmap list sorting.", "From Coq Require Import NArith.",
             "From DC Require Import TsDiff.", "Open Scope N_scope.", ""]
    for i, a, b, want in picked:
        lines.append("Example x%d : merge_sort N.le (ts_diff_lists %s %s) = [%s].\nProof. vm_compute. reflexivity. Qed." % (
            i, a, b, "; ".join(str(x) for x in want)))
    path = os.path.join(ck.work, "XCheck_%s.v" % name)
    with open(path, "w") as f:
        f.write("\n".join(lines) + "\n")
    ok, out = coq_make(os.path.join(COQ, "core"), ["TsDiff.v"], 1200)
    if not ok:
        ck.proof["broken"].append({"file": "TsDiff.v", "log": out[-1500:]})
        return 0
    rc, out = sh(["coqc", "-Q", os.path.join(COQ, "core"), "DC", path], cwd=ck.work, timeout=1200)
    ck.log("extraction cross-check (%s): %d sampled cases re-evaluated by vm_compute inside Coq: %s" % (
        name, len(picked), "agree" if rc == 0 else "DISAGREE"))
    if rc != 0:
        ck.broken_correspondence(name + "-extraction",
                                 "vm_compute inside Coq disagrees with the extracted model: " + out[-1200:], [])
        return 0
    ck.corr.setdefault("crosscheck", 0)
    ck.corr["crosscheck"] += len(picked)
    return len(picked)
