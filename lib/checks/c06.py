"""C06 — a successful write has reached the replicas its consistency level promises."""
from checks.cluster_common import run_cluster_check


def nontrivial(case, result):
    return "I:cf." in result or "I:nen." in result


def run(ck):
    run_cluster_check(
        ck, "Properties/C06.v", "c06", nontrivial,
        rule="cases = for 2, 3 and 4 nodes: every consistency level (8) x every operation kind (put, put_many, del, del_many) x "
             "every subset of the other nodes unreachable, then the links restored and the batching interval of the REAL task "
             "distributor elapsed (exhaustive, 1 440 schedules), the named schedules, random distributor schedules (operations, link "
             "changes, restarts, interval flushes) and random schedules mixing levels with link changes, batches, exchanges and restarts. The real ReplicatedStoreHandle call is made with "
             "the real selector; its result, the issuer's and every replica's set and store are compared with the model. Oracle on "
             "the implementation: Ok => the mutation or a newer one is readable from storage on the issuer and on at least the "
             "required number of distinct other nodes; ConsistencyFailure => reports exactly (acknowledged, selected) with "
             "acknowledged < selected, the local write is in place; NotEnoughNodes only when too few other nodes exist and then "
             "nothing was written; after every interval flush every reachable member holds everything registered with the issuer's "
             "distributor since its last flush, whatever the result of the call was; at quiescence all nodes hold the last-writer-wins documents (so a failed write was still "
             "replicated). non-trivial = distinct schedules with a consistency failure or a not-enough-nodes refusal",
        assumptions=[
            "the selection (distinct, without the issuer, within the membership, large enough) is C15's subject and a premise here",
            "one data centre in the executor's clusters (multi-DC layouts are covered at selector level by C15)",
            "the 2 s selection cache and the RPC timeout are runtime behaviour outside the model",
        ])
