"""C12 — RPC delivers exactly the bytes sent; damaged or short frames are rejected."""
import json
import os

import vcheck as V

TRUSTED = [
    "Coq 8.16.1 kernel (coqc; coqchk re-check in the thorough tier); vm_compute only for the CRC check value, "
    "the legacy witness and the examples; no native_compute",
    "axioms: none (Print Assumptions: Closed under the global context for every C12 theorem)",
    "hand-written model coq/frame/{Crc.v,Frame.v} of datacake-rpc/src/rkyv_tooling/{mod.rs,view.rs} and of the "
    "request/reply path of request.rs, client.rs, net/server.rs; tied to the code by the differential executor hx-frame",
    "rkyv's serializer and archived views are NOT modelled: a codec (archive, view, fixed = size_of::<T::Archived>()) with "
    "the round-trip law as a hypothesis; hyper/h2 framing is replaced by the in-process transport hook, which can re-send bodies in pieces without a length hint so that the real reassembly (utils::to_aligned) is exercised",
    "crc32fast is modelled as bit-serial reflected CRC-32 (poly 0xEDB88320, init/final 0xFFFFFFFF); compared through "
    "to_view_bytes / DataView::using only",
    "extraction: ExtrOcamlBasic only; OCaml 4.13.1; ocaml/frame/conv.ml + modelrun.ml (hex parsing/printing)",
    "scratch space of the serializer: hand-written model coq/frame/Scratch.v of datacake-rpc/src/rkyv_tooling/scratch.rs "
    "(LazyScratch) over rkyv 0.7.46's BufferScratch/AllocScratch as read from their source (buffers start at a 16-byte "
    "boundary, alignments dividing 16, no allocation limit, the buffer-pointer-not-yet-computed panic included); tied to the "
    "code by the executor hx-scratch driving the real LazyScratch through rkyv's ScratchSpace trait; that rkyv's "
    "serializer obtains and releases blocks in nested order with unchanged layouts and never asks for an empty block is "
    "read from rkyv's ScratchVec/AlignedSerializer source, not proved",
    "Rust executor harness/hx-rpc/src/bin/hx-frame.rs (generators, property oracle using crc32fast and size_of), run as a "
    "release build and as a debug-assertions/overflow-checks build",
]

VIEW = "datacake-rpc/src/rkyv_tooling/view.rs"
MOD = "datacake-rpc/src/rkyv_tooling/mod.rs"
SCRATCH = "datacake-rpc/src/rkyv_tooling/scratch.rs"
PINS = [
    (VIEW, r"if extended_buf\.len\(\) < (\d+) \{", "4", "minimum length (trailer size)"),
    (VIEW, r"extended_buf\[end - (\d+)\.\.\]", "4", "trailer position"),
    (VIEW, r"&extended_buf\[\.\.end - (\d+)\]", "4", "body extent"),
    (VIEW, r"expected_checksum = u32::(\w+)\(checksum_bytes\)", "from_le_bytes", "trailer byte order (view)"),
    (VIEW, r"actual_checksum = (crc32fast::hash)\(data_bytes\)", "crc32fast::hash", "checksum function (view)"),
    (VIEW, r"if data_bytes\.len\(\) < (mem::size_of::<T::Archived>\(\)) \{", "mem::size_of::<T::Archived>()",
     "size check before the cast (repair of D4)"),
    (MOD, r"let checksum = (crc32fast::hash)\(&buffer\)", "crc32fast::hash", "checksum function (to_view_bytes)"),
    (MOD, r"extend_from_slice\(&checksum\.(\w+)\(\)\)", "to_le_bytes", "trailer byte order (to_view_bytes)"),
    (SCRATCH, r"const STACK_SCRATCH_SIZE: usize = ([^;]+);", "1024", "size of the first scratch buffer"),
    (SCRATCH, r"const HEAP_SCRATCH_SIZE: usize = ([^;]+);", "16 << 10", "size of the second scratch buffer"),
]

SCRATCH_DEBUG_EXE = os.path.join("..", "debug", "hx-scratch")
DEBUG_EXE = os.path.join("..", "debug", "hx-frame")   # relative to target/release (vcheck has no profile switch there)


def nontrivial(case, result):
    """flip / rpc / echo / status / frame / crc cases, and `using` cases that are accepted or that
    are long enough not to be refused merely for being short."""
    t = case.split()
    if not t:
        return False
    if t[0] != "using":
        return True
    if result == "ok":
        return True
    try:
        fixed = int(t[2], 16)
        n = 0 if t[3] == "-" else len(t[3]) // 2
    except (IndexError, ValueError):
        return False
    return n >= fixed + 4


def build_bin(profile):
    cmd = ["cargo", "build", "--offline", "-p", "hx-rpc", "--bin", "hx-frame", "--bin", "hx-scratch"]
    if profile == "release":
        cmd.insert(3, "--release")
    lock = os.path.join(V.HARNESS, "Cargo.lock")
    if not os.path.exists(lock):
        import shutil
        shutil.copy(os.path.join(V.REPO, "Cargo.lock"), lock)
    rc, out = V.sh(cmd, cwd=V.HARNESS, timeout=3000)
    return rc == 0, out


def crosscheck_scratch(ck, name="scratch", sample=150):
    """Re-evaluates a sample of the scratch traces with vm_compute inside Coq and demands what the
    extracted OCaml model printed.  Returns the number of cases checked."""
    d = os.path.join(ck.work, name)
    try:
        cases = open(os.path.join(d, "scratch.cases")).read().splitlines()
        model = open(os.path.join(d, "scratch.model")).read().splitlines()
    except OSError:
        return 0
    n = min(len(cases), len(model))
    if n == 0:
        return 0

    def op(tok):
        f = [int(x, 16) for x in tok[1:].split(":")]
        return ("OPush %d %d" % tuple(f)) if tok[0] == "p" else ("OPop %d %d %d" % tuple(f))

    def out(tok):
        if tok[0] in "sha" and tok not in ("ok", "err", "panic", "bad"):
            return "SPushed (%s %d)" % ({"s": "HStack", "h": "HHeap", "a": "HAlloc"}[tok[0]], int(tok[1:], 16))
        return {"ok": "SPopOk", "err": "SPopErr", "panic": "SPopPanic", "bad": "SBadIndex"}[tok]

    step = max(1, n // sample)
    lines = ["From Coq Require Import NArith List.", "From DC Require Import Scratch.", "Import ListNotations.",
             "Open Scope N_scope.",
             "Definition obs (r : list step_out * scratch) :=",
             "  (fst r, (pos (stack (snd r)), option_map pos (heap (snd r)), N.of_nat (length (allocs (snd r))))).", ""]
    picked = 0
    for i in range(0, n, step):
        t = cases[i].split()
        left, _, right = model[i].partition("|")
        st = right.split()
        if len(t) < 2 or len(st) != 3 or len(t) > 40:
            continue
        heap = "None" if st[1] == "-" else "Some %d" % int(st[1], 16)
        lines.append("Example x%d : obs (run_trace [%s] init []) = ([%s], (%d, %s, %d)).\nProof. vm_compute. reflexivity. Qed." % (
            i, "; ".join(op(x) for x in t[1:]), "; ".join(out(x) for x in left.split()),
            int(st[0], 16), heap, int(st[2], 16)))
        picked += 1
        if picked >= sample:
            break
    if not picked:
        return 0
    path = os.path.join(ck.work, "XCheck_scratch.v")
    with open(path, "w") as f:
        f.write("\n".join(lines) + "\n")
    rc, o = V.sh(["coqc", "-Q", os.path.join(V.COQ, "frame"), "DC", path], cwd=ck.work, timeout=1200)
    ck.log("extraction cross-check (scratch): %d sampled traces re-evaluated by vm_compute inside Coq: %s" % (
        picked, "agree" if rc == 0 else "DISAGREE"))
    if rc != 0:
        ck.broken_correspondence("scratch-extraction",
                                 "vm_compute inside Coq disagrees with the extracted model: " + o[-1200:], [])
        return 0
    ck.corr.setdefault("crosscheck", 0)
    ck.corr["crosscheck"] += picked
    return picked


def run(ck):
    ck.proof_leg("frame", "Properties/C12.v")
    ok, out = V.build_model("frame")
    if not ok:
        ck.log("model build failed\n" + out[-3000:])
        ck.proof["broken"].append({"file": "Extract.v", "log": out[-2000:]})
    okh, outh = build_bin("release")
    okd, outd = build_bin("dev")
    if not (okh and okd):
        o = outh if not okh else outd
        ck.log("harness build failed\n" + o[-3000:])
        ck.broken_correspondence("frame", "the executor no longer builds against /repo: " + o[-1500:], [])
    bad = V.pin_constants(PINS)
    if bad:
        ck.broken_correspondence("frame-constants", "source lines the model transcribes changed: %s" % bad, [])
    kw = dict(model_project="frame", nontrivial=nontrivial)
    skw = dict(model_project="frame", nontrivial=lambda case, result: True)
    if ok and okh and okd:
        if ck.replay:
            # run the replay's case lines under both builds
            with open(ck.replay) as f:
                obj = json.load(f)
            cases = os.path.join(ck.work, "replay.cases")
            with open(cases, "w") as f:
                for c in obj.get("cases", []):
                    f.write(c + "\n")
            saved, ck.replay = ck.replay, None
            ck.correspondence("hx-scratch", "scratch", "hx-rpc", extra_args=["--replay", cases], name="scratch-replay", **skw)
            ck.correspondence(SCRATCH_DEBUG_EXE, "scratch", "hx-rpc", extra_args=["--replay", cases], name="scratch-replay-debug", **skw)
            ck.correspondence("hx-frame", "frame", "hx-rpc", extra_args=["--replay", cases], name="frame-replay", **kw)
            ck.correspondence(DEBUG_EXE, "frame", "hx-rpc", extra_args=["--replay", cases], name="frame-replay-debug", **kw)
            ck.replay = saved
        else:
            for f in V.corpus_files("C12"):
                ck.correspondence("hx-frame", "frame", "hx-rpc", extra_args=["--replay", f], name="frame-corpus", **kw)
                ck.correspondence(DEBUG_EXE, "frame", "hx-rpc", extra_args=["--replay", f], name="frame-corpus-debug", **kw)
            for f in V.corpus_files("C12-scratch"):
                ck.correspondence("hx-scratch", "scratch", "hx-rpc", extra_args=["--replay", f], name="scratch-corpus", **skw)
            ck.correspondence("hx-scratch", "scratch", "hx-rpc", **skw)
            crosscheck_scratch(ck)
            ck.correspondence(SCRATCH_DEBUG_EXE, "scratch", "hx-rpc", extra_args=["lifo=800", "free=500"], name="scratch-debug", **skw)
            ck.correspondence("hx-frame", "frame", "hx-rpc", **kw)
            ck.correspondence(DEBUG_EXE, "frame", "hx-rpc", extra_args=["light=1"], name="frame-debug", **kw)
    ck.finish(
        level="proof",
        rule="cases = for seven message types (unit-like, fixed-size struct, String, nested Vec, lists of lists of strings with the inner lists sized around the serializer's 1 KiB first-tier scratch so that outer and inner scratch blocks land in different tiers, byte blob, datacake's Status): "
             "to_view_bytes output vs the model's frame/CRC on bodies of 0..64 KiB (+1 MiB, checksum only); DataView::<T>::using on "
             "every single-bit flip, every truncation, every checksum-valid proper prefix, 1..8 byte extensions and other damage "
             "of real frames (every mutation of frames up to ~1 KiB quick / 3 KiB thorough is also run on the extracted model; for "
             "frames up to ~4 KiB every flip and truncation is judged by the oracle and a sample is run on the model); raw and "
             "typed request/reply exchanges and handler-error exchanges through Server::verif_local + Channel + RpcClient, "
             "again with the transport delivering request and reply bodies in pieces of 1, 3, 16 and 1000 bytes without a length "
             "hint (cases echo@n / rpc@n / status@n: body reassembly must return every byte); all "
             "under a release build, a reduced stream and the corpus also under a debug-assertions build. "
             "Scratch space (component scratch): traces of requests and releases on the real LazyScratch vs the model's run_trace "
             "- every nested chain of depth <= 3 (4 thorough) over 12 boundary layouts, random forests of nested sessions "
             "(oracle: nothing refused, no panic, nothing left allocated) and free-order traces with other layouts on release "
             "(model comparison only; traces releasing a block of the allocator twice are not cases); per step the tier and "
             "offset of the block or ok/err/panic, then the positions of both buffers and the number of allocations in progress. "
             "non-trivial = distinct (case,result) pairs other than a `using` case refused only for being shorter than fixed+4",
        trusted_base=TRUSTED,
        assumptions=[
            "rkyv round trip: view(archive m) = m and size_of::<Archived<T>>() <= len(archive m) (codec_ok; validated by execution only)",
            "a checksum-valid body of at least size_of::<Archived<T>>() bytes is cast unchecked by design: its content "
            "(relative pointers, alignment of the root) is outside C12 and outside this check",
            "bytes are values below 256 (wf_bytes)",
            "scratch theorems: blocks are requested and released in nested order with the layout they were requested with, "
            "sizes >= 1, alignments in {1,2,4,8,16} (wf_session); rkyv's use of the scratch space obeys this by construction "
            "(ScratchVec), which is read from its source and exercised by the `deep` message type, not proved",
        ],
    )
