"""C19 — a peer receives the sender's keyspace state unchanged."""
import vcheck as V
from checks.actor_common import PINS as ACTOR_PINS

TRUSTED = [
    "Coq 8.16.1 kernel (coqc; coqchk in the thorough tier); vm_compute only in the non-vacuity example",
    "axioms: none expected (Print Assumptions must report Closed under the global context for every theorem)",
    "hand-written model coq/core/Transfer.v: the sender's set is encoded, wrapped and decoded by a CHECKED decoder; the codec "
    "is a Section variable with the round-trip law decode (encode s) = Some s as hypothesis (rkyv's serializer and validator "
    "are not modelled); the sender's state is the actor model's (Actor.v, Orswot.v)",
    "rkyv byte layout, alignment of the nested slice inside the outer archive and the behaviour of the client's cast are runtime "
    "facts outside any Gallina model: they are established only on the states executed (all shapes x sizes 0..40, 64..1000, "
    "10000 in the thorough tier)",
    "extraction: ExtrOcamlBasic only; OCaml driver ocaml/core/modelrun.ml (run_transfer)",
    "Rust executor harness/hx-ec (hx-transfer): real ReplicationService + ReplicationClient::get_state over the in-process "
    "transport hook (datacake-rpc verif-hooks) instead of hyper/TCP; the sender's own state is read through Serialize + the "
    "checked rkyv::from_bytes",
]

PINS = ACTOR_PINS + [
    ("datacake-eventual-consistency/src/rpc/services/replication_impl.rs", r"#\[with\((rkyv::with::Raw)\)\]\s*pub set: Vec<u8>", "rkyv::with::Raw", "the nested state is carried as raw bytes"),
]


def nontrivial(case, result):
    return result.startswith("ok ") and "E[]" not in result and "D[]" not in result


def run(ck):
    ck.proof_leg("core", "Properties/C19.v")
    ok, out = V.build_model("core")
    if not ok:
        ck.log("model build failed\n" + out[-3000:])
        ck.proof["broken"].append({"file": "Extract.v", "log": out[-2000:]})
    okh, outh = V.build_harness(["hx-ec"])
    if not okh:
        ck.log("harness build failed\n" + outh[-3000:])
        ck.broken_correspondence("transfer", "the executor no longer builds against /repo: " + outh[-1500:], [])
    bad = V.pin_constants(PINS)
    if bad:
        ck.broken_correspondence("transfer-constants", "constants pinned from the source changed: %s" % bad, [])
    if ok and okh:
        if not ck.replay:
            for f in V.corpus_files(ck.pid):
                ck.correspondence("hx-transfer", "transfer", "hx-ec", extra_args=["--replay", f], name="transfer-corpus",
                                  nontrivial=nontrivial)
        ck.correspondence("hx-transfer", "transfer", "hx-ec", nontrivial=nontrivial)
    ck.finish(
        level="other",
        rule="cases: 'tr' = a keyspace state is built on node A through the real keyspace actor (shapes: live only / tombstones "
             "only / mixed with both sources / mixed spanning two forgiveness periods then purged; 1, 2, 7 or 200 origin nodes; "
             "sizes 0..40 - every offset of the nested slice modulo 16 - then 64, 100, 257, 1000 (+4096, 10000 thorough)), node B "
             "fetches it with the real ReplicationClient::get_state from the real ReplicationService; the RECEIVED set (contents + "
             "cut-off probes) is compared with the model's state, and by the oracle with the sender's own set: contents, diff in "
             "both directions empty, will_apply on every probe x key, results and contents after a further insert/delete through "
             "either source at stamps around every probe, and after a purge. 'bad' = a peer registered under the same service name "
             "answers GetState with nested bytes that are empty / random / a truncated real state / a real state with one damaged "
             "byte near the root; the client must return an error (run in a child process because a cast of damaged bytes may "
             "crash). non-trivial = transfers of states holding both live entries and tombstones",
        trusted_base=TRUSTED,
        assumptions=[
            "the received state is compared through the public API of OrSWotSet (diff against the empty set, will_apply, "
            "insert/delete/purge results); by C19_sets_are_their_contents these observations determine the set",
            "damaged-archive cases: a finite family of damage kinds; 'reported as an error' is established for those executed only",
        ],
        explanation="Specification theorems (received = sent for a checked decoder; undecodable => error; contents determine "
                    "the set) + differential execution of the real service/client pair. The byte-level facts the property's "
                    "why_tests_cant names (alignment and validity of the unchecked cast) cannot be carried by a Gallina "
                    "model; they are exercised, not proved.")
