"""Shared driver for the properties decided on coq/core/Cluster.v + hx-cluster (C01, C06)."""
import vcheck as V
from checks.actor_common import PINS as ACTOR_PINS

TRUSTED = [
    "Coq 8.16.1 kernel (coqc; coqchk in the thorough tier); vm_compute only in the legacy refutation and the example",
    "axioms: none expected (Print Assumptions must report Closed under the global context for every theorem)",
    "hand-written models coq/core/{Orswot,Actor,Cluster,Distributor,TsDiff,PollerPlan}.v: N nodes x one keyspace; events = client mutation with the set of "
    "acknowledging replicas, batch delivery, complete exchange, removal half, fetch+modification half, purge, restart; every "
    "node is driven only through the actor handlers (source 0 = client/replication, source 1 = repair)",
    "extraction: ExtrOcamlBasic only; OCaml driver ocaml/core/modelrun.ml (run_cluster) keeps link states, the batches the "
    "executor assembles itself (`B` events) and exchange slots, runs the extracted task distributor (Distributor.v: d_register / d_tick / "
    "tick_events) for the registrations and the `T` events, and feeds the stamps the implementation's clocks drew and the selector's "
    "choice into the model",
    "Rust executor harness/hx-ec (hx-cluster): 2-4 real in-process nodes (KeyspaceGroup, ConsistencyService, ReplicationService, "
    "real ReplicatedStoreHandle::put/put_many/del/del_many with a real node selector, real ConsistencyClient::apply_batch, real "
    "poller code through verif::repair_peers / exchange_*), in-process RPC transport hook (no OS sockets), injected wall clock",
    "not exercised: chitchat membership, the timers that trigger repairs and purges, hyper/TCP (the task distributor's own batching "
    "loop runs for real in the distributor schedules: `T` = its interval elapses on the paused clock)",
]

PINS = ACTOR_PINS + [
    ("datacake-eventual-consistency/src/replication/poller.rs", r"MAX_NUMBER_OF_DOCS_PER_FETCH: usize = ([\d_]+);", "50000", "MAX_NUMBER_OF_DOCS_PER_FETCH"),
]


def run_cluster_check(ck, prop_file, focus, nontrivial, rule, assumptions, level="proof"):
    pid = ck.pid
    ck.proof_leg("core", prop_file)
    ok, out = V.build_model("core")
    if not ok:
        ck.log("model build failed\n" + out[-3000:])
        ck.proof["broken"].append({"file": "Extract.v", "log": out[-2000:]})
    okh, outh = V.build_harness(["hx-ec"])
    if not okh:
        ck.log("harness build failed\n" + outh[-3000:])
        ck.broken_correspondence("cluster", "the executor no longer builds against /repo: " + outh[-1500:], [])
    bad = V.pin_constants(PINS)
    if bad:
        ck.broken_correspondence("cluster-constants", "constants pinned from the source changed: %s" % bad, [])
    if ok and okh:
        if not ck.replay:
            for f in V.corpus_files(pid):
                ck.correspondence("hx-cluster", "cluster", "hx-ec", extra_args=["--replay", f], name="cluster-corpus",
                                  nontrivial=nontrivial)
        ck.correspondence("hx-cluster", "cluster", "hx-ec", extra_args=["focus=" + focus], nontrivial=nontrivial)
        if focus == "c01":
            # the poller's sync plan: the real KeyspaceTracker (get_diff / set_keyspace / remove_node) against TsDiff.v / PollerPlan.v
            ck.correspondence("hx-tsdiff", "tsdiff", "hx-ec", name="tsdiff",
                              nontrivial=lambda c, r: r not in ("-", "") and ("," in r or "|" in r))
            V.crosscheck_tsdiff(ck)
    ck.finish(level=level, rule=rule, trusted_base=TRUSTED, assumptions=assumptions)
