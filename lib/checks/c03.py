"""C03 — merging replica states is commutative, associative and idempotent."""
from checks.orswot_common import run_orswot_check


def nontrivial(case, result):
    # a triple in which at least one merge result holds both a live entry and a tombstone
    return "E[]" not in result.split(" ")[0] and "D[" in result and "D[]B" not in result.split(" ")[0]


def run(ck):
    run_orswot_check(
        ck, "Properties/C03.v", "c03", nontrivial,
        rule="cases = triples of replicas (OrSWotSet<2>) of one history of <= 3 (4) distinct-stamp operations over 3 keys and 2 origins, "
             "each replica applying a subset in forward or reverse order through alternating sources: every triple of subsets for "
             "histories of <= 2 operations and a rotating sample beyond, once within one forgiveness period and once stretched "
             "beyond it; triples of GAP-FREE PREFIX replicas (premise B: every origin's operations in stamp order up to a cut, "
             "all cut combinations of two origins, three interleavings, alternating sources, repeated deliveries) of histories "
             "stretched over 2..40 periods; random larger triples of each kind. For each triple the merges a.b, b.a, (a.b).c, a.(b.c), a.a and (a.b).b are "
             "computed and their observable state compared with the model. Oracle on the implementation (whenever one of the two premises holds): "
             "commutative, associative, idempotent, re-merge changes nothing, every key's lookup agrees on replicas that merged "
             "each other through a third, and the merged live ids are the per-key greatest-stamp operations. Outside the premises "
             "only model = implementation is compared. non-trivial = distinct triples whose first merge holds live entries and tombstones",
        assumptions=[
            "premise (A): all stamps of the history within one forgiveness period (tick >= 1); premise (B): every replica has applied a "
            "gap-free prefix of every origin's operations (any span) - both proved (C03_merge_laws_within_one_period, "
            "C03_merge_laws_gap_free_prefixes)",
            "replicas have the same number of sources; stamps are valid packed HLC timestamps",
        ])
