"""C08 — purging tombstones is invisible and deletes stay deleted."""
from checks.orswot_common import run_orswot_check


def nontrivial(case, result):
    # a history in which a purge actually removed something
    return "p[" in result and any(t.startswith("p[") and t != "p[]" for t in result.split(" "))


def run(ck):
    run_orswot_check(
        ck, "Properties/C08.v", "c08", nontrivial,
        rule="cases = histories with purges on one replica: operations over per-origin stamps one forgiveness period (+1 tick) "
             "apart (2 origins, 1 and 2 sources), every timely (ascending) history of <= 3 (4) operations and a slice of the "
             "non-timely ones, with a purge after every subset of positions; random histories with late arrivals; structured "
             "'purge-rich' histories (deletes, then every origin heard again on every source more than a period later, purge, "
             "late re-deliveries, purge). Compared with the model: purge's returned list, every return value and the observable "
             "state after every step. Oracle on the implementation: purge changes no live key, removes only tombstones, a purged "
             "delete re-applied (insert or delete, any source, same or other key) is refused and changes nothing; for timely "
             "histories the live result equals the never-purging run and last-writer-wins. non-trivial = distinct histories in "
             "which a purge removed at least one tombstone",
        assumptions=[
            "stamps are valid packed HLC timestamps with tick >= 1 (K1: the first 4 ms after the datacake epoch are excluded)",
            "the cluster clause of the property follows because its premise (every operation reaches every replica within less "
            "than the forgiveness period) is [timely] at each replica; chitchat/timers that deliver operations are not modelled",
        ])
