"""C05 — the computed difference is exactly what a replica lacks; one exchange repairs."""
from checks.orswot_common import run_orswot_check


def nontrivial(case, result):
    # a pair with a non-empty difference
    return "F[" in result and not result.split("F", 1)[1].startswith("[][]")


def run(ck):
    # the actor-level half of an exchange (MultiDel / MultiSet on the read-repair source, cut-offs
    # that move) is exercised through the real KeyspaceActor as well
    import vcheck as V
    okh, outh = V.build_harness(["hx-ec"])
    if okh and V.build_model("core")[0] and not ck.replay:
        ck.correspondence("hx-actor", "actor", "hx-ec", extra_args=["focus=c05"], name="actor-exchange",
                          nontrivial=lambda c, r: "D:1:" in c or "S:1:" in c)
        # the poller's own exchange code (get_state, diff, handle_removals, fetch + handle_modified) between
        # real nodes whose operations span several forgiveness periods: cut-offs move, sources matter
        ck.correspondence("hx-cluster", "cluster", "hx-ec", extra_args=["focus=c05"], name="cluster-exchange",
                          nontrivial=lambda c, r: " X:" in c or " XR:" in c or " XM:" in c)
    run_orswot_check(
        ck, "Properties/C05.v", "c05", nontrivial,
        rule="cases = pairs of replicas (OrSWotSet<2>) built from one history of <= 3 (4) distinct-stamp operations over 3 keys, "
             "every pair of subsets (a x b), once within one forgiveness period and once stretched beyond it; random larger "
             "pairs. For each pair: diff(a,b), then a repaired by removals-then-modifications and by modifications-then-removals "
             "on the read-repair source, diff again, and the symmetric exchange on b; all compared with the model. Oracle on the "
             "implementation: the difference equals the property's own characterisation computed from public observables; after "
             "applying it in either batch order or interleaved, with no listed operation refused, nothing is left to fetch; "
             "after a mutual exchange within one period both replicas have identical contents. non-trivial = distinct pairs "
             "with a non-empty difference",
        assumptions=[
            "both replicas satisfy the set invariant (reachable from empty); the peer's stamps are valid with tick >= 1",
            "repair is claimed when every listed operation is accepted at arrival (within one forgiveness period or gap-free); "
            "the actor-level path (Diff message, MultiDel/MultiSet) is covered by C02/C01",
        ])
