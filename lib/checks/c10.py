"""C10 — timestamp encoding is lossless and order-preserving; parsing never panics."""
import vcheck as V

TRUSTED = [
    "Coq 8.16.1 kernel (coqc; coqchk re-check in the thorough tier); vm_compute used for the three "
    "finite field sweeps (256/65536/256 values) and the examples; no native_compute",
    "axioms: none (Print Assumptions: Closed under the global context for every C10 theorem)",
    "hand-written model coq/core/Ts.v of datacake-crdt/src/timestamp.rs (pack, accessors, Display, FromStr, "
    "archived little-endian form); tied to the code by the differential executor hx-ts",
    "extraction: ExtrOcamlBasic only (bool, option, unit, list, prod, sumbool, sumor, andb/orb); OCaml 4.13.1; "
    "ocaml/core/conv.ml + modelrun.ml (hex parsing/printing)",
    "Rust executor harness/hx-crdt/src/bin/hx-ts.rs (generators, property oracle), rkyv's archived u64 "
    "is modelled as 8 little-endian bytes (archive_le feature)",
]

PINS = [
    ("datacake-crdt/src/timestamp.rs", r"TIMESTAMP_MAX: u64 = (\(1 << 32\) - 1);", "(1<<32)-1", "TIMESTAMP_MAX"),
    ("datacake-crdt/src/timestamp.rs", r"\(seconds << (\d+)\) \| \(fractional << \d+\)", "32", "pack shift seconds"),
    ("datacake-crdt/src/timestamp.rs", r"\(fractional << (\d+)\) \| \(counter << \d+\)", "24", "pack shift fractional"),
    ("datacake-crdt/src/timestamp.rs", r"\(counter << (\d+)\) \| node", "8", "pack shift counter"),
    ("datacake-crdt/src/timestamp.rs", r'"(\{\}-\{:0>4\}-\{:0>4X\}-\{:0>4\})"', "{}-{:0>4}-{:0>4X}-{:0>4}", "Display format"),
]


def nontrivial(case, result):
    # non-trivial: anything but a comparison of unrelated random words
    return not case.startswith("cmp ") or result == "1"


def run(ck):
    ck.proof_leg("core", "Properties/C10.v")
    ok, out = V.build_model("core")
    if not ok:
        ck.log("model build failed\n" + out[-3000:])
        ck.proof["broken"].append({"file": "Extract.v", "log": out[-2000:]})
    okh, outh = V.build_harness(["hx-crdt", "hx-store"])
    if not okh:
        ck.log("harness build failed\n" + outh[-3000:])
        ck.broken_correspondence("ts", "the executor no longer builds against /repo: " + outh[-1500:], [])
    bad = V.pin_constants(PINS)
    if bad:
        ck.broken_correspondence("ts-constants", "constants pinned from the source changed: %s" % bad, [])
    if ok and okh:
        for f in V.corpus_files("C10") if not ck.replay else []:
            ck.correspondence("hx-ts", "ts", "hx-crdt", extra_args=["--replay", f], name="ts-corpus", nontrivial=nontrivial)
        ck.correspondence("hx-ts", "ts", "hx-crdt", nontrivial=nontrivial)
        # the text form is what the SQLite backend stores: rows whose stamp column holds arbitrary text
        # must be readable exactly when the text parses, an error (never a panic) otherwise
        ck.correspondence("hx-rows", "rows", "hx-store", nontrivial=lambda c, r: "err" in r)
    ck.finish(
        level="proof",
        rule="cases = boundary grid (5 sec x 12 ms x 6 cnt x 4 node, exhaustive) through every API "
             "(new/accessors/as_u64/from_u64/to_string/from_str/archive+cast), random valid stamps, random u64 words, "
             "order on grid and neighbour pairs, mutated/malformed text; rows of the SQLite backend whose stamp column holds "
             "well-formed, out-of-range or junk text, read through get and iter_metadata (hx-rows: readable exactly when the "
             "model's parse accepts the text, an error otherwise, never a panic, the storage keeps serving); every case is run on the extracted Coq model "
             "and on datacake_crdt::HLCTimestamp and compared; non-trivial = distinct (case,result) pairs other than "
             "a false comparison of two unrelated words",
        trusted_base=TRUSTED,
        assumptions=[
            "Duration inputs are (whole seconds, sub-second milliseconds); nanoseconds below a millisecond are discarded "
            "by subsec_millis (randomised in the executor)",
            "text is a byte string; the parser only splits on ASCII '-' and accepts ASCII digits",
        ],
    )
