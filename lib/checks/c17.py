"""C17 — every bundled storage backend (MemStore, SQLite, LMDB) behaves like the reference key-value model."""
import os
import re

import vcheck as V

TRUSTED = [
    "Coq 8.16.1 kernel (coqc; coqchk re-check in the thorough tier) for the theorems about the REFERENCE model "
    "coq/storage/StoreRef.v (std++ gmap); vm_compute only in the two refutation witnesses and the example; no native_compute",
    "axioms: none (Print Assumptions: Closed under the global context for every C17 theorem)",
    "the reference model is hand-written from the documented contract of the Storage trait "
    "(datacake-eventual-consistency/src/storage.rs); it is NOT derived from the backends: SQLite, LMDB and MemStore are tied "
    "to it only by differential execution (hx-store), i.e. by the cases that were run",
    "extraction: ExtrOcamlBasic only; OCaml 4.13.1; ocaml/storage/conv.ml + modelrun.ml (parsing, sorting, printing); "
    "the payload type is a type parameter of the model (no Storage call inspects the bytes), instantiated with the payload "
    "descriptor; the executor maps returned bytes back to a descriptor by exact byte comparison",
    "Rust executor harness/hx-store/src/bin/hx-store.rs: generators, canonicalisation, and the property oracle "
    "(a BTreeMap reference written independently of the extracted model)",
    "the SQLite and LMDB engines themselves (bundled libsqlite3 via rusqlite 0.28, LMDB via heed 0.20.0-alpha.9), the "
    "file system; durability against power loss / process kill is not exercised (close = orderly drop of the handle)",
]

ASSUMPTIONS = [
    "calls allowed by the Storage contract: remove_tombstones names only ids that are tombstones or absent "
    "(Coq: allowed / allowed_run; the generators never emit another call and the model prints `na` if one slips through)",
    "keyspace lists are compared modulo keyspaces that hold no entry: the three backends legitimately differ there "
    "(LMDB lists a keyspace after any access, even a read; SQLite forgets one when its last row is removed; MemStore lists "
    "it after the first write). Checked per backend: the raw list has no duplicates, names only keyspaces of the case, "
    "contains every keyspace holding an entry, and a fresh database lists nothing",
    "multi_get is compared as a set of documents (the contract promises neither an order nor a multiplicity); whether a "
    "backend answered in request order is only counted (counter multi_get_not_in_request_order)",
    "calls are issued sequentially from one task (the trait's behaviour under concurrent callers is not part of C17)",
    "stamps are valid HLCTimestamps built with HLCTimestamp::new (SQLite stores the Display text; a word with fraction "
    "> 249 is not a stamp any clock produces)",
    "close+reopen = drop the handle, wait until the background thread has closed the SQLite connection (the -wal/-shm "
    "files disappear) resp. the LMDB environment (heed's EnvClosingEvent; the executor asks heed for the close, keeps a clone of the environment until "
    "the backend's task thread has exited and drops the last clone itself, so that mdb_env_close never runs under that thread's exit), "
    "open the same path again, all in one process; "
    "a child process is not needed because heed removes the environment from its per-process table on the real mdb_env_close",
    "every case keeps the stored volume far below LMDB's fixed 10 MiB map (DEFAULT_MAP_SIZE in datacake-lmdb/src/db.rs): "
    "at most three 1 MiB payloads per case, thorough tier only",
    "three keyspace names (alpha, beta_2, gamma-tomb); ids at the u64 boundaries 0, 1, 2^63-1, 2^63, 2^64-1 plus two "
    "random ids per case; exotic keyspace names (empty, > 511 bytes, NUL) are not in the quantifier",
]

RULE = (
    "one case = one backend (mem | sqlm = SQLite :memory: | sqlf = SQLite file | lmdb) + one contract-allowed call sequence; "
    "after EVERY call (and once on the fresh store) get_keyspace_list, iter_metadata, get for every id of the case's "
    "universe and multi_get of the universe are evaluated on all three keyspaces, canonicalised (sorted; keyspace list "
    "modulo keyspaces without entries) and compared (a) with the extracted Coq reference run on the same case and (b) by "
    "the executor's own oracle (BTreeMap reference, frame rule against the backend's previous observation, reopen changes "
    "nothing, no call errs or panics, returned bytes identical). Streams: corpus; bounded-exhaustive = every allowed "
    "sequence of length <= 2 (quick) / <= 3 (thorough) over {put, tombstone, remove one id; bulk put/tombstone/remove both "
    "ids; reopen} x keyspaces {0,2} x ids {0, 2^63} with stamps descending then ascending; a random sample of the length-3 "
    "sequences (quick); 250 (quick) / 2500 (thorough) random sequences of 3-14 (quick) / 3-24 (thorough) calls, each run on all four backends, over 3 keyspaces, boundary ids, payloads "
    "{empty, 1 B, 2-15 B, 4 KiB, 1 MiB (thorough)}, boundary stamps, bulk calls with repeated ids, reopen after any "
    "prefix; in half of the random cases keyspace 2 is first touched by a tombstone. non-trivial = distinct (case, result) "
    "pairs with >= 2 calls whose observations contain both a tombstone row and a live document. Component rows (hx-rows, "
    "shared with C10): SQLite only; a multi_put of 1-5 rows of which one (first, middle or last) is refused by the engine "
    "(a trigger on state_entries): the call errs, none of its rows is stored and the next put/get on the same handle is served"
)


def nontrivial(case, result):
    if len(case.split()) < 4:
        return False
    return bool(re.search(r"M\d=[^ ]*:1(,| )", result)) and bool(re.search(r"Q\d=[0-9a-f]", result))


def run(ck):
    ck.proof_leg("storage", "Properties/C17.v")
    ok, out = V.build_model("storage")
    if not ok:
        ck.log("model build failed\n" + out[-3000:])
        ck.proof["broken"].append({"file": "Extract.v", "log": out[-2000:]})
    okh, outh = V.build_harness(["hx-store"])
    if not okh:
        ck.log("harness build failed\n" + outh[-3000:])
        ck.broken_correspondence("store", "the executor no longer builds against /repo: " + outh[-1500:], [])
    scratch = os.path.join(ck.work, "scratch")
    extra = ["scratch=" + scratch]
    main_extra = list(extra)
    # Optional stream, switched on by the known-findings entry itself: stamps that are arbitrary u64 words
    # (fraction byte > 249, which no clock produces).  SQLite stores a stamp's Display text and returns such a
    # word normalised (or fails to read the row); MemStore and LMDB return it unchanged.  The executor files these
    # failures under the class <backend>-noncanonical-stamp (decidable: the case contains such a word and the
    # backend is SQLite).
    if any(k.get("class") == "sqlite-noncanonical-stamp" and k.get("status") == "known" for k in ck.known):
        main_extra.append("noncanonical=%d" % (400 if ck.tier == "thorough" else 60))
    if ok and okh:
        if not ck.replay:
            for f in V.corpus_files("C17"):
                nm = "corpus-" + os.path.basename(f).rsplit(".", 1)[0]
                ck.correspondence("hx-store", "store", "hx-store", model_project="storage",
                                  extra_args=extra + ["--replay", f], name=nm, nontrivial=nontrivial)
        ck.correspondence("hx-store", "store", "hx-store", model_project="storage",
                          extra_args=main_extra, nontrivial=nontrivial, name="store")
        # a refused row in the middle of a bulk write on the SQLite backend (hx-rows, `bulk` cases): the contract
        # "a failed bulk call wrote exactly the ids it reports" (here: none) and the store keeps serving
        if V.build_model("core")[0]:
            ck.correspondence("hx-rows", "rows", "hx-store", nontrivial=lambda c, r: "err" in r, name="rows")
    if os.path.isdir(scratch):
        import shutil
        shutil.rmtree(scratch, ignore_errors=True)
    exhaustive_cases = sum(c.get("stats", {}).get("exhaustive_cases", 0) for c in ck.corr["components"].values()
                           if isinstance(c, dict))
    ck.finish(
        level="translation_validation",
        rule=RULE,
        trusted_base=TRUSTED,
        assumptions=ASSUMPTIONS,
        explanation=(
            "C17 is decided by a differential: each backend is run next to the reference on generated call sequences and "
            "every observer is compared after every call. The Coq theorems (all states, all call sequences, any payload "
            "type) are about the reference only - frame rule, get-after-put, last write wins, metadata = last write per "
            "id, reopen = identity, observations determined by the per-id last write, an allowed purge removes no "
            "document - so that 'agrees with the reference' has a proved meaning; they do not by themselves say anything "
            "about SQLite, LMDB or MemStore. Agreement of the backends is established only on the cases run "
            "(bounded-exhaustive for short sequences over a small alphabet, random beyond)."),
        extra={
            "programs": ck.corr["evaluations"],
            "disagreements_checked": ck.corr["divergences"] + ck.corr["oracle_failures"],
            "bounded_exhaustive_cases": exhaustive_cases,
            "exhaustive_note": "the short-sequence stream is a complete enumeration of its stated alphabet and length; "
                               "the check as a whole is not exhaustive",
        },
    )
