"""C13 — a message is served exactly when its service is currently registered."""
import vcheck as V

TRUSTED = [
    "Coq 8.16.1 kernel (coqc; coqchk re-check in the thorough tier); vm_compute only in the two witness lemmas "
    "(legacy refutation, accumulation) and the non-vacuity example; no native_compute",
    "axioms: none (Print Assumptions: Closed under the global context for every C13 theorem)",
    "hand-written model coq/registry/Registry.v of datacake-rpc/src/server.rs (ServerState::add_handlers / "
    "remove_handlers / get_handler), handler.rs (ServiceRegistry::add_handler / into_handlers) and the dispatch in "
    "net/server.rs (try_handle_request); BTreeMap/BTreeSet are association lists / key lists; tied to the code by "
    "the differential executor hx-registry",
    "the handler key hash(to_uri_path(service, path)) is a universally quantified function of the theorems, assumed "
    "injective on the (service, message) pairs in use; the executor re-computes the key (DefaultHasher over the "
    "sanitised URI, as datacake_rpc::hash does) for its 12 pairs and fails on a collision",
    "extraction: ExtrOcamlBasic only; OCaml 4.13.1; ocaml/registry/conv.ml + modelrun.ml (hex parsing/printing); the "
    "executable model instantiates the key with demo_key s m = s*2^32+m (proved injective for m < 2^32)",
    "Rust executor harness/hx-rpc/src/bin/hx-registry.rs (generators, service/message universe, property oracle); "
    "in-process transport datacake_rpc::Server::verif_local (cargo feature verif-hooks): the request passes the real "
    "client encoding, handle_connection/try_handle_request, the registered PhantomHandler and the status reply, "
    "but no socket and no hyper HTTP/2 connection",
]

PINS = [
    ("datacake-rpc/src/server.rs", r"lock\.retain\(\|key, _\| (!uris\.contains\(key\))\);", "!uris.contains(key)",
     "remove_handlers retain predicate"),
    ("datacake-rpc/src/server.rs", r"(lock\.extend\(handlers\);)", "lock.extend(handlers);", "add_handlers extends the handler map"),
    ("datacake-rpc/src/server.rs", r"lock\.get\(&crate::hash\((uri)\)\)\.cloned\(\)", "uri", "get_handler looks up hash(uri)"),
    ("datacake-rpc/src/lib.rs", r'format!\("(/\{\}/\{\})", sanitise\(service\), sanitise\(path\)\)', "/{}/{}", "URI shape"),
]


def nontrivial(case, result):
    # non-trivial: the history removes a service at least once and at least one request is served at the end
    toks = case.split()
    has_remove = any(t.startswith("-") for t in toks[3:])
    last = result.split(" | ")[-1]
    return has_remove and any(e != "-" for e in last.split())


# Values that Coq computes with vm_compute inside Properties/C13.v (C13_nonvacuous,
# C13_legacy_remove_refuted, C13_same_name_accumulates); the extracted OCaml model must print
# the same, so extraction is not blindly trusted.
CROSS = [
    ("end 4 3 +0,0.1,1 +1,0.2,2 -0 +2,0.1,3 +2,1.2,4 +0,0.1,5 -1 -3", "5:0 5:1 - - - - 3:0 4:1 4:2 - - -"),
    ("spec 4 3 +0,0.1,1 +1,0.2,2 -0 +2,0.1,3 +2,1.2,4 +0,0.1,5 -1 -3", "5:0 5:1 - - - - 3:0 4:1 4:2 - - -"),
    ("lend 2 1 +0,0,1 +1,0,2 -0", "1:0 -"),
    ("spec 2 1 +0,0,1 +1,0,2 -0", "- 2:0"),
    ("end 1 2 +0,0,1 +0,1,2", "1:0 2:1"),
    ("end 1 2 +0,0,1 +0,1,2 -0", "- -"),
]


def extraction_crosscheck(ck):
    import os
    import subprocess
    mr = os.path.join(V.OCAML, "registry", "_build", "default", "modelrun.exe")
    inp = "".join(c + "\n" for c, _ in CROSS).encode()
    p = subprocess.run([mr, "registry"], input=inp, stdout=subprocess.PIPE, stderr=subprocess.PIPE, timeout=60)
    got = p.stdout.decode().splitlines()
    bad = [{"case": c, "model": g, "impl": "(vm_compute in Properties/C13.v) " + e}
           for (c, e), g in zip(CROSS, got + [""] * len(CROSS)) if g != e]
    if p.returncode != 0 or bad:
        ck.broken_correspondence("registry-extraction", "the extracted model disagrees with the values Coq computed "
                                 "by vm_compute in Properties/C13.v", bad)
    ck.log("extraction cross-check: %d/%d values agree with vm_compute" % (len(CROSS) - len(bad), len(CROSS)))
    return len(CROSS) - len(bad)


def run(ck):
    ck.proof_leg("registry", "Properties/C13.v")
    ok, out = V.build_model("registry")
    if not ok:
        ck.log("model build failed\n" + out[-3000:])
        ck.proof["broken"].append({"file": "Extract.v", "log": out[-2000:]})
    okh, outh = V.build_harness(["hx-rpc"])
    if not okh:
        ck.log("harness build failed\n" + outh[-3000:])
        ck.broken_correspondence("registry", "the executor no longer builds against /repo: " + outh[-1500:], [])
    bad = V.pin_constants(PINS)
    if bad:
        ck.notes.append("source patterns the model transcribes were not found verbatim (the differential run below "
                        "decides whether behaviour changed): %s" % bad)
        ck.log("note: pinned source patterns changed: %s" % bad)
    cross = extraction_crosscheck(ck) if ok else 0
    if ok and okh:
        if ck.replay:
            # a replay written by a corpus run carries that run's component name
            import json
            comp = json.load(open(ck.replay)).get("component") or "registry"
            if comp == "registry-extraction":
                pass  # re-checked by extraction_crosscheck above
            else:
                ck.correspondence("hx-registry", "registry", "hx-rpc", model_project="registry",
                                  name=comp if comp.startswith("registry") else "registry", nontrivial=nontrivial)
        else:
            import os
            for f in V.corpus_files("C13"):
                ck.correspondence("hx-registry", "registry", "hx-rpc", model_project="registry",
                                  extra_args=["--replay", f], nontrivial=nontrivial,
                                  name="registry-corpus-" + os.path.basename(f).split(".")[0])
            ck.correspondence("hx-registry", "registry", "hx-rpc", model_project="registry", nontrivial=nontrivial)
    stats = ck.corr["components"].get("registry", {}).get("stats", {})
    ck.finish(
        level="proof",
        rule="case = a history of add_service/remove_service calls on a running datacake_rpc::Server (in-process "
             "transport) over 4 service names (two default-named sharing message M0, one custom name shared by two "
             "Rust types registering different message sets, one never added) x 3 message types; after the history "
             "(kind end) or after each operation (kind each) an RpcClient sends one request per (service, message) "
             "pair and the reply (which instance's handler answered / refused as unknown service) is compared with "
             "the extracted Coq model; the property oracle (registration table: added and not removed since) and the "
             "two corollary clauses around every remove are evaluated on the implementation's replies. Exhaustive: "
             "every history over the 8-operation alphabet up to length %s probed at the end (%s histories) and up to "
             "length %s probed after each operation (%s); then %s random histories of length 6..40. non-trivial = "
             "distinct (case,result) whose history contains a removal and whose final table serves at least one request"
             % (stats.get("exhaustive_max_len", "?"), stats.get("exhaustive_histories_probed_at_end", "?"),
                stats.get("exhaustive_each_len", "?"), stats.get("exhaustive_histories_probed_after_each_op", "?"),
                stats.get("random_histories", "?")),
        trusted_base=TRUSTED,
        assumptions=[
            "the 64-bit handler key (SipHash of the sanitised URI) is injective on the (service, message) pairs in use; "
            "two names that differ only in '<' / '>' versus '-' collide by construction of sanitise and are outside "
            "the theorems (stated residual)",
            "operations on one server are applied one after another (add_service/remove_service take the two locks "
            "separately; a request racing with a registry change is not modelled)",
            "a service name added by two Rust types with different message sets accumulates handlers until the name is "
            "removed (C13_same_name_accumulates): 'the last operation on the name decides' needs the uniformity "
            "hypothesis, 'added and not removed since' does not",
        ],
        extra={"extraction_vs_vm_compute_agree": cross, "bounded_exhaustive": {
            "alphabet": stats.get("alphabet"),
            "histories_probed_at_end": stats.get("exhaustive_histories_probed_at_end"),
            "max_len_probed_at_end": stats.get("exhaustive_max_len"),
            "histories_probed_after_each_op": stats.get("exhaustive_histories_probed_after_each_op"),
            "len_probed_after_each_op": stats.get("exhaustive_each_len"),
            "note": "all alphabet^k histories for k up to the stated bounds are enumerated (complete for that "
                    "bound); longer histories are sampled, hence coverage.exhaustive stays false"}},
    )
