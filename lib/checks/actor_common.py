"""Shared driver for the properties decided on coq/core/Actor.v + hx-actor (C02, C07)."""
import vcheck as V

TRUSTED = [
    "Coq 8.16.1 kernel (coqc; coqchk in the thorough tier); vm_compute only in legacy refutations and non-vacuity examples",
    "axioms: none expected (Print Assumptions must report Closed under the global context for every theorem)",
    "hand-written model coq/core/Actor.v of the keyspace actor handlers (on_set/on_multi_set/on_del/on_multi_del/"
    "on_purge_tombstones) and of load_states_from_storage, over the set model Orswot.v and a reference store of one keyspace; "
    "each handler is one atomic transition (puppet actors handle one message at a time)",
    "the storage outcome of every request is an explicit argument (success / failure without a write / partial bulk failure "
    "that wrote any sub-sequence and reports exactly those ids): the Storage contract for successful_doc_ids is assumed",
    "extraction: ExtrOcamlBasic only; OCaml driver ocaml/core/modelrun.ml (run_actor)",
    "Rust executor harness/hx-ec (hx-actor): the real KeyspaceActor through the verif-hooks re-exports on a fault-injecting "
    "wrapper around MemStore; set observed as a peer would fetch it (Serialize + decode), store through iter_metadata/get",
]

PINS = [
    ("datacake-eventual-consistency/src/keyspace/messages.rs", r"NUM_SOURCES: usize = (\d+);", "2", "NUM_SOURCES"),
    ("datacake-eventual-consistency/src/keyspace/mod.rs", r"CONSISTENCY_SOURCE_ID: usize = (\d+);", "0", "CONSISTENCY_SOURCE_ID"),
    ("datacake-eventual-consistency/src/keyspace/mod.rs", r"READ_REPAIR_SOURCE_ID: usize = (\d+);", "1", "READ_REPAIR_SOURCE_ID"),
    ("datacake-crdt/src/orswot.rs", r"Duration::from_secs\(0\)\s*\} else \{\s*Duration::from_secs\(([\d_]+)\)", "3600", "FORGIVENESS_PERIOD"),
]


def run_actor_check(ck, prop_file, focus, nontrivial, rule, assumptions, extra_runs=(), extra_trusted=()):
    pid = ck.pid
    ck.proof_leg("core", prop_file)
    ok, out = V.build_model("core")
    if not ok:
        ck.log("model build failed\n" + out[-3000:])
        ck.proof["broken"].append({"file": "Extract.v", "log": out[-2000:]})
    okh, outh = V.build_harness(["hx-ec"] + sorted({pkg for _, _, pkg, _ in extra_runs}))
    if not okh:
        ck.log("harness build failed\n" + outh[-3000:])
        ck.broken_correspondence("actor", "the executor no longer builds against /repo: " + outh[-1500:], [])
    bad = V.pin_constants(PINS)
    if bad:
        ck.broken_correspondence("actor-constants", "constants pinned from the source changed: %s" % bad, [])
    if ok and okh:
        if not ck.replay:
            for f in V.corpus_files(pid):
                ck.correspondence("hx-actor", "actor", "hx-ec", extra_args=["--replay", f], name="actor-corpus",
                                  nontrivial=nontrivial)
        ck.correspondence("hx-actor", "actor", "hx-ec", extra_args=["focus=" + focus], nontrivial=nontrivial)
        for exe, comp, pkg, nt in extra_runs:
            ck.correspondence(exe, comp, pkg, nontrivial=nt)
    ck.finish(level="proof", rule=rule, trusted_base=TRUSTED + list(extra_trusted), assumptions=assumptions)
