"""C15 — replica selection yields enough distinct live peers or reports too few."""
import vcheck as V

TRUSTED = [
    "Coq 8.16.1 kernel (coqc; coqchk re-check in the thorough tier); vm_compute only for the two refutation "
    "witnesses and the examples; no native_compute",
    "axioms: none (Print Assumptions: Closed under the global context for every C15 theorem)",
    "hand-written model coq/selector/Selector.v of datacake-node/src/nodes_selector.rs (NodeCycler::next, select_n_nodes "
    "with all counters and the D7 top-up, the five other levels, the actor's SetNodes/GetNodes/cache); tied to the code "
    "by the differential executor hx-selector",
    "extraction: ExtrOcamlBasic only; OCaml 4.13.1; ocaml/selector/conv.ml + modelrun.ml (case parsing, search for the "
    "choose_multiple result that explains the implementation's answer; every printed line is the model's own output "
    "under a choice accepted by the extracted choice_okb)",
    "Rust executor harness/hx-selector/src/bin/hx-selector.rs (generators, property oracle); rand's choose_multiple is "
    "modelled as an arbitrary arrangement of n different candidate data centres; the 2 s cache (std::time::Instant) "
    "as 'same answer until set_nodes or an expiry event'",
]

PINS = [
    ("datacake-node/src/nodes_selector.rs", r"NODE_CACHE_TIMEOUT: Duration = Duration::from_secs\((\d+)\);", "2",
     "cache timeout (the executor pauses 2.1 s to expire it and trusts hits below 1.9 s)"),
    ("datacake-node/src/nodes_selector.rs", r"let majority = total_nodes / (\d+);", "2", "Quorum majority"),
    ("datacake-node/src/nodes_selector.rs", r"num_extra_nodes / cmp::max\((dc_count - 1, 1)\)", "dc_count-1,1",
     "extra nodes per data centre"),
]


def nontrivial(case, result):
    # non-trivial: at least one One/Two/Three answer after an earlier selection moved a cursor,
    # or an actor sequence with a membership update followed by a selection
    if case.startswith("a "):
        return case.count(" s ") + case.count(" w ") >= 2
    return sum(case.count(" %s " % l) for l in ("one", "two", "three")) >= 2


def run(ck):
    ck.proof_leg("selector", "Properties/C15.v")
    ok, out = V.build_model("selector")
    if not ok:
        ck.log("model build failed\n" + out[-3000:])
        ck.proof["broken"].append({"file": "Extract.v", "log": out[-2000:]})
    okh, outh = V.build_harness(["hx-selector"])
    if not okh:
        ck.log("harness build failed\n" + outh[-3000:])
        ck.broken_correspondence("selector", "the executor no longer builds against /repo: " + outh[-1500:], [])
    bad = V.pin_constants(PINS)
    if bad:
        ck.broken_correspondence("selector-constants", "constants pinned from the source changed: %s" % bad, [])
    if ok and okh:
        for f in V.corpus_files("C15") if not ck.replay else []:
            ck.correspondence("hx-selector", "selector", "hx-selector", model_project="selector",
                              extra_args=["--replay", f], name="selector-corpus", nontrivial=nontrivial)
        ck.correspondence("hx-selector", "selector", "hx-selector", model_project="selector",
                          nontrivial=nontrivial)
    ck.finish(
        level="proof",
        rule="cases = (1) trait histories: DCAwareSelector.select_nodes called repeatedly on one map of NodeCyclers "
             "(cursors persist): bounded-exhaustive over all layouts of <= 3 DCs x 1..3 nodes and 4 DCs x 1..2 nodes, every "
             "local position, all 8^3 histories of three selections (153 600 histories = 460 800 selections; shorter "
             "histories are prefixes); bounded-exhaustive outside the premises (empty DCs, local node absent or listed "
             "under a foreign DC, unknown local DC; 33 600 two-step histories); random layouts <= 6 DCs x 6 nodes with "
             "histories <= 8; (2) the actor through start_node_selector/set_nodes/get_nodes: every ordered pair of the 27 "
             "layouts over DCs 0..2 x {absent,1,2 nodes} for two local positions with all levels queried before and after "
             "the update plus cache hits (1 458 sequences), random set/get sequences with nodes moving between DCs, and "
             "real 2.1 s pauses for cache expiry; (3) the membership reaching the selector as it does in a running node: "
             "snapshots (1..3 DCs x 1..4 nodes, every local position, then one node more, then back) handed to the real "
             "watch_membership_changes task, all levels queried after each - the model is given the membership itself, so a "
             "watcher that hands the selector anything but every member (the local node included) under its data centre "
             "diverges and fails the count clauses. Every case runs on the extracted Coq model and on /repo and the answers "
             "(node lists in order, NotEnoughNodes{live,required}) are compared; the random choose_multiple result is "
             "recovered by the model driver by search over all arrangements the model allows (existential refinement). "
             "non-trivial = history with >= 2 One/Two/Three selections (cursor-dependent) or actor sequence with >= 2 "
             "membership updates",
        trusted_base=TRUSTED,
        assumptions=[
            "addresses of a layout are pairwise different (theorem hypothesis NoDup (lnodes l); the harness generates only such)",
            "count clauses (>= required, exactly n, error only when too few): the local node is listed under its own data "
            "centre and total_nodes is the member count - the layout the membership watcher builds (checked by the "
            "watcher cases of the executor); the which-nodes clauses need neither",
            "required(level): n for One/Two/Three; floor(total/2) for Quorum; floor(|local DC|/2) for LocalQuorum; all other "
            "nodes for All; for EachQuorum floor(|DC|/2) in the local DC plus min(|DC|, floor(|DC|/2)+1) in every other DC "
            "(the code's own definitions; the local node counts as the +1)",
            "choose_multiple returns n pairwise different candidate data centres in some order (rand's reservoir sampling)",
            "the cache is abstracted as 'same answer until set_nodes or an expiry event'; the executor decides cache hits by "
            "its own Instant measurements (hit trusted below 1.9 s, expiry forced by a 2.1 s pause; a case is retried if the "
            "machine stalls)",
            "usize subtractions are modelled as truncated nat subtraction; none can underflow under the theorem premises "
            "(a panic or wrap would show as a divergence / a 'panic' oracle failure in the sweeps)",
        ],
        explanation="General (unbounded) proofs: all layouts, all cursor values, all levels, all choices. "
                    "D6 and D7 were found by this check on the unfixed code and repaired (see known_findings).",
    )
