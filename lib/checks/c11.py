"""C11 — node clock serialises concurrent callers: no duplicate or regressing stamps."""
import vcheck as V

TRUSTED = [
    "Coq 8.16.1 kernel (coqc; coqchk in the thorough tier); vm_compute only in the example",
    "axioms: none expected (Print Assumptions must report Closed under the global context for every theorem)",
    "hand-written model coq/core/Hlc.v: send/recv (C09) and the clock actor as a fold over ONE request queue; the bounded flume "
    "channel is assumed to deliver each sender's requests in order (so the queue is an order-preserving merge of the tasks' sequences)",
    "extraction: ExtrOcamlBasic only; OCaml driver ocaml/core/modelrun.ml (run_clock)",
    "Rust executor harness/hx-ec (hx-clock): the real datacake_node::Clock on current-thread and 4-thread runtimes with the "
    "verif-hooks wall-clock override",
]

PINS = [
    ("datacake-crdt/src/timestamp.rs", r"MAX_CLOCK_DRIFT: Duration = Duration::from_secs\(([\d_]+)\)", "4100", "MAX_CLOCK_DRIFT"),
]


def nontrivial(case, result):
    return case.startswith("conc") or case.startswith("mix") or (" r:" in case and "panic" not in result)


def run(ck):
    ck.proof_leg("core", "Properties/C11.v")
    ok, out = V.build_model("core")
    if not ok:
        ck.log("model build failed\n" + out[-3000:])
        ck.proof["broken"].append({"file": "Extract.v", "log": out[-2000:]})
    okh, outh = V.build_harness(["hx-ec"])
    if not okh:
        ck.log("harness build failed\n" + outh[-3000:])
        ck.broken_correspondence("clock", "the executor no longer builds against /repo: " + outh[-1500:], [])
    bad = V.pin_constants(PINS)
    if bad:
        ck.broken_correspondence("clock-constants", "constants pinned from the source changed: %s" % bad, [])
    if ok and okh:
        if not ck.replay:
            for f in V.corpus_files("C11"):
                ck.correspondence("hx-clock", "clock", "hx-ec", extra_args=["--replay", f], name="clock-corpus", nontrivial=nontrivial)
        ck.correspondence("hx-clock", "clock", "hx-ec", nontrivial=nontrivial)
    ck.finish(
        level="proof",
        rule="cases = (a) one task issuing random sequences of get_time / register_ts with stalled, backward and forward wall clocks, "
             "remote stamps on the same tick, at and beyond the drift limit, from the same node, counters at 65534/65535: every "
             "returned stamp (or the actor's death) is compared with the model's clock actor exactly; (b) 2-8 tasks x 200-1000 "
             "get_time calls on a stalled wall clock (forces the counter path) on current-thread and 4-thread runtimes: the set of "
             "replies must equal the model's replies for that many requests, the oracle checks pairwise distinctness and per-task "
             "increase; (c) tasks mixing get_time and register_ts: oracle only (distinct, per-task increasing, greater than every "
             "stamp the task registered before). non-trivial = concurrent cases and sequential cases with an accepted registration",
        trusted_base=TRUSTED,
        assumptions=[
            "flume delivers each sender's requests in order; the actor processes one request at a time",
            "wall clock <= (2^32-1) s after the datacake epoch; registered stamps are valid",
            "the linearisation check on the real runtime is testing: the theorems cover every order-preserving merge of the "
            "callers' sequences, the executor samples the ones tokio produces",
        ])
