"""Shared driver for the properties decided on coq/core/Orswot.v + hx-orswot."""
import vcheck as V

TRUSTED = [
    "Coq 8.16.1 kernel (coqc; coqchk in the thorough tier); vm_compute only in legacy refutations and non-vacuity examples",
    "axioms: none expected (Print Assumptions must report Closed under the global context for every theorem)",
    "hand-written model coq/core/Orswot.v of OrSWotSet<N> (NodeVersions, try_update_max_stamp, insert/delete_with_source, "
    "will_apply, diff, purge_old_deletes, merge; BTreeMap/HashMap as std++ gmap), tied to orswot.rs by the differential "
    "executor hx-orswot",
    "extraction: ExtrOcamlBasic only; OCaml driver ocaml/core/modelrun.ml (run_orswot); a sample of the single-set cases of "
    "every run is re-evaluated with vm_compute inside Coq (CrossCheck.v) and must reproduce the extracted model's outputs",
    "only public-API observables are compared: return values, will_apply, get, diff, purge_old_deletes' return, "
    "OrSWotSet::default().diff(&s) (entries and tombstones), will_apply probes on a fresh key (the cut-off)",
]

PINS = [
    ("datacake-crdt/src/orswot.rs", r"Duration::from_secs\(0\)\s*\} else \{\s*Duration::from_secs\(([\d_]+)\)", "3600", "FORGIVENESS_PERIOD"),
]


def run_orswot_check(ck, prop_file, mode, nontrivial, rule, assumptions, level="proof", extra_trusted=()):
    pid = ck.pid
    ck.proof_leg("core", prop_file)
    ok, out = V.build_model("core")
    if not ok:
        ck.log("model build failed\n" + out[-3000:])
        ck.proof["broken"].append({"file": "Extract.v", "log": out[-2000:]})
    okh, outh = V.build_harness(["hx-crdt"])
    if not okh:
        ck.log("harness build failed\n" + outh[-3000:])
        ck.broken_correspondence("orswot", "the executor no longer builds against /repo: " + outh[-1500:], [])
    bad = V.pin_constants(PINS)
    if bad:
        ck.broken_correspondence("orswot-constants", "constants pinned from the source changed: %s" % bad, [])
    if ok and okh:
        if not ck.replay:
            for f in V.corpus_files(pid):
                ck.correspondence("hx-orswot", "orswot", "hx-crdt", extra_args=["--replay", f, "mode=" + mode],
                                  name="orswot-corpus", nontrivial=nontrivial)
        ck.correspondence("hx-orswot", "orswot", "hx-crdt", extra_args=["mode=" + mode], nontrivial=nontrivial)
        if not ck.replay:
            # the extracted model and the OCaml driver are not blindly trusted: a sample of the cases is
            # re-evaluated by vm_compute inside Coq against the outputs the extracted model printed
            V.crosscheck_orswot(ck, "orswot", 600 if ck.tier == "thorough" else 150)
    ck.finish(level=level, rule=rule, trusted_base=TRUSTED + list(extra_trusted), assumptions=assumptions)
