"""C18 — a keyspace has one state, even when first used by many tasks at once."""
import os

import vcheck as V

TRUSTED = [
    "Coq 8.16.1 kernel (coqc; coqchk re-check in the thorough tier); induction over schedules / an invariant of the "
    "transition system for every theorem; vm_compute only for the legacy refutation witness and the examples; "
    "no native_compute",
    "axioms: none (Print Assumptions: Closed under the global context for every C18 theorem)",
    "hand-written model coq/keyspace/Keyspace.v of KeyspaceGroup::get_or_create_keyspace/add_state "
    "(datacake-eventual-consistency/src/keyspace/group.rs): atomic transitions = the read-locked lookup, the actor "
    "spawn, the group write-lock section, the keyspace_timestamps write-lock section, one mutation handled by the "
    "actor; tied to the code by the schedule-enumerating differential executor hx-keyspace",
    "atomicity of parking_lot::RwLock critical sections and one-message-at-a-time handling by a puppet actor "
    "(the model's atomic steps); flume/oneshot delivery; tokio current-thread scheduling between the hand-made polls",
    "extraction: ExtrOcamlBasic only (bool, option, unit, list, prod, sumbool, sumor, andb/orb); OCaml 4.13.1; "
    "ocaml/keyspace/conv.ml + modelrun.ml (hex parsing/printing)",
    "Rust executor harness/hx-keyspace/src/bin/hx-keyspace.rs (schedule generators, hand polling with a flag waker, "
    "property oracle); rkyv::from_bytes of the Serialize reply; OrSWotSet::diff against the empty set lists the live ids",
]

# What the model hard-codes about the code's shape: the await points of add_state, the two lock
# sections and their order, the hit path of the lookup, and that puppet's spawn helper has no await.
PINS = [
    ("datacake-eventual-consistency/src/keyspace/group.rs",
     r"pub async fn get_or_create_keyspace\(.*?\{\s*\{\s*let guard = self\.group\.(read)\(\);",
     "read", "lookup under the read lock"),
    ("datacake-eventual-consistency/src/keyspace/group.rs",
     r"pub async fn add_state\(.*?let ts = self\.clock\.(get_time\(\)\.await);",
     "get_time().await", "await point 1 (clock)"),
    ("datacake-eventual-consistency/src/keyspace/group.rs",
     r"pub async fn add_state\(.*?let state = super::(spawn_keyspace)\(",
     "spawn_keyspace", "await point 2 (spawn)"),
    ("datacake-eventual-consistency/src/keyspace/group.rs",
     r"pub async fn add_state\(.*?let mut guard = self\.(group)\.write\(\);.*?let mut guard = self\.keyspace_timestamps\.write\(\);",
     "group", "lock section A (group) before lock section B (timestamps)"),
    ("datacake-eventual-consistency/src/keyspace/actor.rs",
     r"ks\.(spawn_actor_with_name\(name\)\.await)",
     "spawn_actor_with_name(name).await", "spawn through puppet's helper"),
    ("Cargo.lock", r'name = "puppet"\nversion = "([0-9.]+)"', "0.4.0",
     "puppet version (its spawn helper contains no await, so the spawn never suspends)"),
]


def nontrivial(case, result):
    # non-trivial: a real race -- at least two tasks missed the lookup and spawned an actor
    # (each needed two polls inside get_or_create_keyspace)
    toks = result.split()
    if not toks or toks[0] != "polls":
        return False
    polls = []
    for t in toks[1:]:
        if t == "sets":
            break
        polls.append(t)
    return sum(1 for p in polls if p != "1") >= 2


def _coq_list(tok):
    return "[]" if tok == "-" else "[" + "; ".join(str(int(x, 16)) for x in tok.split(",")) + "]"


def cross_check_extraction(ck, n=60):
    """Evaluate a sample of the cases inside Coq (vm_compute) and compare with what the extracted
    OCaml model printed, so that extraction + driver are not trusted blindly."""
    d = os.path.join(ck.work, "keyspace")
    try:
        cases = open(os.path.join(d, "keyspace.cases")).read().splitlines()
        model = open(os.path.join(d, "keyspace.model")).read().splitlines()
    except OSError:
        return
    pairs = [(c, m) for c, m in zip(cases, model) if c.startswith("sched ") and m.startswith("polls ")]
    if not pairs:
        return
    step = max(1, len(pairs) // n)
    lines = ["From Coq Require Import List Arith Bool.", "From DC Require Import Keyspace.",
             "Import ListNotations."]
    cnt = 0
    for c, m in pairs[::step][:n]:
        ct = c.split()
        k = int(ct[1], 16)
        ps = "[" + "; ".join(str(int(x, 16)) for x in ct[2:]) + "]"
        mt = m.split()
        i_sets, i_final = mt.index("sets"), mt.index("final")
        polls = "[" + "; ".join(str(int(x, 16)) for x in mt[1:i_sets]) + "]"
        sets = "[" + "; ".join(_coq_list(x) for x in mt[i_sets + 1:i_final]) + "]"
        lines.append("Example x%d : outcome_of %d %s = mkOutcome %s %s %s %s.\nProof. vm_compute. reflexivity. Qed."
                     % (cnt, k, ps, polls, sets, _coq_list(mt[i_final + 1]), "true" if mt[-1] == "1" else "false"))
        cnt += 1
    path = os.path.join(ck.work, "CrossC18.v")
    with open(path, "w") as f:
        f.write("\n".join(lines) + "\n")
    rc, out = V.sh(["coqc", "-Q", os.path.join(V.COQ, "keyspace"), "DC", path], cwd=ck.work, timeout=600)
    ck.corr["components"]["extraction-cross-check"] = {"cases": cnt, "rc": rc}
    ck.log("extraction cross-check: %d cases re-evaluated by vm_compute inside Coq, rc=%d" % (cnt, rc))
    if rc != 0:
        ck.broken_correspondence("extraction-cross-check",
                                 "extracted OCaml model and vm_compute disagree: " + out[-1500:], [])


def run(ck):
    ck.proof_leg("keyspace", "Properties/C18.v")
    ok, out = V.build_model("keyspace")
    if not ok:
        ck.log("model build failed\n" + out[-3000:])
        ck.proof["broken"].append({"file": "Extract.v", "log": out[-2000:]})
    okh, outh = V.build_harness(["hx-keyspace"])
    if not okh:
        ck.log("harness build failed\n" + outh[-3000:])
        ck.broken_correspondence("keyspace", "the executor no longer builds against /repo: " + outh[-1500:], [])
    bad = V.pin_constants(PINS)
    if bad:
        ck.broken_correspondence("keyspace-shape", "the code shape the model hard-codes changed: %s" % bad, [])
    stats = None
    if ok and okh:
        for f in V.corpus_files("C18") if not ck.replay else []:
            ck.correspondence("hx-keyspace", "keyspace", "hx-keyspace", model_project="keyspace",
                              extra_args=["--replay", f], name="keyspace-corpus", nontrivial=nontrivial)
        stats = ck.correspondence("hx-keyspace", "keyspace", "hx-keyspace", model_project="keyspace",
                                  nontrivial=nontrivial)
        if stats:
            cross_check_extraction(ck)
    part = {}
    if stats:
        part = {"all_poll_orders_and_short_sequences_k_le_3": stats.get("exhaustive_cases_k_le_3", 0),
                "k4_poll_orders_run": stats.get("k4_orders_run", 0),
                "k4_poll_orders_total": stats.get("k4_orders_total", 0),
                "random_schedules": stats.get("random_cases", 0)}
    ck.finish(
        level="proof",
        rule="case = (k, order in which the k hand-polled futures of the real KeyspaceGroup::get_or_create_keyspace "
             "are polled; a task that holds a mailbox sends its one Set on its next turn); cases = every order of the "
             "3k polls for k=2 (20) and k=3 (1680) [k=4: all 369600 in the thorough tier, every 8th in the quick tier], every poll sequence of "
             "length <=7 (k=2) and <=5 (k=3) incl. truncated schedules and polls of finished tasks, then seeded random "
             "schedules with k in 2..6, then (oracle only, interleaving chosen by tokio) 250/2000 rounds each of k=2,4,8 "
             "spawned tasks on an 8-worker multi-thread runtime (every second round releases the k first users together through a barrier), and (oracle only) "
             "24 purge-tick cases: virtual time is advanced past the period of the group's background purge task once or twice between two uses of a "
             "keyspace, with remove_tombstones healthy, failing, or failing after a partial success, and the writes through the mailbox obtained "
             "before the tick, through a fresh lookup and into a second keyspace all have to be in the registered sets; each case is run on the extracted Coq model and on the real code and the "
             "observables (polls needed per task, id set behind each task's mailbox, id set behind a later lookup, "
             "published change counter = live actor's) are compared; non-trivial = distinct (case,result) pairs in "
             "which at least two tasks missed the lookup and spawned an actor",
        trusted_base=TRUSTED,
        assumptions=[
            "one keyspace name; distinct names never interact (separate map entries); every caller reaches the map "
            "through get_or_create_keyspace (the only caller of add_state); load_states runs before the node serves; the "
            "background purge task only reads the map (not a model transition; exercised by the purge-tick cases)",
            "the atomic steps of a task are the two RwLock sections, the lookup and the actor's handling of one "
            "message; between them only task-local data is touched (read off group.rs)",
            "each task sends one mutation with a fresh stamp from the node clock and a distinct document id, so the "
            "set applies it (acceptance rules of the set itself are C04's subject)",
            "the correspondence drives a current-thread runtime: one poll = one await-delimited segment that really "
            "suspends (clock.get_time() suspends, spawn_keyspace().await does not); the theorems cover the finer "
            "interleavings of a multi-threaded runtime as well (C18_poll_runs_are_runs links the two)",
        ],
        extra={"bounded_exhaustive_part": part,
               "exhaustive_note": "the schedule space is unbounded (the theorems cover it); the run enumerates completely "
                                  "all orders of the 3k polls for k<=3 and all short poll sequences, all (thorough) or "
                                  "every 8th (quick) of the 369600 orders for k=4, and samples longer/wider schedules"},
    )
