"""C14 — under network faults an RPC answers correctly or fails; never twice or mixed.

Level "other": a specification automaton (coq/rpclife/RpcLife.v) with machine-checked
theorems about *its* runs, tied to the code by a simulation differential: hx-sim runs the
real datacake-rpc client and server inside turmoil (simulated time, `simulation` feature)
under seeded partition/hold/release/repair schedules; every observed trace must be a run
of the automaton, and the property's own statement is evaluated on every outcome.

The executor lives in the separate workspace /verif/harness-sim (datacake-rpc is built
there with the `simulation` feature), so this script carries its own small build/run
helpers instead of vcheck.build_harness / Check.correspondence.
"""
import json
import os
import shutil
import subprocess

import vcheck as V

SIM = os.path.join(V.VERIF, "harness-sim")
EXE = os.path.join(SIM, "target", "release", "hx-sim")
COMP = "rpclife"

TRUSTED = [
    "Coq 8.16.1 kernel (coqc; coqchk re-check in the thorough tier); vm_compute only for the examples and the "
    "legacy/pending witnesses; no native_compute",
    "axioms: none (Print Assumptions: Closed under the global context for every C14 theorem)",
    "hand-written specification automaton coq/rpclife/RpcLife.v (request life-cycle, link states, urgency); its "
    "theorems speak about the automaton; the code is tied to it only by the simulation differential below",
    "extraction: ExtrOcamlBasic only; OCaml 4.13.1; ocaml/rpclife/conv.ml + modelrun.ml (trace parsing/printing)",
    "Rust executor harness-sim/hx-sim (generators, trace recorder, property oracle); turmoil 0.4.0 as the network "
    "(its partition = silent drop, hold = indefinite delay, no retransmission) and its `tracing` events for the "
    "two connection set-up observations (SYN sent/held/dropped, SYN-ACK received); tokio paused-clock timers",
    "modelled, not verified: hyper/h2 stream multiplexing, tokio scheduling, real TCP (retransmission, RST, "
    "keep-alive), the production hyper::Client connection pool (the `simulation` feature replaces it by "
    "net/simulation.rs LazyClient: one connection per Channel, requests on it serialised by a mutex)",
]

PINS = [
    ("datacake-rpc/src/net/simulation.rs", r"Duration::from_secs\((\d+)\),\s*turmoil::net::TcpStream::connect", "2",
     "simulation connect bound (s)"),
    ("datacake-rpc/src/net/client.rs", r"set_connect_timeout\(Some\(std::time::Duration::from_secs\((\d+)\)\)\)", "2",
     "production connect bound (s)"),
    ("datacake-rpc/src/client.rs", r"tokio::time::timeout\(duration, future\)\s*\.await\s*\.map_err\(\|_\| (Status::timeout\(\))\)",
     "Status::timeout()", "timeout maps to Status::timeout"),
]


def nontrivial(case, result):
    # non-trivial: at least one fault event was applied or more than one request ran
    head = case.split("#")[0]
    return " s " in head or head.count(" q ") > 1 or "pending" in result or "timeout" in result or "conn-err" in result


def build_sim(timeout=3000):
    lock = os.path.join(SIM, "Cargo.lock")
    if not os.path.exists(lock):
        shutil.copy(os.path.join(V.REPO, "Cargo.lock"), lock)
    rc, out = V.sh(["cargo", "build", "--release", "--offline", "-p", "hx-sim"], cwd=SIM, timeout=timeout)
    return rc == 0, out


def correspondence(ck, extra_args=(), name=COMP, timeout=1500):
    """Check.correspondence for an executor outside /verif/harness."""
    d = os.path.join(ck.work, name)
    os.makedirs(d, exist_ok=True)
    for f in os.listdir(d):
        os.unlink(os.path.join(d, f))
    args = [EXE, "--seed", str(ck.seed), "--tier", ck.tier, "--dir", d] + list(extra_args)
    if ck.replay:
        rp = V.replay_cases_file(ck.replay, name, d)
        if rp is None:
            return None
        args += ["--replay", rp]
    rc, out = V.sh(args, timeout=timeout)
    stats = {}
    for line in out.splitlines():
        if line.startswith("HXSTATS "):
            stats = json.loads(line[8:])
    if rc != 0 or not stats:
        ck.log("executor hx-sim failed rc=%s\n%s" % (rc, out[-3000:]))
        ck.corr["components"][name] = {"error": "executor failed", "rc": rc}
        ck.broken_correspondence(name, "executor hx-sim exited %s: %s" % (rc, out[-1500:]), [])
        return None
    cases = os.path.join(d, COMP + ".cases")
    impl = os.path.join(d, COMP + ".impl")
    model = os.path.join(d, COMP + ".model")
    mr = os.path.join(V.OCAML, "rpclife", "_build", "default", "modelrun.exe")
    with open(cases, "rb") as fin, open(model, "wb") as fout:
        p = subprocess.run([mr, COMP], stdin=fin, stdout=fout, stderr=subprocess.PIPE, timeout=timeout)
    if p.returncode != 0:
        ck.broken_correspondence(name, "modelrun failed: " + p.stderr.decode()[-1000:], [])
        return None
    divs = V.diff_files(cases, model, impl, limit=50)
    n = stats.get("cases", 0)
    ck.corr["evaluations"] += n
    ck.corr["components"][name] = {
        "cases": n, "divergences": divs["count"], "oracle_failures": stats.get("oracle_failures", 0),
        "stats": {k: v for k, v in stats.items() if k not in ("cases", "counters")},
    }
    for k, v in stats.get("counters", {}).items():
        ck.corr["counters"][name + "." + k] = v
    ck.corr["divergences"] += divs["count"]
    ck.corr["samples"] += V.sample_lines(cases, impl, 3)
    ck.corr["distinct_nontrivial"] += V.count_distinct(cases, impl, nontrivial)
    fails = V.read_fails(os.path.join(d, COMP + ".fail"))
    ck.corr["oracle_failures"] += len(fails)
    ck.log("correspondence %s: %d cases, %d divergences, %d oracle failures" % (name, n, divs["count"], len(fails)))
    ck.handle_failures(name, fails, divs)
    return stats


def _coq_case(case, expected):
    """One `Goal verdict false cfg trace = expected.` for the vm_compute cross-check."""
    head, _, trace = case.partition("#")
    t = head.split()
    n = lambda x: "%d" % int(x, 16)
    salt = n(t[2])
    reqs = []
    i = 3
    while i < len(t):
        if t[i] == "q":
            tmo = int(t[i + 2], 16)
            if tmo == 0xFFFFFFFFFFFFFFFF:
                tmo_term = "(Some 0)"     # a timeout of zero is configured
            elif tmo == 0xFFFFFFFFFFFFFFFE:
                tmo_term = "None"         # a timeout of Duration::MAX is configured: it bounds nothing
            else:
                tmo_term = "(Some %d)" % tmo if tmo else "None"
            reqs.append("mk_rcfg %s %s %s" % (n(t[i + 1]), tmo_term, n(t[i + 3])))
            i += 6
        else:
            i += 3
    ev = []
    tt = trace.split()
    i = 0
    envs = {"p": "EEnv Partition", "h": "EEnv Hold", "l": "EEnv Release", "r": "EEnv Repair", "hz": "EHorizon"}
    one = {"st": "EStart", "cn": "EConn", "ex": "EExec", "dn": "EDone"}
    fates = {"c": "SynClean", "h": "SynHeld", "d": "SynDropped"}
    while i < len(tt):
        at, k = n(tt[i]), tt[i + 1]
        if k in envs:
            ev.append("(%s, %s)" % (at, envs[k])); i += 2
        elif k in one:
            ev.append("(%s, %s %s)" % (at, one[k], n(tt[i + 2]))); i += 3
        elif k == "sy":
            ev.append("(%s, ESyn %s %s)" % (at, n(tt[i + 2]), fates[tt[i + 3]])); i += 4
        elif k == "en":
            r = tt[i + 3]
            res = ("(ROk %s)" % n(r[3:])) if r.startswith("ok:") else {"ce": "RConnErr", "to": "RTimeout"}.get(r, "RPanic")
            ev.append("(%s, EEnd %s %s)" % (at, n(tt[i + 2]), res)); i += 4
        else:
            raise ValueError(k)
    if expected.startswith("reject "):
        exp = "inr %s" % n(expected.split()[1])
    else:
        toks = expected.split()
        outs = {"conn-err": "OConnErr", "timeout": "OTimeout", "pending": "OPending", "panic": "OPanic"}
        items = []
        for j in range(0, len(toks), 2):
            o = toks[j]
            o = ("OOk %s" % n(o[3:])) if o.startswith("ok:") else outs[o]
            items.append("(%s, %s)" % (o, n(toks[j + 1][1:])))
        exp = "inl [%s]" % "; ".join(items)
    return ("Goal verdict false (mk_cfg %s [%s]) [%s] = %s. Proof. vm_compute. reflexivity. Qed."
            % (salt, "; ".join(reqs), "; ".join(ev), exp))


def cross_check(ck, name, k=80):
    """Extraction is not trusted blindly: a sample of the cases is re-evaluated by vm_compute inside Coq and
    must give the line the extracted OCaml model printed."""
    d = os.path.join(ck.work, name)
    try:
        cases = open(os.path.join(d, COMP + ".cases")).read().splitlines()
        model = open(os.path.join(d, COMP + ".model")).read().splitlines()
    except OSError:
        return
    if not cases or len(cases) != len(model):
        return
    step = max(1, len(cases) // k)
    goals = []
    for idx in range(0, len(cases), step):
        try:
            goals.append(_coq_case(cases[idx], model[idx]))
        except (ValueError, KeyError, IndexError):
            continue
    vf = os.path.join(ck.work, "XCheckC14.v")
    with open(vf, "w") as f:
        f.write("From Coq Require Import NArith List.\nRequire Import DC.RpcLife.\nImport ListNotations.\n"
                "Open Scope N_scope.\n" + "\n".join(goals) + "\n")
    rc, out = V.sh(["coqc", "-Q", os.path.join(V.COQ, "rpclife"), "DC", vf], cwd=ck.work, timeout=900)
    if rc != 0:
        ck.broken_correspondence("rpclife-extraction", "extracted model and vm_compute disagree (or the sample no "
                                 "longer type-checks): " + out[-1200:], [])
    else:
        ck.notes.append("extraction cross-check: %d sampled cases re-evaluated with vm_compute inside Coq; all equal "
                        "to the extracted model's output" % len(goals))
    ck.log("extraction cross-check: %d cases, coqc rc=%d" % (len(goals), rc))


def run(ck):
    ck.proof_leg("rpclife", "Properties/C14.v")
    ok, out = V.build_model("rpclife")
    if not ok:
        ck.log("model build failed\n" + out[-3000:])
        ck.proof["broken"].append({"file": "Extract.v", "log": out[-2000:]})
    okh, outh = build_sim()
    if not okh:
        ck.log("harness-sim build failed\n" + outh[-3000:])
        ck.broken_correspondence(COMP, "the executor no longer builds against /repo: " + outh[-1500:], [])
    bad = V.pin_constants(PINS)
    if bad:
        ck.broken_correspondence("rpclife-constants", "constants pinned from the source changed: %s" % bad, [])
    stats = None
    if ok and okh:
        for f in V.corpus_files("C14") if not ck.replay else []:
            correspondence(ck, extra_args=["--replay", f], name="rpclife-corpus")
        stats = correspondence(ck)
        if stats:
            cross_check(ck, COMP)
    # coverage warnings: a branch of the automaton that no run reached is said so
    if stats and not ck.replay:
        c = stats.get("counters", {})
        for k in ("res_ok", "res_conn_err", "res_timeout", "res_pending", "syn_clean", "syn_held", "syn_dropped",
                  "executed_but_no_reply_seen", "two_lanes", "concurrent_requests", "req_handler_fault"):
            if not c.get(k):
                ck.notes.append("coverage warning: no case reached %s" % k)
        ck.notes.append("ConnErr after the connection was established (allowed by the automaton under faults) was "
                        "never produced by the simulated transport: turmoil 0.4 drops or holds segments silently")
    ck.finish(
        level="other",
        rule="one case = one turmoil simulation (1 ms tick, fixed link latency 0/1/5/10 ms per case): 1..8 requests on 1..2 channels, "
             "sequential or concurrent, handler delay 0/50/500/2500 ms, client timeout none/300/1000/2000/3000 ms, faults from "
             "a schedule (partition/hold/release/repair at chosen simulated times) and optionally from inside the handler. "
             "Families: the scenarios of simulation-tests/tests/rpc.rs + concurrent first use; bounded-exhaustive: one request x "
             "{timeouts} x {fast, slow handler} x {no, hold, partition inside the handler} x every single fault event at 13 "
             "phase points and every ordered pair (partition|hold, any) of them; structured random schedules around the phase "
             "points of the requests. Compared: per request ok:<reply>|conn-err|timeout|pending + handler execution count, "
             "against the line the extracted automaton derives from its own state after accepting the observed trace "
             "(connect attempts with the fate of their SYN, handshake completion, handler entry/exit, returns, fault events, "
             "all with simulated times). Oracle on the implementation alone: nothing executed twice, Ok carries the reply of "
             "its own request (echo + value), nothing swapped, timeout bound (+1 tick), no panic, no status outside "
             "{connection, timeout}, nothing pending without a fault. non-trivial = distinct (case,result) pairs with a fault "
             "event, several requests or a non-Ok result",
        trusted_base=TRUSTED,
        assumptions=[
            "the network is turmoil's: a partition drops segments silently and nothing is retransmitted, a hold delays them "
            "until release, repair does not release held segments; real TCP would retransmit or reset",
            "with the `simulation` feature requests on one Channel are serialised by LazyClient's mutex, so HTTP/2 stream "
            "multiplexing on one connection is exercised only on the server side (two channels = two connections)",
            "simulated time is observed at 1 ms granularity; bounds are stated with a slack of one tick",
            "two situations in which a call fails with a connection error although the link is up at that moment are "
            "allowed by C14, were observed, and are admitted by the automaton (counted as conn_err_on_established_connection / "
            "conn_err_after_clean_syn): (i) net/client.rs calls SendRequest::send_request without awaiting readiness, so the "
            "call issued in the same instant in which another call on that channel was abandoned by its timeout gets hyper's "
            "'connection was not ready'; (ii) turmoil's listener can sit behind stale SYNs of abandoned connect attempts, so a "
            "SYN sent on a healthy link after earlier faults may stay unanswered until the 2 s bound",
            "a request without a timeout may stay pending for ever once a fault occurred (C14_no_deadline_may_pend); "
            "this is the documented behaviour (simulation-tests: network_timeout_after_init)",
        ],
        explanation="The theorems are about the automaton's transition system and are easy because it has no retry transition "
                    "and keys replies by request; what ties it to the code is the simulation differential (trace inclusion, "
                    "tested, not proved).",
    )
