"""C07 — a restarted node rebuilds exactly what storage holds; acked writes survive."""
from checks.actor_common import run_actor_check


def nontrivial(case, result):
    # a history with a restart or crash on a non-empty store
    segs = result.split(" | ")
    return any((s.startswith("restart") or s.startswith("crash")) and "M[]" not in s for s in segs)


def nontrivial_restart(case, result):
    segs = result.split(" | ")
    return any(s.startswith("restart") and "M[]" not in s for s in segs)


def run(ck):
    run_actor_check(
        ck, "Properties/C07.v", "c07", nontrivial,
        rule="cases = the request histories of C02 with restarts: a fresh KeyspaceGroup is started on the same store "
             "(load_states_from_storage) after every single request of the alphabet, after request pairs/triples + purge, after "
             "a kill in the middle of each request (the storage write is performed, then the call never returns and the node "
             "is replaced), and at random points (every other request, 30% mid-request kills) of random histories. After every "
             "restart the rebuilt set (as a peer would fetch it) is compared with the model's rebuild and, by the oracle, with "
             "the store's metadata. The same on the bundled persistent backends (hx-restart): request histories against the real "
             "KeyspaceGroup on a SQLite file and on an LMDB directory (every single request and request pair of an alphabet, "
             "delete-before-put / delete of an unknown id / newer delete on a tombstone / purge shapes, random histories) with "
             "the database really closed and reopened from the same path at every restart; compared with the same actor model "
             "and, by the oracle, set = storage metadata after every request and rebuilt set = set before the stop. "
             "non-trivial = distinct histories with a restart or kill on a non-empty store",
        extra_runs=[("hx-restart", "restart", "hx-store", nontrivial_restart)],
        extra_trusted=["hx-restart (harness/hx-store): the actor on datacake-sqlite (file) and datacake-lmdb with orderly close + "
                       "reopen in one process; no crash or power loss of the database engine itself"],
        assumptions=[
            "a storage write that returned (or was performed before the kill) is in the store: durability of the backend "
            "(WAL, fsync, LMDB commit) is outside the model",
            "stamps in the store are valid packed HLC timestamps",
            "the restarted node then converges as in C01 (C07_restarted_node_is_consistent gives C01's hypotheses)",
        ])
