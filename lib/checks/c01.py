"""C01 — cluster converges: every node ends with the same last-writer-wins documents."""
from checks.cluster_common import run_cluster_check


def nontrivial(case, result):
    # a history with at least one failed delivery (lost message) or a partial exchange, and a non-empty result
    return ("B:fail" in result or "cf." in result or "XM:" in result or "R:" in result) and "G[]" not in result.split(" | ")[-1]


def run(ck):
    run_cluster_check(
        ck, "Properties/C01.v", "c01", nontrivial,
        rule="cases = schedules on 2-4 real in-process nodes: the six schedules the property names (lagging node repairing from "
             "an origin that did put,put,delete with either half first; join after deletes; delete delivered before an older put "
             "of the same origin; duplicated batch with a restart; fetch racing with a delete) and random schedules of 4-26 events "
             "(client put/put_many/del/del_many at any level with links up or down, batches re-sent/duplicated/after restarts, "
             "complete exchanges, the three steps of an exchange interleaved with other events, purges, restarts, exchanges RACING with "
             "writes on the polled node (one write held inside its storage call while GetState queues behind it and a second write "
             "behind that; the observation records which legal serialisation happened), an exchange whose storage writes all fail "
             "(named schedule: the node must stay as it is and pull everything later); stalled and "
             "backward wall clock), each ending with every ordered pair completing one exchange. After every event the touched "
             "nodes' set (as a peer would fetch it) and store are compared with the model; at quiescence the oracle checks on the "
             "implementation that every node serves exactly the last-writer-wins documents (ids, bytes, stamps) of the operations "
             "issued and that set = store. non-trivial = distinct schedules with a lost message, a failed consistency level, a "
             "partial exchange or a restart, and a non-empty final result. Component tsdiff (hx-tsdiff): the poller's real KeyspaceTracker - "
             "every pair of (recorded, reported) stamp maps over four keyspaces x {absent, three stamps} (65 536, a third of them with other "
             "peers' entries present), 20 000 / 200 000 random pairs over up to 12 keyspaces with stamps incl. 0 and u64::MAX, and 10 000 / "
             "100 000 scripts of recordings, departures and plans over three peers; the listed keyspaces are compared with TsDiff.v / "
             "PollerPlan.v and, by the oracle, with 'the two sides disagree about the keyspace'",
        assumptions=[
            "all operations of a run are issued within one forgiveness period (the property's premise) and after the first tick of "
            "the epoch (K1); stamps are drawn by the real node clocks and fed to the model",
            "the convergence theorem covers traces of issue / batch / exchange / half-exchange events; purge (a no-op within the "
            "period, C08) and restart (view-preserving, C07) are exercised by the executor and compared with the model but are not "
            "events of the theorem's trace",
            "equality of document bytes is checked by the oracle on the implementation and by the model comparison; the theorem "
            "states ids, stamps and live/tombstone status on every node's set and store",
        ])
