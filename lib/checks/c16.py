"""C16 — membership change events add up to the live membership."""
import json
import os

import vcheck as V

TRUSTED = [
    "Coq 8.16.1 kernel (coqc; coqchk re-check in the thorough tier); vm_compute only for the witness "
    "theorems and examples; no native_compute",
    "axioms: none (Print Assumptions: Closed under the global context for every C16 theorem)",
    "hand-written model coq/membership/Membership.v of datacake-node/src/lib.rs (watch_membership_changes, "
    "membership_changes = WatchStream::new over a tokio watch channel) and of the consumers' live_members "
    "handling in datacake-eventual-consistency/src/replication/{distributor,poller}.rs; tied to the code by "
    "the differential executor hx-membership (the real watcher task and a real WatchStream subscriber; the "
    "consumers' four-line apply loop is re-implemented in the executor for the subscriber schedules and pinned by source patterns, including the order left-before-joined; the task distributor's own loop is additionally run for real by the `dist` cases: every published change is handed to it and the addresses its next batch reaches are compared with the model's live map and with the last snapshot)",
    "tokio::sync::watch / tokio_stream::wrappers::WatchStream semantics (latest value + version; a stream built "
    "with WatchStream::new yields the current value first) are modelled by sub_read and exercised for real",
    "extraction: ExtrOcamlBasic only; OCaml 4.13.1; ocaml/membership/conv.ml + modelrun.ml (parsing, sorting "
    "of the printed member lists)",
    "Rust executor harness/hx-membership/src/bin/hx-membership.rs (generators, schedule control on a "
    "current-thread runtime, property oracle, Late/Coalesced classification)",
]

# Source patterns the model and the executor rely on (identifier names are wildcards, so renaming
# a variable does not raise an alarm; changing what the loop does, or the channel type, does).
PINS = [
    ("datacake-node/src/lib.rs",
     r"pub fn membership_changes\(&self\) -> WatchStream<MembershipChange> \{\s*WatchStream::(new)\(self\.\w+\.clone\(\)\)",
     "new", "subscription = WatchStream::new (current value first), on the node and on the handle"),
    ("datacake-node/src/lib.rs", r"= watch::(channel)\(MembershipChange::default\(\)\);",
     "channel", "changes are published on a tokio watch channel"),
    ("datacake-eventual-consistency/src/replication/distributor.rs",
     r"for \w+ in \w+\.left \{\s*\w+\.(remove)\(&\w+\.node_id\);\s*\}",
     "remove", "distributor removes left members by node id"),
    ("datacake-eventual-consistency/src/replication/distributor.rs",
     r"for \w+ in \w+\.joined \{\s*\w+\.(insert)\(\w+\.node_id, \w+\.public_addr\);\s*\}",
     "insert", "distributor inserts joined members (node id -> public address)"),
    ("datacake-eventual-consistency/src/replication/poller.rs",
     r"for \w+ in \w+\.left \{\s*\w+\.(remove)\(&\w+\.node_id\);",
     "remove", "poller removes left members by node id"),
    ("datacake-eventual-consistency/src/replication/poller.rs",
     r"for \w+ in \w+\.joined \{\s*\w+\.(insert)\(\w+\.node_id, \w+\.public_addr\);\s*\}",
     "insert", "poller inserts joined members (node id -> public address)"),
    ("datacake-eventual-consistency/src/replication/poller.rs",
     r"for \w+ in \w+\.(left) \{[^}]*\}\s*for \w+ in \w+\.joined \{",
     "left", "poller applies the left members of a change before the joined ones (an address change carries one id in both)"),
    ("datacake-eventual-consistency/src/replication/distributor.rs",
     r"for \w+ in \w+\.(left) \{[^}]*\}\s*for \w+ in \w+\.joined \{",
     "left", "distributor applies the left members of a change before the joined ones"),
    ("datacake-eventual-consistency/src/lib.rs",
     r"let mut \w+ = \w+\.(membership_changes)\(\);",
     "membership_changes", "the store extension subscribes through membership_changes()"),
]

# The two known classes of defect D9 (what the lead is asked to add to known_findings.json).
ENTRIES_FILE = os.path.join(os.path.dirname(os.path.abspath(__file__)), "c16_known_entries.json")


def nontrivial(case, result):
    # a history with at least two snapshots in which a poll delivered a non-empty change,
    # or a differ case with a non-empty change
    if case.startswith("diff "):
        return result not in ("J[]L[]",)
    return case.count(" s:") >= 2 and ("J[" in result.replace("J[]", "") or "L[" in result.replace("L[]", ""))


def _coq_snapshot(tok):
    body = tok[2:]
    if not body:
        return "[]"
    ms = []
    for m in body.split(","):
        i, a, d = (int(x, 16) for x in m.split("."))
        ms.append("(%d, %d, %d)" % (i, a, d))
    return "[" + "; ".join(ms) + "]"


def cross_check_extraction(ck, workdir, k=120):
    """Extraction is not trusted blindly: a sample of the cases is evaluated once more inside Coq
    (vm_compute on the same definitions) and must give what the extracted OCaml model printed."""
    cases = os.path.join(workdir, "membership.cases")
    model = os.path.join(workdir, "membership.model")
    try:
        with open(cases) as fc, open(model) as fm:
            pairs = [(c.rstrip("\n"), m.rstrip("\n")) for c, m in zip(fc, fm) if c.startswith("run ")]
    except OSError:
        return None
    if not pairs:
        return None
    step = max(1, len(pairs) // k)
    # the tail of the file holds the random (longer) histories: take half of the sample there
    sample = pairs[::step][:k // 2] + pairs[-(k // 2) * 7::7]
    lines = ["From Coq Require Import NArith List Bool.", "From DC Require Import Membership.",
             "Import ListNotations.", "Open Scope N_scope.", ""]
    n = 0
    for case, res in sample:
        t = case.split()
        if "sub" not in t or res.startswith("?"):
            continue
        si = t.index("sub")
        pre = "[" + "; ".join(_coq_snapshot(x) for x in t[2:si]) + "]"
        post = "[" + "; ".join("Read" if x == "rd" else "Snap " + _coq_snapshot(x) for x in t[si + 1:]) + "]"
        r = res.split()
        kv = dict(x.split("=", 1) for x in r if "=" in x and not x.startswith(("J[", "L[")))
        polls = [x for x in r if x == "-" or x.startswith("J[")]
        live = kv["live"][1:-1]
        live_l = "[" + "; ".join("(%d, %d)" % tuple(int(y, 16) for y in e.split(".")) for e in live.split(",") if e) + "]"
        b = lambda v: "true" if v == "1" else "false"
        n += 1
        lines.append(
            "Example x%d : let h := mk_hist %s %s in\n"
            "  late_b h = %s /\\ coalesced_b h = %s /\\ holds_b %d h = %s /\\\n"
            "  same_map_b (final_live %d h) %s = true /\\ length (final_live %d h) = %d%%nat /\\\n"
            "  map (fun o => match o with Some _ => true | None => false end) (trace_of %d h) = %s.\n"
            "Proof. vm_compute. repeat split; reflexivity. Qed."
            % (n, pre, post, b(kv["late"]), b(kv["coal"]), int(t[1], 16), b(kv["holds"]),
               int(t[1], 16), live_l, int(t[1], 16), len([e for e in live.split(",") if e]),
               int(t[1], 16), "[" + "; ".join("false" if x == "-" else "true" for x in polls) + "]"))
    path = os.path.join(ck.work, "CrossCheck.v")
    with open(path, "w") as f:
        f.write("\n".join(lines) + "\n")
    rc, out = V.sh(["coqc", "-Q", os.path.join(V.COQ, "membership"), "DC", path], cwd=ck.work, timeout=600)
    if rc != 0:
        ck.broken_correspondence("membership-extraction",
                                 "vm_compute inside Coq disagrees with the extracted model: " + out[-1500:], [])
    ck.log("extraction cross-check: %d sampled cases re-evaluated by vm_compute inside Coq: %s" % (
        n, "agree" if rc == 0 else "DISAGREE"))
    return n if rc == 0 else 0


def run(ck):
    if os.environ.get("VERIF_C16_PRIVATE_KNOWN") == "1" and not any(
            k.get("status") == "known" for k in ck.known):
        # builder's test switch: behave as if the two D9 entries were in known_findings.json
        with open(ENTRIES_FILE) as f:
            ck.known += json.load(f)["findings"]
        ck.notes.append("VERIF_C16_PRIVATE_KNOWN=1: D9 entries taken from lib/checks/c16_known_entries.json")
    ck.proof_leg("membership", "Properties/C16.v")
    ok, out = V.build_model("membership")
    if not ok:
        ck.log("model build failed\n" + out[-3000:])
        ck.proof["broken"].append({"file": "Extract.v", "log": out[-2000:]})
    okh, outh = V.build_harness(["hx-membership"])
    if not okh:
        ck.log("harness build failed\n" + outh[-3000:])
        ck.broken_correspondence("membership", "the executor no longer builds against /repo: " + outh[-1500:], [])
    bad = V.pin_constants(PINS)
    if bad:
        ck.broken_correspondence("membership-source-pins",
                                 "source patterns the model/executor rely on changed: %s" % bad, [])
    stats = None
    if ok and okh:
        for f in V.corpus_files("C16") if not ck.replay else []:
            ck.correspondence("hx-membership", "membership", "hx-membership", model_project="membership",
                              extra_args=["--replay", f], name="membership-corpus", nontrivial=nontrivial)
        name = "membership"
        if ck.replay:
            # a replay written for a corpus case names the corpus run as its component
            try:
                with open(ck.replay) as f:
                    comp = json.load(f).get("component")
                if comp == "membership-corpus":
                    name = comp
            except (OSError, ValueError):
                pass
        stats = ck.correspondence("hx-membership", "membership", "hx-membership", model_project="membership",
                                  nontrivial=nontrivial, name=name)
    extra = {}
    if stats and not ck.replay:
        extra["extraction_cross_checked_by_vm_compute"] = cross_check_extraction(
            ck, os.path.join(ck.work, "membership"))
        extra["exhaustive"] = True
        extra["exhaustive_scope"] = (
            "differ: all %s ordered pairs of snapshots over 3 ids x {absent, 2 addresses} (node itself outside / "
            "inside the universe); histories: all %s snapshot sequences of length <= 3 over 3 ids x 2 addresses, "
            "all %s of length <= 4 (thorough tier: <= 5) over 2 ids x 2 addresses, all %s of length <= 3 with the node itself in the "
            "universe, each with every subscription point and every placement of polls (%s cases); followed by "
            "%s random longer histories" % (
                stats.get("diff_pairs_exhaustive"), stats.get("sequences_3ids_len_le3"),
                stats.get("sequences_2ids_len_le4_quick_le5_thorough"), stats.get("sequences_self_in_universe_len_le3"),
                stats.get("exhaustive_cases"), stats.get("random_histories")))
    ck.finish(
        level="proof",
        rule="cases = histories (membership snapshots fed one by one to the real watch_membership_changes task, "
             "one subscription point, polls of a real WatchStream subscriber placed anywhere) and differ cases "
             "(two consecutive snapshots); every case is run on the extracted Coq model and on the implementation "
             "and every change value received, the subscriber's final map, the Late/Coalesced classification and "
             "the verdict are compared; non-trivial = distinct (case,result) pairs with >= 2 snapshots in which a "
             "poll delivered a non-empty change, or differ cases with a non-empty change",
        trusted_base=TRUSTED,
        assumptions=[
            "a snapshot is a map keyed by the members' own node ids (chitchat's member list is built that way in "
            "ChitchatNode::connect), so ids are unique within a snapshot (wf_snapshot)",
            "the snapshot sequence is the sequence the watcher task observes: the watcher itself reads a "
            "latest-value channel and may skip intermediate snapshots, which only shortens the sequence",
            "the proved guarantee excludes the two known classes of D9 (Late, Coalesced): a subscriber created "
            "after publications were overwritten, or polling less often than the watcher publishes, is NOT "
            "guaranteed to hold the live membership (witness theorems C16_late_witness, C16_coalesced_witness)",
            "a data-centre change of a node that keeps id and address produces no event; the consumers' maps hold "
            "(id -> address) only and the property is stated on that projection",
        ],
        extra=extra,
    )
