"""C04 — per key the greatest timestamp wins, whatever order operations arrive in."""
import vcheck as V

TRUSTED = [
    "Coq 8.16.1 kernel (coqc; coqchk in the thorough tier); vm_compute only in the legacy refutation and the example",
    "axioms: none (Print Assumptions: Closed under the global context for every C04 theorem)",
    "hand-written model coq/core/Orswot.v of OrSWotSet<N> (NodeVersions, try_update_max_stamp, insert/delete_with_source, "
    "will_apply; BTreeMap/HashMap as std++ gmap), tied to orswot.rs by the differential executor hx-orswot",
    "extraction: ExtrOcamlBasic only; OCaml driver ocaml/core/modelrun.ml (run_orswot)",
    "only public-API observables are compared: return values, will_apply, get, OrSWotSet::default().diff(&s), "
    "will_apply probes on a fresh key (expose the cut-off)",
]

PINS = [
    ("datacake-crdt/src/orswot.rs", r"Duration::from_secs\(0\)\s*\} else \{\s*Duration::from_secs\(([\d_]+)\)", "3600", "FORGIVENESS_PERIOD"),
]


def nontrivial(case, result):
    # non-trivial: at least one refused/ineffective operation (a "0" result) and a non-empty final set
    toks = result.split(" ")
    return "0" in toks and ("E[]D[]" not in toks[-1] if toks else False) or result.count("=") >= 6


def run(ck):
    from checks.orswot_common import run_orswot_check
    run_orswot_check(
        ck, "Properties/C04.v", "c04", nontrivial,
        rule="cases = histories of insert/delete on one replica: every sequence of length <= 3 (<= 4 in thorough) over "
             "{insert,delete} x sources {0[,1]} x 2 keys x 6 stamps, once with all stamps inside one forgiveness period "
             "(2 origins, same-instant ties) and once stretched beyond it (rejection), for 1 and 2 sources; all permutations x "
             "all source assignments of random distinct-stamp multisets of 4-5 operations; random histories up to length 30 "
             "over 8 keys x 4 origins. Before each operation will_apply, after it the return value and the observable state "
             "(entries, tombstones, cut-off probes) are compared between the extracted model and OrSWotSet; the oracle checks "
             "return = prediction = view-changed, no other key changes, and greatest-stamp-wins when stamps are distinct and "
             "within one period. non-trivial = distinct histories with a refused/ineffective operation and a non-empty final set",
        assumptions=[
            "stamps are valid packed HLC timestamps (fraction <= 249); sources are < N",
            "theorems about acceptance within the forgiveness period assume tick >= 1 (known corner K1, DESIGN.md section 6)",
        ])
