"""C02 — on each node the replicated metadata and the persisted store never disagree."""
from checks.actor_common import run_actor_check


def nontrivial(case, result):
    # a history with a storage error and a non-empty state afterwards
    return "err " in result and "M[]" not in result.split(" | ")[-1]


def run(ck):
    run_actor_check(
        ck, "Properties/C02.v", "c02", nontrivial,
        rule="cases = request histories against one real KeyspaceActor on a fault-injecting store: every single request of an "
             "alphabet of Set/Del (2 sources x 2 keys x 4 stamps incl. a same-instant tie of two origins and a stamp more than a "
             "forgiveness period later x storage ok/fail) and MultiSet/MultiDel of 2 items (all ordered pairs incl. the same id "
             "twice in both stamp orders x ok/fail/partial masks 10,01) and purge; all pairs (first x reduced second) and a slice "
             "of triples followed by purge and restart; a crash in the middle of each request; random histories up to 12 "
             "requests with bulk sizes up to 5, duplicate ids, repeated stamps, partial masks, purge failures, restarts. After "
             "every request the reply, the set (as a peer would fetch it) and the store are compared with the model; the oracle "
             "checks on the implementation that set and store metadata are identical. non-trivial = distinct histories with a "
             "storage error and a non-empty final store",
        assumptions=[
            "a failed single storage call wrote nothing; a failed bulk call wrote exactly the ids it reports (Storage contract)",
            "request stamps are valid packed HLC timestamps; sources are 0 or 1",
            "that a real backend honours the contract is C17's subject",
        ])
