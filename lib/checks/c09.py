"""C09 — hybrid clock stamps are unique, strictly increasing and respect causality."""
import vcheck as V

TRUSTED = [
    "Coq 8.16.1 kernel (coqc; coqchk in the thorough tier); vm_compute only in the non-vacuity example",
    "axioms: none (Print Assumptions: Closed under the global context for every C09 theorem)",
    "hand-written model coq/core/Hlc.v of HLCTimestamp::send/recv (branch by branch, wall clock an argument in 4 ms ticks), "
    "tied to timestamp.rs by the differential executor hx-hlc through the verif-hooks wall-clock override",
    "extraction: ExtrOcamlBasic only; OCaml driver ocaml/core/modelrun.ml",
    "the hook replaces SystemTime::now() inside get_datacake_timestamp() only; the epoch subtraction for a wall clock "
    "before 2023 (a panic) is outside the property",
]

PINS = [
    ("datacake-crdt/src/timestamp.rs", r"MAX_CLOCK_DRIFT: Duration = Duration::from_secs\(([\d_]+)\)", "4100", "MAX_CLOCK_DRIFT"),
    ("datacake-crdt/src/timestamp.rs", r"subsec_millis\(\) / (\d+)\)", "4", "fraction unit (ms)"),
]


def nontrivial(case, result):
    # a history in which at least one step succeeded and at least one failed, or >= 3 successes
    oks = result.count("ok:")
    errs = result.count("err:")
    return (oks >= 1 and errs >= 1) or oks >= 3


def run(ck):
    ck.proof_leg("core", "Properties/C09.v")
    ok, out = V.build_model("core")
    if not ok:
        ck.log("model build failed\n" + out[-3000:])
        ck.proof["broken"].append({"file": "Extract.v", "log": out[-2000:]})
    okh, outh = V.build_harness(["hx-crdt"])
    if not okh:
        ck.log("harness build failed\n" + outh[-3000:])
        ck.broken_correspondence("hlc", "the executor no longer builds against /repo: " + outh[-1500:], [])
    bad = V.pin_constants(PINS)
    if bad:
        ck.broken_correspondence("hlc-constants", "constants pinned from the source changed: %s" % bad, [])
    if ok and okh:
        if not ck.replay:
            for f in V.corpus_files("C09"):
                ck.correspondence("hx-hlc", "hlc", "hx-crdt", extra_args=["--replay", f], name="hlc-corpus", nontrivial=nontrivial)
        ck.correspondence("hx-hlc", "hlc", "hx-crdt", nontrivial=nontrivial)
    ck.finish(
        level="proof",
        rule="cases = histories of send/recv on one clock with an injected wall clock: all histories of length <= 2 over an "
             "alphabet of 7 walls x (send | recv of 30 remote stamps) from 4 initial clocks, length 3 (4 in thorough) over a "
             "reduced alphabet, then random histories up to length 50 with stalled/backward/far-ahead walls, counters at "
             "65534/65535, remote stamps at the drift boundary, same-node remotes and gibberish fractions; each history is run on "
             "the extracted model and on HLCTimestamp and every returned value/error kind and the final clock compared; "
             "non-trivial = distinct histories with both a success and a failure, or >= 3 successes",
        trusted_base=TRUSTED,
        assumptions=[
            "wall clock <= WALL_MAX = (2^32-1) s after the datacake epoch (year 2159); beyond it seconds << 32 wraps",
            "stamps handed to recv are valid (fraction <= 249) for the theorems; gibberish fractions are still compared "
            "between model and code",
        ],
    )
