#!/usr/bin/env python3
"""Regenerates MANIFEST.json from the table below (run: python3 lib/manifest_gen.py)."""
import json
import os

VERIF = os.path.dirname(os.path.dirname(os.path.abspath(__file__)))
TECH = "Rocq/Coq machine-checked proof over an executable model + differential correspondence check"

ENGINES = {
    "rocq-core": ("coq/core", "Coq 8.16.1 development of the crdt/clock core (Ts, Hlc, Orswot, Actor, ...): hand-written executable model + theorems, extracted to OCaml (ocaml/core) and compared with the Rust code by harness/hx-crdt and harness/hx-ec executors"),
    "rocq-registry": ("coq/registry", "Coq model + theorems of the RPC service registry; executor harness/hx-rpc (hx-registry), in-process transport"),
    "rocq-frame": ("coq/frame", "Coq model + theorems of the CRC-32 framed rkyv messages; executor harness/hx-rpc (hx-frame)"),
    "rocq-selector": ("coq/selector", "Coq model + theorems of DCAwareSelector / selector actor; executor harness/hx-selector"),
    "rocq-membership": ("coq/membership", "Coq model + theorems of the membership differ, watch channel and subscribers; executor harness/hx-membership"),
    "rocq-keyspace": ("coq/keyspace", "Coq interleaving model + invariant proofs of get_or_create_keyspace; executor harness/hx-keyspace"),
    "rocq-storage": ("coq/storage", "Coq reference key-value model of the Storage contract; executor harness/hx-store against MemStore/SQLite/LMDB"),
    "rocq-rpclife": ("coq/rpclife", "Coq LTS of an RPC under network faults; executor harness-sim/hx-sim (turmoil)"),
}

# property -> (engine, category, level text, level note, technique)
CHECKS = {}
NOT_YET = {}


def check(pid, engine, category, text, note, technique=TECH, design=None):
    CHECKS[pid] = dict(engine=engine, category=category, text=text, note=note, technique=technique,
                       design=design or "DESIGN.md section 7, %s" % pid)


check("C01", "rocq-core", "proof",
      "Theorems in coq/core/Properties/C01.v over the cluster model Cluster.v (N nodes driven only through the actor handlers), for every "
      "history H of operations within one forgiveness period in which two operations on the same id never share a stamp (a bulk operation "
      "stamps all its ids alike) and every trace of well-formed events (client operation with any set "
      "of acknowledging replicas = lost/delivered direct messages, batches of earlier operations delivered to any node any number of times in any "
      "order, complete exchanges, removal half and fetch+modification half of an exchange as separate events in any interleaving, purge-task "
      "runs and restarts of a node on its own store anywhere): every event "
      "keeps every node consistent (set invariant, set = store, everything held is an operation of H) and no view ever goes back; one complete "
      "exchange makes the repairing node hold at least what the peer holds; and if after the last client operation every ordered pair of nodes "
      "completes an exchange, EVERY node's set and store show, for every id, exactly the greatest-stamp operation of H (live at that stamp if a "
      "put, tombstone if a delete; ids never written are absent), and a read returns the winner's stamp and BYTES if it is a put and nothing "
      "if it is a delete (payload invariant: every store write of every handler under every storage outcome copies a request's bytes; "
      "fetched documents copy the peer's). The pre-fix acceptance rule is refuted (lagging node serves a deleted "
      "document). The task distributor (Distributor.v): every batch is addressed to the whole live map of its tick, which is a function of the "
      "membership changes alone (dropping a peer after a failed batch is refuted). The poller's sync plan (TsDiff.v, PollerPlan.v, TrackerMulti.v): "
      "the keyspaces it synchronises are exactly those whose recorded and reported stamps differ; in every keyspace the recorded stamp never "
      "exceeds what was pulled, so a skipped keyspace is complete and one poll after the last write pulls every write of every keyspace; a peer "
      "that left or moved is re-synchronised in full. Model tied to the code by 2-4 real in-process nodes (hx-cluster): named schedules + random schedules, compared after every "
      "event, with the convergence oracle (ids, bytes, stamps) at quiescence; includes exchanges racing with writes on the polled node and "
      "exchanges whose storage writes fail; the poller's real KeyspaceTracker against TsDiff.v/PollerPlan.v (hx-tsdiff).",
      "Trusted: Coq kernel, models Orswot/Actor/Cluster.v, extraction + driver, the Rust executor and the in-process transport / wall-clock hooks. "
      "Events of the trace are atomic handler executions (a node restarting in the middle of a request is C07's theorem, not part of this "
      "trace); storage calls inside the trace succeed (failures: C02). Chitchat, timers and the poller's scheduling are not modelled.")
check("C02", "rocq-core", "proof",
      "Theorems in coq/core/Properties/C02.v over the model Actor.v of the keyspace actor handlers: Agree (for every id the set's view — live at t / "
      "tombstone at t / nothing — equals the store's metadata) together with the set invariant is preserved by every request (Set, MultiSet, "
      "Del, MultiDel, PurgeDeletes) with arbitrary stamps, origins, sources, duplicates inside a bulk, and EVERY storage outcome (success, "
      "failure, partial bulk failure writing any sub-sequence); hence after every prefix of every request history. Key lemmas: ascending "
      "insertion order keeps every will_apply-approved entry acceptable, per-id de-duplication makes 'stored' = 'greatest stamp', re-added purge "
      "failures restore the view. Pre-fix handlers refuted (D1, D2). Tied to actor.rs by the real KeyspaceActor on a fault-injecting store "
      "(hx-actor): exhaustive single/pair requests with all failure points, random histories.",
      "Trusted: Coq kernel, models Orswot.v + Actor.v, ExtrOcamlBasic + OCaml driver, the Rust executor and its Faulty<MemStore>; handlers are "
      "atomic (one message at a time); the Storage contract for successful_doc_ids is a premise (backends: C17).")
check("C03", "rocq-core", "proof",
      "Theorems in coq/core/Properties/C03.v over the transcription of OrSWotSet::merge and NodeVersions::merge in Orswot.v. For any two sets the "
      "merged entries/tombstones are characterised key by key (the time-sorted log has one entry per key, so the sort cannot influence the "
      "result - proved, not assumed). Under EACH of the property's two premises - (A) replicas of one history with distinct stamps within one "
      "forgiveness period (closed under applying operations in any order through any sources and under merging); (B) replicas that have "
      "applied a gap-free prefix of every origin's operations, the history spanning any number of periods (closed under applying an origin's "
      "next or a repeated operation through any source and under merging) - a merge is the per-key maximum by stamp, hence commutative, "
      "associative, idempotent, re-merging changes nothing, and replicas that merged each other (directly or through a third) answer every "
      "lookup identically; the merged set again satisfies the set invariant. Under (B) the cut-off checks inside merge only ever drop what the "
      "other side has already applied (proved). Outside both premises commutativity is refuted by a witness. Tied to orswot.rs by "
      "exhaustive/sampled replica triples and all six merge expressions (hx-orswot mode=c03), within the period, as gap-free prefixes "
      "stretched over several periods, and outside both premises.",
      "Trusted: Coq kernel, model Orswot.v (merge transcribed loop by loop; HashMap iteration order abstracted by gmap and shown irrelevant), "
      "extraction + driver, Rust executor. Premise (A) needs tick >= 1 (K1); premise (B) does not.")
check("C04", "rocq-core", "proof",
      "Theorems in coq/core/Properties/C04.v over the model Orswot.v of OrSWotSet<N>, for every reachable set, every operation, every arrival "
      "sequence with distinct stamps, every source assignment: the acceptance rule (accepted iff not older than the safe cut-off), step refinement "
      "to a last-writer-wins join per key (no other key touched, return value = view changed), greatest-stamp-wins by induction over the arrival "
      "sequence, equality of any two arrival orders, return value = will_apply prediction, acceptance of everything arriving within one "
      "forgiveness period; the pre-fix rule is refuted (D1). Model tied to orswot.rs by exhaustive histories <= 3 (4) ops over a 2-key x 6-stamp "
      "universe for 1 and 2 sources, permutation x source sweeps and random histories (hx-orswot).",
      "Trusted: Coq kernel, hand-written model Orswot.v (BTreeMap/HashMap as gmap), ExtrOcamlBasic extraction + OCaml driver, the Rust executor; "
      "timely-acceptance theorems assume tick >= 1 (known corner K1).")
check("C05", "rocq-core", "proof",
      "Theorems in coq/core/Properties/C05.v over Orswot.v, for all reachable replica states a, b: the difference lists a key exactly when the "
      "peer holds it strictly newer than what the replica holds, or the replica holds nothing and the stamp is not below its cut-off; it carries "
      "the peer's stamp, as modification if live and removal if tombstoned; applying it in any arrangement (any batch split, interleaving, "
      "sources) with every operation accepted leaves an empty difference; both batch orders of the implementation are such arrangements; a "
      "mutual exchange yields identical views. The pre-fix acceptance rule is refuted (removal batch first loses the older put). Tied to "
      "orswot.rs by exhaustive replica pairs from <= 3 (4)-operation histories and random pairs (hx-orswot mode=c05).",
      "Trusted: Coq kernel, model Orswot.v, extraction + driver, Rust executor. Repair is conditional on acceptance (within one forgiveness "
      "period / gap-free); stamps valid with tick >= 1. The actor-level MultiDel/MultiSet path is C02/C01's subject.")
check("C06", "rocq-core", "proof",
      "Theorems in coq/core/Properties/C06.v: the call returns Ok exactly when every selected replica acknowledged, otherwise a consistency "
      "failure stating (acknowledged, selected) with acknowledged < selected; on Ok at least `required level` distinct other nodes acknowledged "
      "(given the selection facts proved in C15); whatever the result, the mutation or a newer one for the same id is in the STORE of the issuer "
      "and of every acknowledging replica, and stays there through every later event; after a failure the mutation reaches any node with the next "
      "batch carrying it; the task distributor's loop (Distributor.v): a registered mutation leaves with the next tick's batch addressed to every "
      "live member, the batches partition the registered mutations in order (nothing lost, duplicated, merged or reordered), every reachable "
      "live member applies the whole batch. Tied to lib.rs/client.rs/consistency_impl.rs/distributor.rs by the real ReplicatedStoreHandle with the real selector "
      "and the real task distributor on 2-4 in-process nodes: all levels x all operation kinds x all subsets of unreachable replicas, links "
      "restored, batching interval elapsed (hx-cluster focus=c06), and random distributor schedules.",
      "Trusted: as C01. Selection properties are premises here (C15). One data centre in the executor's clusters. The 2 s selection cache and RPC "
      "timeouts are runtime behaviour outside the model.")
check("C07", "rocq-core", "proof",
      "Theorems in coq/core/Properties/C07.v: for EVERY store with valid stamps the set rebuilt by load_states_from_storage (metadata replayed "
      "in stamp order through source 0) satisfies the set invariant and shows exactly the store's live ids and tombstones with their stamps; "
      "after every request history and every stop between requests the rebuilt set shows what the running set showed (acknowledged mutations "
      "survive); for a stop in the middle of a request (after the storage write, any outcome) the restarted node shows what the store holds; "
      "the restarted node satisfies the hypotheses of the convergence theorems. Tied to group.rs/actor.rs by restarts and mid-request kills of "
      "the real KeyspaceGroup on the same store (hx-actor) and by the same histories on a SQLite file and an LMDB directory with the database "
      "really closed and reopened at every restart, incl. histories across a decimal-digit edge of the seconds field (hx-restart).",
      "Trusted: as C02. Durability of an acknowledged write (SQLite WAL/synchronous=normal, LMDB commit, OS) is outside the model: a returned "
      "write is assumed to be in the store; persistent backends' reopen behaviour is C17's subject.")
check("C08", "rocq-core", "proof",
      "Theorems in coq/core/Properties/C08.v over Orswot.v: a purge keeps live entries and versions, removes exactly the tombstones older than "
      "their origin's cut-off; the cut-off never moves backwards, so a purged delete stays rejected (any key, any source, after any further "
      "operations, purges and merges of other replicas' states); and by a simulation between the purging and the never-purging replica, for every timely event sequence with purges anywhere both "
      "answer every lookup identically, with the last-writer-wins result (no deleted key reappears, no live key is lost). Tied to orswot.rs by "
      "exhaustive timely histories x all purge placements, late-arrival, purge-rich and purge-then-merge random histories (hx-orswot mode=c08).",
      "Trusted: Coq kernel, model Orswot.v, extraction + driver, Rust executor. Premises: valid stamps, tick >= 1 (K1), operations arrive "
      "less than one forgiveness period behind what the replica has seen. The hourly purge task and storage.remove_tombstones are C02's subject.")
check("C09", "rocq-core", "proof",
      "Theorems in coq/core/Properties/C09.v over the model Hlc.v of send/recv, for every clock value, remote stamp and (non-monotone) wall clock: "
      "success => strictly greater, own node id, within drift; failure => clock unchanged with the exact error conditions; lifted by induction to "
      "every interleaving of send/recv: each issued stamp exceeds everything issued or accepted before. Model tied to timestamp.rs by differential "
      "histories with an injected wall clock (hx-hlc).",
      "Trusted: Coq kernel, hand-written model Hlc.v, ExtrOcamlBasic extraction + OCaml driver, the Rust executor and the verif-hooks wall-clock "
      "override; premise wall <= (2^32-1) s after the datacake epoch.",
      "Rocq/Coq machine-checked proof (step lemmas + induction over histories) over an executable model + differential correspondence check")
check("C10", "rocq-core", "proof",
      "Theorems in coq/core/Properties/C10.v, for all valid fields / all 64-bit words / all strings: pack-accessor round trips, order = "
      "lexicographic, archive round trip, parse(show t) = t, parse never panics. The model is tied to timestamp.rs by differential execution over a "
      "boundary grid, random stamps and malformed text (hx-ts), and to the place where the text form is stored and re-read (rows of the SQLite "
      "backend with arbitrary stamp text: hx-rows).",
      "Trusted: Coq kernel, hand-written model Ts.v, ExtrOcamlBasic extraction + OCaml driver, the Rust executor; rkyv's archived u64 modelled as 8 LE bytes.")
check("C11", "rocq-core", "proof",
      "Theorems in coq/core/Properties/C11.v over the clock actor of Hlc.v (one task owning the stamp, one FIFO queue = any order-preserving "
      "merge of the callers' request sequences), for every queue and every wall-clock reading sequence: every reply is greater than every "
      "earlier reply to any task (so replies are pairwise distinct and each task's own results strictly increase), a request queued after an "
      "accepted registration of a remote stamp returns a greater stamp, and the actor dies exactly when send fails (drift / exhausted counter "
      "on a stalled clock) - characterised, not assumed away. All corollaries of the C09 step lemmas. Tied to clock.rs by exact sequential "
      "comparison (incl. callers that give up between request and reply) and by concurrent runs on current-thread and 4-thread runtimes with a stalled injected wall clock (hx-clock).",
      "Trusted: Coq kernel, model Hlc.v, extraction + driver, Rust executor, wall-clock hook; flume delivers each sender's requests in order. "
      "The concurrent runs sample the interleavings tokio produces; the theorems cover all of them.")
check("C12", "rocq-frame", "proof",
      "Theorems in coq/frame/Properties/C12.v, for frames of every length and every message value: a frame built by to_view_bytes is accepted "
      "and delivers the value sent; one exchange returns exactly the handler's reply or its Status (code, message); every single-bit (indeed "
      "single-byte) corruption, every mismatched trailer and every buffer shorter than size_of::<Archived<T>>()+4 is refused, never cast out of "
      "bounds, and runs no handler; and for every nested sequence of scratch-space requests and releases (any depth, width and block sizes) the "
      "serializer's three-tier scratch space (Scratch.v, model of LazyScratch) refuses nothing, never panics and leaves nothing allocated. "
      "Tied to rkyv_tooling/view.rs, mod.rs, scratch.rs and the request/reply path by differential execution of seven message "
      "types (exhaustive flips/truncations per frame; every value also read through a clone of its view), in-process RPC exchanges (hx-frame) "
      "and request/release traces on the real LazyScratch (hx-scratch), release and debug builds.",
      "Trusted: Coq kernel, the hand-written models Crc.v/Frame.v/Scratch.v, ExtrOcamlBasic plus the OCaml driver, the Rust executors. That rkyv's "
      "serializer uses the scratch space in nested order is read from its source, not proved. rkyv's serializer "
      "and view are a hypothesis (round-trip law), validated by execution only; crc32fast is modelled as bit-serial CRC-32; HTTP/2 framing is "
      "replaced by the in-process transport, which re-creates body chunking (pieces of 1/3/16/1000 bytes without a length hint) so that "
      "the real reassembly code (to_aligned) runs.")
check("C13", "rocq-registry", "proof",
      "Theorems in coq/registry/Properties/C13.v, for every add/remove history and any handler-key function injective on the pairs in use: a "
      "request is served iff its service was added and not removed since, by the latest such add's instance, else refused; removing one service "
      "never disables nor leaves behind handlers of another. Tied to server.rs/handler.rs/net/server.rs by differential execution (hx-registry) "
      "over all histories <= 6 on a 4-name x 3-message universe plus random histories, through the real client and dispatch path in-process.",
      "Trusted: Coq kernel; hand-written model Registry.v; ExtrOcamlBasic + OCaml driver; Rust executor; hash injectivity on pairs in use "
      "(premise; checked for the executor's universe); sequential registry operations; in-process transport hook instead of hyper/TCP.")
check("C14", "rocq-rpclife", "other",
      "Specification automaton of the request life-cycle (coq/rpclife/RpcLife.v) with machine-checked theorems about its runs (at most one "
      "execution, Ok = own reply, no swap, timeout and 2 s connect bounds, result final, no panic; pending possible without a timeout); the real "
      "client/server are run in turmoil under seeded and bounded-exhaustive partition/hold/release/repair schedules and every observed trace must "
      "be a run of the automaton; the property's own oracle is evaluated on every outcome. Timeouts: none, 0.3-3 s, a configured zero, a configured Duration::MAX.",
      "Theorems are about the automaton, not about hyper/h2/tokio/TCP; the code <-> automaton link is tested trace inclusion only. turmoil 0.4 "
      "semantics (silent drop, no retransmission); with the simulation feature one Channel's requests are serialised, so multiplexing is exercised "
      "only across two connections.",
      "Rocq/Coq specification automaton + deterministic-simulation (turmoil) differential")
check("C15", "rocq-selector", "proof",
      "Theorems in coq/selector/Properties/C15.v for all layouts, all cursor values (hence all histories), all levels and all RNG choices: "
      "selections are duplicate-free, exclude the local node, stay inside the membership of the last update, have >= required nodes (exactly n for "
      "One/Two/Three), and NotEnoughNodes only when too few other nodes exist; the actor draws from the last set_nodes only and every answer "
      "of the actor, fresh or cached, satisfies the count clauses for the membership of the last update. Model tied to nodes_selector.rs and "
      "to the layout construction in watch_membership_changes by hx-selector (exhaustive small layouts x 3-step histories, actor update "
      "pairs, memberships handed to the real watcher, random).",
      "Count clauses assume the local node is listed under its own DC and total_nodes = member count (what the membership watcher must hand "
      "over; checked by the executor's watcher cases). The 2 s cache is abstracted to expiry events; usize arithmetic as truncated nat. Trusted: Coq "
      "kernel, model Selector.v, extraction + driver, Rust executor.")
check("C16", "rocq-membership", "proof",
      "Theorems in coq/membership/Properties/C16.v, for all snapshot sequences with unique ids, all subscription points and all poll placements: "
      "the differ is exact (a departed node is reported with the data it had; an address change is a leave plus a join); outside the two known "
      "classes Late and Coalesced a subscriber that applies the events it is handed holds exactly the last snapshot's other nodes; inside each "
      "class a witness refutes it (D9, known finding, printed as KNOWN-FINDING). Model tied to watch_membership_changes, the watch channel and "
      "WatchStream by differential execution: bounded-exhaustive over schedules, then random (hx-membership).",
      "Trusted: Coq kernel, hand-written Membership.v, ExtrOcamlBasic extraction with a vm_compute cross-check, the OCaml driver, the Rust "
      "executor (schedule control by yielding on a current-thread runtime). The consumers' apply loop is re-implemented in the executor for the subscriber schedules and pinned (with its left-before-joined order); the real task distributor is run on every published change by the `dist` cases (and with one live peer unreachable for exactly one batch by the `distf` cases) and the addresses its batch reaches are compared. "
      "D9 (late subscriber / coalesced deltas on the watch channel) is a known finding, not repaired.")
check("C17", "rocq-storage", "translation_validation",
      "Differential of MemStore, SQLite (memory and file) and LMDB against a proved-about reference model. After every call of generated "
      "contract-allowed call sequences all observers (get, multi_get, iter_metadata, keyspace list) are compared with the extracted Coq reference "
      "and by an independent oracle. Sequences are bounded-exhaustive for short ones and random beyond; close+reopen after any prefix for the "
      "persistent backends; for SQLite also bulk writes with one row refused by the engine (nothing of the batch stored, the handle keeps serving). The theorems in coq/storage/Properties/C17.v hold for all states, all call sequences and any payload type: frame rule "
      "(keyspaces never affect one another), get-after-put, last write wins, metadata = last write per id, reopen = identity, observations "
      "determined by per-id last write, allowed purge keeps documents. They are about the reference only; agreement of the backends is established "
      "on the cases run, not proved.",
      "Keyspace lists compared modulo keyspaces without entries (the backends legitimately differ there); multi_get compared as a set; close = "
      "orderly drop, no crash or power-loss durability; SQL, LMDB and file-system semantics trusted. Known finding: SQLite stores the stamp's "
      "Display text, so a non-canonical stamp word (fraction byte > 249, only reachable through from_u64) does not come back unchanged.",
      "differential execution against a Coq-verified executable reference model (extracted with ExtrOcamlBasic)")
check("C18", "rocq-keyspace", "proof",
      "Theorems in coq/keyspace/Properties/C18.v over the interleaving model Keyspace.v of get_or_create_keyspace/add_state, for any number of "
      "tasks and every schedule (invariant of the transition system): all returned tasks hold the instance in the map, the entry never changes, "
      "every acknowledged mutation is in the set any later lookup returns, the published update counter is the live instance's, the loser's "
      "spawned actor is unreachable; the same with ticks of the group's purge task anywhere in the trace (KeyspaceLife.v); legacy overwriting "
      "insert and a reload-after-failed-purge variant refuted. Model tied to group.rs by hand-polled futures of the real code in every "
      "poll order for k<=3 (k=4 in thorough), random schedules k<=6, plus oracle-only legs: a barrier-released multi-thread stress and purge "
      "ticks (healthy/failing store) between two uses of a keyspace (hx-keyspace).",
      "Trusted: Coq kernel, hand-written model Keyspace.v, atomicity of parking_lot RwLock sections and one-message-at-a-time puppet actors, "
      "flume/oneshot delivery, ExtrOcamlBasic + OCaml driver, the Rust executor; correspondence is poll-granular on a current-thread runtime "
      "(theorems cover the finer multi-thread interleavings).",
      "Rocq/Coq machine-checked invariant proof over an executable interleaving model + schedule-enumerating differential correspondence check")

check("C19", "rocq-core", "other",
      "Theorems in coq/core/Properties/C19.v over Transfer.v (service wraps the encoded set, client decodes with a checked decoder; codec = "
      "Section variable with the round-trip law): for every reachable keyspace state of any size the received state IS the sent state, "
      "hence observably identical (live ids, tombstones, stamps, accept/refuse decisions and results of any further operation sequence); "
      "sets are determined by their contents; bytes that do not decode yield an error. Tied to replication_impl.rs / client.rs / actor.rs "
      "by the real ReplicationService and ReplicationClient::get_state over the in-process transport (hx-transfer): all state shapes x "
      "sizes 0..40 (every offset of the nested slice mod 16), 64..2500 (10000 thorough; thousands of tombstones), 1..200 origins, both sources, purged prefixes; "
      "received set compared with the model's and, by the oracle, with the sender's (contents, diff both ways, will_apply probes, "
      "follow-up operations) and with what the sender's storage holds; a peer answering with damaged nested bytes must produce an error.",
      "The byte-level facts (rkyv layout, alignment and validity of the nested cast) are outside any Gallina model: exercised on the "
      "states run, not proved. Trusted: Coq kernel, models Transfer.v/Actor.v/Orswot.v, extraction + driver, Rust executor, in-process "
      "transport hook.",
      "Rocq/Coq specification theorems over an executable model + differential execution of the real service/client pair")


def main():
    props = [json.loads(l) for l in open(os.path.join(VERIF, "properties.jsonl"))]
    try:
        old = json.load(open(os.path.join(VERIF, "MANIFEST.json")))
    except Exception:
        old = {}
    m = {
        "version": 1,
        "setup_cmd": "bin/setup",
        "hooks": {
            "guard": "cargo feature verif-hooks (on datacake-crdt, datacake-rpc, datacake-node, datacake-eventual-consistency)",
            "enable": "the harness workspaces (/verif/harness, /verif/harness-sim) depend on the /repo crates with features=[\"verif-hooks\"]; "
                      "no member of /repo's own workspace enables the feature",
            "baseline_off_cmd": "cd /repo && cargo nextest run --workspace --no-fail-fast --test-threads 8 --offline || cargo test --workspace --no-fail-fast --offline",
            "source_commits": ["3d14cf9", "445d25e", "d0bd1e4", "a802df6", "a7b3111", "265652d", "cf50e9b", "493b070"],
            "add_only": True,
        },
        "engines": [],
        "checks": [],
        "notes": "See DESIGN.md. Each check = proof leg (full .vo build + forbidden-token grep + Print Assumptions audit) + correspondence leg "
                 "(extracted Coq model vs /repo working tree on generated cases) + the property's own oracle on the implementation. "
                 "Genuine defects repaired by 'fix:' commits in /repo and recorded in known_findings.json.",
        "not_applicable": [],
    }
    serves = {}
    for pid, c in CHECKS.items():
        serves.setdefault(c["engine"], []).append(pid)
    for name, (path, kind) in ENGINES.items():
        if name in serves:
            m["engines"].append({"name": name, "path": path, "serves_properties": sorted(serves[name]), "kind_free_text": kind})
    for p in props:
        pid = p["id"]
        if pid in CHECKS:
            c = CHECKS[pid]
            m["checks"].append({
                "property_id": pid,
                "quick_cmd": "bin/check %s --tier quick" % pid,
                "thorough_cmd": "bin/check %s --tier thorough" % pid,
                "evidence_file": "evidence/%s.json" % pid,
                "replay_cmd_template": "bin/check %s --replay {path}" % pid,
                "engine": c["engine"],
                "level_claimed": {"category": c["category"], "text": c["text"], "design_ref": c["design"]},
                "level_note": c["note"],
                "technique": c["technique"],
            })
        else:
            m["not_applicable"].append({
                "property_id": pid,
                "reason": NOT_YET.get(pid, "check not built yet in this revision (work in progress; DESIGN.md section 10 gives the order of work)"),
            })
    with open(os.path.join(VERIF, "MANIFEST.json"), "w") as f:
        json.dump(m, f, indent=1)
        f.write("\n")


if __name__ == "__main__":
    main()
