fn main() {}
