//! hx-sim: implementation executor for C14 (RPC life-cycle under network faults).
//!
//! Each case is one turmoil simulation (deterministic simulated time, 1 ms tick):
//! one server host running the real `datacake_rpc::Server` with an echo service and
//! one client host issuing 1..8 requests over 1..2 `Channel`s ("lanes"), while a
//! schedule of partition / hold / release / repair events is applied to the
//! client<->server link at chosen simulated times (optionally also from inside the
//! handler, i.e. exactly between execution and reply).
//!
//! case line   = configuration + schedule + `#` + the observed trace (what the model
//!               cannot predict: which connect attempts were made and when the
//!               handshake completed, when the handler ran, when and how each call
//!               returned);
//! result line = per request `ok:<reply>|conn-err|timeout|pending|panic|status:<n>`
//!               followed by ` x<handler executions>`.
//! The model (coq/rpclife/RpcLife.v) replays the trace through its transition system;
//! it prints the same result line iff every observed step is one it allows.
//!
//! The property oracle (independent of the model) is evaluated on the outcomes:
//! nothing executed twice, every Ok carries the reply computed for its own request,
//! nothing swapped, a configured timeout is respected, nothing panics, nothing pends
//! without a fault.

use std::cell::{Cell, RefCell};
use std::fmt::Write as _;
use std::future::Future;
use std::net::{IpAddr, Ipv4Addr, SocketAddr};
use std::panic::{catch_unwind, AssertUnwindSafe};
use std::pin::Pin;
use std::rc::Rc;
use std::sync::{Arc, Mutex};
use std::task::{Context, Poll};
use std::time::Duration;

use datacake_rpc::{
    Channel, ErrorCode, Handler, Request, RpcClient, RpcService, Server, ServiceRegistry, Status,
};
use hxcommon::{quiet_panics, Args, CaseWriter, Rng};
use rkyv::{Archive, Deserialize, Serialize};
use tokio::time::Instant;

const PORT: u16 = 9999;

/// Self-test of the check (`mutate=retry|swap|late` on the command line, never used by
/// bin/check): the harness itself misbehaves the way a broken client/server would, and
/// the oracle and the model must both object.
static MUTATE: std::sync::atomic::AtomicU8 = std::sync::atomic::AtomicU8::new(0);
fn mutate() -> u8 {
    MUTATE.load(std::sync::atomic::Ordering::Relaxed)
}
/// The connect bound hard-coded in datacake-rpc (net/simulation.rs, net/client.rs).
const CONNECT_US: u64 = 2_000_000;
/// One simulation tick; the granularity at which simulated time is observable.
const SLACK_US: u64 = 1_000;

// ------------------------------------------------------------------ case description

#[derive(Clone, Debug, PartialEq)]
struct ReqCfg {
    lane: u32,
    tmo_us: u64,   // 0 = no timeout configured; ZERO_TMO = a timeout of Duration::ZERO is configured;
                   // HUGE_TMO = a timeout of Duration::MAX ("never give up") is configured
    delay_us: u64, // handler sleeps this long before replying
    start_us: u64,
    hf: u32, // fault applied by the handler itself on entry: 0 none, 1 hold, 2 partition
}

#[derive(Clone, Debug, PartialEq)]
struct Case {
    lat_ms: u64,
    salt: u64,
    reqs: Vec<ReqCfg>,
    sched: Vec<(u64, char)>, // (time in us, p|h|l|r)
}

impl Case {
    fn head(&self) -> String {
        let mut s = format!("c {:x} {:x}", self.lat_ms, self.salt);
        for q in &self.reqs {
            write!(s, " q {:x} {:x} {:x} {:x} {:x}", q.lane, q.tmo_us, q.delay_us, q.start_us, q.hf)
                .unwrap();
        }
        for (t, k) in &self.sched {
            write!(s, " s {:x} {}", t, k).unwrap();
        }
        s
    }

    fn parse(line: &str) -> Option<Case> {
        let head = line.split('#').next().unwrap();
        let t: Vec<&str> = head.split_whitespace().collect();
        let hx = |s: &str| u64::from_str_radix(s, 16).ok();
        if t.len() < 3 || t[0] != "c" {
            return None;
        }
        let mut c = Case { lat_ms: hx(t[1])?, salt: hx(t[2])?, reqs: vec![], sched: vec![] };
        let mut i = 3;
        while i < t.len() {
            match t[i] {
                "q" if i + 5 < t.len() => {
                    c.reqs.push(ReqCfg {
                        lane: hx(t[i + 1])? as u32,
                        tmo_us: hx(t[i + 2])?,
                        delay_us: hx(t[i + 3])?,
                        start_us: hx(t[i + 4])?,
                        hf: hx(t[i + 5])? as u32,
                    });
                    i += 6;
                },
                "s" if i + 2 < t.len() => {
                    c.sched.push((hx(t[i + 1])?, t[i + 2].chars().next()?));
                    i += 3;
                },
                _ => return None,
            }
        }
        if c.reqs.is_empty() || c.reqs.len() > 16 {
            return None;
        }
        Some(c)
    }

    fn payload(&self, i: usize) -> u32 {
        (self.salt as u32).wrapping_mul(16).wrapping_add(i as u32)
    }

    fn has_fault(&self) -> bool {
        !self.sched.is_empty() || self.reqs.iter().any(|q| q.hf != 0)
    }
}

/// The reply the handler computes for a payload (the model's `handler`).
fn handler_fn(payload: u32) -> u32 {
    ((payload as u64 * 2_654_435_761 + 12_345) % (1u64 << 32)) as u32
}

// ------------------------------------------------------------------ observations

#[derive(Clone, Debug, PartialEq)]
enum Res {
    Ok { echo: u32, value: u32 },
    ConnErr,
    Timeout,
    Status(u32),
    Panic,
    Pending,
}

impl Res {
    fn trace_tok(&self) -> String {
        match self {
            Res::Ok { value, .. } => format!("ok:{:x}", value),
            Res::ConnErr => "ce".into(),
            Res::Timeout => "to".into(),
            Res::Status(c) => format!("st:{:x}", c),
            Res::Panic => "pn".into(),
            Res::Pending => "pd".into(),
        }
    }
    fn out_tok(&self) -> String {
        match self {
            Res::Ok { value, .. } => format!("ok:{:x}", value),
            Res::ConnErr => "conn-err".into(),
            Res::Timeout => "timeout".into(),
            Res::Status(c) => format!("status:{:x}", c),
            Res::Panic => "panic".into(),
            Res::Pending => "pending".into(),
        }
    }
}

#[derive(Clone, Debug)]
enum Ev {
    Env(char),
    St(usize),
    Sy(usize, char),
    Cn(usize),
    Ex(usize),
    Dn(usize),
    En(usize, Res),
    Hz,
}

#[derive(Default)]
struct Obs {
    last: u64,
    ev: Vec<(u64, Ev)>,
    execs: Vec<u32>,
    seg_drop: u64,
    seg_hold: u64,
}

impl Obs {
    fn push(&mut self, t: u64, e: Ev) {
        // One OS thread runs the hosts one after the other inside a tick, so the order
        // of appends is the causal order; stamps of different hosts may differ by less
        // than one tick and are clamped to be monotone.
        let t = t.max(self.last);
        self.last = t;
        self.ev.push((t, e));
    }
}

type SharedObs = Arc<Mutex<Obs>>;

thread_local! {
    static OBS: RefCell<Option<SharedObs>> = RefCell::new(None);
    /// request whose future is being polled right now (-1: none)
    static CUR: Cell<i64> = Cell::new(-1);
    /// `Instant` of the client runtime that corresponds to simulated time 0
    static CBASE: Cell<Option<Instant>> = Cell::new(None);
}

fn us_since(base: Instant) -> u64 {
    Instant::now().saturating_duration_since(base).as_micros() as u64
}

/// Collects the two facts about connection set-up that are not visible through the
/// public API: every TCP SYN sent while a request future is being polled (and whether
/// the link dropped / held it), and the moment the SYN-ACK is received.
struct NetTap;

#[derive(Default)]
struct Capped {
    buf: String,
}
impl std::fmt::Write for Capped {
    fn write_str(&mut self, s: &str) -> std::fmt::Result {
        for ch in s.chars() {
            if self.buf.len() >= 12 {
                return Err(std::fmt::Error);
            }
            self.buf.push(ch);
        }
        Ok(())
    }
}

#[derive(Default)]
struct TapVisit {
    msg: Capped,
    proto: Capped,
}
impl tracing::field::Visit for TapVisit {
    fn record_debug(&mut self, field: &tracing::field::Field, value: &dyn std::fmt::Debug) {
        match field.name() {
            "message" => {
                let _ = write!(self.msg, "{:?}", value);
            },
            "protocol" => {
                let _ = write!(self.proto, "{:?}", value);
            },
            _ => {},
        }
    }
}

impl tracing::Subscriber for NetTap {
    fn enabled(&self, m: &tracing::Metadata<'_>) -> bool {
        m.target() == "turmoil" && *m.level() == tracing::Level::TRACE
    }
    fn new_span(&self, _: &tracing::span::Attributes<'_>) -> tracing::span::Id {
        tracing::span::Id::from_u64(1)
    }
    fn record(&self, _: &tracing::span::Id, _: &tracing::span::Record<'_>) {}
    fn record_follows_from(&self, _: &tracing::span::Id, _: &tracing::span::Id) {}
    fn enter(&self, _: &tracing::span::Id) {}
    fn exit(&self, _: &tracing::span::Id) {}
    fn event(&self, e: &tracing::Event<'_>) {
        if e.metadata().target() != "turmoil" {
            return;
        }
        let mut v = TapVisit::default();
        e.record(&mut v);
        let msg = v.msg.buf.as_str();
        let proto = v.proto.buf.as_str();
        let cur = CUR.with(|c| c.get());
        OBS.with(|o| {
            let o = o.borrow();
            let Some(obs) = o.as_ref() else { return };
            let mut obs = obs.lock().unwrap();
            match msg {
                "Drop" => obs.seg_drop += 1,
                "Hold" => obs.seg_hold += 1,
                _ => {},
            }
            if cur < 0 {
                return;
            }
            let i = cur as usize;
            let Some(base) = CBASE.with(|b| b.get()) else { return };
            let now = us_since(base);
            match (msg, proto) {
                ("Send", "TCP SYN") => obs.push(now, Ev::Sy(i, 'c')),
                ("Hold", "TCP SYN") | ("Drop", "TCP SYN") => {
                    let f = if msg == "Hold" { 'h' } else { 'd' };
                    if let Some((_, Ev::Sy(j, fate))) = obs.ev.last_mut() {
                        if *j == i {
                            *fate = f;
                        }
                    }
                },
                ("Recv", "TCP SYN-ACK") => obs.push(now, Ev::Cn(i)),
                _ => {},
            }
        });
    }
}

/// Marks which request a poll belongs to and turns a panic of the polled future into
/// a value.
struct Tagged<T> {
    id: usize,
    fut: Option<Pin<Box<dyn Future<Output = T>>>>,
}

impl<T> Future for Tagged<T> {
    type Output = Option<T>;
    fn poll(mut self: Pin<&mut Self>, cx: &mut Context<'_>) -> Poll<Option<T>> {
        let id = self.id;
        let Some(fut) = self.fut.as_mut() else { return Poll::Ready(None) };
        CUR.with(|c| c.set(id as i64));
        let r = catch_unwind(AssertUnwindSafe(|| fut.as_mut().poll(cx)));
        CUR.with(|c| c.set(-1));
        match r {
            Ok(Poll::Pending) => Poll::Pending,
            Ok(Poll::Ready(v)) => {
                self.fut = None;
                Poll::Ready(Some(v))
            },
            Err(_) => {
                // the future is poisoned; leak it rather than run its destructor twice
                std::mem::forget(self.fut.take());
                Poll::Ready(None)
            },
        }
    }
}

// ------------------------------------------------------------------ the service

#[repr(C)]
#[derive(Serialize, Deserialize, Archive, PartialEq, Debug, Clone)]
#[archive(compare(PartialEq), check_bytes)]
pub struct Ping {
    payload: u32,
    idx: u32,
    delay_us: u64,
    hf: u32,
}

#[repr(C)]
#[derive(Serialize, Deserialize, Archive, PartialEq, Debug)]
#[archive(compare(PartialEq), check_bytes)]
pub struct Pong {
    echo: u32,
    value: u32,
}

struct EchoService {
    obs: SharedObs,
    base: Instant,
}

impl RpcService for EchoService {
    fn register_handlers(registry: &mut ServiceRegistry<Self>) {
        registry.add_handler::<Ping>();
    }
}

#[datacake_rpc::async_trait]
impl Handler<Ping> for EchoService {
    type Reply = Pong;

    async fn on_message(&self, msg: Request<Ping>) -> Result<Self::Reply, Status> {
        let payload = msg.payload;
        let idx = msg.idx as usize;
        let delay = msg.delay_us;
        let hf = msg.hf;
        {
            let mut o = self.obs.lock().unwrap();
            if idx < o.execs.len() {
                o.execs[idx] += 1;
            }
            let now = us_since(self.base);
            o.push(now, Ev::Ex(idx));
            match hf {
                1 => {
                    turmoil::hold("client", "server");
                    o.push(now, Ev::Env('h'));
                },
                2 => {
                    turmoil::partition("client", "server");
                    o.push(now, Ev::Env('p'));
                },
                _ => {},
            }
        }
        if delay > 0 {
            tokio::time::sleep(Duration::from_micros(delay)).await;
        }
        let value = handler_fn(payload);
        self.obs.lock().unwrap().push(us_since(self.base), Ev::Dn(idx));
        if mutate() == 2 && idx % 2 == 1 {
            // mutation: answer with the previous request's reply
            return Ok(Pong { echo: payload - 1, value: handler_fn(payload - 1) });
        }
        Ok(Pong { echo: payload, value })
    }
}

// ------------------------------------------------------------------ one simulation

struct SeededRng(Rng);
impl rand::RngCore for SeededRng {
    fn next_u32(&mut self) -> u32 {
        self.0.next() as u32
    }
    fn next_u64(&mut self) -> u64 {
        self.0.next()
    }
    fn fill_bytes(&mut self, dest: &mut [u8]) {
        for b in dest {
            *b = self.0.next() as u8;
        }
    }
    fn try_fill_bytes(&mut self, dest: &mut [u8]) -> Result<(), rand::Error> {
        self.fill_bytes(dest);
        Ok(())
    }
}

struct RunOut {
    trace: Vec<(u64, Ev)>,
    results: Vec<Res>,
    ends: Vec<Option<u64>>, // elapsed us from start to result
    execs: Vec<u32>,
    sim_error: Option<String>,
    seg_drop: u64,
    seg_hold: u64,
}

fn horizon_us(case: &Case) -> u64 {
    let max_start = case.reqs.iter().map(|q| q.start_us).max().unwrap_or(0);
    let delays: u64 = case.reqs.iter().map(|q| q.delay_us).sum();
    let max_tmo = case.reqs.iter().filter_map(bound_of).max().unwrap_or(0);
    let last_ev = case.sched.iter().map(|s| s.0).max().unwrap_or(0);
    max_start.max(last_ev) + (CONNECT_US + 100_000) * case.reqs.len() as u64 + delays + max_tmo + 500_000
}

fn run_case(case: &Case) -> RunOut {
    let n = case.reqs.len();
    let obs: SharedObs = Arc::new(Mutex::new(Obs { execs: vec![0; n], ..Default::default() }));
    OBS.with(|o| *o.borrow_mut() = Some(obs.clone()));
    CUR.with(|c| c.set(-1));
    CBASE.with(|b| b.set(None));
    let results: Rc<RefCell<Vec<Res>>> = Rc::new(RefCell::new(vec![Res::Pending; n]));
    let ends: Rc<RefCell<Vec<Option<u64>>>> = Rc::new(RefCell::new(vec![None; n]));
    let horizon = horizon_us(case);

    let r = catch_unwind(AssertUnwindSafe(|| -> Result<(), String> {
        let lat = Duration::from_millis(case.lat_ms);
        let mut b = turmoil::Builder::new();
        b.simulation_duration(Duration::from_micros(horizon + 10_000_000))
            .tick_duration(Duration::from_millis(1))
            .min_message_latency(lat)
            .max_message_latency(lat);
        let mut sim = b.build_with_rng(Box::new(SeededRng(Rng::new(case.salt))));

        let sobs = obs.clone();
        sim.host("server", move || {
            let obs = sobs.clone();
            async move {
                let base = Instant::now() - turmoil::elapsed();
                let server =
                    Server::listen(SocketAddr::new(IpAddr::from(Ipv4Addr::UNSPECIFIED), PORT)).await?;
                server.add_service(EchoService { obs, base });
                std::future::pending::<()>().await;
                Ok(())
            }
        });

        let case2 = case.clone();
        let cobs = obs.clone();
        let cres = results.clone();
        let cends = ends.clone();
        sim.client("client", async move {
            let case = case2;
            let base = Instant::now() - turmoil::elapsed();
            CBASE.with(|b| b.set(Some(base)));
            let addr: SocketAddr = (turmoil::lookup("server"), PORT).into();
            let nlanes = case.reqs.iter().map(|q| q.lane).max().unwrap() as usize + 1;
            let lanes: Vec<Channel> = (0..nlanes).map(|_| Channel::connect(addr)).collect();
            let done = Rc::new(Cell::new(0usize));
            let mut handles = Vec::new();

            // the fault schedule
            {
                let sched = case.sched.clone();
                let obs = cobs.clone();
                handles.push(tokio::task::spawn_local(async move {
                    for (t, k) in sched {
                        tokio::time::sleep_until(base + Duration::from_micros(t)).await;
                        match k {
                            'p' => turmoil::partition("client", "server"),
                            'h' => turmoil::hold("client", "server"),
                            'l' => turmoil::release("client", "server"),
                            'r' => turmoil::repair("client", "server"),
                            _ => continue,
                        }
                        obs.lock().unwrap().push(us_since(base), Ev::Env(k));
                    }
                }));
            }

            for (i, q) in case.reqs.iter().cloned().enumerate() {
                let mut client = RpcClient::<EchoService>::new(lanes[q.lane as usize].clone());
                if mutate() != 3 {
                    if q.tmo_us == HUGE_TMO {
                        client.set_timeout(Duration::MAX);
                    } else if let Some(b) = bound_of(&q) {
                        client.set_timeout(Duration::from_micros(b));
                    }
                }
                // Which public path issues the request is not part of the case's meaning: the
                // configured client or a clone of it, a borrowed or an owned message.  It rotates
                // with the case's salt, so a replay takes the same path.
                let via = (case.salt as usize + i) % 4;
                let mut client = if via % 2 == 1 { client.clone() } else { client };
                let msg = Ping { payload: case.payload(i), idx: i as u32, delay_us: q.delay_us, hf: q.hf };
                let obs = cobs.clone();
                let res = cres.clone();
                let ends = cends.clone();
                let done = done.clone();
                handles.push(tokio::task::spawn_local(async move {
                    tokio::time::sleep_until(base + Duration::from_micros(q.start_us)).await;
                    let t0 = us_since(base);
                    obs.lock().unwrap().push(t0, Ev::St(i));
                    let fut = async move {
                        let mut r = if via >= 2 { client.send_owned(msg.clone()).await } else { client.send(&msg).await };
                        if mutate() == 1 && r.is_err() {
                            // mutation: a client that retries a failed call
                            r = client.send(&msg).await;
                        }
                        match r {
                            Ok(view) => Res::Ok { echo: view.echo, value: view.value },
                            Err(st) => match st.code {
                                ErrorCode::ConnectionError => Res::ConnErr,
                                ErrorCode::Timeout => Res::Timeout,
                                ErrorCode::ServiceUnavailable => Res::Status(0),
                                ErrorCode::InternalError => Res::Status(1),
                                ErrorCode::InvalidPayload => Res::Status(2),
                            },
                        }
                    };
                    let r = Tagged { id: i, fut: Some(Box::pin(fut)) }.await.unwrap_or(Res::Panic);
                    let t1 = us_since(base);
                    obs.lock().unwrap().push(t1, Ev::En(i, r.clone()));
                    res.borrow_mut()[i] = r;
                    ends.borrow_mut()[i] = Some(t1 - t0);
                    done.set(done.get() + 1);
                }));
            }

            // wait until every call has returned, or the horizon
            loop {
                tokio::time::sleep(Duration::from_millis(1)).await;
                if done.get() == case.reqs.len() || us_since(base) >= horizon {
                    break;
                }
            }
            // let a handler that is still sleeping be observed, then stop
            cobs.lock().unwrap().push(us_since(base), Ev::Hz);
            for h in handles {
                h.abort();
            }
            Ok(())
        });

        sim.run().map_err(|e| e.to_string())
    }));
    OBS.with(|o| *o.borrow_mut() = None);
    let sim_error = match r {
        Ok(Ok(())) => None,
        Ok(Err(e)) => Some(format!("sim error: {e}")),
        Err(p) => Some(format!(
            "sim panic: {}",
            p.downcast_ref::<String>().cloned().or_else(|| p.downcast_ref::<&str>().map(|s| s.to_string())).unwrap_or_default()
        )),
    };
    let o = obs.lock().unwrap();
    let results = results.borrow().clone();
    let ends = ends.borrow().clone();
    RunOut {
        trace: o.ev.clone(),
        results,
        ends,
        execs: o.execs.clone(),
        sim_error,
        seg_drop: o.seg_drop,
        seg_hold: o.seg_hold,
    }
}

fn trace_text(trace: &[(u64, Ev)]) -> String {
    let mut s = String::new();
    for (t, e) in trace {
        match e {
            Ev::Env(k) => write!(s, " {:x} {}", t, k),
            Ev::St(i) => write!(s, " {:x} st {:x}", t, i),
            Ev::Sy(i, f) => write!(s, " {:x} sy {:x} {}", t, i, f),
            Ev::Cn(i) => write!(s, " {:x} cn {:x}", t, i),
            Ev::Ex(i) => write!(s, " {:x} ex {:x}", t, i),
            Ev::Dn(i) => write!(s, " {:x} dn {:x}", t, i),
            Ev::En(i, r) => write!(s, " {:x} en {:x} {}", t, i, r.trace_tok()),
            Ev::Hz => write!(s, " {:x} hz", t),
        }
        .unwrap();
    }
    s
}

fn outcome_text(out: &RunOut) -> String {
    if let Some(e) = &out.sim_error {
        return format!("sim-failed {}", e.replace(['\n', '\t'], " "));
    }
    let mut v = Vec::new();
    for (i, r) in out.results.iter().enumerate() {
        v.push(format!("{} x{:x}", r.out_tok(), out.execs[i]));
    }
    v.join(" ")
}

// ------------------------------------------------------------------ property oracle

/// The statement of C14 evaluated on what the implementation did (no model involved).
fn oracle(case: &Case, out: &RunOut, w: &mut CaseWriter, line: &str) {
    if let Some(e) = &out.sim_error {
        w.fail("simulation-aborted", line, e);
        return;
    }
    for (i, q) in case.reqs.iter().enumerate() {
        let own = case.payload(i);
        if out.execs[i] > 1 {
            w.fail("executed-more-than-once", line, &format!("request {i} ran {} times", out.execs[i]));
        }
        match &out.results[i] {
            Res::Ok { echo, value } => {
                if *echo != own || *value != handler_fn(own) {
                    let swapped = (0..case.reqs.len()).any(|j| j != i && *echo == case.payload(j));
                    w.fail(
                        if swapped { "reply-swapped" } else { "reply-not-the-handlers" },
                        line,
                        &format!("request {i} payload {own:x} got echo {echo:x} value {value:x}"),
                    );
                }
                if out.execs[i] != 1 {
                    w.fail("ok-without-execution", line, &format!("request {i} execs {}", out.execs[i]));
                }
            },
            Res::ConnErr | Res::Timeout => {},
            Res::Status(c) => {
                w.fail("unexpected-status", line, &format!("request {i} returned status code {c}"))
            },
            Res::Panic => w.fail("request-panicked", line, &format!("request {i} panicked inside send")),
            Res::Pending => {
                if bound_of(q).is_some() {
                    w.fail("deadline-missed", line, &format!("request {i} still pending at the horizon"));
                } else if !case.has_fault() {
                    w.fail("pending-without-fault", line, &format!("request {i}"));
                }
            },
        }
        if bound_of(q).is_none() && out.results[i] == Res::Timeout {
            w.fail("timeout-without-deadline", line, &format!("request {i}"));
        }
        if let Some(el) = out.ends[i] {
            if let Some(b) = bound_of(q) {
                if el > b + SLACK_US {
                    w.fail("deadline-missed", line, &format!("request {i} returned after {el} us, timeout {b} us"));
                }
            }
        }
    }
}

// ------------------------------------------------------------------ generators

const MS: u64 = 1000;

fn ev_time(ms: u64) -> u64 {
    // tokio timers have millisecond resolution, so everything in a simulation happens
    // at whole milliseconds; the order of simultaneous events is the order in which
    // they were observed (appended to the trace)
    ms * MS
}

const TMOS: [u64; 5] = [0, 300 * MS, 1000 * MS, 2000 * MS, 3000 * MS];
/// "a timeout of zero is configured" (an exhausted time budget): the request must end at once
const ZERO_TMO: u64 = u64::MAX;
/// "a timeout of Duration::MAX is configured": the usual way to say "never give up"; it bounds
/// nothing, so the request behaves as one without a timeout
const HUGE_TMO: u64 = u64::MAX - 1;
/// the configured bound in microseconds, if any
fn bound_of(q: &ReqCfg) -> Option<u64> {
    match q.tmo_us {
        0 | HUGE_TMO => None,
        ZERO_TMO => Some(0),
        v => Some(v),
    }
}

/// Bounded-exhaustive family: one request; every single fault event and every ordered
/// pair of fault events at the phase points of the request.
fn gen_exhaustive(thorough: bool, out: &mut Vec<Case>) -> usize {
    let kinds = ['p', 'h', 'l', 'r'];
    let start = 10u64; // ms
    let lat = 5u64;
    // phase points (ms): before the call, during connect, around send/exec/reply, later
    // (call at 10 ms, latency 5 ms: SYN 10, connected 15, handler 20, reply 25; slow
    // handler returns at 520; timeout 300 ms fires at 310; connect bound at 2010)
    let pts = [2u64, 10, 13, 16, 19, 24, 40, 309, 311, 600, 1900, 2015, 2600];
    let tmos: &[u64] = if thorough { &TMOS } else { &[0, 300 * MS, 3000 * MS] };
    let n0 = out.len();
    let mut salt = 1u64;
    let mut tmos: Vec<u64> = tmos.to_vec();
    tmos.push(ZERO_TMO);
    tmos.push(HUGE_TMO);
    for &tmo in &tmos {
        for &delay in &[0u64, 500 * MS] {
            if tmo == ZERO_TMO && delay == 0 {
                // with a fast handler on a healthy link nothing tells a zero budget from a tiny one
                continue;
            }
            for hf in 0..3u32 {
                let q = ReqCfg { lane: 0, tmo_us: tmo, delay_us: delay, start_us: start * MS, hf };
                // no fault, single faults
                out.push(Case { lat_ms: lat, salt, reqs: vec![q.clone()], sched: vec![] });
                salt += 1;
                for &k in &kinds {
                    for &p in &pts {
                        out.push(Case { lat_ms: lat, salt, reqs: vec![q.clone()], sched: vec![(ev_time(p), k)] });
                        salt += 1;
                    }
                }
                // ordered pairs (fault then a second event), only without handler faults
                if hf == 0 && (thorough || delay == 0) {
                    for &k1 in &['p', 'h'] {
                        for &k2 in &kinds {
                            for (a, &p1) in pts.iter().enumerate() {
                                for &p2 in &pts[a + 1..] {
                                    out.push(Case {
                                        lat_ms: lat,
                                        salt,
                                        reqs: vec![q.clone()],
                                        sched: vec![(ev_time(p1), k1), (ev_time(p2), k2)],
                                    });
                                    salt += 1;
                                }
                            }
                        }
                    }
                }
            }
        }
    }
    out.len() - n0
}

/// Structured random family: 1..8 requests on 1..2 lanes, sequential or concurrent,
/// 0..6 fault events placed around the phase points of randomly chosen requests.
fn gen_random(rng: &mut Rng, idx: u64) -> Case {
    // (at most 10 ms, so that eight requests queued on one channel still finish well
    // inside the smallest timeout when nothing is wrong)
    let lat = *rng.pick(&[0u64, 1, 5, 5, 10]);
    let n = match rng.below(10) {
        0..=2 => 1,
        3..=5 => 2,
        6..=7 => 3 + rng.below(2),
        _ => 5 + rng.below(4),
    } as usize;
    let nlanes = 1 + rng.below(2) as u32;
    let concurrent = rng.chance(1, 2);
    let mut reqs = Vec::new();
    let mut t = 5 + rng.below(20);
    for _ in 0..n {
        let tmo = if rng.chance(1, 12) { HUGE_TMO } else { *rng.pick(&TMOS) };
        let delay = match rng.below(6) {
            0 => 500 * MS,
            1 => 50 * MS,
            2 => 2500 * MS,
            _ => 0,
        };
        let hf = match rng.below(12) {
            0 => 1,
            1 => 2,
            _ => 0,
        };
        reqs.push(ReqCfg { lane: rng.below(nlanes as u64) as u32, tmo_us: tmo, delay_us: delay, start_us: t * MS, hf });
        if concurrent {
            t += *rng.pick(&[0u64, 0, 0, 1, 3, 30]);
        } else {
            t += *rng.pick(&[100u64, 700, 2200, 3500]);
        }
    }
    let nev = match rng.below(8) {
        0 => 0,
        1..=2 => 1,
        3..=4 => 2,
        5 => 3,
        _ => 4 + rng.below(3),
    };
    let mut sched = Vec::new();
    for _ in 0..nev {
        let q = &reqs[rng.below(n as u64) as usize];
        let s = q.start_us / MS;
        let base = match rng.below(9) {
            0 => s.saturating_sub(1 + rng.below(5)),
            1 => s,
            2 => s + lat,
            3 => s + 2 * lat + rng.below(3),
            4 => s + 3 * lat + rng.below(4),
            5 => s + 2 * lat + q.delay_us / MS + rng.below(3),
            6 => s + match bound_of(q) { Some(b) if b >= 3 * MS => b / MS, _ => 2000 } - rng.below(3),
            7 => s + 2000 + rng.below(3) - 1,
            _ => s + rng.below(3000),
        };
        let k = *rng.pick(&['p', 'h', 'h', 'l', 'l', 'r']);
        sched.push((ev_time(base), k));
    }
    sched.sort();
    sched.dedup_by_key(|e| e.0);
    Case { lat_ms: lat, salt: 0x1000 + idx, reqs, sched }
}

/// Scenarios of simulation-tests/tests/rpc.rs plus concurrent first use of one channel.
fn gen_fixed(out: &mut Vec<Case>) {
    let q = |lane, tmo_ms: u64, delay_ms: u64, start_ms: u64, hf| ReqCfg {
        lane,
        tmo_us: tmo_ms * MS,
        delay_us: delay_ms * MS,
        start_us: start_ms * MS,
        hf,
    };
    let mut salt = 0x800u64;
    let mut add = |reqs: Vec<ReqCfg>, sched: Vec<(u64, char)>| {
        out.push(Case { lat_ms: 5, salt, reqs, sched });
        salt += 1;
    };
    add(vec![q(0, 0, 0, 5, 0)], vec![(ev_time(1), 'p')]); // network_partition_connect
    add(vec![q(0, 0, 0, 5, 0)], vec![(ev_time(1), 'h')]); // network_timeout_connect
    add(vec![q(0, 2000, 0, 5, 0), q(0, 2000, 0, 200, 0)], vec![(ev_time(150), 'h')]); // .._after_init
    add(
        vec![q(0, 2000, 0, 5, 0), q(0, 2000, 0, 200, 0)],
        vec![(ev_time(150), 'h'), (ev_time(400), 'l')],
    ); // .._with_recovery
    add(vec![q(0, 2000, 0, 5, 1)], vec![]); // .._during_server_response
    add(vec![q(0, 2000, 0, 5, 2)], vec![]); // partition during response (commented-out test)
    // concurrent first use of a fresh channel
    add(vec![q(0, 0, 0, 5, 0), q(0, 0, 0, 5, 0)], vec![]);
    add(vec![q(0, 0, 0, 5, 0), q(0, 0, 0, 6, 0), q(0, 0, 0, 7, 0)], vec![]);
    add(vec![q(0, 0, 0, 5, 0), q(0, 300, 0, 5, 0)], vec![(ev_time(1), 'h')]);
    add(vec![q(0, 0, 0, 5, 0), q(0, 0, 0, 5, 0), q(1, 0, 0, 5, 0)], vec![(ev_time(1), 'p'), (ev_time(100), 'r')]);
    add((0..8).map(|i| q(i % 2, 0, 0, 5, 0)).collect(), vec![]);
    add((0..8).map(|i| q(0, 1000, 50, 5 + i as u64 * 20, 0)).collect(), vec![]);
}

// ------------------------------------------------------------------ main

fn main() {
    quiet_panics();
    let args = Args::parse();
    let _ = tracing::subscriber::set_global_default(NetTap);
    match args.extra.get("mutate").map(|s| s.as_str()) {
        Some("retry") => MUTATE.store(1, std::sync::atomic::Ordering::Relaxed),
        Some("swap") => MUTATE.store(2, std::sync::atomic::Ordering::Relaxed),
        Some("late") => MUTATE.store(3, std::sync::atomic::Ordering::Relaxed),
        _ => {},
    }
    let mut w = CaseWriter::new(&args.dir, "rpclife");
    let mut cases: Vec<Case> = Vec::new();
    let mut n_exh = 0usize;

    if let Some(path) = &args.replay {
        let text = std::fs::read_to_string(path).unwrap();
        for line in text.lines() {
            if let Some(c) = Case::parse(line) {
                cases.push(c);
            }
        }
    } else {
        let mut rng = Rng::new(args.seed);
        gen_fixed(&mut cases);
        n_exh = gen_exhaustive(args.thorough(), &mut cases);
        let n_rand = args.get_u64("random", if args.thorough() { 60000 } else { 3000 });
        for k in 0..n_rand {
            cases.push(gen_random(&mut rng, k));
        }
    }

    // run the simulations on a pool of OS threads (each simulation is single-threaded
    // and uses thread-local state only), keep the results in case order
    let nthreads = args.get_u64("threads", std::thread::available_parallelism().map(|n| n.get() as u64).unwrap_or(4).min(16)) as usize;
    let next = Arc::new(std::sync::atomic::AtomicUsize::new(0));
    let cases = Arc::new(cases);
    let slots: Arc<Mutex<Vec<Option<RunOut>>>> = Arc::new(Mutex::new((0..cases.len()).map(|_| None).collect()));
    let mut ths = Vec::new();
    for _ in 0..nthreads.max(1) {
        let next = next.clone();
        let cases = cases.clone();
        let slots = slots.clone();
        ths.push(std::thread::spawn(move || loop {
            let i = next.fetch_add(1, std::sync::atomic::Ordering::SeqCst);
            if i >= cases.len() {
                break;
            }
            let out = run_case(&cases[i]);
            slots.lock().unwrap()[i] = Some(out);
        }));
    }
    for t in ths {
        let _ = t.join();
    }
    let dump = args.extra.contains_key("dump");
    let mut slots = slots.lock().unwrap();
    for (i, c) in cases.iter().enumerate() {
        let out = slots[i].take().unwrap_or(RunOut {
            trace: vec![],
            results: vec![],
            ends: vec![],
            execs: vec![],
            sim_error: Some("worker thread died".into()),
            seg_drop: 0,
            seg_hold: 0,
        });
        let line = format!("{} #{}", c.head(), trace_text(&out.trace));
        let res = outcome_text(&out);
        if dump {
            println!("{line}\n    => {res}");
        }
        w.case(&line, &res);
        oracle(c, &out, &mut w, &line);
        // input distribution / branch coverage
        w.stats.hit(&format!("requests_{}", c.reqs.len()));
        w.stats.hit(&format!("fault_events_{}", c.sched.len().min(4)));
        if c.reqs.iter().any(|q| q.lane > 0) {
            w.stats.hit("two_lanes");
        }
        if c.reqs.windows(2).any(|p| p[1].start_us < p[0].start_us + 5 * MS) {
            w.stats.hit("concurrent_requests");
        }
        for (j, r) in out.results.iter().enumerate() {
            let q = &c.reqs[j];
            let k = match r {
                Res::Ok { .. } => "res_ok",
                Res::ConnErr => "res_conn_err",
                Res::Timeout => "res_timeout",
                Res::Pending => "res_pending",
                Res::Panic => "res_panic",
                Res::Status(_) => "res_status",
            };
            w.stats.hit(k);
            if bound_of(q).is_some() {
                w.stats.hit("req_with_timeout");
            }
            if q.tmo_us == ZERO_TMO {
                w.stats.hit("req_with_zero_timeout");
            }
            if q.tmo_us == HUGE_TMO {
                w.stats.hit("req_with_unbounded_timeout");
            }
            if q.delay_us > 0 {
                w.stats.hit("req_slow_handler");
            }
            if q.hf > 0 {
                w.stats.hit("req_handler_fault");
            }
            if matches!(r, Res::Timeout | Res::Pending) && out.execs[j] == 1 {
                w.stats.hit("executed_but_no_reply_seen");
            }
        }
        // two situations in which a call fails although the property's faults did not
        // touch it directly (both allowed by C14, both admitted by the model):
        for (j, r) in out.results.iter().enumerate() {
            if *r == Res::ConnErr {
                let syn = out.trace.iter().find_map(|(_, e)| match e {
                    Ev::Sy(k, f) if *k == j => Some(*f),
                    _ => None,
                });
                match syn {
                    None => w.stats.hit("conn_err_on_established_connection"),
                    Some('c') => w.stats.hit("conn_err_after_clean_syn"),
                    _ => {},
                }
            }
        }
        for (_, e) in &out.trace {
            match e {
                Ev::Sy(_, 'c') => w.stats.hit("syn_clean"),
                Ev::Sy(_, 'h') => w.stats.hit("syn_held"),
                Ev::Sy(_, 'd') => w.stats.hit("syn_dropped"),
                _ => {},
            }
        }
        w.stats.add("segments_dropped", out.seg_drop);
        w.stats.add("segments_held", out.seg_hold);
    }
    w.finish(&[("exhaustive_single_request_cases", n_exh.to_string())]);
}
