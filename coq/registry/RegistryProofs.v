(** * RegistryProofs: lemmas about [Registry.v] *)

From Coq Require Import NArith List Bool Lia.
From DC Require Import Registry.
Import ListNotations.
Open Scope N_scope.

(** ** Association-list maps *)
Section AmapFacts.
  Context {V : Type}.
  Implicit Types m : amap V.

  Lemma find_del : forall k k' m, find k (del k' m) = if k =? k' then None else find k m.
  Proof.
    intros k k' m. unfold del. induction m as [|[k0 v0] r IH]; cbn [filter find fst].
    - now destruct (k =? k').
    - destruct (k0 =? k') eqn:E0; cbn [negb find].
      + rewrite IH. apply N.eqb_eq in E0. subst k0.
        destruct (k =? k'); reflexivity.
      + rewrite IH. destruct (k =? k0) eqn:E1.
        * apply N.eqb_eq in E1. subst k0. now rewrite E0.
        * reflexivity.
  Qed.

  Lemma find_upd : forall k k' v m, find k (upd k' v m) = if k =? k' then Some v else find k m.
  Proof.
    intros k k' v m. unfold upd. cbn [find].
    destruct (k =? k') eqn:E; [reflexivity|]. now rewrite find_del, E.
  Qed.

  Lemma find_retain : forall p k m, find k (retain p m) = if p k then find k m else None.
  Proof.
    intros p k m. unfold retain. induction m as [|[k0 v0] r IH]; cbn [filter find fst].
    - now destruct (p k).
    - destruct (p k0) eqn:P0; cbn [find]; rewrite IH.
      + destruct (k =? k0) eqn:E; [|reflexivity].
        apply N.eqb_eq in E. subst k0. now rewrite P0.
      + destruct (k =? k0) eqn:E; [|reflexivity].
        apply N.eqb_eq in E. subst k0. now rewrite P0.
  Qed.

  Lemma find_extend : forall k hs m,
      find k (extend hs m) = match find k hs with Some v => Some v | None => find k m end.
  Proof.
    intros k hs m. unfold extend. induction hs as [|[k0 v0] r IH]; cbn [fold_right find fst snd]; [reflexivity|].
    rewrite find_upd. rewrite IH. now destruct (k =? k0).
  Qed.

  Lemma keys_find : forall k m, In k (map fst m) <-> find k m <> None.
  Proof.
    intros k m. induction m as [|[k0 v0] r IH]; cbn.
    - split; [tauto|congruence].
    - destruct (k =? k0) eqn:E.
      + apply N.eqb_eq in E. split; [congruence|auto].
      + apply N.eqb_neq in E. rewrite <- IH. split; [intros [H|H]; [congruence|exact H]|auto].
  Qed.
End AmapFacts.

Lemma mem_In : forall k l, mem k l = true <-> In k l.
Proof.
  intros k l. unfold mem. rewrite existsb_exists. split.
  - intros [x [Hx E]]. apply N.eqb_eq in E. now subst.
  - intros H. exists k. split; [exact H|apply N.eqb_refl].
Qed.

Lemma mem_false : forall k l, mem k l = false <-> ~ In k l.
Proof.
  intros k l. rewrite <- mem_In. destruct (mem k l); split; congruence.
Qed.

Lemma In_set_add : forall k k0 l, In k (set_add k0 l) <-> k = k0 \/ In k l.
Proof.
  intros k k0 l. unfold set_add. destruct (mem k0 l) eqn:E; cbn.
  - apply mem_In in E. split; [auto|intros [->|H]; auto].
  - split; intros [H|H]; auto.
Qed.

Lemma svc_keys_upd : forall s s' l sv,
    svc_keys s (upd s' l sv) = if s =? s' then l else svc_keys s sv.
Proof.
  intros s s' l sv. unfold svc_keys. rewrite find_upd. now destruct (s =? s').
Qed.

Lemma svc_keys_del : forall s s' sv,
    svc_keys s (del s' sv) = if s =? s' then [] else svc_keys s sv.
Proof.
  intros s s' sv. unfold svc_keys. rewrite find_del. now destruct (s =? s').
Qed.

Lemma svc_keys_fold : forall svc ks sv s k,
    In k (svc_keys s (fold_left (fun sv k => upd svc (set_add k (svc_keys svc sv)) sv) ks sv))
    <-> In k (svc_keys s sv) \/ (s = svc /\ In k ks).
Proof.
  intros svc ks. induction ks as [|k0 r IH]; intros sv s k; cbn [fold_left].
  - cbn. tauto.
  - rewrite IH. rewrite svc_keys_upd. destruct (s =? svc) eqn:E.
    + apply N.eqb_eq in E. subst s. rewrite In_set_add. cbn. intuition.
    + apply N.eqb_neq in E. cbn. intuition.
Qed.

(** ** The specification read backwards *)

Lemma lookup_back_none_iff : forall rops s m,
    lookup_back rops s m = None <->
    (forall post ms inst pre, rops = post ++ Add s ms inst :: pre -> In m ms -> In (Remove s) post).
Proof.
  intros rops s m. induction rops as [|o r IH].
  - cbn. split; [|reflexivity]. intros _ post ms inst pre E. destruct post; discriminate.
  - destruct o as [a ms0 i0|a]; cbn [lookup_back].
    + destruct ((a =? s) && mem m ms0) eqn:C.
      * apply andb_true_iff in C. destruct C as [Ea Hm]. apply N.eqb_eq in Ea. subst a.
        apply mem_In in Hm. split; [discriminate|].
        intros H. specialize (H [] ms0 i0 r eq_refl Hm). destruct H.
      * rewrite IH. split.
        -- intros H post ms inst pre E Hin. destruct post as [|o' post'].
           ++ cbn in E. injection E as -> -> -> ->. exfalso.
              apply mem_In in Hin. rewrite N.eqb_refl, Hin in C. discriminate.
           ++ cbn in E. injection E as <- ->. right. eapply H; eauto.
        -- intros H post ms inst pre E Hin.
           specialize (H (Add a ms0 i0 :: post) ms inst pre). cbn in H. rewrite E in H.
           destruct (H eq_refl Hin) as [Hd|Ht]; [discriminate|exact Ht].
    + destruct (a =? s) eqn:Ea.
      * apply N.eqb_eq in Ea. subst a. split; [|reflexivity].
        intros _ post ms inst pre E Hin. destruct post as [|o' post']; cbn in E.
        -- discriminate.
        -- injection E as <- ->. now left.
      * apply N.eqb_neq in Ea. rewrite IH. split.
        -- intros H post ms inst pre E Hin. destruct post as [|o' post']; cbn in E.
           ++ discriminate.
           ++ injection E as <- ->. right. eapply H; eauto.
        -- intros H post ms inst pre E Hin.
           specialize (H (Remove a :: post) ms inst pre). cbn in H. rewrite E in H.
           destruct (H eq_refl Hin) as [Hd|Ht]; [congruence|exact Ht].
Qed.

(** "No later operation touches (s, m)": neither a removal of [s] nor an [Add s]
    that registers [m] again. *)
Definition untouched (s m : N) (l : list op) : Prop :=
  forall o, In o l -> o <> Remove s /\ (forall ms' i', o = Add s ms' i' -> ~ In m ms').

Lemma lookup_back_some_iff : forall rops s m hd,
    lookup_back rops s m = Some hd <->
    (exists post ms inst pre, rops = post ++ Add s ms inst :: pre /\ In m ms /\ hd = (inst, m)
                              /\ untouched s m post).
Proof.
  intros rops s m hd. induction rops as [|o r IH].
  - cbn. split; [discriminate|]. intros (post & ms & inst & pre & E & _). destruct post; discriminate.
  - destruct o as [a ms0 i0|a]; cbn [lookup_back].
    + destruct ((a =? s) && mem m ms0) eqn:C.
      * apply andb_true_iff in C. destruct C as [Ea Hm]. apply N.eqb_eq in Ea. subst a.
        apply mem_In in Hm. split.
        -- intros E. injection E as <-. exists [], ms0, i0, r. repeat split; auto.
           all: destruct H.
        -- intros (post & ms & inst & pre & E & Hin & -> & Hu). destruct post as [|o' post']; cbn in E.
           ++ now injection E as -> -> ->.
           ++ injection E as <- ->. exfalso.
              destruct (Hu (Add s ms0 i0) (or_introl eq_refl)) as [_ Hn]. exact (Hn _ _ eq_refl Hm).
      * rewrite IH. split.
        -- intros (post & ms & inst & pre & E & Hin & -> & Hu).
           exists (Add a ms0 i0 :: post), ms, inst, pre. cbn. rewrite E. repeat split; auto.
           ++ destruct H as [<-|H]; [discriminate|]. now apply Hu.
           ++ destruct H as [<-|H].
              ** intros ms' i' E' Hm. injection E' as -> -> ->. apply mem_In in Hm.
                 rewrite N.eqb_refl, Hm in C. discriminate.
              ** now apply Hu.
        -- intros (post & ms & inst & pre & E & Hin & -> & Hu). destruct post as [|o' post']; cbn in E.
           ++ injection E as -> -> -> ->. apply mem_In in Hin. rewrite N.eqb_refl, Hin in C. discriminate.
           ++ injection E as <- ->. exists post', ms, inst, pre. repeat split; auto.
              all: apply Hu; now right.
    + destruct (a =? s) eqn:Ea.
      * apply N.eqb_eq in Ea. subst a. split; [discriminate|].
        intros (post & ms & inst & pre & E & Hin & -> & Hu). destruct post as [|o' post']; cbn in E.
        -- discriminate.
        -- injection E as <- ->. destruct (Hu (Remove s) (or_introl eq_refl)) as [Hn _]. congruence.
      * apply N.eqb_neq in Ea. rewrite IH. split.
        -- intros (post & ms & inst & pre & E & Hin & -> & Hu).
           exists (Remove a :: post), ms, inst, pre. cbn. rewrite E. repeat split; auto.
           ++ destruct H as [<-|H]; [congruence|]. now apply Hu.
           ++ destruct H as [<-|H]; [discriminate|]. now apply Hu.
        -- intros (post & ms & inst & pre & E & Hin & -> & Hu). destruct post as [|o' post']; cbn in E.
           ++ discriminate.
           ++ injection E as <- ->. exists post', ms, inst, pre. repeat split; auto.
              all: apply Hu; now right.
Qed.

Lemma untouched_rev : forall s m l, untouched s m (rev l) <-> untouched s m l.
Proof.
  intros s m l. unfold untouched. split; intros H o Ho; apply H.
  - now apply -> in_rev.
  - now apply in_rev.
Qed.

Lemma spec_some_iff : forall ops s m hd,
    spec ops s m = Some hd <->
    (exists pre ms inst post, ops = pre ++ Add s ms inst :: post /\ In m ms /\ hd = (inst, m)
                              /\ untouched s m post).
Proof.
  intros ops s m hd. unfold spec. rewrite lookup_back_some_iff. split.
  - intros (post & ms & inst & pre & E & Hin & Hh & Hu).
    exists (rev pre), ms, inst, (rev post). split; [|split; [exact Hin|split; [exact Hh|]]].
    + rewrite <- (rev_involutive ops), E, rev_app_distr. cbn. now rewrite <- app_assoc.
    + now apply untouched_rev.
  - intros (pre & ms & inst & post & E & Hin & Hh & Hu).
    exists (rev post), ms, inst, (rev pre). split; [|split; [exact Hin|split; [exact Hh|]]].
    + rewrite E, rev_app_distr. cbn. now rewrite <- app_assoc.
    + now apply untouched_rev.
Qed.

Lemma spec_none_iff : forall ops s m,
    spec ops s m = None <->
    (forall pre ms inst post, ops = pre ++ Add s ms inst :: post -> In m ms -> In (Remove s) post).
Proof.
  intros ops s m. unfold spec. rewrite lookup_back_none_iff. split.
  - intros H pre ms inst post E Hin. apply in_rev. apply (H (rev post) ms inst (rev pre)); auto.
    rewrite E, rev_app_distr. cbn. now rewrite <- app_assoc.
  - intros H post ms inst pre E Hin. apply in_rev. apply (H (rev pre) ms inst (rev post)); auto.
    rewrite <- (rev_involutive ops), E, rev_app_distr. cbn. now rewrite <- app_assoc.
Qed.

Lemma spec_snoc_remove : forall ops a s m,
    spec (ops ++ [Remove a]) s m = if a =? s then None else spec ops s m.
Proof. intros. unfold spec. rewrite rev_app_distr. reflexivity. Qed.

Lemma spec_snoc_add : forall ops a ms inst s m,
    spec (ops ++ [Add a ms inst]) s m =
    if (a =? s) && mem m ms then Some (inst, m) else spec ops s m.
Proof. intros. unfold spec. rewrite rev_app_distr. reflexivity. Qed.

Lemma lookup_back_skip_remove : forall l1 l2 a s m,
    a <> s -> lookup_back (l1 ++ Remove a :: l2) s m = lookup_back (l1 ++ l2) s m.
Proof.
  intros l1 l2 a s m Hne. induction l1 as [|o r IH]; cbn.
  - apply N.eqb_neq in Hne. now rewrite Hne.
  - destruct o; now rewrite IH.
Qed.

Lemma spec_skip_remove : forall pre post a s m,
    a <> s -> spec (pre ++ Remove a :: post) s m = spec (pre ++ post) s m.
Proof.
  intros pre post a s m Hne. unfold spec. rewrite !rev_app_distr. cbn.
  rewrite <- app_assoc. cbn. now apply lookup_back_skip_remove.
Qed.

Lemma lookup_back_skip_add : forall l1 l2 a ms inst s m,
    a <> s -> lookup_back (l1 ++ Add a ms inst :: l2) s m = lookup_back (l1 ++ l2) s m.
Proof.
  intros l1 l2 a ms inst s m Hne. induction l1 as [|o r IH]; cbn.
  - apply N.eqb_neq in Hne. now rewrite Hne.
  - destruct o; now rewrite IH.
Qed.

Lemma spec_skip_add : forall pre post a ms inst s m,
    a <> s -> spec (pre ++ Add a ms inst :: post) s m = spec (pre ++ post) s m.
Proof.
  intros pre post a ms inst s m Hne. unfold spec. rewrite !rev_app_distr. cbn.
  rewrite <- app_assoc. cbn. now apply lookup_back_skip_add.
Qed.

(** ** The last operation on a service *)

Lemma lookup_back_no_add : forall r s m,
    (forall ms' i', In (Add s ms' i') r -> ~ In m ms') -> lookup_back r s m = None.
Proof.
  intros r s m H. induction r as [|o r IH]; [reflexivity|].
  destruct o as [a ms0 i0|a]; cbn [lookup_back].
  - destruct ((a =? s) && mem m ms0) eqn:C.
    + apply andb_true_iff in C. destruct C as [Ea Hm]. apply N.eqb_eq in Ea. subst a.
      apply mem_In in Hm. exfalso. exact (H ms0 i0 (or_introl eq_refl) Hm).
    + apply IH. intros ms' i' Hin. apply (H ms' i'). now right.
  - destruct (a =? s); [reflexivity|]. apply IH. intros ms' i' Hin. apply (H ms' i'). now right.
Qed.

Lemma last_on_none : forall ops s m, last_on s ops = None -> spec ops s m = None.
Proof.
  intros ops s m. unfold last_on, spec. generalize (rev ops) as r.
  induction r as [|o r IH]; [reflexivity|]. cbn [List.find].
  destruct (op_svc o =? s) eqn:E; [discriminate|]. intros H.
  destruct o as [a ms0 i0|a]; cbn in E |- *; rewrite E; cbn; auto.
Qed.

Lemma last_on_remove : forall ops s a m, last_on s ops = Some (Remove a) -> spec ops s m = None.
Proof.
  intros ops s a m. unfold last_on, spec. generalize (rev ops) as r.
  induction r as [|o r IH]; [discriminate|]. cbn [List.find].
  destruct (op_svc o =? s) eqn:E.
  - intros H. injection H as ->. cbn in E |- *. now rewrite E.
  - intros H. destruct o as [a0 ms0 i0|a0]; cbn in E |- *; rewrite E; cbn; auto.
Qed.

Lemma last_on_add_in : forall ops s a ms inst m,
    last_on s ops = Some (Add a ms inst) -> In m ms -> spec ops s m = Some (inst, m).
Proof.
  intros ops s a ms inst m. unfold last_on, spec. generalize (rev ops) as r.
  induction r as [|o r IH]; [discriminate|]. cbn [List.find].
  destruct (op_svc o =? s) eqn:E.
  - intros H Hin. injection H as ->. cbn in E |- *. apply mem_In in Hin. now rewrite E, Hin.
  - intros H Hin. destruct o as [a0 ms0 i0|a0]; cbn in E |- *; rewrite E; cbn; auto.
Qed.

Lemma last_on_svc : forall ops s o, last_on s ops = Some o -> op_svc o = s /\ In o ops.
Proof.
  intros ops s o H. unfold last_on in H. apply find_some in H. destruct H as [Hin E].
  apply N.eqb_eq in E. split; [exact E|]. now apply in_rev.
Qed.

Lemma last_on_add_notin : forall ops s a ms inst m,
    last_on s ops = Some (Add a ms inst) -> ~ In m ms -> uniform s ms ops -> spec ops s m = None.
Proof.
  intros ops s a ms inst m Hl Hn Hu. apply lookup_back_no_add.
  intros ms' i' Hin Hm. apply in_rev in Hin. apply Hn. now apply (Hu ms' i' Hin m).
Qed.

Lemma spec_last_on_iff : forall ops s ms m hd,
    uniform s ms ops ->
    (spec ops s m = Some hd <->
     exists ms' inst, last_on s ops = Some (Add s ms' inst) /\ In m ms' /\ hd = (inst, m)).
Proof.
  intros ops s ms m hd Hu. split.
  - intros Hs. destruct (last_on s ops) as [o|] eqn:Hl.
    + destruct o as [a ms' inst|a].
      * destruct (last_on_svc _ _ _ Hl) as [Ea Hin]. cbn in Ea. subst a.
        destruct (mem m ms') eqn:Hm.
        -- apply mem_In in Hm. rewrite (last_on_add_in _ _ _ _ _ _ Hl Hm) in Hs.
           injection Hs as <-. eauto.
        -- apply mem_false in Hm. exfalso.
           assert (Hu' : uniform s ms' ops).
           { intros ms'' i'' Hin'' x. rewrite (Hu ms'' i'' Hin'' x). symmetry. apply (Hu ms' inst Hin x). }
           rewrite (last_on_add_notin _ _ _ _ _ _ Hl Hm Hu') in Hs. discriminate.
      * rewrite (last_on_remove _ _ _ m Hl) in Hs. discriminate.
    + rewrite (last_on_none _ _ m Hl) in Hs. discriminate.
  - intros (ms' & inst & Hl & Hin & ->). now apply (last_on_add_in _ _ _ _ _ _ Hl).
Qed.

(** ** The registry refines the specification *)
Section Refinement.
  Variable key : N -> N -> N.
  Variable used : N -> N -> Prop.
  (** The hash of the sanitised URI is injective on the (service, message) pairs in use. *)
  Hypothesis key_inj : forall s m s' m',
      used s m -> used s' m' -> key s m = key s' m' -> s = s' /\ m = m'.

  Lemma keys_registry_fold : forall svc (inst : N) msgs (acc : amap hid) k,
      In k (map fst (fold_left (fun acc m => upd (key svc m) (inst, m) acc) msgs acc))
      <-> (exists m, In m msgs /\ k = key svc m) \/ In k (map fst acc).
  Proof.
    intros svc inst msgs. induction msgs as [|m0 r IH]; intros acc k; cbn [fold_left].
    - cbn. split; [auto|]. intros [[m [[] _]]|H]; exact H.
    - rewrite IH. rewrite !keys_find. rewrite find_upd. split.
      + intros [[m [Hm E]]|H].
        * left. exists m. split; [now right|exact E].
        * destruct (k =? key svc m0) eqn:E.
          -- apply N.eqb_eq in E. left. exists m0. split; [now left|exact E].
          -- now right.
      + intros [[m [[<-|Hm] E]]|H].
        * right. subst k. rewrite N.eqb_refl. discriminate.
        * left. eauto.
        * right. destruct (k =? key svc m0); [discriminate|exact H].
  Qed.

  Lemma keys_registry : forall svc msgs inst k,
      In k (map fst (registry key svc msgs inst)) <-> exists m, In m msgs /\ k = key svc m.
  Proof.
    intros. unfold registry. rewrite keys_registry_fold. cbn. tauto.
  Qed.

  Lemma find_registry_fold : forall svc (inst : N) msgs (acc : amap hid) s m,
      (forall x, In x msgs -> used svc x) -> used s m ->
      find (key s m) (fold_left (fun acc x => upd (key svc x) (inst, x) acc) msgs acc)
      = if (svc =? s) && mem m msgs then Some (inst, m) else find (key s m) acc.
  Proof.
    intros svc inst msgs. induction msgs as [|m0 r IH]; intros acc s m Hall Hu; cbn [fold_left].
    - cbn. now rewrite andb_false_r.
    - rewrite IH; [|intros x Hx; apply Hall; now right|exact Hu].
      rewrite find_upd. unfold mem at 2. cbn [existsb]. fold (mem m r).
      destruct (mem m r) eqn:Hr.
      + rewrite orb_true_r. destruct (svc =? s) eqn:Es; cbn [andb]; [reflexivity|].
        destruct (key s m =? key svc m0) eqn:E; [|reflexivity].
        apply N.eqb_eq in E. apply key_inj in E; [|exact Hu|apply Hall; now left].
        destruct E as [-> _]. rewrite N.eqb_refl in Es. discriminate.
      + rewrite orb_false_r, andb_false_r.
        destruct (key s m =? key svc m0) eqn:E.
        * apply N.eqb_eq in E. apply key_inj in E; [|exact Hu|apply Hall; now left].
          destruct E as [-> ->]. now rewrite !N.eqb_refl.
        * destruct (svc =? s) eqn:Es; cbn; [|reflexivity].
          destruct (m =? m0) eqn:Em; [|reflexivity].
          apply N.eqb_eq in Es, Em. subst. now rewrite N.eqb_refl in E.
  Qed.

  Lemma find_registry : forall svc msgs inst s m,
      (forall x, In x msgs -> used svc x) -> used s m ->
      find (key s m) (registry key svc msgs inst)
      = if (svc =? s) && mem m msgs then Some (inst, m) else None.
  Proof. intros. unfold registry. now rewrite find_registry_fold. Qed.

  (** Effect of one operation on what a client sees. *)
  Lemma dispatch_add : forall st svc msgs inst s m,
      (forall x, In x msgs -> used svc x) -> used s m ->
      dispatch key (add_handlers svc (registry key svc msgs inst) st) s m
      = if (svc =? s) && mem m msgs then Some (inst, m) else dispatch key st s m.
  Proof.
    intros st svc msgs inst s m Hall Hu. unfold dispatch, add_handlers. cbn [handlers].
    rewrite find_extend, find_registry by assumption.
    now destruct ((svc =? s) && mem m msgs).
  Qed.

  Lemma dispatch_remove : forall st a s m,
      dispatch key (remove_handlers a st) s m
      = if mem (key s m) (svc_keys a (services st)) then None else dispatch key st s m.
  Proof.
    intros st a s m. unfold dispatch, remove_handlers, svc_keys.
    destruct (find a (services st)) as [uris|]; cbn.
    - rewrite find_retain. now destruct (mem (key s m) uris).
    - reflexivity.
  Qed.

  Lemma services_remove : forall st a s,
      svc_keys s (services (remove_handlers a st))
      = if s =? a then [] else svc_keys s (services st).
  Proof.
    intros st a s. unfold remove_handlers.
    destruct (find a (services st)) as [uris|] eqn:F; cbn.
    - apply svc_keys_del.
    - destruct (s =? a) eqn:E; [|reflexivity]. apply N.eqb_eq in E. subst s.
      unfold svc_keys. now rewrite F.
  Qed.

  (** The invariant linking the two maps of [ServerState]. *)
  Definition inv (st : state) : Prop :=
    (forall s m, used s m -> dispatch key st s m <> None -> In (key s m) (svc_keys s (services st)))
    /\ (forall s k, In k (svc_keys s (services st)) -> exists m, used s m /\ k = key s m).

  Lemma inv_empty : inv empty.
  Proof. split; cbn; intros; [congruence|contradiction]. Qed.

  Lemma inv_add : forall st svc msgs inst,
      (forall x, In x msgs -> used svc x) -> inv st ->
      inv (add_handlers svc (registry key svc msgs inst) st).
  Proof.
    intros st svc msgs inst Hall [I1 I2]. split.
    - intros s m Hu Hd. rewrite dispatch_add in Hd by assumption.
      unfold add_handlers. cbn [services]. rewrite svc_keys_fold.
      destruct ((svc =? s) && mem m msgs) eqn:C.
      + apply andb_true_iff in C. destruct C as [Es Hm]. apply N.eqb_eq in Es. subst s.
        apply mem_In in Hm. right. split; [reflexivity|]. apply keys_registry. eauto.
      + left. now apply I1.
    - intros s k. unfold add_handlers. cbn [services]. rewrite svc_keys_fold.
      intros [H|[-> H]].
      + now apply I2.
      + apply keys_registry in H. destruct H as [m [Hm ->]]. exists m. split; [now apply Hall|reflexivity].
  Qed.

  Lemma inv_remove : forall st a, inv st -> inv (remove_handlers a st).
  Proof.
    intros st a [I1 I2]. split.
    - intros s m Hu Hd. rewrite dispatch_remove in Hd. rewrite services_remove.
      destruct (mem (key s m) (svc_keys a (services st))) eqn:Hm; [congruence|].
      specialize (I1 s m Hu Hd). destruct (s =? a) eqn:E; [|exact I1].
      apply N.eqb_eq in E. subst s. apply mem_false in Hm. contradiction.
    - intros s k. rewrite services_remove. destruct (s =? a); [contradiction|]. apply I2.
  Qed.

  Lemma dispatch_remove_inv : forall st a s m,
      inv st -> used s m ->
      dispatch key (remove_handlers a st) s m = if a =? s then None else dispatch key st s m.
  Proof.
    intros st a s m [I1 I2] Hu. rewrite dispatch_remove.
    destruct (mem (key s m) (svc_keys a (services st))) eqn:Hm.
    - apply mem_In in Hm. destruct (I2 _ _ Hm) as [m' [Hu' E]].
      apply key_inj in E; [|assumption|assumption]. destruct E as [-> _].
      now rewrite N.eqb_refl.
    - destruct (a =? s) eqn:E; [|reflexivity]. apply N.eqb_eq in E. subst a.
      apply mem_false in Hm. destruct (dispatch key st s m) eqn:D; [|reflexivity].
      exfalso. apply Hm. apply I1; [exact Hu|congruence].
  Qed.

  Lemma run_snoc : forall ops o, run key (ops ++ [o]) = step key (run key ops) o.
  Proof. intros. unfold run. now rewrite fold_left_app. Qed.

  Lemma ops_used_app : forall l1 l2, ops_used used (l1 ++ l2) -> ops_used used l1 /\ ops_used used l2.
  Proof.
    intros l1 l2 H. split; intros s ms inst Hin; apply (H s ms inst); apply in_or_app; auto.
  Qed.

  Lemma run_inv : forall ops, ops_used used ops -> inv (run key ops).
  Proof.
    intros ops. induction ops as [|o ops IH] using rev_ind; intros Hu.
    - apply inv_empty.
    - apply ops_used_app in Hu. destruct Hu as [Hu1 Hu2]. rewrite run_snoc.
      destruct o as [svc msgs inst|a]; cbn [step].
      + apply inv_add; [|now apply IH]. intros x Hx. apply (Hu2 svc msgs inst); [now left|exact Hx].
      + apply inv_remove. now apply IH.
  Qed.

  (** Main refinement theorem: after any history, what a request meets is what the
      specification says. *)
  Theorem dispatch_spec : forall ops s m,
      ops_used used ops -> used s m ->
      dispatch key (run key ops) s m = spec ops s m.
  Proof.
    intros ops. induction ops as [|o ops IH] using rev_ind; intros s m Hu Hsm.
    - reflexivity.
    - apply ops_used_app in Hu. destruct Hu as [Hu1 Hu2]. rewrite run_snoc.
      destruct o as [svc msgs inst|a]; cbn [step].
      + rewrite spec_snoc_add, dispatch_add; [|intros x Hx; apply (Hu2 svc msgs inst); [now left|exact Hx]|exact Hsm].
        now rewrite IH.
      + rewrite spec_snoc_remove, dispatch_remove_inv; [|now apply run_inv|exact Hsm].
        now rewrite IH.
  Qed.

  Theorem served_iff_registered : forall ops s m hd,
      ops_used used ops -> used s m ->
      (dispatch key (run key ops) s m = Some hd <->
       exists pre ms inst post,
         ops = pre ++ Add s ms inst :: post /\ In m ms /\ hd = (inst, m) /\ untouched s m post).
  Proof. intros. rewrite dispatch_spec by assumption. apply spec_some_iff. Qed.

  Theorem refused_iff_unregistered : forall ops s m,
      ops_used used ops -> used s m ->
      (dispatch key (run key ops) s m = None <->
       forall pre ms inst post, ops = pre ++ Add s ms inst :: post -> In m ms -> In (Remove s) post).
  Proof. intros. rewrite dispatch_spec by assumption. apply spec_none_iff. Qed.

  Theorem last_op_decides : forall ops s m,
      ops_used used ops -> used s m ->
      match last_on s ops with
      | None => dispatch key (run key ops) s m = None
      | Some (Remove _) => dispatch key (run key ops) s m = None
      | Some (Add _ ms inst) =>
        (In m ms -> dispatch key (run key ops) s m = Some (inst, m)) /\
        (~ In m ms -> uniform s ms ops -> dispatch key (run key ops) s m = None)
      end.
  Proof.
    intros ops s m Hu Hsm. rewrite dispatch_spec by assumption.
    destruct (last_on s ops) as [[a ms inst|a]|] eqn:Hl.
    - split; intros.
      + eapply last_on_add_in; eauto.
      + eapply last_on_add_notin; eauto.
    - eapply last_on_remove; eauto.
    - now apply last_on_none.
  Qed.

  Theorem served_iff_last_is_add : forall ops s ms m hd,
      ops_used used ops -> used s m -> uniform s ms ops ->
      (dispatch key (run key ops) s m = Some hd <->
       exists ms' inst, last_on s ops = Some (Add s ms' inst) /\ In m ms' /\ hd = (inst, m)).
  Proof. intros. rewrite dispatch_spec by assumption. eapply spec_last_on_iff; eauto. Qed.

  Lemma ops_used_remove_mid : forall pre a post,
      ops_used used (pre ++ Remove a :: post) <-> ops_used used (pre ++ post).
  Proof.
    intros pre a post. unfold ops_used. split; intros H s ms inst Hin; apply (H s ms inst).
    - apply in_app_or in Hin. apply in_or_app. destruct Hin; [now left|right; now right].
    - apply in_app_or in Hin. apply in_or_app. destruct Hin as [Hin|[Hd|Hin]]; [now left|discriminate|now right].
  Qed.

  (** Removing service [a] anywhere in a history changes nothing for a request to
      another service [s]: it neither disables a handler of [s] nor leaves one behind. *)
  Theorem remove_does_not_affect_others : forall pre a post s m,
      ops_used used (pre ++ post) -> used s m -> a <> s ->
      dispatch key (run key (pre ++ Remove a :: post)) s m = dispatch key (run key (pre ++ post)) s m.
  Proof.
    intros pre a post s m Hu Hsm Hne.
    rewrite !dispatch_spec; auto; [|now apply ops_used_remove_mid].
    now apply spec_skip_remove.
  Qed.

  Theorem add_does_not_affect_others : forall pre a ms inst post s m,
      ops_used used (pre ++ Add a ms inst :: post) -> used s m -> a <> s ->
      dispatch key (run key (pre ++ Add a ms inst :: post)) s m = dispatch key (run key (pre ++ post)) s m.
  Proof.
    intros pre a ms inst post s m Hu Hsm Hne.
    rewrite !dispatch_spec; auto.
    - now apply spec_skip_add.
    - intros s' ms' i' Hin. apply (Hu s' ms' i'). apply in_app_or in Hin. apply in_or_app.
      destruct Hin; [now left|right; now right].
  Qed.

  (** Directly after [remove_service(a)] no request to [a] is served. *)
  Theorem remove_leaves_nothing_behind : forall ops a m,
      ops_used used ops -> used a m ->
      dispatch key (run key (ops ++ [Remove a])) a m = None.
  Proof.
    intros ops a m Hu Hsm. rewrite dispatch_spec; auto.
    - rewrite spec_snoc_remove. now rewrite N.eqb_refl.
    - intros s ms inst Hin. apply (Hu s ms inst). apply in_app_or in Hin.
      destruct Hin as [Hin|[Hd|[]]]; [exact Hin|discriminate].
  Qed.

  (** Removing a service that was never added changes nothing a client can see. *)
  Theorem remove_unknown_is_noop : forall ops a s m,
      ops_used used ops -> used s m -> (forall ms inst, ~ In (Add a ms inst) ops) ->
      dispatch key (run key (ops ++ [Remove a])) s m = dispatch key (run key ops) s m.
  Proof.
    intros ops a s m Hu Hsm Hn. rewrite !dispatch_spec; auto.
    - rewrite spec_snoc_remove. destruct (a =? s) eqn:E; [|reflexivity].
      apply N.eqb_eq in E. subst a. symmetry. apply spec_none_iff.
      intros pre ms inst post Eo _. exfalso. apply (Hn ms inst). rewrite Eo.
      apply in_or_app. right. now left.
    - intros s' ms inst Hin. apply (Hu s' ms inst). apply in_app_or in Hin.
      destruct Hin as [Hin|[Hd|[]]]; [exact Hin|discriminate].
  Qed.
End Refinement.

(** ** The concrete key function of the executable model *)
Lemma demo_key_inj : forall s m s' m',
    demo_used s m -> demo_used s' m' -> demo_key s m = demo_key s' m' -> s = s' /\ m = m'.
Proof. unfold demo_used, demo_key. intros. lia. Qed.

(** ** Defect D5: the pre-repair [remove_handlers] *)
Definition legacy_witness : list op := [Add 0 [0] 1; Add 1 [0] 2; Remove 0].

Lemma legacy_remove_wrong :
  ops_used demo_used legacy_witness /\
  (* the removed service is still served ... *)
  dispatch demo_key (legacy_run demo_key legacy_witness) 0 0 = Some (1, 0) /\
  spec legacy_witness 0 0 = None /\
  (* ... and the other one, which shares the message type, is refused *)
  dispatch demo_key (legacy_run demo_key legacy_witness) 1 0 = None /\
  spec legacy_witness 1 0 = Some (2, 0).
Proof.
  split.
  - intros s ms inst Hin m Hm. unfold demo_used.
    cbn in Hin. destruct Hin as [E|[E|[E|[]]]]; try discriminate;
      injection E as <- <- <-; cbn in Hm; destruct Hm as [<-|[]]; reflexivity.
  - vm_compute. repeat split; reflexivity.
Qed.

(** ** Why [uniform] is needed: the [services] entry accumulates keys *)
Definition accumulation_witness : list op := [Add 0 [0] 1; Add 0 [1] 2].

Lemma accumulation :
  last_on 0 accumulation_witness = Some (Add 0 [1] 2) /\ ~ In 0 [1] /\
  dispatch demo_key (run demo_key accumulation_witness) 0 0 = Some (1, 0) /\
  dispatch demo_key (run demo_key accumulation_witness) 0 1 = Some (2, 1) /\
  dispatch demo_key (run demo_key (accumulation_witness ++ [Remove 0])) 0 0 = None.
Proof.
  split; [reflexivity|]. split.
  - cbn. intros [H|[]]. discriminate.
  - vm_compute. repeat split; reflexivity.
Qed.
