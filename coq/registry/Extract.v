(** Extraction of the executable model to OCaml ([ExtrOcamlBasic] only). *)
From Coq Require Import ExtrOcamlBasic NArith List.
From DC Require Import Registry.
Extraction Language OCaml.
Extraction "model.ml"
  N.add N.mul N.eqb N.of_nat N.to_nat
  demo_key run legacy_run dispatch probe_all demo_probe demo_legacy_probe demo_spec spec.
