(** * Registry: model of the service registry of [datacake_rpc::Server]
    (datacake-rpc/src/server.rs [ServerState], handler.rs [ServiceRegistry],
    net/server.rs [try_handle_request])

    Definitions only (the executable model).  Proofs are in [RegistryProofs.v].

    [ServerState] holds two maps
      - [services : BTreeMap<String, BTreeSet<HandlerKey>>]   service name -> handler keys
      - [handlers : BTreeMap<HandlerKey, Arc<dyn OpaqueMessageHandler>>]
    where [HandlerKey = u64 = hash("/" ++ sanitise service ++ "/" ++ sanitise path)].

    Service names, message paths, handler keys and service instances are numbers.
    The hash of the sanitised URI is the function [key : service -> message -> N],
    an explicit argument of every definition (a [Section] variable); the theorems
    assume it injective on the pairs in use (a [Section] hypothesis of the proofs). *)

From Coq Require Import NArith List Bool.
Import ListNotations.
Open Scope N_scope.

(** ** Finite maps with [N] keys ([BTreeMap]): association lists without duplicate keys *)
Section Amap.
  Context {V : Type}.
  Definition amap := list (N * V).

  Fixpoint find (k : N) (m : amap) : option V :=
    match m with
    | [] => None
    | (k', v) :: r => if k =? k' then Some v else find k r
    end.

  (** [BTreeMap::remove] *)
  Definition del (k : N) (m : amap) : amap :=
    filter (fun kv => negb (fst kv =? k)) m.

  (** [BTreeMap::insert] (overwrites) *)
  Definition upd (k : N) (v : V) (m : amap) : amap := (k, v) :: del k m.

  (** [BTreeMap::retain] with a predicate on the key *)
  Definition retain (p : N -> bool) (m : amap) : amap :=
    filter (fun kv => p (fst kv)) m.

  (** [BTreeMap::extend]: every entry of [hs] is inserted (overwriting).  [hs] is
      itself a map (unique keys), so the insertion order is immaterial. *)
  Definition extend (hs : amap) (m : amap) : amap :=
    fold_right (fun kv acc => upd (fst kv) (snd kv) acc) m hs.
End Amap.
Arguments amap V : clear implicits.

(** ** Key sets ([BTreeSet<HandlerKey>]) *)
Definition mem (k : N) (l : list N) : bool := existsb (N.eqb k) l.
Definition set_add (k : N) (l : list N) : list N := if mem k l then l else k :: l.

(** A handler: (service instance it was created from, message type it serves).
    This is the [PhantomHandler<Svc, Msg>] holding the [Arc<Svc>] of one [add_service]. *)
Definition hid := (N * N)%type.

Record state := mkState {
  services : amap (list N);
  handlers : amap hid
}.

Definition empty : state := mkState [] [].

(** Operations on a running server. *)
Inductive op :=
| Add (svc : N) (msgs : list N) (inst : N)   (* add_service(instance of a service named svc registering msgs) *)
| Remove (svc : N).                          (* remove_service(svc) *)

Definition svc_keys (s : N) (sv : amap (list N)) : list N :=
  match find s sv with Some l => l | None => [] end.

Section Registry.
  (** [hash(to_uri_path(service, path))] *)
  Variable key : N -> N -> N.

  (** [ServiceRegistry::add_handler::<Msg>()] called for each message of
      [register_handlers], then [into_handlers()]. *)
  Definition registry (svc : N) (msgs : list N) (inst : N) : amap hid :=
    fold_left (fun acc m => upd (key svc m) (inst, m) acc) msgs [].

  (** [ServerState::add_handlers(service_name, handlers)]:
      for every key: [services.entry(name).or_default().insert(key)];
      then [handlers.extend(new)]. *)
  Definition add_handlers (svc : N) (hs : amap hid) (st : state) : state :=
    mkState
      (fold_left (fun sv k => upd svc (set_add k (svc_keys svc sv)) sv) (map fst hs) (services st))
      (extend hs (handlers st)).

  (** [ServerState::remove_handlers(service)] (after the repair of defect D5):
      [services.remove(name)]; if present, drop exactly those keys from [handlers]. *)
  Definition remove_handlers (svc : N) (st : state) : state :=
    match find svc (services st) with
    | None => st
    | Some uris =>
      mkState (del svc (services st)) (retain (fun k => negb (mem k uris)) (handlers st))
    end.

  (** The same function as it stood before the repair: the [retain] predicate was
      [uris.contains(key)], which keeps exactly the removed service's handlers. *)
  Definition legacy_remove_handlers (svc : N) (st : state) : state :=
    match find svc (services st) with
    | None => st
    | Some uris =>
      mkState (del svc (services st)) (retain (fun k => mem k uris) (handlers st))
    end.

  Definition step (st : state) (o : op) : state :=
    match o with
    | Add svc msgs inst => add_handlers svc (registry svc msgs inst) st
    | Remove svc => remove_handlers svc st
    end.

  Definition legacy_step (st : state) (o : op) : state :=
    match o with
    | Add svc msgs inst => add_handlers svc (registry svc msgs inst) st
    | Remove svc => legacy_remove_handlers svc st
    end.

  Definition run (ops : list op) : state := fold_left step ops empty.
  Definition legacy_run (ops : list op) : state := fold_left legacy_step ops empty.

  (** [ServerState::get_handler(uri)] as used by [try_handle_request]:
      [Some h] = the request is handed to handler [h];
      [None] = refused with [Status::unavailable("Unknown service ...")]. *)
  Definition dispatch (st : state) (svc msg : N) : option hid :=
    find (key svc msg) (handlers st).

  (** Client view after a history: for every (service, message) of a grid. *)
  Definition probe_all (st : state) (svcs msgs : list N) : list (option hid) :=
    flat_map (fun s => map (fun m => dispatch st s m) msgs) svcs.
End Registry.

(** ** Specification (no maps, no keys): the registration a request should reach

    Reading the history backwards from the present: the first operation that
    concerns ([svc], [msg]) decides — a [Remove svc] means "refused", an [Add svc]
    that registers [msg] means "served by that instance". *)
Fixpoint lookup_back (rops : list op) (svc msg : N) : option hid :=
  match rops with
  | [] => None
  | Remove s :: r => if s =? svc then None else lookup_back r svc msg
  | Add s ms inst :: r =>
    if (s =? svc) && mem msg ms then Some (inst, msg) else lookup_back r svc msg
  end.

Definition spec (ops : list op) (svc msg : N) : option hid := lookup_back (rev ops) svc msg.

Definition op_svc (o : op) : N := match o with Add s _ _ => s | Remove s => s end.

(** The last operation of the history that names [svc]. *)
Definition last_on (svc : N) (ops : list op) : option op :=
  List.find (fun o => op_svc o =? svc) (rev ops).

(** Every [Add] of [svc] in the history registers the same message set [ms]
    (true when a service name belongs to one Rust type, whose
    [register_handlers] is a fixed function). *)
Definition uniform (svc : N) (ms : list N) (ops : list op) : Prop :=
  forall ms' inst, In (Add svc ms' inst) ops -> forall m, In m ms' <-> In m ms.

(** All (service, message) pairs registered by the history satisfy [used]. *)
Definition ops_used (used : N -> N -> Prop) (ops : list op) : Prop :=
  forall s ms inst, In (Add s ms inst) ops -> forall m, In m ms -> used s m.

(** ** A concrete key function (for the executable model and the examples):
    injective on message numbers below [2^32]. *)
Definition demo_key (svc msg : N) : N := svc * 4294967296 + msg.
Definition demo_used (svc msg : N) : Prop := msg < 4294967296.

Definition demo_probe (ops : list op) (svcs msgs : list N) : list (option hid) :=
  probe_all demo_key (run demo_key ops) svcs msgs.
Definition demo_legacy_probe (ops : list op) (svcs msgs : list N) : list (option hid) :=
  probe_all demo_key (legacy_run demo_key ops) svcs msgs.
Definition demo_spec (ops : list op) (svcs msgs : list N) : list (option hid) :=
  flat_map (fun s => map (fun m => spec ops s m) msgs) svcs.
