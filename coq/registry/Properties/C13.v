(** * C13 — A message is served exactly when its service is currently registered

    This file contains only the property theorems (each closed by [exact] of a lemma
    proved in [RegistryProofs.v]) and non-vacuity examples.

    Reading guide.  [key s m] is the handler key of message [m] of service [s]
    (in the code: the 64-bit hash of the sanitised URI ["/s/m"]); it is a
    universally quantified function, assumed injective on the (service, message)
    pairs in use ([used]).  A history is a list of [Add svc msgs inst] (an
    [add_service] of the instance [inst] of a service named [svc] whose
    [register_handlers] registers [msgs]) and [Remove svc] ([remove_service]).
    [dispatch key (run key ops) s m = Some (inst, m)] : after the history a request
    for (s, m) is handed to the [m]-handler of instance [inst];  [= None] : it is
    refused ([Status::unavailable "Unknown service ..."]). *)

From Coq Require Import NArith List.
From DC Require Import Registry RegistryProofs.
Import ListNotations.
Open Scope N_scope.

Definition injective_on (used : N -> N -> Prop) (key : N -> N -> N) : Prop :=
  forall s m s' m', used s m -> used s' m' -> key s m = key s' m' -> s = s' /\ m = m'.

(** Served <=> added and not removed since; and the handler that answers is the one
    of the latest such [Add].  [untouched s m post]: [post] contains neither
    [Remove s] nor an [Add s] that registers [m] again. *)
Theorem C13_served_iff_added_and_not_removed_since :
  forall key used, injective_on used key ->
  forall ops s m hd, ops_used used ops -> used s m ->
    (dispatch key (run key ops) s m = Some hd <->
     exists pre ms inst post,
       ops = pre ++ Add s ms inst :: post /\ In m ms /\ hd = (inst, m) /\ untouched s m post).
Proof. exact served_iff_registered. Qed.

(** Refused <=> every [Add] of the service that registered the message was followed
    by a [Remove] of the service (in particular: never added). *)
Theorem C13_refused_iff_not_currently_registered :
  forall key used, injective_on used key ->
  forall ops s m, ops_used used ops -> used s m ->
    (dispatch key (run key ops) s m = None <->
     forall pre ms inst post, ops = pre ++ Add s ms inst :: post -> In m ms -> In (Remove s) post).
Proof. exact refused_iff_unregistered. Qed.

(** The registry computes exactly the specification function [spec] (the history
    read backwards; first operation that concerns (s, m) decides). *)
Theorem C13_dispatch_is_spec :
  forall key used, injective_on used key ->
  forall ops s m, ops_used used ops -> used s m ->
    dispatch key (run key ops) s m = spec ops s m.
Proof. exact dispatch_spec. Qed.

(** In terms of the last operation that names the service: nothing or a [Remove] =>
    refused; an [Add] that registers the message => served by that very instance; an
    [Add] that does not register it => refused provided every [Add] of this name
    registered the same messages ([uniform]; see [C13_same_name_accumulates]). *)
Theorem C13_last_operation_decides :
  forall key used, injective_on used key ->
  forall ops s m, ops_used used ops -> used s m ->
    match last_on s ops with
    | None => dispatch key (run key ops) s m = None
    | Some (Remove _) => dispatch key (run key ops) s m = None
    | Some (Add _ ms inst) =>
      (In m ms -> dispatch key (run key ops) s m = Some (inst, m)) /\
      (~ In m ms -> uniform s ms ops -> dispatch key (run key ops) s m = None)
    end.
Proof. exact last_op_decides. Qed.

Theorem C13_served_iff_last_operation_is_add :
  forall key used, injective_on used key ->
  forall ops s ms m hd, ops_used used ops -> used s m -> uniform s ms ops ->
    (dispatch key (run key ops) s m = Some hd <->
     exists ms' inst, last_on s ops = Some (Add s ms' inst) /\ In m ms' /\ hd = (inst, m)).
Proof. exact served_iff_last_is_add. Qed.

(** Removing [a] — at any point of a history — changes nothing for requests to another
    service [s]: it neither disables a handler of [s] nor leaves one behind, whether or
    not the two services share message types. *)
Theorem C13_remove_does_not_affect_other_services :
  forall key used, injective_on used key ->
  forall pre a post s m, ops_used used (pre ++ post) -> used s m -> a <> s ->
    dispatch key (run key (pre ++ Remove a :: post)) s m = dispatch key (run key (pre ++ post)) s m.
Proof. exact remove_does_not_affect_others. Qed.

Theorem C13_add_does_not_affect_other_services :
  forall key used, injective_on used key ->
  forall pre a ms inst post s m, ops_used used (pre ++ Add a ms inst :: post) -> used s m -> a <> s ->
    dispatch key (run key (pre ++ Add a ms inst :: post)) s m = dispatch key (run key (pre ++ post)) s m.
Proof. exact add_does_not_affect_others. Qed.

(** Right after [remove_service a] nothing of [a] is served. *)
Theorem C13_remove_leaves_nothing_behind :
  forall key used, injective_on used key ->
  forall ops a m, ops_used used ops -> used a m ->
    dispatch key (run key (ops ++ [Remove a])) a m = None.
Proof. exact remove_leaves_nothing_behind. Qed.

(** Removing a name that was never added changes nothing. *)
Theorem C13_remove_unknown_is_noop :
  forall key used, injective_on used key ->
  forall ops a s m, ops_used used ops -> used s m -> (forall ms inst, ~ In (Add a ms inst) ops) ->
    dispatch key (run key (ops ++ [Remove a])) s m = dispatch key (run key ops) s m.
Proof. exact remove_unknown_is_noop. Qed.

(** What the code does when one name is added twice with different message sets: the
    name's key set accumulates, so a message registered only by the earlier [Add] keeps
    being served by the earlier instance until the name is removed. *)
Theorem C13_same_name_accumulates :
  last_on 0 accumulation_witness = Some (Add 0 [1] 2) /\ ~ In 0 [1] /\
  dispatch demo_key (run demo_key accumulation_witness) 0 0 = Some (1, 0) /\
  dispatch demo_key (run demo_key accumulation_witness) 0 1 = Some (2, 1) /\
  dispatch demo_key (run demo_key (accumulation_witness ++ [Remove 0])) 0 0 = None.
Proof. exact accumulation. Qed.

(** [remove_handlers] as it stood before the repair (defect D5, now fixed) violates the
    property on [Add 0 [0] 1; Add 1 [0] 2; Remove 0]: service 0 is still served and
    service 1 is refused. *)
Theorem C13_legacy_remove_refuted :
  ops_used demo_used legacy_witness /\
  dispatch demo_key (legacy_run demo_key legacy_witness) 0 0 = Some (1, 0) /\
  spec legacy_witness 0 0 = None /\
  dispatch demo_key (legacy_run demo_key legacy_witness) 1 0 = None /\
  spec legacy_witness 1 0 = Some (2, 0).
Proof. exact legacy_remove_wrong. Qed.

(** Non-vacuity: the hypotheses are met by a concrete key function and a concrete
    non-trivial history (services sharing message 0, one name added by two instances with
    different message sets, re-adding after removal, removing a name never added).  The
    same history is a corpus case of the correspondence check, so the value computed here
    by [vm_compute] is also compared with the extracted model and with the Rust code. *)
Example C13_nonvacuous :
  let ops := [Add 0 [0; 1] 1; Add 1 [0; 2] 2; Remove 0; Add 2 [0; 1] 3; Add 2 [1; 2] 4;
              Add 0 [0; 1] 5; Remove 1; Remove 3] in
  injective_on demo_used demo_key /\ ops_used demo_used ops /\ uniform 0 [0; 1] ops /\
  demo_probe ops [0; 1; 2; 3] [0; 1; 2] =
    [Some (5, 0); Some (5, 1); None;  None; None; None;  Some (3, 0); Some (4, 1); Some (4, 2);
     None; None; None] /\
  demo_spec ops [0; 1; 2; 3] [0; 1; 2] = demo_probe ops [0; 1; 2; 3] [0; 1; 2].
Proof.
  cbv zeta. split; [exact demo_key_inj|]. split.
  - intros s ms inst Hin m Hm. unfold demo_used.
    cbn in Hin. repeat (destruct Hin as [E|Hin]; [try discriminate; injection E as <- <- <-;
      cbn in Hm; repeat (destruct Hm as [<-|Hm]; [reflexivity|]); destruct Hm|]). destruct Hin.
  - split.
    + intros ms' inst Hin x. cbn in Hin.
      repeat (destruct Hin as [E|Hin]; [try discriminate; injection E as <- <-; tauto|]). destruct Hin.
    + vm_compute. split; reflexivity.
Qed.
