(** * StoreRefProofs: lemmas about the reference model [StoreRef.v]

    Everything here is about the *reference*.  It makes the reference readable
    (frame rule, read-your-write, last write wins, reopen is the identity, the
    contract-allowed purge never touches a live document); it says nothing about
    SQLite, LMDB or MemStore — that is the job of the differential executor. *)

From stdpp Require Import gmap.
From Coq Require Import NArith.
From DC Require Import StoreRef.

Section proofs.
Context {B : Type}.
Implicit Types (s : store B) (m : kmap B) (c : call B) (o : op B) (ws : list (atom B))
  (cs : list (call B)).

(** ** One keyspace at a time *)

Lemma ksmap_empty ks : ksmap (@empty_store B) ks = ∅.
Proof. unfold ksmap, empty_store. by rewrite lookup_empty. Qed.

Lemma ksmap_step_same s ks o :
  ksmap (step s (Call ks o)) ks = apply_op o (ksmap s ks).
Proof. unfold ksmap at 1. cbn [step]. by rewrite lookup_insert. Qed.

Lemma ksmap_step_other s c b :
  call_ks c <> Some b -> ksmap (step s c) b = ksmap s b.
Proof.
  destruct c as [ks o|]; cbn [call_ks step]; intros Hne; [|done].
  unfold ksmap. rewrite lookup_insert_ne; [done|congruence].
Qed.

Lemma ksmap_run_other s cs b :
  Forall (fun c => call_ks c <> Some b) cs -> ksmap (run s cs) b = ksmap s b.
Proof.
  intros HF. revert s. induction HF as [|c r Hc _ IH]; intros s; [done|].
  change (run s (c :: r)) with (run (step s c) r).
  by rewrite IH, ksmap_step_other.
Qed.

(** Frame rule: a call on keyspace [a] (or a reopen) changes no observation of
    any other keyspace [b]. *)
Lemma frame_step s c b :
  call_ks c <> Some b ->
  (forall id, get (step s c) b id = get s b id) /\
  (forall ids, multi_get (step s c) b ids = multi_get s b ids) /\
  metadata (step s c) b = metadata s b /\
  (forall id, view (step s c) b id = view s b id).
Proof.
  intros Hne. unfold get, multi_get, metadata, view.
  by rewrite (ksmap_step_other _ _ _ Hne).
Qed.

Lemma frame_run s cs b :
  Forall (fun c => call_ks c <> Some b) cs ->
  (forall id, get (run s cs) b id = get s b id) /\
  (forall ids, multi_get (run s cs) b ids = multi_get s b ids) /\
  metadata (run s cs) b = metadata s b.
Proof.
  intros HF. unfold get, multi_get, metadata.
  by rewrite (ksmap_run_other _ _ _ HF).
Qed.

(** ** Keyspace list: exactly the keyspaces holding an entry *)

Lemma elem_of_ks_list s ks :
  ks ∈ ks_list s <-> exists id e, view s ks id = Some e.
Proof.
  unfold ks_list, view, ksmap. rewrite elem_of_list_omap. split.
  - intros [[k m] [Hin Hsome]]. apply elem_of_map_to_list in Hin. cbn in Hsome.
    destruct (map_to_list m) as [|[i e] l] eqn:E; [done|].
    injection Hsome as <-. rewrite Hin. cbn. exists i, e.
    apply elem_of_map_to_list. rewrite E. left.
  - intros (id & e & Hv). destruct (s !! ks) as [m|] eqn:E; cbn in Hv; [|by rewrite lookup_empty in Hv].
    exists (ks, m). split; [by apply elem_of_map_to_list|]. cbn.
    destruct (map_to_list m) as [|x l] eqn:E2; [|done].
    apply elem_of_map_to_list in Hv. rewrite E2 in Hv. by apply elem_of_nil in Hv.
Qed.

Lemma omap_fst_sublist {A C} (f : A * C -> option A) (l : list (A * C)) :
  (forall x y, f x = Some y -> y = x.1) -> sublist (omap f l) (l.*1).
Proof.
  intros Hf. induction l as [|x l IH]; cbn; [constructor|].
  destruct (f x) as [y|] eqn:E.
  - rewrite (Hf _ _ E). by constructor.
  - by constructor.
Qed.

Lemma sublist_NoDup_inv {A} (l k : list A) : sublist l k -> NoDup k -> NoDup l.
Proof.
  induction 1 as [|x l k Hs IH|x l k Hs IH]; intros Hk.
  - constructor.
  - apply NoDup_cons in Hk as [Hx Hk]. apply NoDup_cons. split; [|by apply IH].
    intros Hin. apply Hx. eapply elem_of_submseteq; [exact Hin|by apply sublist_submseteq].
  - apply NoDup_cons in Hk as [_ Hk]. by apply IH.
Qed.

Lemma NoDup_ks_list s : NoDup (ks_list s).
Proof.
  eapply sublist_NoDup_inv; [|apply (NoDup_fst_map_to_list s)].
  apply omap_fst_sublist. intros [k m] y. cbn.
  destruct (map_to_list m); [done|]. by intros [= <-].
Qed.

Lemma frame_ks_list s c b :
  call_ks c <> Some b -> b ∈ ks_list (step s c) <-> b ∈ ks_list s.
Proof.
  intros Hne. rewrite !elem_of_ks_list. unfold view.
  by rewrite (ksmap_step_other _ _ _ Hne).
Qed.

(** ** Metadata: one row per entry *)

Lemma elem_of_metadata s ks i t b :
  (i, t, b) ∈ metadata s ks <->
  exists e, view s ks i = Some e /\ e.1 = t /\ is_tomb e = b.
Proof.
  unfold metadata, view. rewrite elem_of_list_fmap. split.
  - intros [[i' e] [Heq Hin]]. cbn in Heq. injection Heq as -> -> ->.
    apply elem_of_map_to_list in Hin. by exists e.
  - intros (e & Hv & <- & <-). exists (i, e). split; [done|].
    by apply elem_of_map_to_list.
Qed.

Lemma NoDup_metadata_ids s ks : NoDup ((metadata s ks).*1.*1).
Proof.
  unfold metadata. rewrite <- !list_fmap_compose.
  apply (NoDup_fst_map_to_list (ksmap s ks)).
Qed.

(** ** Reading one's own write *)

Lemma get_view s ks id :
  get s ks id = match view s ks id with
                | Some (ts, Some d) => Some (id, ts, d)
                | _ => None
                end.
Proof. reflexivity. Qed.

Lemma get_after_put s ks id ts d :
  get (step s (Call ks (OPut id ts d))) ks id = Some (id, ts, d).
Proof.
  unfold get. rewrite ksmap_step_same. cbn [apply_op]. unfold get_in, put_in.
  by rewrite lookup_insert.
Qed.

Lemma get_after_tomb s ks id ts :
  get (step s (Call ks (OTomb id ts))) ks id = None /\
  (id, ts, true) ∈ metadata (step s (Call ks (OTomb id ts))) ks.
Proof.
  split.
  - unfold get. rewrite ksmap_step_same. cbn [apply_op]. unfold get_in, tomb_in.
    by rewrite lookup_insert.
  - apply elem_of_metadata. exists (ts, None). unfold view.
    rewrite ksmap_step_same. cbn [apply_op]. unfold tomb_in.
    by rewrite lookup_insert.
Qed.

(** ** Last write wins *)

Lemma apply_op_atoms o m : apply_op o m = fold_left apply_atom (atoms o) m.
Proof.
  destruct o as [id ts d|docs|id ts|docs|ids]; cbn [apply_op atoms]; try done.
  - revert m. induction docs as [|x r IH]; intros m; [done|]. cbn. by rewrite IH.
  - revert m. induction docs as [|x r IH]; intros m; [done|]. cbn. by rewrite IH.
  - revert m. induction ids as [|x r IH]; intros m; [done|]. cbn. by rewrite IH.
Qed.

Lemma fold_atoms_lookup ws m id :
  fold_left apply_atom ws m !! id = last_write ws id (m !! id).
Proof.
  revert m. induction ws as [|a r IH]; intros m; [done|].
  cbn [fold_left last_write]. rewrite IH. f_equal.
  destruct a as [i [e|]]; unfold apply_atom; cbn [fst snd];
    destruct (N.eqb_spec i id) as [->|Hne].
  - by rewrite lookup_insert.
  - by rewrite lookup_insert_ne.
  - by rewrite lookup_delete.
  - by rewrite lookup_delete_ne.
Qed.

Lemma ksmap_run_writes s cs ks :
  ksmap (run s cs) ks = fold_left apply_atom (writes cs ks) (ksmap s ks).
Proof.
  revert s. induction cs as [|c r IH]; intros s; [done|].
  change (run s (c :: r)) with (run (step s c) r). rewrite IH.
  destruct c as [k o|]; cbn [writes]; [|done].
  rewrite fold_left_app. destruct (N.eqb_spec k ks) as [->|Hne].
  - by rewrite ksmap_step_same, apply_op_atoms.
  - cbn [fold_left]. rewrite ksmap_step_other; [done|]. cbn. congruence.
Qed.

(** What a store holds for an id after any call sequence is the last write to that
    id in that keyspace (or what it held before, if there is none). *)
Lemma view_run s cs ks id :
  view (run s cs) ks id = last_write (writes cs ks) id (view s ks id).
Proof. unfold view. by rewrite ksmap_run_writes, fold_atoms_lookup. Qed.

Lemma last_write_app (ws1 ws2 : list (atom B)) id acc :
  last_write (ws1 ++ ws2) id acc = last_write ws2 id (last_write ws1 id acc).
Proof. revert acc. induction ws1 as [|a r IH]; intros acc; [done|]. cbn. by rewrite IH. Qed.

Lemma last_write_untouched ws id acc :
  Forall (fun a => a.1 <> id) ws -> last_write ws id acc = acc.
Proof.
  intros HF. revert acc. induction HF as [|a r Ha _ IH]; intros acc; [done|].
  cbn. rewrite IH. by destruct (N.eqb_spec a.1 id).
Qed.

Lemma last_write_last (pre post : list (atom B)) id w acc :
  Forall (fun a => a.1 <> id) post ->
  last_write (pre ++ (id, w) :: post) id acc = w.
Proof.
  intros HF. rewrite last_write_app. cbn [last_write fst snd].
  rewrite N.eqb_refl. by apply last_write_untouched.
Qed.

Lemma last_write_wins cs ks id (pre post : list (atom B)) w :
  writes cs ks = pre ++ (id, w) :: post ->
  Forall (fun a => a.1 <> id) post ->
  view (run empty_store cs) ks id = w.
Proof. intros Hw HF. rewrite view_run, Hw. by apply last_write_last. Qed.

Lemma never_written cs ks id :
  Forall (fun a => a.1 <> id) (writes cs ks) ->
  view (run empty_store cs) ks id = None.
Proof.
  intros HF. rewrite view_run, last_write_untouched; [|done].
  unfold view. by rewrite ksmap_empty, lookup_empty.
Qed.

(** Every observation is determined by the per-id last writes: two call sequences
    with the same last write for every (keyspace, id) are indistinguishable. *)
Lemma determined_by_last_write cs1 cs2 :
  (forall ks id, last_write (writes cs1 ks) id None = last_write (writes cs2 ks) id None) ->
  (forall ks, ksmap (run empty_store cs1) ks = ksmap (run empty_store cs2) ks) /\
  (forall ks id, get (run empty_store cs1) ks id = get (run empty_store cs2) ks id) /\
  (forall ks ids, multi_get (run empty_store cs1) ks ids = multi_get (run empty_store cs2) ks ids) /\
  (forall ks, metadata (run empty_store cs1) ks = metadata (run empty_store cs2) ks) /\
  (forall ks, ks ∈ ks_list (run empty_store cs1) <-> ks ∈ ks_list (run empty_store cs2)).
Proof.
  intros H.
  assert (HK : forall ks, ksmap (run empty_store cs1) ks = ksmap (run empty_store cs2) ks).
  { intros ks. apply map_eq. intros id.
    pose proof (view_run empty_store cs1 ks id) as H1.
    pose proof (view_run empty_store cs2 ks id) as H2.
    unfold view in H1, H2. rewrite H1, H2, ksmap_empty, lookup_empty. apply H. }
  split; [exact HK|].
  unfold get, multi_get, metadata.
  repeat split; intros; rewrite ?HK; try done.
  all: rewrite elem_of_ks_list in *; unfold view in *; by rewrite ?HK in *.
Qed.

(** Metadata reflects the last write per id. *)
Lemma metadata_last_write cs ks i t b :
  (i, t, b) ∈ metadata (run empty_store cs) ks <->
  exists e, last_write (writes cs ks) i None = Some e /\ e.1 = t /\ is_tomb e = b.
Proof.
  rewrite elem_of_metadata, view_run. unfold view.
  by rewrite ksmap_empty, lookup_empty.
Qed.

(** ** Reopen *)

Lemma reopen_id s : step s Reopen = s.
Proof. reflexivity. Qed.

Lemma reopen_anywhere s l1 l2 : run s (l1 ++ Reopen :: l2) = run s (l1 ++ l2).
Proof. unfold run. by rewrite !fold_left_app. Qed.

Lemma reopen_writes cs ks l2 : writes (cs ++ Reopen :: l2) ks = writes (cs ++ l2) ks.
Proof. induction cs as [|c r IH]; [done|]. destruct c; cbn; by rewrite IH. Qed.

(** ** The contract-allowed purge never touches a live document *)

Lemma purgeable_delete m a id :
  purgeable m id = true -> purgeable (delete a m) id = true.
Proof.
  unfold purgeable. destruct (decide (a = id)) as [->|Hne].
  - by rewrite lookup_delete.
  - by rewrite lookup_delete_ne.
Qed.

Lemma get_in_purge m ids id :
  forallb (purgeable m) ids = true ->
  get_in (fold_left (fun m id => delete id m) ids m) id = get_in m id.
Proof.
  revert m. induction ids as [|a r IH]; intros m; [done|].
  cbn [forallb fold_left]. intros [Ha Hr]%andb_prop.
  rewrite IH.
  - unfold get_in. destruct (decide (a = id)) as [->|Hne].
    + rewrite lookup_delete. unfold purgeable in Ha.
      by destruct (m !! id) as [[ts [d|]]|].
    + by rewrite lookup_delete_ne.
  - apply forallb_forall. intros x Hx.
    apply purgeable_delete. by eapply forallb_forall in Hr.
Qed.

Lemma allowed_purge_keeps_documents s ks ids :
  allowed s (Call ks (OPurge ids)) = true ->
  forall k id, get (step s (Call ks (OPurge ids))) k id = get s k id.
Proof.
  cbn [allowed]. intros Hal k id. destruct (decide (k = ks)) as [->|Hne].
  - unfold get. rewrite ksmap_step_same. cbn [apply_op]. by apply get_in_purge.
  - apply frame_step. cbn. congruence.
Qed.

End proofs.

(** ** The two defects, refuted on their witnesses *)

Lemma legacy_mem_drops_first_tombstone :
  let cs : list (call unit) := [Call 2 (OTomb 0 5)] in
  allowed_run empty_store cs = true /\
  metadata (run empty_store cs) 2 = [(0%N, 5%N, true)] /\
  metadata (legacy_mem_run cs) 2 = [].
Proof. vm_compute. done. Qed.

Lemma legacy_sqlite_multi_get_fails :
  let big := 9223372036854775808%N in
  let s : store unit := run empty_store [Call 0 (OPut big 1 tt)] in
  get s 0 big = Some (big, 1%N, tt) /\
  multi_get s 0 [big] = [(big, 1%N, tt)] /\
  legacy_sqlite_multi_get s 0 [big] = None.
Proof. vm_compute. done. Qed.
