(** * C17 — Every bundled storage backend behaves like the reference key-value model

    The substance of C17 is a *differential*: the executor [hx-store] runs MemStore,
    SQLite (memory and file) and LMDB next to this reference on generated call
    sequences and compares every observer after every call.  The theorems below are
    about the reference only: they say what "behaves like the reference" means
    (frame rule, read-your-write, last write wins, reopen = identity, observations
    determined by the per-id last write), for every state and every call sequence.

    This file contains only the property theorems (each closed by [exact] of a lemma
    proved in [StoreRefProofs.v]) and a non-vacuity example. *)

From stdpp Require Import gmap.
From Coq Require Import NArith.
From DC Require Import StoreRef StoreRefProofs.
Local Open Scope N_scope.

(** Keyspaces never affect one another: a call on keyspace [a] (or a reopen) changes
    no observation of a keyspace [b <> a] — single documents, bulk reads, metadata,
    the underlying entries, and membership in the keyspace list. *)
Theorem C17_frame_rule :
  forall (B : Type) (s : store B) (c : call B) (b : N),
    call_ks c <> Some b ->
    (forall id, get (step s c) b id = get s b id) /\
    (forall ids, multi_get (step s c) b ids = multi_get s b ids) /\
    metadata (step s c) b = metadata s b /\
    (forall id, view (step s c) b id = view s b id).
Proof. exact @frame_step. Qed.

Theorem C17_frame_rule_keyspace_list :
  forall (B : Type) (s : store B) (c : call B) (b : N),
    call_ks c <> Some b -> b ∈ ks_list (step s c) <-> b ∈ ks_list s.
Proof. exact @frame_ks_list. Qed.

(** ... and the same for any sequence of calls none of which names [b]. *)
Theorem C17_frame_rule_sequences :
  forall (B : Type) (s : store B) (cs : list (call B)) (b : N),
    Forall (fun c => call_ks c <> Some b) cs ->
    (forall id, get (run s cs) b id = get s b id) /\
    (forall ids, multi_get (run s cs) b ids = multi_get s b ids) /\
    metadata (run s cs) b = metadata s b.
Proof. exact @frame_run. Qed.

(** [get] after [put] returns the same id, stamp and bytes — whatever the bytes are
    (the model is parametric in them: empty, large, anything). *)
Theorem C17_get_after_put :
  forall (B : Type) (s : store B) (ks id ts : N) (d : B),
    get (step s (Call ks (OPut id ts d))) ks id = Some (id, ts, d).
Proof. exact @get_after_put. Qed.

(** After [mark_as_tombstone] the document is gone and the marker carries the stamp,
    whether or not the id (or the keyspace) held anything before. *)
Theorem C17_tombstone_after_mark :
  forall (B : Type) (s : store B) (ks id ts : N),
    get (step s (Call ks (OTomb id ts))) ks id = None /\
    (id, ts, true) ∈ metadata (step s (Call ks (OTomb id ts))) ks.
Proof. exact @get_after_tomb. Qed.

(** After any call sequence, what the store holds for an id is the last write to it
    in its keyspace ([put]/[multi_put] element: live entry, tombstone mark: marker,
    [remove_tombstones]: nothing), or what it held before if there was none. *)
Theorem C17_state_is_last_write :
  forall (B : Type) (s : store B) (cs : list (call B)) (ks id : N),
    view (run s cs) ks id = last_write (writes cs ks) id (view s ks id).
Proof. exact @view_run. Qed.

Theorem C17_last_write_wins :
  forall (B : Type) (cs : list (call B)) (ks id : N) (pre post : list (atom B)) (w : option (N * option B)),
    writes cs ks = pre ++ (id, w) :: post ->
    Forall (fun a => a.1 <> id) post ->
    view (run empty_store cs) ks id = w.
Proof. exact @last_write_wins. Qed.

Theorem C17_never_written_is_absent :
  forall (B : Type) (cs : list (call B)) (ks id : N),
    Forall (fun a => a.1 <> id) (writes cs ks) ->
    view (run empty_store cs) ks id = None.
Proof. exact @never_written. Qed.

(** Metadata reflects the last write per id: a row (id, stamp, tombstone flag) is
    listed exactly when the last write to the id left an entry with that stamp and
    flag; and there is one row per id. *)
Theorem C17_metadata_reflects_last_write :
  forall (B : Type) (cs : list (call B)) (ks i t : N) (b : bool),
    (i, t, b) ∈ metadata (run empty_store cs) ks <->
    exists e, last_write (writes cs ks) i None = Some e /\ e.1 = t /\ is_tomb e = b.
Proof. exact @metadata_last_write. Qed.

Theorem C17_metadata_one_row_per_id :
  forall (B : Type) (s : store B) (ks : N), NoDup ((metadata s ks).*1.*1).
Proof. exact @NoDup_metadata_ids. Qed.

(** The reference keyspace list: exactly the keyspaces that hold an entry, each once.
    (The backends may additionally list keyspaces without entries; the comparison
    is made modulo those — see the level text.) *)
Theorem C17_keyspace_list_exact :
  forall (B : Type) (s : store B) (ks : N),
    ks ∈ ks_list s <-> exists id e, view s ks id = Some e.
Proof. exact @elem_of_ks_list. Qed.

Theorem C17_keyspace_list_nodup :
  forall (B : Type) (s : store B), NoDup (ks_list s).
Proof. exact @NoDup_ks_list. Qed.

(** Closing and reopening at any point between calls changes nothing. *)
Theorem C17_reopen_changes_nothing :
  forall (B : Type) (s : store B) (l1 l2 : list (call B)),
    run s (l1 ++ Reopen :: l2) = run s (l1 ++ l2).
Proof. exact @reopen_anywhere. Qed.

(** Every observation is determined by the per-id last write: two call sequences
    with the same last write for every (keyspace, id) cannot be told apart. *)
Theorem C17_observations_determined_by_last_write :
  forall (B : Type) (cs1 cs2 : list (call B)),
    (forall ks id, last_write (writes cs1 ks) id None = last_write (writes cs2 ks) id None) ->
    (forall ks, ksmap (run empty_store cs1) ks = ksmap (run empty_store cs2) ks) /\
    (forall ks id, get (run empty_store cs1) ks id = get (run empty_store cs2) ks id) /\
    (forall ks ids, multi_get (run empty_store cs1) ks ids = multi_get (run empty_store cs2) ks ids) /\
    (forall ks, metadata (run empty_store cs1) ks = metadata (run empty_store cs2) ks) /\
    (forall ks, ks ∈ ks_list (run empty_store cs1) <-> ks ∈ ks_list (run empty_store cs2)).
Proof. exact @determined_by_last_write. Qed.

(** A [remove_tombstones] call allowed by the contract (every named id is a tombstone
    or absent) removes no document of any keyspace. *)
Theorem C17_allowed_purge_keeps_documents :
  forall (B : Type) (s : store B) (ks : N) (ids : list N),
    allowed s (Call ks (OPurge ids)) = true ->
    forall k id, get (step s (Call ks (OPurge ids))) k id = get s k id.
Proof. exact @allowed_purge_keeps_documents. Qed.

(** The two repaired defects, as they stood.  D10: MemStore dropped a tombstone
    written to a keyspace no put had created.  D11: datacake-sqlite's [multi_get]
    failed as a whole on an id >= 2^63 that [put] and [get] handle. *)
Theorem C17_legacy_memstore_tombstone_refuted :
  let cs : list (call unit) := [Call 2 (OTomb 0 5)] in
  allowed_run empty_store cs = true /\
  metadata (run empty_store cs) 2 = [(0%N, 5%N, true)] /\
  metadata (legacy_mem_run cs) 2 = [].
Proof. exact legacy_mem_drops_first_tombstone. Qed.

Theorem C17_legacy_sqlite_multi_get_refuted :
  let big := 9223372036854775808%N in
  let s : store unit := run empty_store [Call 0 (OPut big 1 tt)] in
  get s 0 big = Some (big, 1%N, tt) /\
  multi_get s 0 [big] = [(big, 1%N, tt)] /\
  legacy_sqlite_multi_get s 0 [big] = None.
Proof. exact legacy_sqlite_multi_get_fails. Qed.

(** Non-vacuity: a concrete allowed history over three keyspaces — keyspace 2 is first
    touched by a tombstone, ids at the u64 boundaries, an empty payload, a bulk put
    naming one id twice, a purge of a tombstone, a reopen in the middle. *)
Example C17_nonvacuous :
  let big := 18446744073709551615%N in
  let cs : list (call (list N)) :=
    [ Call 2 (OTomb 0 7);
      Call 0 (OPut big 9 []);
      Call 0 (OMultiPut [(1, 3, [1;2]); (1, 2, [3])]);
      Reopen;
      Call 1 (OMultiTomb [(5, 4); (big, 4)]);
      Call 1 (OPurge [5]);
      Call 0 (OTomb 1 8) ] in
  let s := run empty_store cs in
  allowed_run empty_store cs = true /\
  get s 0 big = Some (big, 9, []) /\
  get s 0 1 = None /\
  multi_get s 0 [1; big; 4] = [(big, 9, [])] /\
  metadata s 2 = [(0, 7, true)] /\
  metadata s 1 = [(big, 4, true)] /\
  last_write (writes cs 0) 1 None = Some (8, None) /\
  metadata s 0 = [(1, 8, true); (big, 9, false)] /\
  ks_list s = [0; 1; 2].
Proof. vm_compute. repeat split; reflexivity. Qed.
