(** Extraction of the executable reference model to OCaml ([ExtrOcamlBasic] only). *)
From Coq Require Import ExtrOcamlBasic NArith.
From stdpp Require Import gmap.
From DC Require Import StoreRef.
Extraction Language OCaml.
Extraction "model.ml"
  N.ltb N.leb N.eqb
  empty_store step run allowed allowed_run call_ks
  get multi_get metadata ks_list view
  writes last_write
  legacy_mem_step legacy_mem_run legacy_sqlite_multi_get.
