(** * StoreRef: the reference key-value model of the [Storage] contract
    (datacake-eventual-consistency/src/storage.rs, trait [Storage])

    Definitions only (the executable model).  Proofs are in [StoreRefProofs.v].

    A store is, per keyspace, a finite map  id -> (stamp, option bytes) ;
    [Some bytes] is a live document, [None] a tombstone (the marker the contract
    demands: "there must be a marker indicating that the given document has been
    marked as deleted at the provided timestamp").  Keyspaces and ids are [N]
    (ids are [u64] keys; a keyspace is the index of its name in the harness'
    name table), stamps are the packed [u64] of an [HLCTimestamp].

    The payload type [B] is a parameter: no operation of the contract inspects the
    bytes of a document, so the model is parametric in them (the extracted code is
    polymorphic in ['b]; the harness instantiates it with payload descriptors).

    The three bundled backends are *compared with* this model by the executor
    [hx-store]; nothing in this file is derived from their code except the two
    [legacy_] definitions at the end, which describe two defects as they stood
    before their repair (D10 MemStore, D11 SQLite). *)

From stdpp Require Import gmap.
From Coq Require Import NArith.

(** stamp, and the bytes ([None] = tombstone) *)
Notation entry B := (N * option B)%type.
(** one keyspace *)
Notation kmap B := (gmap N (entry B)).
(** the whole store: keyspace -> map.  A keyspace bound to the empty map and an
    unbound keyspace are indistinguishable by every observer below. *)
Notation store B := (gmap N (kmap B)).

Section store.
Context {B : Type}.
Notation entry := (entry B).
Notation kmap := (kmap B).
Notation store := (store B).

Definition empty_store : store := ∅.

Definition ksmap (s : store) (ks : N) : kmap := default ∅ (s !! ks).

(** what the store holds for one id of one keyspace *)
Definition view (s : store) (ks id : N) : option entry := ksmap s ks !! id.

(** ** Mutating calls of the trait, as functions on one keyspace *)

Inductive op : Type :=
| OPut (id ts : N) (d : B)                    (* put / put_with_ctx *)
| OMultiPut (docs : list (N * N * B))         (* multi_put: (id, stamp, bytes), applied in order *)
| OTomb (id ts : N)                           (* mark_as_tombstone *)
| OMultiTomb (docs : list (N * N))            (* mark_many_as_tombstone: (id, stamp) in order *)
| OPurge (ids : list N).                      (* remove_tombstones *)

Definition put_in (m : kmap) (id ts : N) (d : B) : kmap := <[id := (ts, Some d)]> m.
Definition tomb_in (m : kmap) (id ts : N) : kmap := <[id := (ts, None)]> m.

Definition apply_op (o : op) (m : kmap) : kmap :=
  match o with
  | OPut id ts d => put_in m id ts d
  | OMultiPut docs => fold_left (fun m x => put_in m x.1.1 x.1.2 x.2) docs m
  | OTomb id ts => tomb_in m id ts                (* creates the entry if absent *)
  | OMultiTomb docs => fold_left (fun m x => tomb_in m x.1 x.2) docs m
  | OPurge ids => fold_left (fun m id => delete id m) ids m
  end.

(** A call: a mutating call on one keyspace, or closing and reopening the database. *)
Inductive call : Type :=
| Call (ks : N) (o : op)
| Reopen.

Definition step (s : store) (c : call) : store :=
  match c with
  | Call ks o => <[ks := apply_op o (ksmap s ks)]> s
  | Reopen => s
  end.

Definition run (s : store) (cs : list call) : store := fold_left step cs s.

Definition call_ks (c : call) : option N :=
  match c with Call ks _ => Some ks | Reopen => None end.

(** ** "Calls allowed by the Storage contract"

    [remove_tombstones] may only name ids that are tombstones (or absent): it is
    documented as "Remove a set of keys which are marked as tombstones".  Every
    other call is allowed in every state. *)
Definition purgeable (m : kmap) (id : N) : bool :=
  match m !! id with
  | Some (_, Some _) => false
  | _ => true
  end.

Definition allowed (s : store) (c : call) : bool :=
  match c with
  | Call ks (OPurge ids) => forallb (purgeable (ksmap s ks)) ids
  | _ => true
  end.

Fixpoint allowed_run (s : store) (cs : list call) : bool :=
  match cs with
  | [] => true
  | c :: r => allowed s c && allowed_run (step s c) r
  end.

(** ** Observers *)

(** [get]: live documents only; returns (id, stamp, bytes). *)
Definition get_in (m : kmap) (id : N) : option (N * N * B) :=
  match m !! id with
  | Some (ts, Some d) => Some (id, ts, d)
  | _ => None
  end.
Definition get (s : store) (ks id : N) : option (N * N * B) := get_in (ksmap s ks) id.

(** [multi_get]: the live documents among the requested ids (request order; the
    contract promises no order, the comparison sorts). *)
Definition multi_get (s : store) (ks : N) (ids : list N) : list (N * N * B) :=
  omap (get_in (ksmap s ks)) ids.

Definition is_tomb (e : entry) : bool :=
  match e.2 with None => true | Some _ => false end.

(** [iter_metadata]: (id, stamp, tombstone flag) for every entry. *)
Definition metadata (s : store) (ks : N) : list (N * N * bool) :=
  (fun x : N * entry => (x.1, x.2.1, is_tomb x.2)) <$> map_to_list (ksmap s ks).

(** [get_keyspace_list], up to keyspaces without entries: exactly the keyspaces
    that hold at least one entry. *)
Definition ks_list (s : store) : list N :=
  omap (fun x : N * kmap => match map_to_list x.2 with [] => None | _ => Some x.1 end)
       (map_to_list s).

(** ** The writes a call sequence performs on one keyspace, flattened

    [(id, Some e)] writes entry [e], [(id, None)] removes the id. *)
Definition atom : Type := N * option entry.

Definition atoms (o : op) : list atom :=
  match o with
  | OPut id ts d => [(id, Some (ts, Some d))]
  | OMultiPut docs => (fun x : N * N * B => (x.1.1, Some (x.1.2, Some x.2))) <$> docs
  | OTomb id ts => [(id, Some (ts, None))]
  | OMultiTomb docs => (fun x : N * N => (x.1, Some (x.2, None))) <$> docs
  | OPurge ids => (fun id => (id, None)) <$> ids
  end.

Definition apply_atom (m : kmap) (a : atom) : kmap :=
  match a.2 with
  | Some e => <[a.1 := e]> m
  | None => delete a.1 m
  end.

Fixpoint writes (cs : list call) (ks : N) : list atom :=
  match cs with
  | [] => []
  | Call k o :: r => (if N.eqb k ks then atoms o else []) ++ writes r ks
  | Reopen :: r => writes r ks
  end.

(** The last write to [id] in a list of atoms decides; [acc] is what held before. *)
Fixpoint last_write (ws : list atom) (id : N) (acc : option entry) : option entry :=
  match ws with
  | [] => acc
  | a :: r => last_write r id (if N.eqb a.1 id then a.2 else acc)
  end.

(** ** The two repaired defects, as they stood (kept to state their refutation)

    D10: [MemStore::mark_many_as_tombstone] used [entry(ks).and_modify(..)] with no
    [or_insert]: a tombstone for a keyspace that no put had created yet was dropped.
    The legacy MemStore state carries the set of keyspaces some put has created. *)
Definition legacy_mem : Type := store * list N.

Definition legacy_mem_step (st : legacy_mem) (c : call) : legacy_mem :=
  match c with
  | Call ks (OPut _ _ _) | Call ks (OMultiPut _) => (step st.1 c, ks :: st.2)
  | Call ks (OTomb _ _) | Call ks (OMultiTomb _) =>
      if existsb (N.eqb ks) st.2 then (step st.1 c, st.2) else st
  | _ => (step st.1 c, st.2)
  end.

Definition legacy_mem_run (cs : list call) : store :=
  (fold_left legacy_mem_step cs (empty_store, [])).1.

(** D11: datacake-sqlite's [multi_get] bound the ids as [u64]; rusqlite refuses a
    [u64] above [i64::MAX], so a request naming an id >= 2^63 failed as a whole. *)
Definition legacy_sqlite_multi_get (s : store) (ks : N) (ids : list N)
  : option (list (N * N * B)) :=
  if existsb (fun id => N.leb 9223372036854775808 id) ids then None
  else Some (multi_get s ks ids).

End store.

Arguments op : clear implicits.
Arguments call : clear implicits.
Arguments atom : clear implicits.
Arguments legacy_mem : clear implicits.
