(** * KeyspaceLife: the keyspace group for the life of the node

    Besides the tasks that use a keyspace, the group runs one background task of its own
    ([keyspace_purge_task]): every purge period it clones the map under the read lock and sends
    [PurgeDeletes] to every instance in it.  Whatever the purge does inside an instance - drop
    tombstones, fail in the store, re-mark what it could not remove - it touches neither the map
    nor the documents an instance has acknowledged: on this model's state a purge tick is the
    identity.  Traces of the node are interleavings of task steps and purge ticks.

    [reload_step] is NOT part of the code: it is the seeded change C18/F (a failed purge
    "resynchronises" by loading the states from storage again, which registers a fresh instance
    per persisted keyspace), kept for its refutation. *)

From Coq Require Import List Arith Bool.
From DC Require Import Keyspace KeyspaceProofs.
Import ListNotations.

Inductive kevent :=
| KTask (i : tid)     (* one atomic transition of task [i] *)
| KPurge.             (* one tick of the group's purge task, whatever its outcome *)

Definition kstep (e : kevent) (s : state) : state :=
  match e with
  | KTask i => step i s
  | KPurge => s
  end.

Fixpoint krun (es : list kevent) (s : state) : state :=
  match es with
  | [] => s
  | e :: rest => krun rest (kstep e s)
  end.

Definition tasks_of (es : list kevent) : list tid :=
  flat_map (fun e => match e with KTask i => [i] | KPurge => [] end) es.

Lemma krun_erases es : forall s, krun es s = run (tasks_of es) s.
Proof.
  induction es as [|e es IH]; intros s; [reflexivity|].
  destruct e as [i|]; cbn [krun kstep tasks_of flat_map app].
  - rewrite IH. reflexivity.
  - apply IH.
Qed.

Lemma tasks_of_app es more : tasks_of (es ++ more) = tasks_of es ++ tasks_of more.
Proof. unfold tasks_of. apply flat_map_app. Qed.

(** For the life of the node: with purge ticks anywhere in the trace, every task that has a
    mailbox holds the instance in the map, the entry never changes, and every acknowledged
    mutation is in the set a lookup at any later time returns. *)
Lemma life_one_instance k es i m :
  returned (krun es (init k)) i = Some m -> later_lookup (krun es (init k)) = Some m.
Proof. rewrite krun_erases. apply one_instance. Qed.

Lemma life_map_never_changes k es more m :
  later_lookup (krun es (init k)) = Some m ->
  later_lookup (krun (es ++ more) (init k)) = Some m.
Proof. rewrite !krun_erases, tasks_of_app. apply map_never_changes. Qed.

Lemma life_acked_in_later_lookup k es more i :
  is_acked (krun es (init k)) i = true ->
  exists m, later_lookup (krun (es ++ more) (init k)) = Some m /\
            In i (later_set (krun (es ++ more) (init k))).
Proof. rewrite !krun_erases, tasks_of_app. apply acked_in_later_lookup. Qed.

(** The seeded variant: a reload registers a fresh instance that holds what was persisted so far
    (every acknowledged mutation) and publishes its counter; mailboxes handed out before keep
    pointing at the old instance. *)
Definition reload_step (s : state) : state :=
  let m' := fresh s in
  mkState (pcs s) (Some m') (Some m') (S (fresh s)) (dropped s)
          (map (fun e => (m', snd e)) (log s) ++ log s).

(** Task 0 obtains its mailbox, the reload happens, task 0 then sends its mutation through the
    mailbox it holds: the mutation is acknowledged and missing from the registered set. *)
Lemma reload_refuted :
  let s := step 0 (reload_step (run [0; 0; 0; 0] (init 1))) in
  is_acked s 0 = true /\
  exists m, later_lookup s = Some m /\ ~ In 0 (later_set s) /\ returned s 0 <> Some m.
Proof.
  vm_compute. split; [reflexivity|]. exists 1. split; [reflexivity|]. split.
  - intros [].
  - intros H. discriminate H.
Qed.
