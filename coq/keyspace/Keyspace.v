(** * Keyspace: small-step model of k concurrent [KeyspaceGroup::get_or_create_keyspace] calls
    (datacake-eventual-consistency/src/keyspace/group.rs)

    Definitions only (the executable model).  Proofs are in [KeyspaceProofs.v].

    One keyspace name, [k] tasks.  Every task runs

<<
      get_or_create_keyspace(name):
        { read-lock group;  hit -> return mailbox }                    -- segment 1
        add_state(name, empty):
          ts  = clock.get_time().await                                 -- await point 1
          ctr = Arc::new(AtomicCell::new(ts))
          mb  = spawn_keyspace(name, .., ctr).await                    -- await point 2
          { write-lock group; existing -> return it (mb, ctr dropped)
                              else insert mb }                         -- lock section A
          { write-lock keyspace_timestamps; insert ctr }               -- lock section B
          return mb
>>
    and then sends one mutation ([Set] of a document whose id is the task's index) to the
    mailbox it obtained.  Everything between two lock sections / await points touches only
    task-local data, so the atomic transitions of a task are: the read-locked lookup, the
    spawn, lock section A, lock section B and the mutation (one actor handles one message
    at a time).  The scheduler's choice of the next task to move is the quantified variable:
    a schedule is a list of task indices and [run] applies one transition per entry.

    An instance (one spawned [KeyspaceActor] with its own [OrSWotSet] and its own update
    counter) is named by the value of the spawn counter at its creation.

    [legacy = true] is the code before the repair of defect D12 (lock section A overwrote
    the entry unconditionally); [legacy = false] is the code as it stands. *)

From Coq Require Import List Arith Bool.
Import ListNotations.

Definition inst := nat.
Definition tid := nat.

(** Program counter of a task. *)
Inductive pc : Type :=
| Lookup                (* not started; next: read-locked lookup *)
| AfterClock            (* lookup missed, [clock.get_time()] answered; next: spawn the actor *)
| Spawned (m : inst)    (* [spawn_keyspace] returned mailbox [m]; next: lock section A *)
| Inserted (m : inst)   (* [m] was put into the group map; next: lock section B *)
| Done (m : inst)       (* [get_or_create_keyspace] returned mailbox [m]; next: the mutation *)
| Acked (m : inst).     (* the mutation was applied by [m] and acknowledged *)

Record state : Type := mkState {
  pcs : list pc;              (* one per task *)
  kmap : option inst;         (* [group] entry of the name *)
  tsmap : option inst;        (* [keyspace_timestamps] entry: whose update counter it is *)
  fresh : nat;                (* number of actors spawned so far *)
  dropped : list inst;        (* spawned actors whose only mailbox was dropped *)
  log : list (inst * tid)     (* applied mutations, newest first: (instance, document id) *)
}.

Fixpoint upd {A : Type} (i : nat) (x : A) (l : list A) : list A :=
  match l, i with
  | [], _ => []
  | _ :: t, O => x :: t
  | h :: t, S j => h :: upd j x t
  end.

Definition step_gen (legacy : bool) (i : tid) (s : state) : state :=
  match nth_error (pcs s) i with
  | None => s
  | Some Lookup =>
    match kmap s with
    | Some m => mkState (upd i (Done m) (pcs s)) (kmap s) (tsmap s) (fresh s) (dropped s) (log s)
    | None => mkState (upd i AfterClock (pcs s)) (kmap s) (tsmap s) (fresh s) (dropped s) (log s)
    end
  | Some AfterClock =>
    mkState (upd i (Spawned (fresh s)) (pcs s)) (kmap s) (tsmap s) (S (fresh s)) (dropped s) (log s)
  | Some (Spawned m) =>
    match kmap s with
    | Some m' =>
      if legacy
      then mkState (upd i (Inserted m) (pcs s)) (Some m) (tsmap s) (fresh s) (dropped s) (log s)
      else mkState (upd i (Done m') (pcs s)) (kmap s) (tsmap s) (fresh s) (m :: dropped s) (log s)
    | None => mkState (upd i (Inserted m) (pcs s)) (Some m) (tsmap s) (fresh s) (dropped s) (log s)
    end
  | Some (Inserted m) =>
    mkState (upd i (Done m) (pcs s)) (kmap s) (Some m) (fresh s) (dropped s) (log s)
  | Some (Done m) =>
    mkState (upd i (Acked m) (pcs s)) (kmap s) (tsmap s) (fresh s) (dropped s) ((m, i) :: log s)
  | Some (Acked _) => s
  end.

Fixpoint run_gen (legacy : bool) (sched : list tid) (s : state) : state :=
  match sched with
  | [] => s
  | i :: rest => run_gen legacy rest (step_gen legacy i s)
  end.

Definition step := step_gen false.
Definition run := run_gen false.
Definition legacy_step := step_gen true.
Definition legacy_run := run_gen true.

Definition init (k : nat) : state := mkState (repeat Lookup k) None None 0 [] [].

(** ** Observables *)

(** Document ids held by instance [m] (newest first). *)
Definition set_of (s : state) (m : inst) : list tid :=
  map snd (filter (fun e => Nat.eqb (fst e) m) (log s)).

(** The mailbox task [i] got back from [get_or_create_keyspace], if it has returned. *)
Definition returned (s : state) (i : tid) : option inst :=
  match nth_error (pcs s) i with
  | Some (Done m) | Some (Acked m) => Some m
  | _ => None
  end.

Definition is_acked (s : state) (i : tid) : bool :=
  match nth_error (pcs s) i with
  | Some (Acked _) => true
  | _ => false
  end.

(** What a later lookup (a read-locked hit) returns, and the set behind it. *)
Definition later_lookup (s : state) : option inst := kmap s.
Definition later_set (s : state) : list tid :=
  match kmap s with
  | Some m => set_of s m
  | None => []
  end.

(** No task is between the two lock sections. *)
Definition no_inserted (s : state) : bool :=
  forallb (fun p => match p with Inserted _ => false | _ => true end) (pcs s).

(** The update counter published in [keyspace_timestamps] is the one of the instance in the map. *)
Definition ts_consistent (s : state) : bool :=
  match kmap s, tsmap s with
  | Some m, Some c => Nat.eqb m c
  | None, None => true
  | _, _ => false
  end.

(** ** Poll-level execution (what the executor [hx-keyspace] drives)

    On the runtime the harness uses, one poll of a task's future runs it up to the next await
    that really suspends.  [clock.get_time()] always suspends (the answer comes from the clock
    actor, another task); [spawn_keyspace(..).await] never does (puppet's
    [spawn_actor_with_name] contains no await).  A poll is therefore:
      - from [Lookup]: the lookup (and, on a miss, the request to the clock);
      - from [AfterClock]: spawn, lock section A, lock section B, return  (up to 3 transitions);
      - from [Done]: the executor sends the mutation and waits for the acknowledgement;
      - from [Acked]: nothing.
    [gp] counts, per task, the polls spent inside [get_or_create_keyspace]. *)

Fixpoint until_done (legacy : bool) (fuel : nat) (i : tid) (s : state) : state :=
  match fuel with
  | O => s
  | S f =>
    match nth_error (pcs s) i with
    | Some AfterClock | Some (Spawned _) | Some (Inserted _) =>
      until_done legacy f i (step_gen legacy i s)
    | _ => s
    end
  end.

Definition in_get (p : pc) : bool :=
  match p with
  | Done _ | Acked _ => false
  | _ => true
  end.

Definition poll_gen (legacy : bool) (i : tid) (s : state) : state :=
  match nth_error (pcs s) i with
  | Some Lookup | Some (Done _) => step_gen legacy i s
  | Some AfterClock | Some (Spawned _) | Some (Inserted _) => until_done legacy 3 i s
  | _ => s
  end.

Definition bump (i : tid) (gp : list nat) : list nat :=
  match nth_error gp i with
  | Some n => upd i (S n) gp
  | None => gp
  end.

Fixpoint run_polls_gen (legacy : bool) (ps : list tid) (s : state) (gp : list nat)
  : state * list nat :=
  match ps with
  | [] => (s, gp)
  | i :: rest =>
    let gp' := match nth_error (pcs s) i with
               | Some p => if in_get p then bump i gp else gp
               | None => gp
               end in
    run_polls_gen legacy rest (poll_gen legacy i s) gp'
  end.

(** After the scheduled polls every task is driven to completion in index order
    (three polls are enough: lookup, resume after the clock, mutation). *)
Definition finish_polls (k : nat) : list tid :=
  flat_map (fun i => [i; i; i]) (seq 0 k).

(** Insertion sort (canonical order of a reported id set). *)
Fixpoint insert_sorted (x : nat) (l : list nat) : list nat :=
  match l with
  | [] => [x]
  | y :: t => if Nat.leb x y then x :: l else y :: insert_sorted x t
  end.
Definition sort_ids (l : list nat) : list nat := fold_right insert_sorted [] l.

Record outcome : Type := mkOutcome {
  o_polls : list nat;            (* per task: polls spent in get_or_create_keyspace *)
  o_sets : list (list tid);      (* per task: sorted ids in the set behind its mailbox *)
  o_final : list tid;            (* sorted ids in the set behind a later lookup *)
  o_ts : bool                    (* timestamps entry belongs to the instance in the map *)
}.

Definition outcome_of_gen (legacy : bool) (k : nat) (ps : list tid) : outcome :=
  let '(s, gp) := run_polls_gen legacy (ps ++ finish_polls k) (init k) (repeat 0 k) in
  mkOutcome gp
    (map (fun i => match returned s i with
                   | Some m => sort_ids (set_of s m)
                   | None => []
                   end) (seq 0 k))
    (sort_ids (later_set s))
    (ts_consistent s).

Definition outcome_of := outcome_of_gen false.
Definition legacy_outcome_of := outcome_of_gen true.

(** Run every task to completion with the fine-grained transitions (five are enough). *)
Definition finish (k : nat) : list tid :=
  flat_map (fun i => [i; i; i; i; i]) (seq 0 k).
