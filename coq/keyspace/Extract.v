(** Extraction of the executable keyspace model to OCaml ([ExtrOcamlBasic] only). *)
From Coq Require Import ExtrOcamlBasic List Arith.
From DC Require Import Keyspace.
Extraction Language OCaml.
Extraction "model.ml"
  step legacy_step run legacy_run init set_of returned is_acked later_lookup later_set
  no_inserted ts_consistent run_polls_gen finish_polls finish
  outcome_of legacy_outcome_of o_polls o_sets o_final o_ts.
