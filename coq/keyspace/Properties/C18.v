(** * C18 — A keyspace has one state, even when first used by many tasks at once

    This file contains only the property theorems (each closed by [exact] of a lemma proved
    in [KeyspaceProofs.v]) and non-vacuity examples.

    Reading guide: [init k] is [k] tasks about to call [get_or_create_keyspace] on a fresh
    name; a schedule is any list of task indices, [run] performs one atomic transition of the
    named task per entry (read-locked lookup / spawn / write-locked insert-or-return /
    timestamps insert / the task's one mutation).  [k] and the schedule are universally
    quantified: the theorems hold for any number of tasks and every interleaving, including
    interleavings a multi-threaded runtime can produce between the two write-lock sections. *)

From Coq Require Import List Arith Bool.
From DC Require Import Keyspace KeyspaceProofs KeyspaceLife.
Import ListNotations.

(** Every task to which [get_or_create_keyspace] has returned holds the instance that is in
    the map (the one a later lookup returns). *)
Theorem C18_one_instance :
  forall k sched i m,
    returned (run sched (init k)) i = Some m ->
    later_lookup (run sched (init k)) = Some m.
Proof. exact one_instance. Qed.

(** Hence any two tasks hold the same instance: no second instance is ever handed out. *)
Theorem C18_all_tasks_same_instance :
  forall k sched i j m m',
    returned (run sched (init k)) i = Some m ->
    returned (run sched (init k)) j = Some m' ->
    m = m'.
Proof. exact same_instance. Qed.

(** The map entry never changes once set (for the life of the node: any continuation). *)
Theorem C18_map_never_changes :
  forall k sched more m,
    later_lookup (run sched (init k)) = Some m ->
    later_lookup (run (sched ++ more) (init k)) = Some m.
Proof. exact map_never_changes. Qed.

(** Every acknowledged mutation is in the set that a lookup at any later time returns. *)
Theorem C18_acked_mutation_in_later_lookup :
  forall k sched more i,
    is_acked (run sched (init k)) i = true ->
    exists m, later_lookup (run (sched ++ more) (init k)) = Some m /\
              In i (later_set (run (sched ++ more) (init k))).
Proof. exact acked_in_later_lookup. Qed.

(** The update counter published to peers ([keyspace_timestamps]) is the counter of the
    instance in the map, whenever no task is between the two write-lock sections. *)
Theorem C18_timestamps_follow_instance :
  forall k sched,
    no_inserted (run sched (init k)) = true ->
    ts_consistent (run sched (init k)) = true.
Proof. exact timestamps_follow_map. Qed.

(** The actor a losing task spawned before it found the entry taken is unreachable: it is not
    in the map, no task holds its mailbox, and it has applied no mutation. *)
Theorem C18_dropped_actor_unused :
  forall k sched d,
    In d (dropped (run sched (init k))) ->
    later_lookup (run sched (init k)) <> Some d /\
    (forall i, returned (run sched (init k)) i <> Some d) /\
    (forall i, ~ pc_at (run sched (init k)) i (Spawned d)) /\
    set_of (run sched (init k)) d = [].
Proof. exact dropped_unused. Qed.

(** After any schedule, once every task has run to completion: there is one instance, every
    task's mutation is acknowledged by it, the set a later lookup returns holds exactly the
    [k] mutations, and the published counter is that instance's. *)
Theorem C18_complete_run_all_present :
  forall k sched,
    1 <= k ->
    let s := run (sched ++ finish k) (init k) in
    exists m, later_lookup s = Some m /\
      (forall i, i < k -> pc_at s i (Acked m)) /\
      (forall i, In i (later_set s) <-> i < k) /\
      ts_consistent s = true.
Proof. exact complete_run_all_present. Qed.

(** The poll-level executions driven by the correspondence executor are executions of the
    transition system above (so the theorems speak about them). *)
Theorem C18_poll_runs_are_runs :
  forall k ps gp,
    exists sched, fst (run_polls_gen false ps (init k) gp) = run sched (init k).
Proof. exact poll_runs_are_runs. Qed.

(** The code before the repair (defect D12, overwriting insert) violates the property:
    two tasks, schedule L0 L1 C0 C1 A0 B0 M0 A1 — task 0's acknowledged mutation is missing
    from the set a later lookup returns, and task 0 holds a different instance. *)
Theorem C18_legacy_overwrite_refuted :
  exists sched i,
    let s := legacy_run sched (init 2) in
    is_acked s i = true /\
    exists m, later_lookup s = Some m /\ ~ In i (later_set s) /\ returned s i <> Some m.
Proof. exact legacy_overwrite_refuted. Qed.

(** "For the life of the node": the group's own background task (the periodic tombstone purge)
    ticking anywhere in the trace, whatever its outcome ([KeyspaceLife.v]: it clones the map under
    the read lock and only sends messages to the instances).  Every task that has a mailbox holds
    the instance in the map, the entry never changes, every acknowledged mutation is in the set a
    lookup at any later time returns. *)
Theorem C18_life_of_the_node :
  forall k es,
    (forall i m, returned (krun es (init k)) i = Some m -> later_lookup (krun es (init k)) = Some m) /\
    (forall more m, later_lookup (krun es (init k)) = Some m ->
                    later_lookup (krun (es ++ more) (init k)) = Some m) /\
    (forall more i, is_acked (krun es (init k)) i = true ->
       exists m, later_lookup (krun (es ++ more) (init k)) = Some m /\
                 In i (later_set (krun (es ++ more) (init k)))).
Proof.
  intros k es. split; [|split].
  - intros i m. exact (life_one_instance k es i m).
  - intros more m. exact (life_map_never_changes k es more m).
  - intros more i. exact (life_acked_in_later_lookup k es more i).
Qed.

(** A purge error path that loads the states from storage again (seeded change C18/F) violates
    the property: the mutation task 0 sends through the mailbox it obtained before the reload is
    acknowledged and missing from the registered set. *)
Theorem C18_reload_after_failed_purge_refuted :
  let s := step 0 (reload_step (run [0; 0; 0; 0] (init 1))) in
  is_acked s 0 = true /\
  exists m, later_lookup s = Some m /\ ~ In 0 (later_set s) /\ returned s 0 <> Some m.
Proof. exact reload_refuted. Qed.

(** Non-vacuity: three tasks, a schedule in which all three miss the lookup and spawn an actor;
    task 1 wins, tasks 0 and 2 drop theirs; all three mutations end in instance 1's set. *)
Example C18_nonvacuous :
  let sched := [0; 1; 2; 0; 1; 2; 1; 0; 1; 1; 2; 0; 2] in
  let s := run sched (init 3) in
  returned s 0 = Some 1 /\ returned s 1 = Some 1 /\ returned s 2 = Some 1 /\
  is_acked s 0 = true /\ is_acked s 1 = true /\ is_acked s 2 = true /\
  later_lookup s = Some 1 /\ later_set s = [2; 0; 1] /\
  dropped s = [2; 0] /\ fresh s = 3 /\ no_inserted s = true /\ ts_consistent s = true.
Proof. vm_compute. repeat split; reflexivity. Qed.

(** Non-vacuity with purge ticks in the trace: the same schedule with a tick after every step. *)
Example C18_nonvacuous_life :
  let es := flat_map (fun i => [KTask i; KPurge]) [0; 1; 2; 0; 1; 2; 1; 0; 1; 1; 2; 0; 2] in
  let s := krun es (init 3) in
  is_acked s 0 = true /\ is_acked s 1 = true /\ is_acked s 2 = true /\
  later_lookup s = Some 1 /\ later_set s = [2; 0; 1].
Proof. vm_compute. repeat split; reflexivity. Qed.

(** Non-vacuity of the poll-level model: the executor's D12 schedule (polls 0 1 0 0 1, i.e.
    both tasks miss, task 0 completes and mutates, then task 1 resumes) on the legacy and on
    the repaired code. *)
Example C18_poll_level_example :
  legacy_outcome_of 2 [0; 1; 0; 0; 1] = mkOutcome [2; 2] [[0]; [1]] [1] true /\
  outcome_of 2 [0; 1; 0; 0; 1] = mkOutcome [2; 2] [[0; 1]; [0; 1]] [0; 1] true.
Proof. vm_compute. split; reflexivity. Qed.
