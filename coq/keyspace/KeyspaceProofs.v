(** * KeyspaceProofs: invariant of the interleaving model of [Keyspace.v] and its consequences *)

From Coq Require Import List Arith Bool Lia.
From DC Require Import Keyspace.
Import ListNotations.

(** ** Lists *)

Lemma nth_upd_same {A} i (x p : A) l :
  nth_error l i = Some p -> nth_error (upd i x l) i = Some x.
Proof.
  revert i; induction l as [|h t IH]; intros [|i] H; cbn in *; try discriminate; auto.
Qed.

Lemma nth_upd_other {A} i j (x : A) l :
  i <> j -> nth_error (upd i x l) j = nth_error l j.
Proof.
  revert i j; induction l as [|h t IH]; intros [|i] [|j] H; cbn; auto; try congruence.
Qed.

Lemma length_upd {A} i (x : A) l : length (upd i x l) = length l.
Proof. revert i; induction l as [|h t IH]; intros [|i]; cbn; auto. Qed.

Lemma nth_repeat {A} (x : A) k i : i < k -> nth_error (repeat x k) i = Some x.
Proof.
  revert i; induction k as [|k IH]; intros i H; [lia|].
  destruct i; cbn; auto. apply IH; lia.
Qed.

Lemma nth_repeat_inv {A} (x y : A) k i : nth_error (repeat x k) i = Some y -> y = x /\ i < k.
Proof.
  revert i; induction k as [|k IH]; intros [|i] H; cbn in *; try discriminate.
  - inversion H; split; auto; lia.
  - apply IH in H. destruct H; split; auto; lia.
Qed.

Lemma nth_error_Some_lt {A} (l : list A) i x : nth_error l i = Some x -> i < length l.
Proof. intros H. apply nth_error_Some. congruence. Qed.

(** ** The transition system *)

Definition pc_at (s : state) (i : tid) (p : pc) : Prop := nth_error (pcs s) i = Some p.

Definition holder (p : pc) : option inst :=
  match p with
  | Inserted m | Done m | Acked m => Some m
  | _ => None
  end.

Lemma run_gen_app lg a b s : run_gen lg (a ++ b) s = run_gen lg b (run_gen lg a s).
Proof. revert s; induction a as [|i a IH]; intros s; cbn; auto. Qed.

Lemma run_app a b s : run (a ++ b) s = run b (run a s).
Proof. apply run_gen_app. Qed.

Lemma step_length lg i s : length (pcs (step_gen lg i s)) = length (pcs s).
Proof.
  unfold step_gen.
  destruct (nth_error (pcs s) i) as [[| |m|m|m|m]|]; auto;
    try (destruct (kmap s)); try (destruct lg); cbn; auto using length_upd.
Qed.

Lemma run_length lg sched s : length (pcs (run_gen lg sched s)) = length (pcs s).
Proof.
  revert s; induction sched as [|i r IH]; intros s; cbn; auto.
  rewrite IH. apply step_length.
Qed.

(** ** The invariant *)

Record Inv (s : state) : Prop := {
  inv_none :
    kmap s = None ->
    tsmap s = None /\ log s = [] /\ dropped s = [] /\
    (forall i p, pc_at s i p -> holder p = None);
  inv_some :
    forall m, kmap s = Some m ->
      m < fresh s /\
      (forall i p m', pc_at s i p -> holder p = Some m' -> m' = m) /\
      (tsmap s = Some m \/ (tsmap s = None /\ exists i, pc_at s i (Inserted m))) /\
      (forall m' j, In (m', j) (log s) -> m' = m /\ pc_at s j (Acked m)) /\
      (forall d, In d (dropped s) -> d <> m /\ d < fresh s);
  inv_acked : forall i m, pc_at s i (Acked m) -> In (m, i) (log s);
  inv_spawned :
    forall i m, pc_at s i (Spawned m) ->
      m < fresh s /\ kmap s <> Some m /\ ~ In m (dropped s);
  inv_unique : forall i j m, pc_at s i (Spawned m) -> pc_at s j (Spawned m) -> i = j
}.

Lemma inv_init k : Inv (init k).
Proof.
  constructor; cbn; unfold pc_at; cbn.
  - intros _. repeat split; auto. intros i p H. apply nth_repeat_inv in H as [-> _]. reflexivity.
  - intros m H; discriminate.
  - intros i m H. apply nth_repeat_inv in H as [H _]. discriminate.
  - intros i m H. apply nth_repeat_inv in H as [H _]. discriminate.
  - intros i j m H. apply nth_repeat_inv in H as [H _]. discriminate.
Qed.

(** Case analysis on where a task is after [upd]. *)
Ltac at_upd Hi H :=
  match type of H with
  | nth_error (upd ?i ?x ?l) ?j = Some ?p =>
    let Hne := fresh "Hne" in
    destruct (Nat.eq_dec i j) as [<-|Hne];
    [ rewrite (nth_upd_same _ _ _ _ Hi) in H; inversion H; subst; clear H
    | rewrite (nth_upd_other _ _ _ _ Hne) in H ]
  end.

Lemma inv_step i s : Inv s -> Inv (step i s).
Proof.
  intros [Hnone Hsome Hack Hsp Huq].
  unfold step, step_gen.
  destruct (nth_error (pcs s) i) as [p|] eqn:Hi; [|constructor; auto].
  destruct p as [| |m|m|m|m].
  - (* Lookup *)
    destruct (kmap s) as [m|] eqn:Hk.
    + destruct (Hsome m eq_refl) as (Hf & Hh & Hts & Hlog & Hdr).
      constructor; cbn; unfold pc_at; cbn.
      * discriminate.
      * intros m0 E; inversion E; subst m0. repeat split; auto.
        -- intros j p m' H Hp. at_upd Hi H; [cbn in Hp; congruence | eauto].
        -- destruct Hts as [Hts|[Hts [j Hj]]]; [left; auto|right; split; auto].
           exists j. destruct (Nat.eq_dec i j) as [<-|Hne]; [unfold pc_at in Hj; congruence|].
           rewrite nth_upd_other; auto.
        -- apply Hlog in H; tauto.
        -- apply Hlog in H. destruct H as [_ H].
           destruct (Nat.eq_dec i j) as [<-|Hne]; [unfold pc_at in H; congruence|].
           rewrite nth_upd_other; auto.
        -- apply Hdr in H; tauto.
        -- apply Hdr in H; tauto.
      * intros j m' H. at_upd Hi H. apply Hack; auto.
      * intros j m' H. at_upd Hi H. apply (Hsp j); auto.
      * intros j j' m' H H'. at_upd Hi H. at_upd Hi H'. eapply Huq; eauto.
    + destruct (Hnone eq_refl) as (Hts & Hlog & Hdr & Hh).
      constructor; cbn; unfold pc_at; cbn.
      * intros _. repeat split; auto.
        intros j p H. at_upd Hi H; [reflexivity | eauto].
      * discriminate.
      * intros j m' H. at_upd Hi H. apply Hack; auto.
      * intros j m' H. at_upd Hi H. apply (Hsp j); auto.
      * intros j j' m' H H'. at_upd Hi H. at_upd Hi H'. eapply Huq; eauto.
  - (* AfterClock: spawn *)
    constructor; cbn; unfold pc_at; cbn.
    + intros Hk. destruct (Hnone Hk) as (Hts & Hlog & Hdr & Hh). repeat split; auto.
      intros j p H. at_upd Hi H; [reflexivity | eauto].
    + intros m Hk. destruct (Hsome m Hk) as (Hf & Hh & Hts & Hlog & Hdr).
      repeat split; auto.
      * intros j p m' H Hp. at_upd Hi H; [discriminate | eauto].
      * destruct Hts as [Hts|[Hts [j Hj]]]; [left; auto|right; split; auto].
        exists j. destruct (Nat.eq_dec i j) as [<-|Hne]; [unfold pc_at in Hj; congruence|].
        rewrite nth_upd_other; auto.
      * apply Hlog in H; tauto.
      * apply Hlog in H. destruct H as [_ H].
        destruct (Nat.eq_dec i j) as [<-|Hne]; [unfold pc_at in H; congruence|].
        rewrite nth_upd_other; auto.
      * apply Hdr in H; tauto.
      * apply Hdr in H. lia.
    + intros j m' H. at_upd Hi H. apply Hack; auto.
    + intros j m' H. at_upd Hi H.
      * repeat split; [lia| |].
        -- intros Hk. apply Hsome in Hk. lia.
        -- intros Hd. destruct (kmap s) as [m|] eqn:Hk.
           ++ destruct (Hsome m eq_refl) as (_ & _ & _ & _ & Hdr). apply Hdr in Hd. lia.
           ++ destruct (Hnone eq_refl) as (_ & _ & Hdr & _). rewrite Hdr in Hd. destruct Hd.
      * destruct (Hsp j m' H) as (? & ? & ?). repeat split; auto.
    + intros j j' m' H H'. at_upd Hi H; at_upd Hi H'; auto.
      * apply Hsp in H'. lia.
      * apply Hsp in H. lia.
      * eapply Huq; eauto.
  - (* Spawned m: lock section A *)
    destruct (Hsp i m Hi) as (Hmf & Hmk & Hmd).
    destruct (kmap s) as [m0|] eqn:Hk.
    + (* somebody else won: return the existing mailbox, drop ours *)
      destruct (Hsome m0 eq_refl) as (Hf & Hh & Hts & Hlog & Hdr).
      constructor; cbn; unfold pc_at; cbn.
      * discriminate.
      * intros m1 E; inversion E; subst m1. repeat split; auto.
        -- intros j p m' H Hp. at_upd Hi H; [cbn in Hp; congruence | eauto].
        -- destruct Hts as [Hts|[Hts [j Hj]]]; [left; auto|right; split; auto].
           exists j. destruct (Nat.eq_dec i j) as [<-|Hne]; [unfold pc_at in Hj; congruence|].
           rewrite nth_upd_other; auto.
        -- apply Hlog in H; tauto.
        -- apply Hlog in H. destruct H as [_ H].
           destruct (Nat.eq_dec i j) as [<-|Hne]; [unfold pc_at in H; congruence|].
           rewrite nth_upd_other; auto.
        -- destruct H as [<-|H]; [congruence | apply Hdr in H; tauto].
        -- destruct H as [<-|H]; [auto | apply Hdr in H; tauto].
      * intros j m' H. at_upd Hi H. apply Hack; auto.
      * intros j m' H. at_upd Hi H. destruct (Hsp j m' H) as (? & ? & ?).
        repeat split; auto. intros [E|Hd]; [|tauto].
        subst m'. apply Hne. eapply Huq; eauto.
      * intros j j' m' H H'. at_upd Hi H. at_upd Hi H'. eapply Huq; eauto.
    + (* we won: insert *)
      destruct (Hnone eq_refl) as (Hts & Hlog & Hdr & Hh).
      constructor; cbn; unfold pc_at; cbn.
      * discriminate.
      * intros m1 E; inversion E; subst m1. repeat split; auto.
        -- intros j p m' H Hp. at_upd Hi H; [cbn in Hp; congruence|].
           apply Hh in H. congruence.
        -- right. split; auto. exists i. apply (nth_upd_same _ _ _ _ Hi).
        -- rewrite Hlog in H. destruct H.
        -- rewrite Hlog in H. destruct H.
        -- rewrite Hdr in H. destruct H.
        -- rewrite Hdr in H. destruct H.
      * intros j m' H. at_upd Hi H. apply Hack; auto.
      * intros j m' H. at_upd Hi H. destruct (Hsp j m' H) as (? & ? & ?).
        repeat split; auto. intros E; inversion E; subst m'.
        apply Hne. eapply Huq; eauto.
      * intros j j' m' H H'. at_upd Hi H. at_upd Hi H'. eapply Huq; eauto.
  - (* Inserted m: lock section B *)
    destruct (kmap s) as [m0|] eqn:Hk.
    2:{ destruct (Hnone eq_refl) as (_ & _ & _ & Hh). apply Hh in Hi. discriminate. }
    destruct (Hsome m0 eq_refl) as (Hf & Hh & Hts & Hlog & Hdr).
    assert (m = m0) by (eapply Hh; [exact Hi | reflexivity]). subst m0.
    constructor; cbn; unfold pc_at; cbn.
    + discriminate.
    + intros m1 E; inversion E; subst m1. repeat split; auto.
      * intros j p m' H Hp. at_upd Hi H; [cbn in Hp; congruence | eauto].
      * apply Hlog in H; tauto.
      * apply Hlog in H. destruct H as [_ H].
        destruct (Nat.eq_dec i j) as [<-|Hne]; [unfold pc_at in H; congruence|].
        rewrite nth_upd_other; auto.
      * apply Hdr in H; tauto.
      * apply Hdr in H; tauto.
    + intros j m' H. at_upd Hi H. apply Hack; auto.
    + intros j m' H. at_upd Hi H. apply (Hsp j); auto.
    + intros j j' m' H H'. at_upd Hi H. at_upd Hi H'. eapply Huq; eauto.
  - (* Done m: the mutation *)
    destruct (kmap s) as [m0|] eqn:Hk.
    2:{ destruct (Hnone eq_refl) as (_ & _ & _ & Hh). apply Hh in Hi. discriminate. }
    destruct (Hsome m0 eq_refl) as (Hf & Hh & Hts & Hlog & Hdr).
    assert (m = m0) by (eapply Hh; [exact Hi | reflexivity]). subst m0.
    constructor; cbn; unfold pc_at; cbn.
    + discriminate.
    + intros m1 E; inversion E; subst m1. repeat split; auto.
      * intros j p m' H Hp. at_upd Hi H; [cbn in Hp; congruence | eauto].
      * destruct Hts as [Hts|[Hts [j Hj]]]; [left; auto|right; split; auto].
        exists j. destruct (Nat.eq_dec i j) as [<-|Hne]; [unfold pc_at in Hj; congruence|].
        rewrite nth_upd_other; auto.
      * destruct H as [E'|H]; [inversion E'; auto | apply Hlog in H; tauto].
      * destruct H as [E'|H].
        -- inversion E'; subst. apply (nth_upd_same _ _ _ _ Hi).
        -- apply Hlog in H. destruct H as [_ H].
           destruct (Nat.eq_dec i j) as [<-|Hne]; [unfold pc_at in H; congruence|].
           rewrite nth_upd_other; auto.
      * apply Hdr in H; tauto.
      * apply Hdr in H; tauto.
    + intros j m' H. at_upd Hi H; [left; reflexivity | right; apply Hack; auto].
    + intros j m' H. at_upd Hi H. apply (Hsp j); auto.
    + intros j j' m' H H'. at_upd Hi H. at_upd Hi H'. eapply Huq; eauto.
  - (* Acked *)
    constructor; auto.
Qed.

Lemma inv_run sched s : Inv s -> Inv (run sched s).
Proof.
  revert s; induction sched as [|i r IH]; intros s H; cbn; auto.
  apply IH. apply inv_step; auto.
Qed.

Lemma inv_reachable k sched : Inv (run sched (init k)).
Proof. apply inv_run, inv_init. Qed.

(** ** The map never changes once set *)

Lemma step_map_stable i s m : kmap s = Some m -> kmap (step i s) = Some m.
Proof.
  intros Hk. unfold step, step_gen.
  destruct (nth_error (pcs s) i) as [[| |x|x|x|x]|]; auto; rewrite ?Hk; cbn; auto.
Qed.

Lemma run_map_stable sched s m : kmap s = Some m -> kmap (run sched s) = Some m.
Proof.
  revert s; induction sched as [|i r IH]; intros s H; cbn; auto.
  apply IH. apply step_map_stable; auto.
Qed.

(** ** Mutations are never lost from an instance *)

Lemma step_log_mono i s e : In e (log s) -> In e (log (step i s)).
Proof.
  intros H. unfold step, step_gen.
  destruct (nth_error (pcs s) i) as [[| |x|x|x|x]|]; auto;
    try (destruct (kmap s)); cbn; auto.
Qed.

Lemma run_log_mono sched s e : In e (log s) -> In e (log (run sched s)).
Proof.
  revert s; induction sched as [|i r IH]; intros s H; cbn; auto.
  apply IH, step_log_mono; auto.
Qed.

Lemma in_set_of s m j : In j (set_of s m) <-> In (m, j) (log s).
Proof.
  unfold set_of. rewrite in_map_iff. split.
  - intros [[m' j'] [E H]]. cbn in E; subst j'.
    apply filter_In in H as [H E]. cbn in E. apply Nat.eqb_eq in E. subst; auto.
  - intros H. exists (m, j). split; auto. apply filter_In. split; auto.
    cbn. apply Nat.eqb_refl.
Qed.

(** ** Property-level lemmas *)

Lemma returned_holder s i m :
  returned s i = Some m ->
  exists p, pc_at s i p /\ holder p = Some m /\ (p = Done m \/ p = Acked m).
Proof.
  unfold returned, pc_at. destruct (nth_error (pcs s) i) as [[| |x|x|x|x]|]; try discriminate;
    intros E; inversion E; subst; eexists; repeat split; eauto.
Qed.

(** Every task that has got a mailbox back holds the instance that is in the map. *)
Lemma one_instance k sched i m :
  returned (run sched (init k)) i = Some m -> later_lookup (run sched (init k)) = Some m.
Proof.
  intros H. pose proof (inv_reachable k sched) as I.
  apply returned_holder in H as (p & Hp & Hh & _).
  unfold later_lookup. destruct (kmap (run sched (init k))) as [m0|] eqn:Hk.
  - destruct (inv_some _ I m0 Hk) as (_ & Hall & _). f_equal. symmetry. eapply Hall; eauto.
  - destruct (inv_none _ I Hk) as (_ & _ & _ & Hh'). apply Hh' in Hp. congruence.
Qed.

Lemma same_instance k sched i j m m' :
  returned (run sched (init k)) i = Some m ->
  returned (run sched (init k)) j = Some m' -> m = m'.
Proof.
  intros H H'. apply one_instance in H, H'. congruence.
Qed.

Lemma map_never_changes k sched more m :
  later_lookup (run sched (init k)) = Some m ->
  later_lookup (run (sched ++ more) (init k)) = Some m.
Proof.
  unfold later_lookup. intros H. rewrite run_app. apply run_map_stable; auto.
Qed.

Lemma is_acked_at s i : is_acked s i = true -> exists m, pc_at s i (Acked m).
Proof.
  unfold is_acked, pc_at. destruct (nth_error (pcs s) i) as [[| |x|x|x|x]|]; try discriminate.
  eauto.
Qed.

(** Every acknowledged mutation is in the set a lookup returns at any later time. *)
Lemma acked_in_later_lookup k sched more i :
  is_acked (run sched (init k)) i = true ->
  exists m, later_lookup (run (sched ++ more) (init k)) = Some m /\
            In i (later_set (run (sched ++ more) (init k))).
Proof.
  intros H. apply is_acked_at in H as [m Hm].
  pose proof (inv_reachable k sched) as I.
  pose proof (inv_acked _ I i m Hm) as Hlog.
  assert (Hk : kmap (run sched (init k)) = Some m).
  { apply (one_instance k sched i). unfold returned. unfold pc_at in Hm. rewrite Hm. reflexivity. }
  exists m. split; [apply map_never_changes; exact Hk|].
  unfold later_set. rewrite run_app.
  rewrite (run_map_stable more _ m Hk). apply in_set_of. apply run_log_mono; auto.
Qed.

(** The published update counter belongs to the instance in the map whenever no task is
    between the two lock sections. *)
Lemma no_inserted_spec s : no_inserted s = true -> forall i m, ~ pc_at s i (Inserted m).
Proof.
  unfold no_inserted, pc_at. intros H i m Hi. rewrite forallb_forall in H.
  apply nth_error_In in Hi. apply H in Hi. discriminate.
Qed.

Lemma timestamps_follow_map k sched :
  no_inserted (run sched (init k)) = true -> ts_consistent (run sched (init k)) = true.
Proof.
  intros H. pose proof (inv_reachable k sched) as I. set (s := run sched (init k)) in *.
  unfold ts_consistent. destruct (kmap s) as [m|] eqn:Hk.
  - destruct (inv_some _ I m Hk) as (_ & _ & [Hts|[_ [j Hj]]] & _).
    + rewrite Hts. apply Nat.eqb_refl.
    + exfalso. eapply no_inserted_spec; eauto.
  - destruct (inv_none _ I Hk) as (Hts & _). rewrite Hts. reflexivity.
Qed.

(** The actor a losing task had already spawned is unreachable: it is not the one in the map,
    nobody holds its mailbox, and it never applied a mutation. *)
Lemma dropped_unused k sched d :
  In d (dropped (run sched (init k))) ->
  later_lookup (run sched (init k)) <> Some d /\
  (forall i, returned (run sched (init k)) i <> Some d) /\
  (forall i, ~ pc_at (run sched (init k)) i (Spawned d)) /\
  set_of (run sched (init k)) d = [].
Proof.
  intros Hd. pose proof (inv_reachable k sched) as I. set (s := run sched (init k)) in *.
  unfold later_lookup. destruct (kmap s) as [m|] eqn:Hk.
  2:{ destruct (inv_none _ I Hk) as (_ & _ & Hdr & _). rewrite Hdr in Hd. destruct Hd. }
  destruct (inv_some _ I m Hk) as (_ & Hall & _ & Hlog & Hdr).
  destruct (Hdr d Hd) as [Hne _]. repeat split.
  - congruence.
  - intros i Hr. apply returned_holder in Hr as (p & Hp & Hh & _).
    apply Hne. eapply Hall; eauto.
  - intros i Hi. apply (inv_spawned _ I) in Hi. tauto.
  - destruct (set_of s d) as [|j l] eqn:E; auto.
    assert (Hj : In j (set_of s d)) by (rewrite E; left; auto).
    apply in_set_of in Hj. apply Hlog in Hj. tauto.
Qed.

(** ** Complete runs: every task finishes and every mutation is in the one set *)

Definition step5 (i : tid) (s : state) : state := run [i; i; i; i; i] s.

Lemma step_other_pc i j s : i <> j -> nth_error (pcs (step i s)) j = nth_error (pcs s) j.
Proof.
  intros Hne. unfold step, step_gen.
  destruct (nth_error (pcs s) i) as [[| |x|x|x|x]|]; auto;
    try (destruct (kmap s)); cbn; auto using nth_upd_other.
Qed.

Lemma run_same_other_pc i j n s :
  i <> j -> nth_error (pcs (run (repeat i n) s)) j = nth_error (pcs s) j.
Proof.
  intros Hne. revert s; induction n as [|n IH]; intros s; cbn; auto.
  rewrite IH. apply step_other_pc; auto.
Qed.

Lemma step_acked_stays i j s m : pc_at s j (Acked m) -> pc_at (step i s) j (Acked m).
Proof.
  unfold pc_at. intros H. destruct (Nat.eq_dec i j) as [<-|Hne].
  - unfold step, step_gen. rewrite H. auto.
  - rewrite step_other_pc; auto.
Qed.

Lemma run_acked_stays sched j s m : pc_at s j (Acked m) -> pc_at (run sched s) j (Acked m).
Proof.
  revert s; induction sched as [|i r IH]; intros s H; cbn; auto.
  apply IH, step_acked_stays; auto.
Qed.

Definition dist (p : pc) : nat :=
  match p with
  | Lookup => 5 | AfterClock => 4 | Spawned _ => 3
  | Inserted _ => 2 | Done _ => 1 | Acked _ => 0
  end.

(** Five transitions of one task bring it to [Acked]. *)
Lemma five_steps_ack i s :
  Inv s -> i < length (pcs s) -> exists m, pc_at (step5 i s) i (Acked m).
Proof.
  intros I Hlt. unfold step5.
  assert (Hex : exists p, nth_error (pcs s) i = Some p).
  { destruct (nth_error (pcs s) i) eqn:E; eauto. apply nth_error_None in E. lia. }
  assert (Hstep : forall s0, Inv s0 -> forall p, nth_error (pcs s0) i = Some p ->
            exists p', nth_error (pcs (step i s0)) i = Some p' /\ dist p' <= pred (dist p)).
  { intros s0 I0 p Hp. unfold step, step_gen. rewrite Hp.
    destruct p as [| |x|x|x|x]; try (destruct (kmap s0)); cbn;
      try (eexists; split; [eapply nth_upd_same; eauto | cbn; lia]).
    all: exists (Acked x); split; [auto | cbn; lia]. }
  destruct Hex as [p0 Hp0].
  assert (Hn : forall n s0 p, Inv s0 -> nth_error (pcs s0) i = Some p -> dist p <= n ->
             exists p', nth_error (pcs (run (repeat i n) s0)) i = Some p' /\ dist p' = 0).
  { induction n as [|n IH]; intros s0 p I0 Hp Hd; cbn.
    - exists p; split; auto; lia.
    - destruct (Hstep s0 I0 p Hp) as (p' & Hp' & Hd').
      eapply IH; [apply inv_step; auto | exact Hp' | lia]. }
  assert (Hd0 : dist p0 <= 5) by (destruct p0; cbn; lia).
  destruct (Hn 5 s p0 I Hp0 Hd0) as (p' & Hp' & Hd').
  destruct p' as [| |x|x|x|x]; cbn in Hd'; try discriminate.
  exists x. exact Hp'.
Qed.

Lemma finish_all_acked_aux n a s :
  Inv s -> a + n = length (pcs s) ->
  (forall j, j < a -> exists m, pc_at s j (Acked m)) ->
  forall j, j < a + n ->
    exists m, pc_at (run (flat_map (fun i => [i; i; i; i; i]) (seq a n)) s) j (Acked m).
Proof.
  revert a s; induction n as [|n IH]; intros a s I Hlen Hdone j Hj.
  - cbn. apply Hdone. lia.
  - cbn [seq flat_map]. rewrite run_app.
    replace (a + S n) with (S a + n) in * by lia.
    apply IH; auto.
    + apply inv_run; auto.
    + unfold run. rewrite run_length. lia.
    + intros j' Hj'. destruct (Nat.eq_dec j' a) as [->|Hne].
      * apply (five_steps_ack a s I). lia.
      * destruct (Hdone j') as [m Hm]; [lia|]. exists m. apply run_acked_stays; auto.
Qed.

Lemma complete_run_all_present k sched :
  1 <= k ->
  let s := run (sched ++ finish k) (init k) in
  exists m, later_lookup s = Some m /\
    (forall i, i < k -> pc_at s i (Acked m)) /\
    (forall i, In i (later_set s) <-> i < k) /\
    ts_consistent s = true.
Proof.
  intros Hk s.
  pose proof (inv_reachable k (sched ++ finish k)) as I. fold s in I.
  assert (Hlen : length (pcs (run sched (init k))) = k).
  { unfold run. rewrite run_length. cbn. apply repeat_length. }
  assert (Hall : forall j, j < k -> exists m, pc_at s j (Acked m)).
  { intros j Hj. unfold s. rewrite run_app. unfold finish.
    apply (finish_all_acked_aux k 0 (run sched (init k))); auto.
    - apply inv_reachable.
    - intros j' Hj'. lia. }
  destruct (Hall 0) as [m Hm0]; [lia|].
  assert (Hmap : kmap s = Some m).
  { apply (one_instance k (sched ++ finish k) 0). fold s. unfold returned.
    unfold pc_at in Hm0. rewrite Hm0. reflexivity. }
  assert (Hsame : forall i, i < k -> pc_at s i (Acked m)).
  { intros i Hi. destruct (Hall i Hi) as [m' Hm'].
    destruct (inv_some _ I m Hmap) as (_ & Hh & _).
    assert (m' = m) by (eapply Hh; [exact Hm' | reflexivity]). subst; auto. }
  exists m. repeat split; auto.
  - unfold later_set. rewrite Hmap. intros Hin. apply in_set_of in Hin.
    destruct (inv_some _ I m Hmap) as (_ & _ & _ & Hlog & _).
    apply Hlog in Hin as [_ Hin]. unfold pc_at in Hin.
    assert (length (pcs s) = k).
    { unfold s, run. rewrite run_length. cbn. apply repeat_length. }
    apply nth_error_Some_lt in Hin. lia.
  - intros Hi. unfold later_set. rewrite Hmap. apply in_set_of.
    apply (inv_acked _ I). auto.
  - apply timestamps_follow_map. fold s.
    unfold no_inserted. apply forallb_forall. intros p Hp.
    apply In_nth_error in Hp as [j Hj].
    assert (j < k).
    { assert (length (pcs s) = k) by (unfold s, run; rewrite run_length; cbn; apply repeat_length).
      apply nth_error_Some_lt in Hj. lia. }
    specialize (Hsame j H). unfold pc_at in Hsame. rewrite Hj in Hsame.
    inversion Hsame; auto.
Qed.

(** ** Poll-level executions are executions of the transition system *)

Lemma until_done_is_run lg fuel i s :
  exists n, until_done lg fuel i s = run_gen lg (repeat i n) s.
Proof.
  revert s; induction fuel as [|f IH]; intros s; cbn.
  - exists 0; auto.
  - destruct (nth_error (pcs s) i) as [[| |x|x|x|x]|];
      try (exists 0; reflexivity);
      destruct (IH (step_gen lg i s)) as [n Hn]; exists (S n); cbn; auto.
Qed.

Lemma poll_is_run lg i s : exists n, poll_gen lg i s = run_gen lg (repeat i n) s.
Proof.
  unfold poll_gen.
  destruct (nth_error (pcs s) i) as [[| |x|x|x|x]|];
    try (exists 0; reflexivity); try (exists 1; reflexivity);
    apply until_done_is_run.
Qed.

Lemma run_polls_is_run lg ps s gp :
  exists sched, fst (run_polls_gen lg ps s gp) = run_gen lg sched s.
Proof.
  revert s gp; induction ps as [|i r IH]; intros s gp; cbn.
  - exists []; auto.
  - destruct (poll_is_run lg i s) as [n Hn].
    match goal with |- context [run_polls_gen lg r _ ?g] => destruct (IH (poll_gen lg i s) g) as [sc Hsc] end.
    exists (repeat i n ++ sc). rewrite run_gen_app, <- Hn. exact Hsc.
Qed.

Lemma poll_runs_are_runs k ps gp :
  exists sched, fst (run_polls_gen false ps (init k) gp) = run sched (init k).
Proof. apply run_polls_is_run. Qed.

(** ** The code before the repair (D12): overwriting insert *)

(** Two tasks; both miss, both spawn; task 0 inserts, returns and has its mutation
    acknowledged; task 1 then overwrites the entry.  L0 L1 C0 C1 A0 B0 M0 A1. *)
Definition legacy_witness : list tid := [0; 1; 0; 1; 0; 0; 0; 1].

Lemma legacy_overwrite_refuted :
  exists sched i,
    let s := legacy_run sched (init 2) in
    is_acked s i = true /\
    exists m, later_lookup s = Some m /\ ~ In i (later_set s) /\ returned s i <> Some m.
Proof.
  exists legacy_witness, 0. vm_compute. split; [reflexivity|].
  exists 1. repeat split; auto. discriminate.
Qed.

(** The same schedule on the repaired code keeps the first instance. *)
Lemma fixed_on_legacy_witness :
  let s := run (legacy_witness ++ finish 2) (init 2) in
  later_lookup s = Some 0 /\ later_set s = [1; 0] /\ dropped s = [1] /\ fresh s = 2.
Proof. vm_compute. repeat split; reflexivity. Qed.
