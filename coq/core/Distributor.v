(** * Distributor: the task distributor's loop (replication/distributor.rs)

    [task_distributor_service]: an unbounded channel of operations - membership changes handed
    over by the store's membership glue, mutations registered by every client call - is drained
    once per batching interval.  The drain applies the membership changes in order to the map of
    live members (the nodes that left first, then the nodes that joined: an address change carries
    one id in both lists), collects the mutations in order, and, if there is any mutation, sends
    ONE batch with all of them to EVERY member the map then holds.  A failed send is only logged:
    it changes neither the map nor what the next batch carries.

    The model is executable; the cluster driver of the correspondence check runs the extracted
    [d_register]/[d_tick]/[tick_events] for the executor's `I`, `G`, `R` and `T` events. *)

From stdpp Require Import gmap list.
From Coq Require Import NArith.
From DC Require Import Ts Orswot Actor Cluster.

(** An operation in the distributor's channel.  A member is [(node id, address)]. *)
Inductive dop :=
| DMember (joined left : list (nat * N))
| DMutation (m : mutation).

(** [Op::MembershipChange]: remove the nodes that left, then insert the nodes that joined. *)
Definition member_apply (live : gmap nat N) (joined left : list (nat * N)) : gmap nat N :=
  foldl (fun l m => <[m.1 := m.2]> l) (foldl (fun l m => delete m.1 l) live left) joined.

Definition drain_op (acc : gmap nat N * list mutation) (op : dop) : gmap nat N * list mutation :=
  match op with
  | DMember j l => (member_apply acc.1 j l, acc.2)
  | DMutation m => (acc.1, acc.2 ++ [m])
  end.

(** The [while let Ok(task) = rx.try_recv()] loop of one interval. *)
Definition drain (live : gmap nat N) (q : list dop) : gmap nat N * list mutation :=
  foldl drain_op (live, []) q.

Record dstate := mkD { d_live : gmap nat N; d_queue : list dop }.

(** One batch: the members it is addressed to and the mutations it carries. *)
Record dsend := mkSend { s_to : list (nat * N); s_batch : list mutation }.

Definition d_init : dstate := mkD ∅ [].

(** [TaskDistributor::membership_change] / [TaskDistributor::mutation]: enqueue. *)
Definition d_register (s : dstate) (op : dop) : dstate := mkD (d_live s) (d_queue s ++ [op]).

(** One tick of the interval. *)
Definition d_tick (s : dstate) : dstate * option dsend :=
  let lm := drain (d_live s) (d_queue s) in
  (mkD lm.1 [],
   match lm.2 with
   | [] => None
   | _ => Some (mkSend (map_to_list lm.1) lm.2)
   end).

(** A history of the distributor: operations arriving, ticks. *)
Inductive devent :=
| EOp (op : dop)
| ETick.

Definition d_step (acc : dstate * list dsend) (e : devent) : dstate * list dsend :=
  match e with
  | EOp op => (d_register acc.1 op, acc.2)
  | ETick =>
      let so := d_tick acc.1 in
      (so.1, match so.2 with Some x => acc.2 ++ [x] | None => acc.2 end)
  end.

Definition d_run (s : dstate) (es : list devent) : dstate * list dsend := foldl d_step (s, []) es.

(** ** What the batch does to the cluster: one [CBatch] per member whose link is up (the
       others' sends fail and are dropped; C01's repair is what brings them up to date). *)
Definition tick_events (up : nat -> bool) (x : dsend) : list cevent :=
  map (fun m => CBatch m.1 (s_batch x)) (filter (fun m => up m.1 = true) (s_to x)).

(** ** Specification vocabulary *)

Definition mutations_of (q : list dop) : list mutation :=
  omap (fun op => match op with DMutation m => Some m | DMember _ _ => None end) q.

Definition live_of (live : gmap nat N) (q : list dop) : gmap nat N :=
  foldl (fun l op => match op with DMember j lf => member_apply l j lf | DMutation _ => l end) live q.

Definition ops_of (es : list devent) : list dop :=
  omap (fun e => match e with EOp op => Some op | ETick => None end) es.

(** The seeded variant C16/F, kept for its refutation: a member whose batch failed is dropped
    from the live map ("membership will announce it again"). *)
Definition d_tick_dropping (up : nat -> bool) (s : dstate) : dstate * option dsend :=
  let so := d_tick s in
  match so.2 with
  | Some _ => (mkD (filter (fun kv : nat * N => up kv.1 = true) (d_live so.1)) [], so.2)
  | None => so
  end.
