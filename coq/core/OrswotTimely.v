(** * OrswotTimely: operations that arrive within the forgiveness period are accepted

    The cut-off of an origin is always the shifted stamp of an operation already seen
    from that origin (or of the zero stamp).  Hence an operation whose time is less
    than one forgiveness period behind everything seen so far — and at least one tick
    after the datacake epoch, see K1 in DESIGN.md — is never refused. *)

From stdpp Require Import gmap list.
From Coq Require Import NArith Lia ZArith.
From Coq Require Import ZifyBool ZifyN ZifyNat.
From DC Require Import Ts TsProofs Hlc HlcProofs Orswot OrswotInv OrswotLww.
Open Scope N_scope.

(** Every recorded per-source maximum is one of the stamps in [S]. *)
Definition MaxsFrom (v : vers) (S : list N) : Prop :=
  forall src m n e, maxs v !! src = Some m -> m !! n = Some e -> e ∈ S.

Lemma MaxsFrom_empty nsrc S : MaxsFrom (empty_vers nsrc) S.
Proof.
  intros src m n e Hl He. cbn in Hl. apply lookup_replicate in Hl as [-> _].
  rewrite lookup_empty in He. discriminate.
Qed.

Lemma MaxsFrom_mono v S S' : MaxsFrom v S -> S ⊆ S' -> MaxsFrom v S'.
Proof. intros H Hs src m n e Hl He. apply Hs. eapply H; eassumption. Qed.

Lemma try_update_MaxsFrom legacy v src t S :
  MaxsFrom v S -> MaxsFrom (try_update legacy v src t).1 (t :: S).
Proof.
  intros H. unfold try_update.
  assert (Hset : MaxsFrom (compute_safe (set_max v src t) (ts_node t)) (t :: S)).
  { intros s0 m0 n0 e0. rewrite compute_safe_maxs. intros Hl He.
    destruct (set_max_lookup _ _ _ _ _ Hl) as (m & Hlm & ->).
    destruct (decide (s0 = src)) as [->|_]; [|right; eapply H; eassumption].
    destruct (decide (n0 = ts_node t)) as [->|Hn].
    - rewrite lookup_insert in He. injection He as <-. left.
    - rewrite lookup_insert_ne in He by congruence. right. eapply H; eassumption. }
  destruct (maxs v !! src ≫= _) as [e|]; [destruct (t <? e)|]; cbn [fst]; try exact Hset.
  intros s0 m0 n0 e0. rewrite compute_safe_maxs. intros Hl He. right. eapply H; eassumption.
Qed.

Lemma apply_op_MaxsFrom legacy s o S :
  MaxsFrom (versions s) S -> MaxsFrom (versions (apply_op legacy s o).1) (op_ts o :: S).
Proof.
  intros H. pose proof (try_update_MaxsFrom legacy (versions s) (op_src o) (op_ts o) S H) as H'.
  destruct o as [src k t|src k t]; cbn [apply_op op_src op_ts] in *.
  - unfold insert_ws. destruct (try_update legacy (versions s) src t) as [v' ok]. cbn [fst] in H'.
    destruct ok; cbn [negb]; [|exact H'].
    destruct (dead s !! k) as [d|]; [destruct (t <? d); [exact H'|]|];
      (destruct (entries s !! k) as [e|]; [destruct (e <? t)|]); exact H'.
  - unfold delete_ws. destruct (try_update legacy (versions s) src t) as [v' ok]. cbn [fst] in H'.
    destruct ok; cbn [negb]; [|exact H'].
    destruct (entries s !! k) as [e|]; [destruct (t <=? e); [exact H'|]|];
      (destruct (dead s !! k) as [d|]; [destruct (d <? t)|]); exact H'.
Qed.

(** If [t] is before the cut-off, the cut-off is the shifted stamp of something seen. *)
Lemma before_witness v S t :
  VInv v -> MaxsFrom v S -> valid_ts t = true -> before v t = true ->
  exists x, x ∈ S /\ valid_ts x = true /\ ts_node x = ts_node t /\ (t <? shiftW x) = true.
Proof.
  intros HV HS Hvt Hb. pose proof HV as (Hne & Hok & Hsync).
  destruct (valid_bounds t Hvt) as (_ & _ & _ & Hnt & _).
  unfold before in Hb. destruct (safe v !! ts_node t) as [c|] eqn:Hs; [|discriminate].
  destruct (Hsync (ts_node t)) as [[_ Hnone]|(x & Hmin & Hsafe)]; [congruence|].
  rewrite Hs in Hsafe. injection Hsafe as ->.
  destruct (min_stamp_in _ _ _ Hmin) as (src & m & Hl & ->).
  unfold src_stamp in *. destruct (m !! ts_node t) as [e|] eqn:He; cbn [from_option id] in *.
  - exists e. destruct (Hok src m _ e Hl He) as [Hve Hne']. repeat split; try assumption.
    eapply HS; eassumption.
  - (* the zero stamp: nothing is before its shift *)
    exfalso. pose proof (valid_zero_ts _ Hnt) as Hvz.
    destruct (shiftW_fields _ Hvz) as (A & B & C & D).
    destruct (zero_ts_fields _ Hnt) as (A0 & B0 & C0).
    apply ts_lt_lex in Hb; try assumption. rewrite A, B, C, A0, B0, C0 in Hb. lia.
Qed.

(** The arithmetic of the forgiveness window. *)
Lemma not_before_within t x :
  valid_ts t = true -> valid_ts x = true ->
  1 <= ts_tick t -> ts_tick x < ts_tick t + W ->
  (t <? shiftW x) = false.
Proof.
  intros Hvt Hvx H1 Hw. destruct (shiftW_fields x Hvx) as (A & B & C & D).
  destruct (t <? shiftW x) eqn:E; [|reflexivity].
  apply ts_lt_lex in E; try assumption. rewrite A, B, C in E. lia.
Qed.

(** An arrival sequence is timely w.r.t. the stamps seen so far when each operation is
    less than one forgiveness period behind everything that arrived before it. *)
Fixpoint timely (seen : list N) (arr : list op) : Prop :=
  match arr with
  | [] => True
  | o :: arr' =>
      1 <= ts_tick (op_ts o) /\
      (forall x, x ∈ seen -> ts_tick x < ts_tick (op_ts o) + W) /\
      timely (op_ts o :: seen) arr'
  end.

Lemma timely_accepted arr : forall s S,
  Inv s -> MaxsFrom (versions s) S ->
  (forall o, o ∈ arr -> (op_src o < length (maxs (versions s)))%nat) ->
  Forall (fun o => valid_ts (op_ts o) = true) arr ->
  timely S arr ->
  all_accepted false s arr = true.
Proof.
  induction arr as [|o arr IH]; intros s S Hi HS Hsrc Hv Ht; [reflexivity|].
  inversion Hv as [|? ? Hvo Hv']; subst. destruct Ht as (H1 & Hw & Ht).
  cbn [all_accepted]. apply andb_true_iff. split.
  - unfold accepted.
    destruct (try_update false (versions s) (op_src o) (op_ts o)) as [v' ok] eqn:Htu.
    destruct (try_update_accept _ _ _ _ _ (proj2 Hi) Hvo (Hsrc o ltac:(left)) Htu) as [-> _].
    cbn [snd]. destruct (before (versions s) (op_ts o)) eqn:Hb; [|reflexivity].
    destruct (before_witness _ _ _ (proj2 Hi) HS Hvo Hb) as (x & Hx & Hvx & _ & Hlt).
    rewrite (not_before_within _ _ Hvo Hvx H1 (Hw x Hx)) in Hlt. discriminate.
  - apply (IH _ (op_ts o :: S)).
    + apply apply_op_Inv; assumption.
    + apply apply_op_MaxsFrom. assumption.
    + intros o' Ho'. rewrite apply_op_length. apply Hsrc. right. assumption.
    + assumption.
    + assumption.
Qed.

(** All stamps of [arr] within one forgiveness period of each other, none in tick 0. *)
Definition within_W (arr : list op) : Prop :=
  forall o o', o ∈ arr -> o' ∈ arr ->
    1 <= ts_tick (op_ts o) /\ ts_tick (op_ts o') < ts_tick (op_ts o) + W.

Lemma within_W_timely arr : forall seen,
  within_W arr ->
  (forall x o, x ∈ seen -> o ∈ arr -> ts_tick x < ts_tick (op_ts o) + W) ->
  timely seen arr.
Proof.
  induction arr as [|o arr IH]; intros seen Hw Hs; [exact I|].
  cbn [timely]. split; [|split].
  - apply (Hw o o); left.
  - intros x Hx. apply (Hs x o Hx). left.
  - apply IH.
    + intros a b Ha Hb. apply Hw; right; assumption.
    + intros x o' Hx Ho'. apply elem_of_cons in Hx as [->|Hx].
      * apply (Hw o' o); [right; assumption|left].
      * apply (Hs x o' Hx). right. assumption.
Qed.

(** C04, premise discharged: operations within one forgiveness period of each other are
    all accepted, in every arrival order and through every source. *)
Lemma within_W_accepted nsrc arr :
  (nsrc > 0)%nat ->
  (forall o, o ∈ arr -> (op_src o < nsrc)%nat) ->
  Forall (fun o => valid_ts (op_ts o) = true) arr ->
  within_W arr ->
  all_accepted false (empty_set nsrc) arr = true.
Proof.
  intros Hn Hsrc Hv Hw. apply (timely_accepted arr (empty_set nsrc) []).
  - apply Inv_empty. assumption.
  - apply MaxsFrom_empty.
  - intros o Ho. cbn. rewrite replicate_length. apply Hsrc. assumption.
  - assumption.
  - apply within_W_timely; [assumption|]. intros x o Hx. inversion Hx.
Qed.

(** A boolean checker for [timely] (used by the non-vacuity examples and the driver). *)
Fixpoint timely_b (seen : list N) (arr : list op) : bool :=
  match arr with
  | [] => true
  | o :: arr' =>
      (1 <=? ts_tick (op_ts o)) &&
      forallb (fun x => ts_tick x <? ts_tick (op_ts o) + W) seen &&
      timely_b (op_ts o :: seen) arr'
  end.

Lemma timely_b_sound arr : forall seen, timely_b seen arr = true -> timely seen arr.
Proof.
  induction arr as [|o arr IH]; intros seen H; [exact I|].
  cbn [timely_b] in H. apply andb_true_iff in H as [H H3]. apply andb_true_iff in H as [H1 H2].
  cbn [timely]. split; [lia|]. split; [|apply IH; assumption].
  intros x Hx. rewrite forallb_forall in H2. apply elem_of_list_In in Hx.
  specialize (H2 x Hx). lia.
Qed.
