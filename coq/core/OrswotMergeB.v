(** * OrswotMergeB: the merge laws under the property's OTHER premise (C03, premise B)

    Premise (B) of C03: every replica has applied a gap-free prefix of every origin node's
    operations — the history may span any number of forgiveness periods.  A replica is then
    described by a cut [C] (origin -> greatest stamp applied from it): it reflects every
    operation of the history at or below the cut and nothing else, and its per-source
    maxima are at or below the cut.  Operations refused or entries dropped by [merge]
    because of a cut-off are exactly those the other side has already applied, so the merge is
    still the per-key maximum. *)

From stdpp Require Import gmap list sorting.
From Coq Require Import NArith Lia ZArith.
From Coq Require Import ZifyBool ZifyN ZifyNat.
From DC Require Import Ts TsProofs Orswot OrswotInv OrswotLww OrswotTimely OrswotPurge OrswotMerge.
Open Scope N_scope.

(** ** [merge] key by key when cut-offs only hit what the other side already reflects *)

Definition reflects (x y : option (N * bool)) (v : vers) : Prop :=
  forall t d, y = Some (t, d) -> before v t = true -> exists t' d', x = Some (t', d') /\ t <= t'.

Lemma merge_view_B a b k :
  Disjoint a -> Disjoint b ->
  reflects (view a k) (view b k) (versions a) ->
  reflects (view b k) (view a k) (versions b) ->
  consistent (view a k) (view b k) ->
  view (set_merge a b) k = vmax (view a k) (view b k).
Proof.
  intros Hda Hdb Ra Rb Hcons.
  pose proof (merge_lookup a b k Hdb) as Hl.
  assert (He : entries (set_merge a b) !! k =
               (merge_key (versions a) (versions b) (entries a !! k) (dead a !! k) (entries b !! k) (dead b !! k)).1)
    by (rewrite <- Hl; reflexivity).
  assert (Hd : dead (set_merge a b) !! k =
               (merge_key (versions a) (versions b) (entries a !! k) (dead a !! k) (entries b !! k) (dead b !! k)).2)
    by (rewrite <- Hl; reflexivity).
  unfold view at 1. rewrite He, Hd. unfold reflects, view in *. clear He Hd Hl.
  destruct (entries a !! k) as [ea|] eqn:Eea, (dead a !! k) as [da|] eqn:Eda;
    [destruct (Hda k); congruence| | |];
    destruct (entries b !! k) as [eb|] eqn:Eeb, (dead b !! k) as [db|] eqn:Edb;
    try (destruct (Hdb k); congruence);
    unfold merge_key, step_key, left_key; cbn [vmax fst snd];
    repeat match goal with
           | |- context [before ?v ?t] =>
               let Hb := fresh "Hb" in destruct (before v t) eqn:Hb
           end;
    repeat match goal with
           | Hb : before (versions a) ?t = true |- _ =>
               let t' := fresh "t'" in let d' := fresh "d'" in let E := fresh "E" in let L := fresh "L" in
               destruct (Ra _ _ eq_refl Hb) as (t' & d' & E & L); clear Hb;
               first [discriminate E | injection E as <- <-]
           | Hb : before (versions b) ?t = true |- _ =>
               let t' := fresh "t'" in let d' := fresh "d'" in let E := fresh "E" in let L := fresh "L" in
               destruct (Rb _ _ eq_refl Hb) as (t' & d' & E & L); clear Hb;
               first [discriminate E | injection E as <- <-]
           end;
    repeat match goal with
           | |- context [?x <? ?y] => destruct (N.ltb_spec x y)
           end;
    cbn [vmax fst snd]; try reflexivity;
    repeat match goal with
           | |- context [?x <? ?y] => destruct (N.ltb_spec x y)
           end; try reflexivity; try lia;
    try (exfalso;
         match goal with
         | _ : ?x <= ?y, _ : ?y <= ?x |- _ =>
             assert (x = y) by lia; subst;
             first [ pose proof (Hcons _ _ _ _ eq_refl eq_refl eq_refl); discriminate ]
         end).
  all: repeat f_equal; lia.
Qed.

(** ** Every stamp recorded in the versions, as a list *)

Definition all_maxs (v : vers) : list N :=
  concat (map (fun m : gmap N N => (map_to_list m).*2) (maxs v)).

Lemma MaxsFrom_all v : MaxsFrom v (all_maxs v).
Proof.
  intros src m n e Hl He. unfold all_maxs. apply elem_of_list_In, in_concat.
  exists ((map_to_list m).*2). split.
  - apply in_map_iff. exists m. split; [reflexivity|]. apply elem_of_list_In. eapply elem_of_list_lookup_2. exact Hl.
  - apply elem_of_list_In. apply elem_of_list_fmap. exists (n, e). split; [reflexivity|].
    apply elem_of_map_to_list. exact He.
Qed.

Lemma all_maxs_in v x :
  x ∈ all_maxs v -> exists src m n, maxs v !! src = Some m /\ m !! n = Some x.
Proof.
  unfold all_maxs. intros Hx. apply elem_of_list_In, in_concat in Hx as (l & Hl & Hx).
  apply in_map_iff in Hl as (m & <- & Hm). apply elem_of_list_In in Hm.
  apply elem_of_list_lookup_1 in Hm as [src Hsrc].
  apply elem_of_list_In, elem_of_list_fmap in Hx as ([n e] & -> & Hne).
  apply elem_of_map_to_list in Hne. exists src, m, n. split; assumption.
Qed.

Section prefix.
  Set Default Proof Using "All".
  (** [H]: the operations of the history as (key, stamp, is_delete) with distinct valid
      stamps.  No bound on the span of the stamps. *)
  Context (H : list (N * N * bool)) (nsrc : nat).
  Context (Hvalid : forall k t d, (k, t, d) ∈ H -> valid_ts t = true).
  Context (Hdistinct : forall k t d k' d', (k, t, d) ∈ H -> (k', t, d') ∈ H -> k = k' /\ d = d').

  (** Operation [(k,t,d)] of the history is at or below the cut. *)
  Definition applied (C : gmap N N) (k t : N) (d : bool) : Prop :=
    (k, t, d) ∈ H /\ exists c, C !! ts_node t = Some c /\ t <= c.

  (** Replica with cut [C]. *)
  Definition BInvC (C : gmap N N) (s : oset) : Prop :=
    Inv s /\ length (maxs (versions s)) = nsrc /\
    (forall src m n e, maxs (versions s) !! src = Some m -> m !! n = Some e ->
                       exists c, C !! ts_node e = Some c /\ e <= c) /\
    (forall k t d, view s k = Some (t, d) -> applied C k t d) /\
    (forall k t d, applied C k t d -> exists t' d', view s k = Some (t', d') /\ t <= t').

  Definition BInv (s : oset) : Prop := exists C, BInvC C s.

  (** What is older than the replica's cut-off is at or below its cut. *)
  Lemma BInvC_before C s t :
    BInvC C s -> valid_ts t = true -> before (versions s) t = true ->
    exists c, C !! ts_node t = Some c /\ t <= c.
  Proof.
    intros (Hi & _ & Hm & _ & _) Hv Hb.
    destruct (before_witness _ _ _ (proj2 Hi) (MaxsFrom_all (versions s)) Hv Hb) as (x & Hx & Hvx & Hn & Hlt).
    destruct (all_maxs_in _ _ Hx) as (src & m & n & Hl & He).
    destruct (Hm src m n x Hl He) as (c & Hc & Hle). exists c. rewrite <- Hn. split; [exact Hc|].
    pose proof (shiftW_le x Hvx). lia.
  Qed.

  Lemma BInvC_reflects C C' a b k :
    BInvC C a -> BInvC C' b -> reflects (view a k) (view b k) (versions a).
  Proof.
    intros Ha Hb t d Ev Hbf. pose proof Hb as (_ & _ & _ & Hsb & _). pose proof Ha as (_ & _ & _ & _ & Hca).
    destruct (Hsb _ _ _ Ev) as [Hin _].
    apply (Hca k t d). split; [exact Hin|]. exact (BInvC_before C a t Ha (Hvalid _ _ _ Hin) Hbf).
  Qed.

  Lemma BInv_consistent C C' a b k : BInvC C a -> BInvC C' b -> consistent (view a k) (view b k).
  Proof.
    intros (_ & _ & _ & Hsa & _) (_ & _ & _ & Hsb & _) t d t' d' Ea Eb ->.
    exact (proj2 (Hdistinct _ _ _ _ _ (proj1 (Hsa _ _ _ Ea)) (proj1 (Hsb _ _ _ Eb)))).
  Qed.

  (** The cut of a merged replica. *)
  Definition cut_max (C C' : gmap N N) : gmap N N := merge_max C C'.

  Lemma cut_max_ge_l C C' n c : C !! n = Some c -> exists c', cut_max C C' !! n = Some c' /\ c <= c'.
  Proof.
    intros Hc. unfold cut_max. rewrite merge_max_lookup, Hc. destruct (C' !! n) as [y|].
    - destruct (N.ltb_spec y c); eexists; (split; [reflexivity|lia]).
    - eexists; split; [reflexivity|lia].
  Qed.

  Lemma cut_max_ge_r C C' n c : C' !! n = Some c -> exists c', cut_max C C' !! n = Some c' /\ c <= c'.
  Proof.
    intros Hc. unfold cut_max. rewrite merge_max_lookup, Hc. destruct (C !! n) as [y|].
    - destruct (N.ltb_spec c y); eexists; (split; [reflexivity|lia]).
    - eexists; split; [reflexivity|lia].
  Qed.

  Lemma cut_max_inv C C' n c :
    cut_max C C' !! n = Some c -> C !! n = Some c \/ C' !! n = Some c.
  Proof.
    unfold cut_max. rewrite merge_max_lookup. destruct (C !! n) as [x|], (C' !! n) as [y|]; try (intros [= <-]; auto; fail).
    destruct (y <? x); intros [= <-]; auto.
  Qed.

  Lemma applied_cut_max C C' k t d :
    applied (cut_max C C') k t d <-> applied C k t d \/ applied C' k t d.
  Proof.
    unfold applied. split.
    - intros (Hin & c & Hc & Hle). destruct (cut_max_inv _ _ _ _ Hc); [left|right]; eauto.
    - intros [(Hin & c & Hc & Hle)|(Hin & c & Hc & Hle)]; (split; [exact Hin|]).
      + destruct (cut_max_ge_l C C' _ _ Hc) as (c' & -> & ?). exists c'. split; [reflexivity|lia].
      + destruct (cut_max_ge_r C C' _ _ Hc) as (c' & -> & ?). exists c'. split; [reflexivity|lia].
  Qed.

  (** Merging is the per-key maximum, and the result is a replica whose cut is the maximum. *)
  Lemma merge_is_max_B C C' a b :
    BInvC C a -> BInvC C' b ->
    BInvC (cut_max C C') (set_merge a b) /\
    forall k, view (set_merge a b) k = vmax (view a k) (view b k).
  Proof.
    intros Ha Hb. pose proof Ha as (Hia & Hla & Hma & Hsa & Hca). pose proof Hb as (Hib & Hlb & Hmb & Hsb & Hcb).
    assert (Hview : forall k, view (set_merge a b) k = vmax (view a k) (view b k)).
    { intros k. apply merge_view_B; [apply Hia|apply Hib| | |].
      - exact (BInvC_reflects C C' a b k Ha Hb).
      - exact (BInvC_reflects C' C b a k Hb Ha).
      - exact (BInv_consistent C C' a b k Ha Hb). }
    split; [|exact Hview].
    assert (E : versions (set_merge a b) = vers_merge (versions a) (versions b)).
    { unfold set_merge. destruct (foldl _ _ _) as [[ents dd] old]. destruct (foldl _ _ _) as [e' d']. reflexivity. }
    split; [apply merge_Inv; [assumption|assumption|congruence]|]. split; [|split; [|split]].
    - rewrite E, vers_merge_maxs. unfold merged_maxs. rewrite zip_with_length. lia.
    - intros src m n e Hl He. rewrite E, vers_merge_maxs in Hl.
      destruct (merged_maxs_lookup _ _ _ _ Hl) as (ma & mb & Hla' & Hlb' & ->).
      rewrite merge_max_lookup in He.
      destruct (ma !! n) as [x|] eqn:Ex, (mb !! n) as [y|] eqn:Ey.
      + destruct (Hma _ _ _ _ Hla' Ex) as (c & Hc & ?). destruct (Hmb _ _ _ _ Hlb' Ey) as (c' & Hc' & ?).
        destruct (y <? x); injection He as <-.
        * destruct (cut_max_ge_l C C' _ _ Hc) as (c2 & -> & ?). exists c2. split; [reflexivity|lia].
        * destruct (cut_max_ge_r C C' _ _ Hc') as (c2 & -> & ?). exists c2. split; [reflexivity|lia].
      + injection He as <-. destruct (Hma _ _ _ _ Hla' Ex) as (c & Hc & ?).
        destruct (cut_max_ge_l C C' _ _ Hc) as (c2 & -> & ?). exists c2. split; [reflexivity|lia].
      + injection He as <-. destruct (Hmb _ _ _ _ Hlb' Ey) as (c' & Hc' & ?).
        destruct (cut_max_ge_r C C' _ _ Hc') as (c2 & -> & ?). exists c2. split; [reflexivity|lia].
      + discriminate.
    - intros k t d Hv. rewrite Hview in Hv. apply applied_cut_max.
      destruct (vmax_either (view a k) (view b k)) as [E'|E']; rewrite E' in Hv; [left; eapply Hsa|right; eapply Hsb]; exact Hv.
    - intros k t d Hap. apply applied_cut_max in Hap. rewrite Hview.
      destruct Hap as [Hap|Hap].
      + destruct (Hca _ _ _ Hap) as (t' & d' & Ev & Hle). rewrite Ev.
        destruct (view b k) as [[u ud]|]; cbn [vmax]; [|eauto].
        destruct (N.ltb_spec t' u); [exists u, ud; split; [reflexivity|lia]|eauto].
      + destruct (Hcb _ _ _ Hap) as (t' & d' & Ev & Hle). rewrite Ev.
        destruct (view a k) as [[u ud]|]; cbn [vmax]; [|eauto].
        destruct (N.ltb_spec u t'); [eauto|exists u, ud; split; [reflexivity|lia]].
  Qed.

  Lemma BInvC_empty : (nsrc > 0)%nat -> BInvC ∅ (empty_set nsrc).
  Proof.
    intros Hn. split; [apply Inv_empty; exact Hn|]. split; [cbn; apply replicate_length|]. split; [|split].
    - intros src m n e Hl He. cbn in Hl. apply lookup_replicate in Hl as [-> _]. rewrite lookup_empty in He. discriminate.
    - intros k t d. rewrite view_empty. discriminate.
    - intros k t d (_ & c & Hc & _). rewrite lookup_empty in Hc. discriminate.
  Qed.

  Lemma join_ge old t d : exists t' d', join old (t, d) = Some (t', d') /\ t <= t'.
  Proof.
    destruct old as [[u ud]|]; cbn [join]; [|eauto].
    destruct (N.ltb_spec u t); [eauto|].
    destruct ((t =? u) && ud && negb d) eqn:E; [eauto|]. exists u, ud. split; [reflexivity|lia].
  Qed.

  Lemma join_mono old t d u ud : old = Some (u, ud) -> exists t' d', join old (t, d) = Some (t', d') /\ u <= t'.
  Proof.
    intros ->. cbn [join]. destruct (N.ltb_spec u t); [exists t, d; split; [reflexivity|lia]|].
    destruct ((t =? u) && ud && negb d) eqn:E; [|exists u, ud; split; [reflexivity|lia]].
    exists t, d. split; [reflexivity|]. apply andb_true_iff in E as [E _]. apply andb_true_iff in E as [E _]. lia.
  Qed.

  Lemma join_either old t d : join old (t, d) = Some (t, d) \/ join old (t, d) = old.
  Proof.
    destruct old as [[u ud]|]; cbn [join]; [|auto]. destruct (u <? t); [auto|].
    destruct ((t =? u) && ud && negb d); auto.
  Qed.

  (** Applying an operation of the history whose origin's earlier operations are all at or
      below the cut (the next one of its origin, or one applied before) keeps the replica a
      gap-free-prefix replica; the cut advances to the operation's stamp. *)
  Lemma apply_op_BInvC C s o :
    BInvC C s ->
    (op_key o, op_ts o, op_del o) ∈ H ->
    (op_src o < nsrc)%nat ->
    (forall k' t' d', (k', t', d') ∈ H -> ts_node t' = ts_node (op_ts o) -> t' < op_ts o ->
                      applied C k' t' d') ->
    BInvC (cut_max C {[ts_node (op_ts o) := op_ts o]}) (apply_op false s o).1.
  Proof.
    intros Hs Hin Hsrc Hgap. pose proof Hs as (Hi & Hl & Hm & Hsound & Hcompl).
    pose proof (Hvalid _ _ _ Hin) as Hv.
    set (C1 := cut_max C {[ts_node (op_ts o) := op_ts o]}).
    assert (Hmono : forall k t d, applied C k t d -> applied C1 k t d).
    { intros k t d Ha. apply applied_cut_max. left. exact Ha. }
    assert (Hnew : applied C1 (op_key o) (op_ts o) (op_del o)).
    { apply applied_cut_max. right. split; [exact Hin|]. exists (op_ts o). rewrite lookup_singleton. split; [reflexivity|lia]. }
    assert (HIn' : Inv (apply_op false s o).1) by (apply apply_op_Inv; assumption).
    split; [exact HIn'|]. split; [rewrite apply_op_length; exact Hl|]. split; [|split].
    - intros src m n e Hl' He.
      pose proof (apply_op_MaxsFrom false s o _ (MaxsFrom_all (versions s)) src m n e Hl' He) as Hx.
      apply elem_of_cons in Hx as [->|Hx].
      + destruct Hnew as (_ & c & Hc & Hle). eauto.
      + destruct (all_maxs_in _ _ Hx) as (src0 & m0 & n0 & Hl0 & He0).
        destruct (Hm _ _ _ _ Hl0 He0) as (c & Hc & Hle).
        destruct (cut_max_ge_l C {[ts_node (op_ts o) := op_ts o]} _ _ Hc) as (c' & Hc' & ?).
        exists c'. split; [exact Hc'|lia].
    - intros k t d Hvw. destruct (apply_op_view false s o (proj1 Hi)) as [Hview _]. rewrite Hview in Hvw.
      destruct (accepted false s o && bool_decide (k = op_key o)) eqn:Eb; [|apply Hmono, Hsound; exact Hvw].
      apply andb_true_iff in Eb as [_ Ek]. apply bool_decide_eq_true in Ek. subst k.
      destruct (join_either (view s (op_key o)) (op_ts o) (op_del o)) as [E|E]; rewrite E in Hvw.
      + injection Hvw as <- <-. exact Hnew.
      + apply Hmono, Hsound. exact Hvw.
    - intros k t d Hap. destruct (apply_op_view false s o (proj1 Hi)) as [Hview _]. rewrite Hview.
      (* what the old replica already reflects stays reflected *)
      assert (Hold : applied C k t d ->
                     exists t' d', (if accepted false s o && bool_decide (k = op_key o)
                                    then join (view s (op_key o)) (op_ts o, op_del o) else view s k) = Some (t', d') /\ t <= t').
      { intros Ha. destruct (Hcompl _ _ _ Ha) as (t' & d' & Ev & Hle).
        destruct (accepted false s o && bool_decide (k = op_key o)) eqn:Eb; [|eauto].
        apply andb_true_iff in Eb as [_ Ek]. apply bool_decide_eq_true in Ek. subst k.
        destruct (join_mono _ (op_ts o) (op_del o) _ _ Ev) as (t2 & d2 & -> & ?). exists t2, d2. split; [reflexivity|lia]. }
      apply applied_cut_max in Hap as [Ha|(Hin' & c & Hc & Hle)]; [exact (Hold Ha)|].
      destruct (decide (ts_node t = ts_node (op_ts o))) as [En|Hne];
        [|rewrite lookup_singleton_ne in Hc by congruence; discriminate].
      rewrite En, lookup_singleton in Hc. injection Hc as <-.
      destruct (N.eq_dec t (op_ts o)) as [->|Hlt]; [|apply Hold, (Hgap _ _ _ Hin' En); lia].
      destruct (Hdistinct _ _ _ _ _ Hin' Hin) as [-> ->].
      (* the operation itself: accepted -> joined; refused -> older than the cut-off -> reflected *)
      destruct (try_update false (versions s) (op_src o) (op_ts o)) as [v' ok] eqn:Htu.
      destruct (try_update_accept _ _ _ _ _ (proj2 Hi) Hv ltac:(rewrite Hl; exact Hsrc) Htu) as [Hok _].
      assert (Hacc : accepted false s o = negb (before (versions s) (op_ts o))).
      { unfold accepted. rewrite Htu. exact Hok. }
      rewrite Hacc, bool_decide_eq_true_2 by reflexivity.
      destruct (before (versions s) (op_ts o)) eqn:Hb; cbn [negb andb].
      + apply (Hcompl _ _ (op_del o)). split; [exact Hin|]. exact (BInvC_before C s _ Hs Hv Hb).
      + apply join_ge.
  Qed.

  (** ** The laws, for gap-free-prefix replicas *)

  Lemma BInv_merge a b : BInv a -> BInv b -> BInv (set_merge a b).
  Proof. intros [C Ha] [C' Hb]. exists (cut_max C C'). exact (proj1 (merge_is_max_B C C' a b Ha Hb)). Qed.

  Lemma merge_view_prefix a b k : BInv a -> BInv b -> view (set_merge a b) k = vmax (view a k) (view b k).
  Proof. intros [C Ha] [C' Hb]. exact (proj2 (merge_is_max_B C C' a b Ha Hb) k). Qed.

  Lemma BInv_cons a b k : BInv a -> BInv b -> consistent (view a k) (view b k).
  Proof. intros [C Ha] [C' Hb]. exact (BInv_consistent C C' a b k Ha Hb). Qed.

  Lemma merge_commutative_B a b k : BInv a -> BInv b -> view (set_merge a b) k = view (set_merge b a) k.
  Proof.
    intros Ha Hb. rewrite (merge_view_prefix a b k Ha Hb), (merge_view_prefix b a k Hb Ha).
    apply vmax_comm. apply BInv_cons; assumption.
  Qed.

  Lemma merge_associative_B a b c k :
    BInv a -> BInv b -> BInv c ->
    view (set_merge (set_merge a b) c) k = view (set_merge a (set_merge b c)) k.
  Proof.
    intros Ha Hb Hc.
    rewrite (merge_view_prefix _ c k (BInv_merge a b Ha Hb) Hc), (merge_view_prefix a _ k Ha (BInv_merge b c Hb Hc)),
      (merge_view_prefix a b k Ha Hb), (merge_view_prefix b c k Hb Hc).
    apply vmax_assoc; apply BInv_cons; assumption.
  Qed.

  Lemma merge_idempotent_B a k : BInv a -> view (set_merge a a) k = view a k.
  Proof. intros Ha. rewrite (merge_view_prefix a a k Ha Ha). apply vmax_idem. Qed.

  Lemma merge_again_changes_nothing_B a b k :
    BInv a -> BInv b -> view (set_merge (set_merge a b) b) k = view (set_merge a b) k.
  Proof.
    intros Ha Hb. rewrite (merge_view_prefix _ b k (BInv_merge a b Ha Hb) Hb), (merge_view_prefix a b k Ha Hb).
    apply vmax_absorb.
  Qed.

  Lemma merged_replicas_indistinguishable_B a b k :
    BInv a -> BInv b -> set_get (set_merge a b) k = set_get (set_merge b a) k.
  Proof. intros Ha Hb. rewrite !get_view, (merge_commutative_B a b k Ha Hb). reflexivity. Qed.

  Lemma merged_transitively_indistinguishable_B a b c k :
    BInv a -> BInv b -> BInv c ->
    set_get (set_merge (set_merge a b) c) k = set_get (set_merge c (set_merge b a)) k.
  Proof.
    intros Ha Hb Hc. rewrite !get_view.
    rewrite (merge_commutative_B _ c k (BInv_merge a b Ha Hb) Hc).
    rewrite (merge_view_prefix c _ k Hc (BInv_merge a b Ha Hb)), (merge_view_prefix c _ k Hc (BInv_merge b a Hb Ha)),
      (merge_view_prefix a b k Ha Hb), (merge_view_prefix b a k Hb Ha).
    rewrite (vmax_comm (view a k) (view b k)) by (apply BInv_cons; assumption). reflexivity.
  Qed.

  Lemma BInv_empty : (nsrc > 0)%nat -> BInv (empty_set nsrc).
  Proof. intros Hn. exists ∅. exact (BInvC_empty Hn). Qed.
End prefix.

(** ** Deciding the premises on a concrete history (used by the non-vacuity example) *)

Definition hist_ok (H : list (N * N * bool)) : bool :=
  forallb (fun x : N * N * bool =>
    valid_ts x.1.2 &&
    forallb (fun y : N * N * bool =>
      if x.1.2 =? y.1.2 then (x.1.1 =? y.1.1) && Bool.eqb x.2 y.2 else true) H) H.

Lemma hist_ok_spec H :
  hist_ok H = true ->
  (forall k t d, (k, t, d) ∈ H -> valid_ts t = true) /\
  (forall k t d k' d', (k, t, d) ∈ H -> (k', t, d') ∈ H -> k = k' /\ d = d').
Proof.
  unfold hist_ok. rewrite forallb_forall. intros Hall. split.
  - intros k t d Hin. apply elem_of_list_In in Hin. apply Hall in Hin. apply andb_true_iff in Hin as [Hv _]. exact Hv.
  - intros k t d k' d' Hin Hin'. apply elem_of_list_In in Hin, Hin'. apply Hall in Hin.
    apply andb_true_iff in Hin as [_ Hin]. rewrite forallb_forall in Hin. apply Hin in Hin'. cbn [fst snd] in Hin'.
    rewrite N.eqb_refl in Hin'. apply andb_true_iff in Hin' as [Ek Ed]. apply N.eqb_eq in Ek. apply Bool.eqb_prop in Ed. auto.
Qed.

Definition gap_ok (H : list (N * N * bool)) (C : gmap N N) (t : N) : bool :=
  forallb (fun x : N * N * bool =>
    if (ts_node x.1.2 =? ts_node t) && (x.1.2 <? t)
    then match C !! ts_node x.1.2 with Some c => x.1.2 <=? c | None => false end
    else true) H.

Lemma gap_ok_spec H C t :
  gap_ok H C t = true ->
  forall k' t' d', (k', t', d') ∈ H -> ts_node t' = ts_node t -> t' < t -> applied H C k' t' d'.
Proof.
  unfold gap_ok. rewrite forallb_forall. intros Hall k' t' d' Hin Hn Hlt. split; [exact Hin|].
  apply elem_of_list_In in Hin. apply Hall in Hin. cbn [fst snd] in Hin.
  rewrite Hn, N.eqb_refl in Hin. cbn [andb] in Hin. destruct (N.ltb_spec t' t); [|lia].
  rewrite <- Hn in Hin. destruct (C !! ts_node t') as [c|]; [|discriminate]. exists c. split; [reflexivity|lia].
Qed.
