(** * ActorProofs: the keyspace actor keeps set and storage in agreement (C02), and a
    restart rebuilds exactly what storage holds (C07) *)

From stdpp Require Import gmap list sorting.
From Coq Require Import NArith Lia ZArith.
From Coq Require Import ZifyBool ZifyN ZifyNat.
From DC Require Import Ts TsProofs Hlc HlcProofs Orswot OrswotInv OrswotLww OrswotTimely
     OrswotPurge OrswotDiff Actor.
Open Scope N_scope.

(** The set and the store describe the same thing. *)
Definition Agree (s : oset) (st : store) : Prop := forall k, view s k = meta st k.

Definition NSRC (s : oset) : nat := length (maxs (versions s)).

(** ** Store lemmas *)

Lemma meta_put st k t p k' :
  meta (st_put st k t p) k' = if decide (k' = k) then Some (t, false) else meta st k'.
Proof.
  unfold meta, st_put. destruct (decide (k' = k)) as [->|Hne].
  - rewrite lookup_insert. reflexivity.
  - rewrite lookup_insert_ne by congruence. reflexivity.
Qed.

Lemma meta_tomb st k t k' :
  meta (st_tomb st k t) k' = if decide (k' = k) then Some (t, true) else meta st k'.
Proof.
  unfold meta, st_tomb. destruct (decide (k' = k)) as [->|Hne].
  - rewrite lookup_insert. reflexivity.
  - rewrite lookup_insert_ne by congruence. reflexivity.
Qed.

Lemma meta_remove st k k' :
  meta (st_remove st k) k' = if decide (k' = k) then None else meta st k'.
Proof.
  unfold meta, st_remove. destruct (decide (k' = k)) as [->|Hne].
  - rewrite lookup_delete. reflexivity.
  - rewrite lookup_delete_ne by congruence. reflexivity.
Qed.

(** ** The cut-off does not overtake stamps that are at least as new as what arrives *)

Lemma try_update_safe_ne legacy v src e n :
  n <> ts_node e -> safe (try_update legacy v src e).1 !! n = safe v !! n.
Proof.
  intros Hn. unfold try_update.
  destruct (maxs v !! src ≫= _) as [x|]; [destruct (e <? x)|]; cbn [fst];
    rewrite compute_safe_safe_ne by assumption; reflexivity.
Qed.

Lemma not_before_after_smaller v src e t :
  VInv v -> valid_ts e = true -> valid_ts t = true -> (src < length (maxs v))%nat ->
  before v t = false -> (e <=? t) = true ->
  before (try_update false v src e).1 t = false.
Proof.
  intros HV Hve Hvt Hsrc Hb Hle.
  destruct (try_update false v src e) as [v' ok] eqn:Htu. cbn [fst].
  pose proof (try_update_VInv _ _ _ _ _ _ HV Hve Htu) as HV'.
  destruct (valid_bounds t Hvt) as (_ & _ & _ & Hnt & _).
  destruct (decide (ts_node t = ts_node e)) as [En|Hne].
  - (* same origin *)
    destruct (lookup_lt_is_Some_2 _ _ Hsrc) as [m Hm].
    pose proof HV as (Hne0 & Hok & Hsync).
    unfold try_update in Htu. rewrite Hm in Htu. cbn [mbind option_bind] in Htu.
    destruct (m !! ts_node e) as [x|] eqn:Hx.
    + destruct (e <? x) eqn:Hlt.
      * rewrite (compute_safe_sync_id v (ts_node e) Hne0 (Hsync _)) in Htu
          by (exists src, m, x; split; assumption).
        injection Htu as <- _. exact Hb.
      * injection Htu as <- _.
        unfold before. destruct (safe _ !! ts_node t) as [c|] eqn:Hs; [|reflexivity].
        assert (Hl : maxs (compute_safe (set_max v src e) (ts_node e)) !! src =
                     Some (<[ts_node e := e]> m)).
        { rewrite compute_safe_maxs. unfold set_max. cbn [maxs].
          rewrite list_lookup_alter, Hm. reflexivity. }
        pose proof (safe_le_src _ _ c src _ HV' Hnt Hs Hl) as Hc.
        unfold src_stamp in Hc. rewrite En, lookup_insert in Hc. cbn in Hc. lia.
    + injection Htu as <- _.
      unfold before. destruct (safe _ !! ts_node t) as [c|] eqn:Hs; [|reflexivity].
      assert (Hl : maxs (compute_safe (set_max v src e) (ts_node e)) !! src =
                   Some (<[ts_node e := e]> m)).
      { rewrite compute_safe_maxs. unfold set_max. cbn [maxs].
        rewrite list_lookup_alter, Hm. reflexivity. }
      pose proof (safe_le_src _ _ c src _ HV' Hnt Hs Hl) as Hc.
      unfold src_stamp in Hc. rewrite En, lookup_insert in Hc. cbn in Hc. lia.
  - (* another origin: its cut-off is untouched *)
    pose proof (try_update_safe_ne false v src e (ts_node t) Hne) as H.
    rewrite Htu in H. cbn [fst] in H. unfold before in *. rewrite H. exact Hb.
Qed.

Lemma will_apply_preserved s o k' t' :
  Inv s -> valid_ts (op_ts o) = true -> valid_ts t' = true ->
  (op_src o < NSRC s)%nat ->
  will_apply s k' t' = true -> k' <> op_key o -> (op_ts o <=? t') = true ->
  will_apply (apply_op false s o).1 k' t' = true.
Proof.
  intros Hi Hvo Hvt Hsrc Hw Hk Hle. rewrite will_apply_spec in *.
  apply andb_true_iff in Hw as [Hb Hv]. apply negb_true_iff in Hb.
  destruct (apply_op_view false s o (proj1 Hi)) as [Hview _].
  apply andb_true_iff. split.
  - apply negb_true_iff. rewrite apply_op_versions.
    apply not_before_after_smaller; try assumption. apply Hi.
  - rewrite Hview. rewrite bool_decide_eq_false_2 by assumption. rewrite andb_false_r. exact Hv.
Qed.

(** A [will_apply] that says yes means: accepted, and the join puts the new stamp in. *)
Lemma will_apply_accepted s o :
  Inv s -> valid_ts (op_ts o) = true -> (op_src o < NSRC s)%nat ->
  will_apply s (op_key o) (op_ts o) = true ->
  accepted false s o = true /\
  join (view s (op_key o)) (op_ts o, op_del o) = Some (op_ts o, op_del o).
Proof.
  intros Hi Hv Hsrc Hw. rewrite will_apply_spec in Hw.
  apply andb_true_iff in Hw as [Hb Hold]. apply negb_true_iff in Hb. split.
  - unfold accepted.
    destruct (try_update false (versions s) (op_src o) (op_ts o)) as [v' ok] eqn:Htu.
    destruct (try_update_accept _ _ _ _ _ (proj2 Hi) Hv Hsrc Htu) as [-> _].
    cbn [snd]. rewrite Hb. reflexivity.
  - destruct (view s (op_key o)) as [[u ud]|]; cbn [join]; [|reflexivity].
    rewrite Hold. reflexivity.
Qed.

(** ** Bulk application in ascending stamp order *)

Definition ops_sorted (l : list op) : Prop :=
  StronglySorted (fun a b => (op_ts a <=? op_ts b) = true) l.

Lemma sorted_all_accepted l : forall s,
  Inv s ->
  Forall (fun o => valid_ts (op_ts o) = true /\ (op_src o < NSRC s)%nat /\
                   will_apply s (op_key o) (op_ts o) = true) l ->
  NoDup (map op_key l) -> ops_sorted l ->
  all_accepted false s l = true.
Proof.
  induction l as [|o l IH]; intros s Hi Hall Hnd Hs; [reflexivity|].
  inversion Hall as [|? ? (Hvo & Hsrc & Hw) Hall']; subst.
  cbn [map] in Hnd. apply NoDup_cons in Hnd as [Hnin Hnd].
  inversion Hs as [|? ? Hs' Hle]; subst.
  cbn [all_accepted]. apply andb_true_iff. split.
  - apply will_apply_accepted; assumption.
  - apply IH; try assumption.
    + apply apply_op_Inv; assumption.
    + rewrite Forall_forall in *. intros o' Ho'. destruct (Hall' o' Ho') as (Hv' & Hsrc' & Hw').
      split; [assumption|]. split.
      * unfold NSRC. rewrite apply_op_length. exact Hsrc'.
      * apply will_apply_preserved; try assumption.
        -- intros E. apply Hnin. rewrite <- E. apply elem_of_list_fmap_1. assumption.
        -- apply (Hle o' Ho').
Qed.

(** After a sorted, key-unique bulk of operations each of which [will_apply] approved,
    every touched key shows exactly its operation and every other key is unchanged. *)
Lemma bulk_view s l k :
  Inv s ->
  Forall (fun o => valid_ts (op_ts o) = true /\ (op_src o < NSRC s)%nat /\
                   will_apply s (op_key o) (op_ts o) = true) l ->
  NoDup (map op_key l) -> ops_sorted l ->
  Inv (run_ops false s l) /\
  view (run_ops false s l) k =
  match op_for k l with
  | Some o => Some (op_ts o, op_del o)
  | None => view s k
  end.
Proof.
  intros Hi Hall Hnd Hs.
  assert (Hv : Forall (fun o => valid_ts (op_ts o) = true) l).
  { eapply Forall_impl; [exact Hall|]. intros o (H & _). exact H. }
  split; [apply run_ops_Inv; assumption|].
  rewrite (run_view_single false l s k Hi Hv Hnd (sorted_all_accepted l s Hi Hall Hnd Hs)).
  destruct (op_for k l) as [o|] eqn:Eo; [|reflexivity].
  destruct (op_for_Some _ _ _ Eo) as [Hin <-].
  rewrite Forall_forall in Hall. destruct (Hall o Hin) as (Hvo & Hsrc & Hw).
  apply will_apply_accepted; assumption.
Qed.

(** ** Lists: newest-per-id, written, sorting *)

Section items.
  Context {A : Type} (idf tsf : A -> N).

  Lemma find_id_Some k l x : find_id idf k l = Some x -> x ∈ l /\ idf x = k.
  Proof.
    induction l as [|y r IH]; [discriminate|]. cbn [find_id].
    destruct (N.eqb_spec (idf y) k) as [E|_].
    - intros [= <-]. split; [left|assumption].
    - intros H. destruct (IH H). split; [right; assumption|assumption].
  Qed.

  Lemma find_id_None k l : find_id idf k l = None -> k ∉ map idf l.
  Proof.
    induction l as [|y r IH]; [intros _ H; inversion H|]. cbn [find_id map].
    destruct (N.eqb_spec (idf y) k) as [E|Hne]; [discriminate|].
    intros H Hin. apply elem_of_cons in Hin as [->|Hin]; [congruence|]. exact (IH H Hin).
  Qed.

  Lemma remove_id_spec k l x : x ∈ remove_id idf k l <-> x ∈ l /\ idf x <> k.
  Proof. unfold remove_id. rewrite elem_of_list_filter. tauto. Qed.

  Lemma remove_id_ids k l : k ∉ map idf (remove_id idf k l).
  Proof.
    intros H. apply elem_of_list_fmap in H as (x & -> & Hx). apply remove_id_spec in Hx as [_ Hx].
    congruence.
  Qed.

  Lemma remove_id_NoDup k l : NoDup (map idf l) -> NoDup (map idf (remove_id idf k l)).
  Proof.
    induction l as [|y r IH]; [intros _; constructor|]. cbn [map]. intros Hnd.
    apply NoDup_cons in Hnd as [Hnin Hnd]. unfold remove_id. rewrite filter_cons.
    destruct (decide (idf y <> k)).
    - cbn [map]. apply NoDup_cons. split; [|apply IH; assumption].
      intros H. apply Hnin. apply elem_of_list_fmap in H as (x & E & Hx).
      apply elem_of_list_filter in Hx as [_ Hx]. rewrite E. apply elem_of_list_fmap_1. assumption.
    - apply IH. assumption.
  Qed.

  Lemma newest_per_id_in l x : x ∈ newest_per_id idf tsf l -> x ∈ l.
  Proof.
    revert x. induction l as [|y r IH]; intros x; [intros H; inversion H|]. cbn [newest_per_id].
    destruct (find_id idf (idf y) (newest_per_id idf tsf r)) as [z|].
    - destruct (tsf y <? tsf z).
      + intros H. right. auto.
      + intros H. apply elem_of_cons in H as [->|H]; [left|].
        apply remove_id_spec in H as [H _]. right. auto.
    - intros H. apply elem_of_cons in H as [->|H]; [left|right; auto].
  Qed.

  Lemma newest_per_id_NoDup l : NoDup (map idf (newest_per_id idf tsf l)).
  Proof.
    induction l as [|y r IH]; [constructor|]. cbn [newest_per_id].
    destruct (find_id idf (idf y) (newest_per_id idf tsf r)) as [z|] eqn:Ef.
    - destruct (tsf y <? tsf z); [exact IH|]. cbn [map]. apply NoDup_cons. split.
      + apply remove_id_ids.
      + apply remove_id_NoDup. exact IH.
    - cbn [map]. apply NoDup_cons. split; [apply find_id_None; assumption|exact IH].
  Qed.

  Lemma written_sublist mask (l : list A) : written mask l `sublist_of` l.
  Proof.
    revert mask. induction l as [|x r IH]; intros mask.
    - destruct mask as [|[|] m]; apply sublist_nil_l.
    - destruct mask as [|[|] m]; cbn [written].
      + apply sublist_nil_l.
      + apply sublist_skip. apply IH.
      + apply sublist_cons. apply IH.
  Qed.

  Lemma sort_perm (l : list A) : sort_by_ts tsf l ≡ₚ l.
  Proof. apply merge_sort_Permutation. Qed.

  Lemma sort_sorted (l : list A) :
    StronglySorted (fun a b => (tsf a <=? tsf b) = true) (sort_by_ts tsf l).
  Proof.
    assert (Htot : Total (ts_le tsf)).
    { intros a b. unfold ts_le. destruct (N.leb_spec (tsf a) (tsf b)); [left; reflexivity|].
      right. lia. }
    assert (Htr : Transitive (ts_le tsf)).
    { intros a b c. unfold ts_le. lia. }
    apply Sorted_StronglySorted; [exact Htr|].
    apply (Sorted_merge_sort (ts_le tsf)).
  Qed.
End items.

(** ** More list plumbing *)

Lemma StronglySorted_filter {A} (R : A -> A -> Prop) (P : A -> Prop) `{forall x, Decision (P x)} l :
  StronglySorted R l -> StronglySorted R (filter P l).
Proof.
  induction 1 as [|x l Hs IH Hall]; [constructor|].
  rewrite filter_cons. destruct (decide (P x)); [|exact IH].
  constructor; [exact IH|]. apply Forall_forall. intros y Hy.
  apply elem_of_list_filter in Hy as [_ Hy]. exact (proj1 (Forall_forall _ _) Hall y Hy).
Qed.

Lemma StronglySorted_map {A B} (f : A -> B) (R : B -> B -> Prop) l :
  StronglySorted (fun a b => R (f a) (f b)) l -> StronglySorted R (map f l).
Proof.
  induction 1 as [|x l Hs IH Hall]; [constructor|]. cbn [map]. constructor; [exact IH|].
  apply Forall_forall. intros y Hy. apply elem_of_list_fmap in Hy as (z & -> & Hz).
  exact (proj1 (Forall_forall _ _) Hall z Hz).
Qed.

Lemma sublist_in {A} (l1 l2 : list A) x : l1 `sublist_of` l2 -> x ∈ l1 -> x ∈ l2.
Proof.
  induction 1 as [|y l1 l2 Hs IH|y l1 l2 Hs IH]; intros Hx.
  - exact Hx.
  - apply elem_of_cons in Hx as [->|Hx]; [left|right; auto].
  - right. auto.
Qed.

Lemma sublist_map {A B} (f : A -> B) (l1 l2 : list A) :
  l1 `sublist_of` l2 -> map f l1 `sublist_of` map f l2.
Proof. induction 1; cbn [map]; constructor; assumption. Qed.

Lemma sublist_filter {A} (P : A -> Prop) `{forall x, Decision (P x)} (l : list A) :
  filter P l `sublist_of` l.
Proof.
  induction l as [|x l IH]; [constructor|]. rewrite filter_cons.
  destruct (decide (P x)); [apply sublist_skip|apply sublist_cons]; exact IH.
Qed.

Lemma sublist_NoDup {A} (l1 l2 : list A) : l1 `sublist_of` l2 -> NoDup l2 -> NoDup l1.
Proof.
  induction 1 as [|y l1 l2 Hs IH|y l1 l2 Hs IH]; intros Hnd.
  - exact Hnd.
  - apply NoDup_cons in Hnd as [Hnin Hnd]. apply NoDup_cons. split; [|auto].
    intros Hy. apply Hnin. eapply sublist_in; eassumption.
  - apply NoDup_cons in Hnd as [_ Hnd]. auto.
Qed.

Section items2.
  Context {A : Type} (idf tsf : A -> N).

  Lemma find_id_iff k (l : list A) x :
    NoDup (map idf l) -> (find_id idf k l = Some x <-> x ∈ l /\ idf x = k).
  Proof.
    intros Hnd. split; [apply find_id_Some|]. intros [Hin Hk].
    induction l as [|y r IH]; [inversion Hin|]. cbn [map] in Hnd.
    apply NoDup_cons in Hnd as [Hnin Hnd]. cbn [find_id].
    apply elem_of_cons in Hin as [->|Hin].
    - destruct (N.eqb_spec (idf y) k); [reflexivity|contradiction].
    - destruct (N.eqb_spec (idf y) k) as [E|_]; [|auto].
      exfalso. apply Hnin. rewrite E, <- Hk. apply elem_of_list_fmap_1. assumption.
  Qed.

  Lemma find_id_None_iff k (l : list A) : find_id idf k l = None <-> k ∉ map idf l.
  Proof.
    split; [apply find_id_None|]. intros Hn.
    destruct (find_id idf k l) as [x|] eqn:E; [|reflexivity].
    exfalso. apply find_id_Some in E as [Hin Hk]. apply Hn. rewrite <- Hk.
    apply elem_of_list_fmap_1. assumption.
  Qed.

  (** How a bulk of items relates set and store.  [opf] turns an item into its set
      operation, [stw] writes it to the store. *)
  Context (opf : A -> op) (stw : store -> A -> store) (del : bool).
  Context (Hkey : forall x, op_key (opf x) = idf x) (Hts : forall x, op_ts (opf x) = tsf x)
          (Hdel : forall x, op_del (opf x) = del)
          (Hstw : forall st x k', meta (stw st x) k' =
                                  if decide (k' = idf x) then Some (tsf x, del) else meta st k').

  Lemma meta_foldl_stw (wr : list A) : forall st k,
    NoDup (map idf wr) ->
    meta (foldl stw st wr) k =
    match find_id idf k wr with
    | Some x => Some (tsf x, del)
    | None => meta st k
    end.
  Proof.
    induction wr as [|x r IH]; intros st k Hnd; [reflexivity|].
    cbn [map] in Hnd. apply NoDup_cons in Hnd as [Hnin Hnd].
    cbn [foldl find_id]. rewrite IH by assumption.
    destruct (N.eqb_spec (idf x) k) as [E|Hne].
    - assert (Hn : find_id idf k r = None) by (apply find_id_None_iff; rewrite <- E; exact Hnin).
      rewrite Hn, Hstw. rewrite decide_True by congruence. reflexivity.
    - destruct (find_id idf k r); [reflexivity|]. rewrite Hstw.
      rewrite decide_False by congruence. reflexivity.
  Qed.

  Lemma op_for_map k (l : list A) :
    op_for k (map opf l) = opf <$> find_id idf k l.
  Proof.
    induction l as [|x r IH]; [reflexivity|]. cbn [map op_for find_id]. rewrite Hkey.
    destruct (N.eqb_spec (idf x) k) as [E|Hne].
    - rewrite bool_decide_eq_true_2 by assumption. reflexivity.
    - rewrite bool_decide_eq_false_2 by assumption. exact IH.
  Qed.

  Lemma bulk_agree s st (valid wr fin : list A) :
    Inv s -> Agree s st ->
    Forall (fun x => valid_ts (tsf x) = true /\ (op_src (opf x) < NSRC s)%nat /\
                     will_apply s (idf x) (tsf x) = true) valid ->
    NoDup (map idf valid) ->
    wr `sublist_of` valid ->
    (forall x, x ∈ fin <-> x ∈ valid /\ idf x ∈ map idf wr) ->
    NoDup (map idf fin) ->
    StronglySorted (fun a b => (tsf a <=? tsf b) = true) fin ->
    let s' := foldl (fun s x => (apply_op false s (opf x)).1) s fin in
    Inv s' /\ Agree s' (foldl stw st wr) /\ NSRC s' = NSRC s.
  Proof.
    intros Hi Hag Hall Hnd Hsub Hfin Hndf Hsort s'.
    assert (Es : s' = run_ops false s (map opf fin)).
    { subst s'. unfold run_ops. rewrite foldl_fmap. reflexivity. }
    assert (Hopk : map op_key (map opf fin) = map idf fin).
    { rewrite map_map. apply map_ext. exact Hkey. }
    assert (Hall' : Forall (fun o => valid_ts (op_ts o) = true /\ (op_src o < NSRC s)%nat /\
                                     will_apply s (op_key o) (op_ts o) = true) (map opf fin)).
    { rewrite Forall_forall. intros o Ho. apply elem_of_list_fmap in Ho as (x & -> & Hx).
      rewrite Hkey, Hts. rewrite Forall_forall in Hall. apply Hall. apply Hfin. exact Hx. }
    assert (Hnd' : NoDup (map op_key (map opf fin))) by (rewrite Hopk; exact Hndf).
    assert (Hs' : ops_sorted (map opf fin)).
    { unfold ops_sorted. apply StronglySorted_map.
      eapply StronglySorted_ind with (P := fun l => StronglySorted _ l); [constructor| |exact Hsort].
      intros a l Hl IH Hf. constructor; [exact IH|]. rewrite Forall_forall in *. intros y Hy.
      rewrite !Hts. auto. }
    assert (Hndw : NoDup (map idf wr)).
    { eapply sublist_NoDup; [|exact Hnd]. apply sublist_map. exact Hsub. }
    rewrite Es. split; [|split].
    - apply (bulk_view s (map opf fin) 0 Hi Hall' Hnd' Hs').
    - intros k. destruct (bulk_view s (map opf fin) k Hi Hall' Hnd' Hs') as [_ ->].
      rewrite op_for_map, meta_foldl_stw by assumption.
      destruct (find_id idf k wr) as [x|] eqn:Ew.
      + apply (find_id_iff k wr x Hndw) in Ew as [Hxw Hk].
        assert (Hxv : x ∈ valid) by (eapply sublist_in; eassumption).
        assert (Hxf : x ∈ fin).
        { apply Hfin. split; [assumption|]. apply elem_of_list_fmap_1. assumption. }
        rewrite (proj2 (find_id_iff k fin x Hndf) (conj Hxf Hk)). cbn.
        rewrite Hts, Hdel. reflexivity.
      + apply find_id_None_iff in Ew.
        assert (En : find_id idf k fin = None).
        { apply find_id_None_iff. intros H. apply elem_of_list_fmap in H as (y & -> & Hy).
          apply Hfin in Hy as [_ Hy]. contradiction. }
        rewrite En. cbn. apply Hag.
    - unfold NSRC. clear -Hkey. induction (map opf fin) as [|o l IH] using rev_ind; [reflexivity|].
      unfold run_ops in *. rewrite foldl_app. cbn [foldl]. rewrite apply_op_length. exact IH.
  Qed.
End items2.

(** ** The handlers keep set and store in agreement *)

Definition doc_ok (nsrc : nat) (src : nat) (t : N) : Prop := valid_ts t = true /\ (src < nsrc)%nat.

Definition req_ok (nsrc : nat) (r : request) : Prop :=
  match r with
  | RSet src d => doc_ok nsrc src (d_ts d)
  | RMultiSet src ds => Forall (fun d => doc_ok nsrc src (d_ts d)) ds
  | RDel src m => doc_ok nsrc src (m_ts m)
  | RMultiDel src ms => Forall (fun m => doc_ok nsrc src (m_ts m)) ms
  | RPurge => True
  end.

Definition AInv (x : oset * store) : Prop := Inv x.1 /\ Agree x.1 x.2.

Lemma single_op_agree s st o st' :
  Inv s -> Agree s st -> valid_ts (op_ts o) = true -> (op_src o < NSRC s)%nat ->
  will_apply s (op_key o) (op_ts o) = true ->
  (forall k', meta st' k' = if decide (k' = op_key o) then Some (op_ts o, op_del o) else meta st k') ->
  Inv (apply_op false s o).1 /\ Agree (apply_op false s o).1 st' /\
  NSRC (apply_op false s o).1 = NSRC s.
Proof.
  intros Hi Hag Hv Hsrc Hw Hst.
  destruct (will_apply_accepted s o Hi Hv Hsrc Hw) as [Hacc Hj].
  destruct (apply_op_view false s o (proj1 Hi)) as [Hview _].
  split; [apply apply_op_Inv; assumption|]. split; [|unfold NSRC; apply apply_op_length].
  intros k. rewrite Hview, Hst, Hacc. cbn [andb].
  destruct (decide (k = op_key o)) as [->|Hne].
  - rewrite bool_decide_eq_true_2 by reflexivity. exact Hj.
  - rewrite bool_decide_eq_false_2 by assumption. apply Hag.
Qed.

Lemma on_set_agree s st src d o :
  AInv (s, st) -> req_ok (NSRC s) (RSet src d) ->
  let r := on_set false s st src d o in
  AInv r.1 /\ NSRC r.1.1 = NSRC s.
Proof.
  intros [Hi Hag] [Hv Hsrc]. cbn [fst snd] in *. unfold on_set.
  destruct (will_apply s (d_id d) (d_ts d)) eqn:Hw; cbn [negb]; [|split; [split|]; auto].
  destruct o; cbn [fst snd]; try (split; [split|]; auto; fail).
  destruct (single_op_agree s st (OIns src (d_id d) (d_ts d)) (st_put st (d_id d) (d_ts d) (d_data d))
              Hi Hag Hv Hsrc Hw) as (A & B & C).
  - intros k'. apply meta_put.
  - split; [split|]; assumption.
Qed.

Lemma on_del_agree s st src m o :
  AInv (s, st) -> req_ok (NSRC s) (RDel src m) ->
  let r := on_del false s st src m o in
  AInv r.1 /\ NSRC r.1.1 = NSRC s.
Proof.
  intros [Hi Hag] [Hv Hsrc]. cbn [fst snd] in *. unfold on_del.
  destruct (will_apply s (m_id m) (m_ts m)) eqn:Hw; cbn [negb]; [|split; [split|]; auto].
  destruct o; cbn [fst snd]; try (split; [split|]; auto; fail).
  destruct (single_op_agree s st (ODel src (m_id m) (m_ts m)) (st_tomb st (m_id m) (m_ts m))
              Hi Hag Hv Hsrc Hw) as (A & B & C).
  - intros k'. apply meta_tomb.
  - split; [split|]; assumption.
Qed.

(** The part of a bulk handler that is common to puts and deletes. *)
Section bulk_handler.
  Context {A : Type} (idf tsf : A -> N) (opf : A -> op) (stw : store -> A -> store) (del : bool).
  Context (Hkey : forall x, op_key (opf x) = idf x) (Hts : forall x, op_ts (opf x) = tsf x)
          (Hdel : forall x, op_del (opf x) = del)
          (Hstw : forall st x k', meta (stw st x) k' =
                                  if decide (k' = idf x) then Some (tsf x, del) else meta st k').

  Lemma bulk_handler_agree s st src (items : list A) (o : outcome_s) :
    Inv s -> Agree s st ->
    (forall x, op_src (opf x) = src) ->
    Forall (fun x => doc_ok (NSRC s) src (tsf x)) items ->
    let valid := newest_per_id idf tsf (filter (fun x => will_apply s (idf x) (tsf x) = true) items) in
    let wr := match o with SOk => valid | SFail => [] | SPartial mask => written mask valid end in
    let entries := sort_by_ts tsf valid in
    let fin := match o with
               | SOk => entries
               | _ => filter (fun x => idf x ∈ map idf wr) entries
               end in
    let s' := foldl (fun s x => (apply_op false s (opf x)).1) s fin in
    Inv s' /\ Agree s' (foldl stw st wr) /\ NSRC s' = NSRC s.
  Proof.
    intros Hi Hag Hsrcf Hitems valid wr entries fin s'.
    assert (Hvalid : Forall (fun x => valid_ts (tsf x) = true /\ (op_src (opf x) < NSRC s)%nat /\
                                      will_apply s (idf x) (tsf x) = true) valid).
    { rewrite Forall_forall. intros x Hx. apply newest_per_id_in in Hx.
      apply elem_of_list_filter in Hx as [Hw Hx].
      rewrite Forall_forall in Hitems. destruct (Hitems x Hx) as [Hv Hs].
      rewrite Hsrcf. auto. }
    assert (Hnd : NoDup (map idf valid)) by apply newest_per_id_NoDup.
    assert (Hsubw : wr `sublist_of` valid).
    { subst wr. destruct o; [reflexivity|apply sublist_nil_l|apply written_sublist]. }
    assert (Hent : forall x, x ∈ entries <-> x ∈ valid).
    { intros x. subst entries. rewrite (sort_perm tsf valid). reflexivity. }
    assert (Hfin : forall x, x ∈ fin <-> x ∈ valid /\ idf x ∈ map idf wr).
    { intros x. subst fin. destruct o.
      - subst wr. rewrite Hent. split; [|tauto]. intros Hx. split; [assumption|].
        apply elem_of_list_fmap_1. assumption.
      - rewrite elem_of_list_filter, Hent. tauto.
      - rewrite elem_of_list_filter, Hent. tauto. }
    assert (Hnde : NoDup (map idf entries)).
    { subst entries. assert (Hp : map idf (sort_by_ts tsf valid) ≡ₚ map idf valid).
      { apply fmap_Permutation. apply sort_perm. }
      rewrite Hp. exact Hnd. }
    assert (Hndf : NoDup (map idf fin)).
    { subst fin. destruct o; [exact Hnde| |];
        (eapply sublist_NoDup; [apply sublist_map; apply sublist_filter|exact Hnde]). }
    assert (Hsort : StronglySorted (fun a b => (tsf a <=? tsf b) = true) fin).
    { subst fin entries. destruct o; [apply (sort_sorted idf)| |]; apply StronglySorted_filter; apply (sort_sorted idf). }
    exact (bulk_agree idf tsf opf stw del Hkey Hts Hdel Hstw s st valid wr fin
             Hi Hag Hvalid Hnd Hsubw Hfin Hndf Hsort).
  Qed.
End bulk_handler.

Lemma on_multi_set_agree s st src ds o :
  AInv (s, st) -> req_ok (NSRC s) (RMultiSet src ds) ->
  let r := on_multi_set false true s st src ds o in
  AInv r.1 /\ NSRC r.1.1 = NSRC s.
Proof.
  intros [Hi Hag] Hreq. cbn [fst snd req_ok] in *.
  pose proof (bulk_handler_agree d_id d_ts (fun d => OIns src (d_id d) (d_ts d))
                (fun st d => st_put st (d_id d) (d_ts d) (d_data d)) false
                (fun _ => eq_refl) (fun _ => eq_refl) (fun _ => eq_refl)
                (fun st x k' => meta_put st (d_id x) (d_ts x) (d_data x) k')
                s st src ds o Hi Hag (fun _ => eq_refl) Hreq) as H.
  cbv zeta in H. destruct H as (A & B & C).
  unfold on_multi_set. cbn [fst snd].
  split; [split|]; cbn [fst snd].
  - destruct o; exact A.
  - destruct o; exact B.
  - destruct o; exact C.
Qed.

Lemma on_multi_del_agree s st src ms o :
  AInv (s, st) -> req_ok (NSRC s) (RMultiDel src ms) ->
  let r := on_multi_del false true s st src ms o in
  AInv r.1 /\ NSRC r.1.1 = NSRC s.
Proof.
  intros [Hi Hag] Hreq. cbn [fst snd req_ok] in *.
  pose proof (bulk_handler_agree m_id m_ts (fun m => ODel src (m_id m) (m_ts m))
                (fun st m => st_tomb st (m_id m) (m_ts m)) true
                (fun _ => eq_refl) (fun _ => eq_refl) (fun _ => eq_refl)
                (fun st x k' => meta_tomb st (m_id x) (m_ts x) k')
                s st src ms o Hi Hag (fun _ => eq_refl) Hreq) as H.
  cbv zeta in H. destruct H as (A & B & C).
  unfold on_multi_del. cbn [fst snd].
  split; [split|]; cbn [fst snd].
  - destruct o; exact A.
  - destruct o; exact B.
  - destruct o; exact C.
Qed.

(** ** Purge *)

Lemma meta_foldl_remove (l : list (N * N)) : forall st k,
  meta (foldl (fun st (kt : N * N) => st_remove st kt.1) st l) k =
  if decide (k ∈ l.*1) then None else meta st k.
Proof.
  induction l as [|[k0 d0] r IH]; intros st k.
  - cbn. rewrite decide_False by (intros H; inversion H). reflexivity.
  - cbn [foldl fmap list_fmap fst]. rewrite IH. cbn [fst].
    destruct (decide (k ∈ r.*1)) as [Hin|Hnin].
    + rewrite decide_True by (right; exact Hin). reflexivity.
    + rewrite meta_remove. destruct (decide (k = k0)) as [->|Hne].
      * rewrite decide_True by left. reflexivity.
      * rewrite decide_False; [reflexivity|]. intros H. apply elem_of_cons in H as [H|H]; contradiction.
Qed.

Definition raw_insert (d : gmap N N) (kt : N * N) : gmap N N := <[kt.1 := kt.2]> d.

Lemma raw_notin (l : list (N * N)) : forall (d : gmap N N) k,
  k ∉ l.*1 -> foldl raw_insert d l !! k = d !! k.
Proof.
  induction l as [|[k0 d0] r IH]; intros d k Hn; [reflexivity|].
  cbn [fmap list_fmap fst] in Hn. apply not_elem_of_cons in Hn as [Hne Hn].
  cbn [foldl]. rewrite IH by assumption. unfold raw_insert. cbn [fst snd].
  apply lookup_insert_ne. congruence.
Qed.

Lemma raw_in (l : list (N * N)) : forall (d : gmap N N) k v,
  NoDup l.*1 -> (k, v) ∈ l -> foldl raw_insert d l !! k = Some v.
Proof.
  induction l as [|[k0 d0] r IH]; intros d k v Hnd Hin; [inversion Hin|].
  cbn [fmap list_fmap fst] in Hnd. apply NoDup_cons in Hnd as [Hnin Hnd].
  cbn [foldl]. apply elem_of_cons in Hin as [[= -> ->]|Hin].
  - rewrite raw_notin by exact Hnin. unfold raw_insert. cbn [fst snd]. apply lookup_insert.
  - apply IH; assumption.
Qed.

Lemma add_raw_dead s l : dead (add_raw_tombstones s l) = foldl raw_insert (dead s) l.
Proof. reflexivity. Qed.

Lemma on_purge_agree s st o :
  AInv (s, st) ->
  let r := on_purge s st o in
  AInv r.1 /\ NSRC r.1.1 = NSRC s.
Proof.
  intros [Hi Hag]. cbn [fst snd] in *. unfold on_purge.
  destruct (set_purge s) as [purged s1] eqn:Ep.
  assert (Hp : forall k d, (k, d) ∈ purged <-> dead s !! k = Some d /\ before (versions s) d = true).
  { intros k d. pose proof (purge_purged s k d) as H. rewrite Ep in H. exact H. }
  assert (Hs1 : s1 = (set_purge s).2) by (rewrite Ep; reflexivity).
  assert (Hi1 : Inv s1) by (rewrite Hs1; apply purge_Inv; exact Hi).
  assert (He1 : entries s1 = entries s) by (rewrite Hs1; reflexivity).
  assert (Hndp : NoDup purged.*1).
  { assert (E : purged = (set_purge s).1) by (rewrite Ep; reflexivity). rewrite E.
    unfold set_purge. cbn [fst]. apply NoDup_fmap_fst.
    - intros k t1 t2 H1 H2. apply elem_of_list_filter in H1 as [_ H1], H2 as [_ H2].
      apply elem_of_map_to_list in H1, H2. congruence.
    - apply NoDup_filter. apply NoDup_map_to_list. }
  (* a purged key is a tombstone of s, hence not live *)
  assert (Hpt : forall k d, (k, d) ∈ purged -> entries s !! k = None /\ view s k = Some (d, true)).
  { intros k d Hin. apply Hp in Hin as [Hd _]. destruct (proj1 Hi k) as [He|Hn]; [|congruence].
    split; [exact He|]. unfold view. rewrite He, Hd. reflexivity. }
  (* the view after the purge *)
  assert (Hv1 : forall k, view s1 k = if decide (k ∈ purged.*1) then None else view s k).
  { intros k. rewrite Hs1. destruct (purge_view s k) as [E|(d & Ev & Hb & En)].
    - destruct (decide (k ∈ purged.*1)) as [Hin|_]; [|exact E].
      exfalso. apply elem_of_list_fmap in Hin as ([k' d] & -> & Hin). cbn [fst] in *.
      destruct (Hpt _ _ Hin) as [He Hv]. apply Hp in Hin as [Hd Hb].
      rewrite Hv in E. unfold view in E. rewrite purge_entries, He in E.
      destruct (dead (set_purge s).2 !! k') as [d'|] eqn:Er; [|discriminate].
      injection E as ->. apply purge_remaining in Er as [_ Er]. congruence.
    - rewrite En. rewrite decide_True; [reflexivity|].
      apply elem_of_list_fmap. exists (k, d). split; [reflexivity|]. apply Hp. split; [|assumption].
      unfold view in Ev. destruct (entries s !! k); [discriminate|].
      destruct (dead s !! k); congruence. }
  set (removed := match o with SOk => purged | SFail => [] | SPartial mask => written mask purged end).
  assert (Hsub : removed `sublist_of` purged).
  { subst removed. destruct o; [reflexivity|apply sublist_nil_l|apply written_sublist]. }
  set (back := filter (fun kt : N * N => kt.1 ∉ map fst removed) purged).
  assert (Hback : forall k d, (k, d) ∈ back <-> (k, d) ∈ purged /\ k ∉ removed.*1).
  { intros k d. subst back. rewrite elem_of_list_filter. cbn [fst]. tauto. }
  assert (Hndb : NoDup back.*1).
  { eapply sublist_NoDup; [apply sublist_map; apply sublist_filter|exact Hndp]. }
  (* the view after re-adding what was not removed *)
  assert (Hvb : forall k, view (add_raw_tombstones s1 back) k =
                          if decide (k ∈ removed.*1) then None else view s k).
  { intros k. unfold view. rewrite add_raw_dead. cbn [add_raw_tombstones entries]. rewrite He1.
    destruct (decide (k ∈ back.*1)) as [Hb|Hnb].
    - apply elem_of_list_fmap in Hb as ([k' d] & -> & Hin). cbn [fst].
      rewrite (raw_in back (dead s1) k' d Hndb Hin).
      apply Hback in Hin as [Hin Hnr]. destruct (Hpt _ _ Hin) as [He Hv].
      rewrite decide_False by exact Hnr. rewrite He. unfold view in Hv. rewrite He in Hv.
      destruct (dead s !! k'); congruence.
    - rewrite raw_notin by exact Hnb.
      pose proof (Hv1 k) as Hk1. unfold view in Hk1. rewrite He1 in Hk1. rewrite Hk1.
      destruct (decide (k ∈ purged.*1)) as [Hin|Hnin].
      + apply elem_of_list_fmap in Hin as ([k' d] & -> & Hin). cbn [fst] in *.
        destruct (decide (k' ∈ removed.*1)) as [Hr|Hnr]; [reflexivity|].
        exfalso. apply Hnb. apply elem_of_list_fmap. exists (k', d). split; [reflexivity|].
        apply Hback. auto.
      + rewrite decide_False; [reflexivity|].
        intros Hr. apply Hnin. apply elem_of_list_fmap in Hr as (x & -> & Hx).
        apply elem_of_list_fmap_1. eapply sublist_in; eassumption. }
  assert (Hib : Inv (add_raw_tombstones s1 back)).
  { split; [|exact (proj2 Hi1)]. intros k. cbn [add_raw_tombstones entries]. rewrite add_raw_dead, He1.
    destruct (decide (k ∈ back.*1)) as [Hb|Hnb].
    - left. apply elem_of_list_fmap in Hb as ([k' d] & -> & Hin). cbn [fst].
      apply Hback in Hin as [Hin _]. apply (Hpt _ _ Hin).
    - rewrite raw_notin by exact Hnb. rewrite <- He1. apply (proj1 Hi1 k). }
  assert (Hagb : Agree (add_raw_tombstones s1 back)
                       (foldl (fun st (kt : N * N) => st_remove st kt.1) st removed)).
  { intros k. rewrite Hvb, meta_foldl_remove. destruct (decide (k ∈ removed.*1)); [reflexivity|apply Hag]. }
  destruct o; cbn [fst snd].
  - (* SOk: removed = purged, nothing to re-add *)
    split; [split; [exact Hi1|]|rewrite Hs1; reflexivity].
    intros k. cbn [fst snd]. rewrite Hv1. subst removed. rewrite meta_foldl_remove.
    destruct (decide (k ∈ purged.*1)); [reflexivity|apply Hag].
  - split; [split; [exact Hib|exact Hagb]|]. unfold NSRC. cbn. rewrite Hs1. reflexivity.
  - split; [split; [exact Hib|exact Hagb]|]. unfold NSRC. cbn. rewrite Hs1. reflexivity.
Qed.

(** ** C02: after every request, with every storage outcome, set and store agree *)

Lemma actor_step_agree x r o :
  AInv x -> req_ok (NSRC x.1) r ->
  AInv (actor_step false true x r o).1 /\ NSRC (actor_step false true x r o).1.1 = NSRC x.1.
Proof.
  destruct x as [s st]. intros HA Hr. destruct r; cbn [actor_step fst].
  - apply on_set_agree; assumption.
  - apply on_multi_set_agree; assumption.
  - apply on_del_agree; assumption.
  - apply on_multi_del_agree; assumption.
  - apply on_purge_agree; assumption.
Qed.

Lemma actor_run_agree rs : forall x,
  AInv x -> Forall (fun ro => req_ok (NSRC x.1) ro.1) rs ->
  AInv (actor_run false true x rs) /\ NSRC (actor_run false true x rs).1 = NSRC x.1.
Proof.
  induction rs as [|[r o] rs IH]; intros x HA Hall; [split; [exact HA|reflexivity]|].
  inversion Hall as [|? ? Hr Hall']; subst. cbn [fst] in Hr.
  destruct (actor_step_agree x r o HA Hr) as [HA' Hn].
  unfold actor_run. cbn [foldl fst snd]. fold (actor_run false true (actor_step false true x r o).1 rs).
  destruct (IH (actor_step false true x r o).1 HA') as [A B].
  - eapply Forall_impl; [exact Hall'|]. intros ro H. rewrite Hn. exact H.
  - split; [exact A|]. rewrite B. exact Hn.
Qed.

Lemma AInv_empty nsrc : (nsrc > 0)%nat -> AInv (empty_set nsrc, ∅).
Proof.
  intros Hn. split; [apply Inv_empty; assumption|].
  intros k. cbn [fst snd]. rewrite view_empty. unfold meta. rewrite lookup_empty. reflexivity.
Qed.

(** ** C07: a restart rebuilds exactly what storage holds *)

Definition StoreValid (st : store) : Prop :=
  forall k t p, st !! k = Some (t, p) -> valid_ts t = true.

Definition row_op (r : N * (N * bool)) : op :=
  if r.2.2 then ODel 0 r.1 r.2.1 else OIns 0 r.1 r.2.1.

Lemma meta_list_spec st k t b : (k, (t, b)) ∈ meta_list st <-> meta st k = Some (t, b).
Proof.
  unfold meta_list, meta. rewrite elem_of_list_omap. split.
  - intros ([k' [t' p]] & Hin & Hx). apply elem_of_map_to_list in Hin. cbn [fst snd] in Hx.
    destruct p; injection Hx as -> -> ->; rewrite Hin; reflexivity.
  - intros H. destruct (st !! k) as [[t' p]|] eqn:E; [|discriminate].
    exists (k, (t', p)). split; [apply elem_of_map_to_list; exact E|]. cbn [fst snd].
    destruct p; injection H as -> ->; reflexivity.
Qed.

Lemma meta_list_NoDup st : NoDup (meta_list st).*1.
Proof.
  unfold meta_list.
  assert (H : forall l : list (N * (N * option N)), NoDup l.*1 ->
            NoDup (omap (fun kv : N * (N * option N) =>
                     match kv.2 with (t, Some _) => Some (kv.1, (t, false))
                                   | (t, None) => Some (kv.1, (t, true)) end) l).*1).
  { induction l as [|[k [t p]] l IH]; [constructor|]. cbn [fmap list_fmap fst]. intros Hnd.
    apply NoDup_cons in Hnd as [Hnin Hnd]. cbn [omap list_omap fst snd].
    destruct p; cbn [fmap list_fmap fst]; (apply NoDup_cons; split; [|apply IH; exact Hnd]);
      intros Hin; apply Hnin; apply elem_of_list_fmap in Hin as ([k' x] & Hk & Hin); cbn in Hk; subst k';
      apply elem_of_list_omap in Hin as ([k2 [t2 p2]] & Hin2 & Hx); cbn [fst snd] in Hx;
      (destruct p2; injection Hx as -> _); apply elem_of_list_fmap; eexists; (split; [|exact Hin2]); reflexivity. }
  apply H. apply NoDup_fst_map_to_list.
Qed.

Lemma rebuild_run_ops nsrc st :
  rebuild nsrc st =
  run_ops false (empty_set nsrc) (map row_op (sort_by_ts (fun r : N * (N * bool) => r.2.1) (meta_list st))).
Proof.
  unfold rebuild, run_ops. rewrite foldl_fmap. generalize (empty_set nsrc).
  induction (sort_by_ts (fun r : N * (N * bool) => r.2.1) (meta_list st)) as [|[k' [t b]] rows' IHr]; intros s0; [reflexivity|].
  cbn [foldl]. rewrite <- IHr. unfold row_op. cbn [fst snd]. destruct b; reflexivity.
Qed.

Lemma run_ops_length legacy ops : forall s,
  length (maxs (versions (run_ops legacy s ops))) = length (maxs (versions s)).
Proof.
  induction ops as [|o ops IH]; intros s; [reflexivity|].
  unfold run_ops in *. cbn [foldl]. rewrite IH. apply apply_op_length.
Qed.

Lemma run_ops_MaxsFrom legacy ops S : forall s,
  MaxsFrom (versions s) S -> Forall (fun o => op_ts o ∈ S) ops ->
  MaxsFrom (versions (run_ops legacy s ops)) S.
Proof.
  induction ops as [|o ops IH]; intros s Hs Hall; [exact Hs|].
  inversion Hall as [|? ? Ho Hall']; subst. unfold run_ops in *. cbn [foldl]. apply IH; [|exact Hall'].
  eapply MaxsFrom_mono; [apply apply_op_MaxsFrom; exact Hs|].
  intros y Hy. apply elem_of_cons in Hy as [->|Hy]; assumption.
Qed.

(** The stamps a rebuilt set records are stamps of the store's rows. *)
Lemma rebuild_MaxsFrom nsrc st S :
  (forall k t b, meta st k = Some (t, b) -> t ∈ S) -> MaxsFrom (versions (rebuild nsrc st)) S.
Proof.
  intros Hst. rewrite rebuild_run_ops. apply run_ops_MaxsFrom; [apply MaxsFrom_empty|].
  rewrite Forall_forall. intros o Ho. apply elem_of_list_fmap in Ho as ([k [t b]] & -> & Hin).
  rewrite sort_perm in Hin. apply meta_list_spec in Hin.
  unfold row_op. cbn [fst snd]. destruct b; cbn [op_ts]; eapply Hst; exact Hin.
Qed.

Lemma rebuild_length nsrc st : NSRC (rebuild nsrc st) = nsrc.
Proof. unfold NSRC. rewrite rebuild_run_ops, run_ops_length. cbn. apply replicate_length. Qed.

Lemma rebuild_view nsrc st k :
  (nsrc > 0)%nat -> StoreValid st ->
  Inv (rebuild nsrc st) /\ view (rebuild nsrc st) k = meta st k.
Proof.
  intros Hn Hsv. unfold rebuild.
  set (rows := sort_by_ts (fun r : N * (N * bool) => r.2.1) (meta_list st)).
  assert (Er : foldl (fun s (r : N * (N * bool)) =>
                 if r.2.2 then (delete_ws false s 0 r.1 r.2.1).1 else (insert_ws false s 0 r.1 r.2.1).1)
                 (empty_set nsrc) rows = run_ops false (empty_set nsrc) (map row_op rows)).
  { unfold run_ops. rewrite foldl_fmap. generalize (empty_set nsrc).
    induction rows as [|[k' [t b]] rows' IHr]; intros s0; [reflexivity|].
    cbn [foldl]. rewrite <- IHr. unfold row_op. cbn [fst snd]. destruct b; reflexivity. }
  rewrite Er.
  assert (Hperm : rows ≡ₚ meta_list st) by apply sort_perm.
  assert (Hkeys : map op_key (map row_op rows) = rows.*1).
  { rewrite map_map. apply map_ext. intros [k' [t b]]. unfold row_op. destruct b; reflexivity. }
  assert (Hnd : NoDup (map op_key (map row_op rows))).
  { rewrite Hkeys. assert (Hp : rows.*1 ≡ₚ (meta_list st).*1) by (apply fmap_Permutation; exact Hperm).
    rewrite Hp. apply meta_list_NoDup. }
  assert (Hall : Forall (fun o => valid_ts (op_ts o) = true /\ (op_src o < NSRC (empty_set nsrc))%nat /\
                                  will_apply (empty_set nsrc) (op_key o) (op_ts o) = true)
                        (map row_op rows)).
  { rewrite Forall_forall. intros o Ho. apply elem_of_list_fmap in Ho as ([k' [t b]] & -> & Hin).
    rewrite Hperm in Hin. apply meta_list_spec in Hin.
    assert (Hv : valid_ts t = true).
    { unfold meta in Hin. destruct (st !! k') as [[t' p]|] eqn:E; [|discriminate].
      destruct p; injection Hin as -> _; eapply Hsv; exact E. }
    unfold row_op. cbn [fst snd]. destruct b; cbn [op_ts op_src op_key];
      (split; [exact Hv|]; split; [unfold NSRC; cbn; rewrite replicate_length; lia|reflexivity]). }
  assert (Hsorted : ops_sorted (map row_op rows)).
  { unfold ops_sorted. apply StronglySorted_map.
    pose proof (sort_sorted (fun r : N * (N * bool) => r.1) (fun r : N * (N * bool) => r.2.1) (meta_list st)) as Hs.
    fold rows in Hs. eapply StronglySorted_ind with (P := fun l => StronglySorted _ l); [constructor| |exact Hs].
    intros a l Hl IH Hf. constructor; [exact IH|]. apply Forall_forall. intros y Hy.
    pose proof (proj1 (Forall_forall _ _) Hf y Hy) as Hle. cbn in Hle.
    destruct a as [ka [ta ba]], y as [ky [ty bty]]. unfold row_op. cbn [fst snd] in *.
    destruct ba, bty; exact Hle. }
  destruct (bulk_view (empty_set nsrc) (map row_op rows) k (Inv_empty nsrc Hn) Hall Hnd Hsorted) as [Hi Hv].
  split; [exact Hi|]. rewrite Hv, view_empty.
  destruct (op_for k (map row_op rows)) as [o|] eqn:Eo.
  - destruct (op_for_Some _ _ _ Eo) as [Hin Hk].
    apply elem_of_list_fmap in Hin as ([k' [t b]] & -> & Hin). rewrite Hperm in Hin.
    apply meta_list_spec in Hin. unfold row_op in *. cbn [fst snd] in *.
    destruct b; cbn [op_key op_ts op_del] in *; subst k'; symmetry; exact Hin.
  - destruct (meta st k) as [[t b]|] eqn:Em; [|reflexivity].
    exfalso. apply meta_list_spec in Em. rewrite <- Hperm in Em.
    assert (Hin : row_op (k, (t, b)) ∈ map row_op rows) by (apply elem_of_list_fmap_1; exact Em).
    rewrite (op_for_in k _ _ Hnd Hin) in Eo; [discriminate|]. unfold row_op. cbn. destruct b; reflexivity.
Qed.

(** The stamps a store holds after any request history are valid. *)
Definition doc_ts_ok (r : request) : Prop :=
  match r with
  | RSet _ d => valid_ts (d_ts d) = true
  | RMultiSet _ ds => Forall (fun d => valid_ts (d_ts d) = true) ds
  | RDel _ m => valid_ts (m_ts m) = true
  | RMultiDel _ ms => Forall (fun m => valid_ts (m_ts m) = true) ms
  | RPurge => True
  end.

(** Agreement transfers validity from the set side: every stamp the store holds is a stamp
    the set holds. *)
Lemma agree_store_valid s st :
  Agree s st -> ViewOk s -> StoreValid st.
Proof.
  intros Hag Hok k t p Hl. specialize (Hag k). unfold meta in Hag. rewrite Hl in Hag.
  destruct p; eapply Hok; exact Hag.
Qed.

(** C07 (2)/(3): whatever the request history and wherever the node is stopped between
    requests, the set rebuilt from the store shows exactly what the running set showed;
    in particular everything visible before the stop is visible after the restart. *)
Lemma restart_preserves_view nsrc x k :
  (nsrc > 0)%nat -> AInv x -> StoreValid x.2 ->
  view (rebuild nsrc x.2) k = view x.1 k.
Proof.
  intros Hn [Hi Hag] Hsv. destruct (rebuild_view nsrc x.2 k Hn Hsv) as [_ ->]. symmetry. apply Hag.
Qed.

(** Stores only ever hold stamps that requests carried. *)
Lemma foldl_put_valid (wr : list doc) : forall st,
  StoreValid st -> Forall (fun d => valid_ts (d_ts d) = true) wr ->
  StoreValid (foldl (fun st d => st_put st (d_id d) (d_ts d) (d_data d)) st wr).
Proof.
  induction wr as [|d r IH]; intros st Hs Hall; [exact Hs|].
  inversion Hall; subst. cbn [foldl]. apply IH; [|assumption].
  intros k t p. unfold st_put. destruct (decide (k = d_id d)) as [->|Hne].
  - rewrite lookup_insert. intros [= <- _]. assumption.
  - rewrite lookup_insert_ne by congruence. apply Hs.
Qed.

Lemma foldl_tomb_valid (wr : list dmeta) : forall st,
  StoreValid st -> Forall (fun m => valid_ts (m_ts m) = true) wr ->
  StoreValid (foldl (fun st m => st_tomb st (m_id m) (m_ts m)) st wr).
Proof.
  induction wr as [|d r IH]; intros st Hs Hall; [exact Hs|].
  inversion Hall; subst. cbn [foldl]. apply IH; [|assumption].
  intros k t p. unfold st_tomb. destruct (decide (k = m_id d)) as [->|Hne].
  - rewrite lookup_insert. intros [= <- _]. assumption.
  - rewrite lookup_insert_ne by congruence. apply Hs.
Qed.

Lemma foldl_remove_valid (l : list (N * N)) : forall st,
  StoreValid st -> StoreValid (foldl (fun st (kt : N * N) => st_remove st kt.1) st l).
Proof.
  induction l as [|x r IH]; intros st Hs; [exact Hs|]. cbn [foldl]. apply IH.
  intros k t p. unfold st_remove. destruct (decide (k = x.1)) as [->|Hne].
  - rewrite lookup_delete. discriminate.
  - rewrite lookup_delete_ne by congruence. apply Hs.
Qed.

Lemma written_Forall {A} (P : A -> Prop) mask (l : list A) : Forall P l -> Forall P (written mask l).
Proof.
  intros H. rewrite Forall_forall in *. intros x Hx. apply H.
  eapply sublist_in; [apply written_sublist|exact Hx].
Qed.

Lemma actor_step_store_valid legacy dedup x r o :
  StoreValid x.2 -> doc_ts_ok r -> StoreValid (actor_step legacy dedup x r o).1.2.
Proof.
  destruct x as [s st]. cbn [snd]. intros Hs Hr. destruct r; cbn [actor_step doc_ts_ok] in *.
  - unfold on_set. destruct (negb _); [exact Hs|]. destruct o; cbn [fst snd]; try exact Hs.
    intros k t p. unfold st_put. destruct (decide (k = d_id d)) as [->|Hne].
    + rewrite lookup_insert. intros [= <- _]. assumption.
    + rewrite lookup_insert_ne by congruence. apply Hs.
  - unfold on_multi_set. cbn [fst snd]. apply foldl_put_valid; [exact Hs|].
    set (valid0 := filter (fun d => will_apply s (d_id d) (d_ts d) = true) ds).
    assert (Hv : Forall (fun d => valid_ts (d_ts d) = true)
                        (if dedup then newest_per_id d_id d_ts valid0 else valid0)).
    { rewrite Forall_forall in *. intros d Hd. apply Hr.
      destruct dedup; [apply newest_per_id_in in Hd|]; apply elem_of_list_filter in Hd as [_ Hd]; exact Hd. }
    destruct o; [exact Hv|constructor|apply written_Forall; exact Hv].
  - unfold on_del. destruct (negb _); [exact Hs|]. destruct o; cbn [fst snd]; try exact Hs.
    intros k t p. unfold st_tomb. destruct (decide (k = m_id m)) as [->|Hne].
    + rewrite lookup_insert. intros [= <- _]. assumption.
    + rewrite lookup_insert_ne by congruence. apply Hs.
  - unfold on_multi_del. cbn [fst snd]. apply foldl_tomb_valid; [exact Hs|].
    set (valid0 := filter (fun m => will_apply s (m_id m) (m_ts m) = true) ms).
    assert (Hv : Forall (fun m => valid_ts (m_ts m) = true)
                        (if dedup then newest_per_id m_id m_ts valid0 else valid0)).
    { rewrite Forall_forall in *. intros d Hd. apply Hr.
      destruct dedup; [apply newest_per_id_in in Hd|]; apply elem_of_list_filter in Hd as [_ Hd]; exact Hd. }
    destruct o; [exact Hv|constructor|apply written_Forall; exact Hv].
  - unfold on_purge. destruct (set_purge s) as [purged s1].
    destruct o; cbn [fst snd]; apply foldl_remove_valid; exact Hs.
Qed.

Lemma actor_run_store_valid legacy dedup rs : forall x,
  StoreValid x.2 -> Forall (fun ro => doc_ts_ok ro.1) rs -> StoreValid (actor_run legacy dedup x rs).2.
Proof.
  induction rs as [|[r o] rs IH]; intros x Hs Hall; [exact Hs|].
  inversion Hall; subst. unfold actor_run. cbn [foldl]. apply IH; [|assumption].
  apply actor_step_store_valid; assumption.
Qed.

Lemma req_ok_ts nsrc r : req_ok nsrc r -> doc_ts_ok r.
Proof.
  destruct r; cbn [req_ok doc_ts_ok]; unfold doc_ok.
  - intros [H _]. exact H.
  - intros H. eapply Forall_impl; [exact H|]. intros ? [? _]. assumption.
  - intros [H _]. exact H.
  - intros H. eapply Forall_impl; [exact H|]. intros ? [? _]. assumption.
  - tauto.
Qed.

(** C07 for every request history from the empty node and every stop between requests. *)
Lemma restart_after_history nsrc rs k :
  (nsrc > 0)%nat ->
  Forall (fun ro => req_ok nsrc ro.1) rs ->
  let x := actor_run false true (empty_set nsrc, ∅) rs in
  Inv (rebuild nsrc x.2) /\
  view (rebuild nsrc x.2) k = meta x.2 k /\
  view (rebuild nsrc x.2) k = view x.1 k.
Proof.
  intros Hn Hall x.
  assert (Hns : NSRC (empty_set nsrc) = nsrc) by (unfold NSRC; cbn; apply replicate_length).
  destruct (actor_run_agree rs (empty_set nsrc, ∅) (AInv_empty nsrc Hn)) as [HA _].
  { cbn [fst]. rewrite Hns. exact Hall. }
  assert (Hsv : StoreValid x.2).
  { apply actor_run_store_valid.
    - intros k' t p. cbn. rewrite lookup_empty. discriminate.
    - eapply Forall_impl; [exact Hall|]. intros ro. apply req_ok_ts. }
  destruct (rebuild_view nsrc x.2 k Hn Hsv) as [Hi Hv].
  split; [exact Hi|]. split; [exact Hv|]. rewrite Hv. symmetry. apply HA.
Qed.

(** ... and for a stop in the middle of a request, after its storage write: whatever the
    store then holds (any outcome of the write) is what the restarted node shows. *)
Lemma restart_mid_request nsrc rs r o k :
  (nsrc > 0)%nat ->
  Forall (fun ro => doc_ts_ok ro.1) rs -> doc_ts_ok r ->
  let st' := (actor_step false true (actor_run false true (empty_set nsrc, ∅) rs) r o).1.2 in
  view (rebuild nsrc st') k = meta st' k.
Proof.
  intros Hn Hall Hr st'.
  assert (Hsv : StoreValid st').
  { apply actor_step_store_valid; [|exact Hr]. apply actor_run_store_valid; [|exact Hall].
    intros k' t p. cbn. rewrite lookup_empty. discriminate. }
  apply rebuild_view; assumption.
Qed.
