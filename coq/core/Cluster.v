(** * Cluster: N nodes, one keyspace — client operations, replication messages, repair
    exchanges, purges and restarts as a labelled transition system over the actor model.

    Every node is an [(oset * store)] driven only through [actor_step] (source 0 for
    client and replication traffic, source 1 for repair).  Stamps are arguments of the
    issue events (the implementation draws them from its hybrid clock: C09/C11). *)

From stdpp Require Import gmap list.
From Coq Require Import NArith.
From DC Require Import Ts Orswot Actor.
Open Scope N_scope.

Definition nodestate : Type := oset * gmap N (N * option N).

(** A client mutation as the distributor and the RPC payloads carry it. *)
Inductive mutation :=
| MPut (d : doc)
| MPutMany (ds : list doc)
| MDel (m : dmeta)
| MDelMany (ms : list dmeta).

(** The request a node executes for a mutation arriving through [src]. *)
Definition mutation_request (src : nat) (m : mutation) : request :=
  match m with
  | MPut d => RSet src d
  | MPutMany ds => RMultiSet src ds
  | MDel x => RDel src x
  | MDelMany xs => RMultiDel src xs
  end.

(** A batch as [BatchPayload] for one keyspace: all deletes of the window, then all
    puts of the window (the handler applies [removed] before [modified]). *)
Definition batch_requests (ms : list mutation) : list request :=
  let dels := flat_map (fun m => match m with MDel x => [x] | MDelMany xs => xs | _ => [] end) ms in
  let puts := flat_map (fun m => match m with MPut d => [d] | MPutMany ds => ds | _ => [] end) ms in
  (match dels with [] => [] | _ => [RMultiDel 0 dels] end) ++
  (match puts with [] => [] | _ => [RMultiSet 0 puts] end).

Definition apply_req (x : nodestate) (r : request) : nodestate := (actor_step false true x r SOk).1.

Definition apply_reqs (x : nodestate) (rs : list request) : nodestate := foldl apply_req x rs.

(** What a repairing node [j] asks of peer [i]'s set: the two lists of [diff]. *)
Definition exchange_diff (xj xi : nodestate) : list (N * N) * list (N * N) :=
  set_diff xj.1 xi.1.

(** The removal half: one [Del] for a single removal, else a [MultiDel], on source 1. *)
Definition removal_requests (removed : list (N * N)) : list request :=
  match removed with
  | [] => []
  | [kt] => [RDel 1 (mkMeta kt.1 kt.2)]
  | _ => [RMultiDel 1 (map (fun kt => mkMeta kt.1 kt.2) removed)]
  end.

(** The modification half: the documents are fetched from the peer's store as it is at
    fetch time (ids whose document is gone are simply not returned), then one [MultiSet]
    on source 1. *)
Definition fetch_docs (xi : nodestate) (ids : list N) : list doc :=
  omap (fun k => match st_get xi.2 k with Some (t, p) => Some (mkDoc k t p) | None => None end) ids.

Definition modified_requests (xi : nodestate) (modified : list (N * N)) : list request :=
  match modified with
  | [] => []
  | _ => [RMultiSet 1 (fetch_docs xi (map fst modified))]
  end.

(** ** Events *)

Inductive cevent :=
| CIssue (i : nat) (m : mutation) (acks : list nat)
    (* node i applies m locally (source 0); the nodes in [acks] receive the direct
       replication message and apply it (source 0) *)
| CBatch (j : nat) (ms : list mutation)
    (* node j receives a batch of earlier mutations *)
| CRepair (j i : nat)
    (* a complete exchange: snapshot, diff, removals, fetch + modifications *)
| CDiffRemovals (j : nat) (removed : list (N * N))
| CFetchApply (j i : nat) (modified : list (N * N))
| CPurge (i : nat)
| CRestart (i : nat).

Definition upd (c : list nodestate) (i : nat) (x : nodestate) : list nodestate := <[i := x]> c.

Definition node (c : list nodestate) (i : nat) : nodestate :=
  default (empty_set 2, ∅) (c !! i).

Definition cstep (c : list nodestate) (e : cevent) : list nodestate :=
  match e with
  | CIssue i m acks =>
      let c1 := upd c i (apply_req (node c i) (mutation_request 0 m)) in
      foldl (fun c j => upd c j (apply_req (node c j) (mutation_request 0 m))) c1 acks
  | CBatch j ms => upd c j (apply_reqs (node c j) (batch_requests ms))
  | CRepair j i =>
      let '(modified, removed) := exchange_diff (node c j) (node c i) in
      let xj := apply_reqs (node c j) (removal_requests removed) in
      upd c j (apply_reqs xj (modified_requests (node c i) modified))
  | CDiffRemovals j removed => upd c j (apply_reqs (node c j) (removal_requests removed))
  | CFetchApply j i modified => upd c j (apply_reqs (node c j) (modified_requests (node c i) modified))
  | CPurge i => upd c i (actor_step false true (node c i) RPurge SOk).1
  | CRestart i => upd c i (rebuild 2 (node c i).2, (node c i).2)
  end.

Definition crun (c : list nodestate) (es : list cevent) : list nodestate := foldl cstep c es.

Definition cinit (n : nat) : list nodestate := replicate n (empty_set 2, ∅).

(** The live documents a node serves: id -> (stamp, payload). *)
Definition live_docs (x : nodestate) : list (N * (N * N)) :=
  omap (fun kv => match kv.2 with (t, Some p) => Some (kv.1, (t, p)) | _ => None end) (map_to_list x.2).

(** ** [handle_consistency_distribution]: one request per selected node, successes counted
       against the number of selected nodes. *)
Inductive dist_result :=
| DOk
| DConsistencyFailure (responses required : nat).

Definition distribute (sel : list nat) (acked : nat -> bool) : dist_result :=
  let ok := length (filter (fun j => acked j = true) sel) in
  if Nat.eqb ok (length sel) then DOk else DConsistencyFailure ok (length sel).

(** The replicas a consistency level requires besides the issuer, in a cluster of [n]
    members (one data centre): a majority counting the issuer for the quorum levels. *)
Inductive level := LNone | LOne | LTwo | LThree | LQuorum | LLocalQuorum | LAll | LEachQuorum.

Definition required (l : level) (n : nat) : nat :=
  match l with
  | LNone => 0
  | LOne => 1
  | LTwo => 2
  | LThree => 3
  | LQuorum | LLocalQuorum | LEachQuorum => n / 2
  | LAll => n - 1
  end.
