(** * PollerPlan: the repair poller's membership handling and sync plan together

    The poller drains the same membership changes as the task distributor and keeps, besides the
    live map, the stamps it recorded per member ([KeyspaceTracker]).  A node that left loses its
    recorded stamps - also when the same change lists it as joined again (an address change, a
    restart under a new address): the next poll of that node plans every keyspace it reports. *)

From stdpp Require Import gmap list.
From Coq Require Import NArith.
From DC Require Import Ts Orswot Actor Cluster Distributor DistributorProofs TsDiff TsDiffProofs.
Open Scope N_scope.

Record pstate := mkP { p_live : gmap nat N; p_tracker : gmap nat (gmap N N) }.

(** [Op::MembershipChange] in the poller's loop. *)
Definition poller_apply (s : pstate) (joined left : list (nat * N)) : pstate :=
  mkP (member_apply (p_live s) joined left)
      (foldl (fun t m => delete m.1 t) (p_tracker s) left).

(** [KeyspaceTracker::get_diff]: an unknown node has no recorded stamps. *)
Definition poller_plan (s : pstate) (node : nat) (reported : gmap N N) : list N :=
  ts_diff (default ∅ (p_tracker s !! node)) reported.

(** [KeyspaceTracker::set_keyspace] after a successful exchange. *)
Definition poller_record (s : pstate) (node : nat) (k t : N) : pstate :=
  mkP (p_live s) (<[node := <[k := t]> (default ∅ (p_tracker s !! node))]> (p_tracker s)).

Lemma foldl_delete_tracker_in (l : list (nat * N)) : forall (t : gmap nat (gmap N N)) i,
  i ∈ l.*1 -> foldl (fun t m => delete m.1 t) t l !! i = None.
Proof.
  induction l as [|m l IH]; intros t i Hin; cbn [foldl].
  - cbn in Hin. apply elem_of_nil in Hin. destruct Hin.
  - cbn in Hin. apply elem_of_cons in Hin. destruct Hin as [->|Hin].
    + clear IH. generalize (delete m.1 t), (lookup_delete t m.1). induction l as [|m' l IH];
        intros t' Hn; cbn [foldl]; [exact Hn|].
      apply IH. destruct (decide (m'.1 = m.1)) as [->|Hne].
      * apply lookup_delete.
      * rewrite lookup_delete_ne by exact Hne. exact Hn.
    + apply IH. exact Hin.
Qed.

Lemma foldl_delete_tracker_other (l : list (nat * N)) : forall (t : gmap nat (gmap N N)) i,
  i ∉ l.*1 -> foldl (fun t m => delete m.1 t) t l !! i = t !! i.
Proof.
  induction l as [|m l IH]; intros t i Hn; cbn [foldl]; [reflexivity|].
  cbn in Hn. apply not_elem_of_cons in Hn. destruct Hn as [Hne Hn].
  rewrite IH by exact Hn. apply lookup_delete_ne. congruence.
Qed.

(** With nothing recorded, the plan is every keyspace the peer reports. *)
Lemma plan_of_unknown_node reported k :
  k ∈ ts_diff ∅ reported <-> is_Some (reported !! k).
Proof.
  rewrite ts_diff_spec, lookup_empty. split.
  - intros Hne. destruct (reported !! k) as [t|]; [eexists; reflexivity|congruence].
  - intros [t Ht]. rewrite Ht. discriminate.
Qed.

(** A node listed as having left - whether or not the same change lists it as joined - is
    planned in full at its next poll; it is live afterwards exactly when it joined again. *)
Lemma departed_node_is_resynced_in_full s joined left i reported k :
  i ∈ left.*1 ->
  (k ∈ poller_plan (poller_apply s joined left) i reported <-> is_Some (reported !! k)).
Proof.
  intros Hin. unfold poller_plan, poller_apply. cbn [p_tracker].
  rewrite foldl_delete_tracker_in by exact Hin. cbn [default from_option]. apply plan_of_unknown_node.
Qed.

(** Every other node keeps its recorded stamps through a membership change. *)
Lemma other_nodes_keep_their_stamps s joined left i reported :
  i ∉ left.*1 ->
  poller_plan (poller_apply s joined left) i reported = poller_plan s i reported.
Proof.
  intros Hn. unfold poller_plan, poller_apply. cbn [p_tracker].
  rewrite foldl_delete_tracker_other by exact Hn. reflexivity.
Qed.

(** Recording an exchange of keyspace [k] at the stamp the peer reports takes exactly [k] out of
    the plan for that report (every other keyspace, and every other node, is planned as before). *)
Lemma recorded_keyspace_leaves_the_plan s node reported k t k' :
  reported !! k = Some t ->
  (k' ∈ poller_plan (poller_record s node k t) node reported <->
   k' <> k /\ k' ∈ poller_plan s node reported).
Proof.
  intros Hk. unfold poller_plan, poller_record. cbn [p_tracker].
  rewrite lookup_insert. cbn [default from_option id]. rewrite !ts_diff_spec.
  destruct (decide (k' = k)) as [->|Hne].
  - rewrite lookup_insert, Hk. split; [congruence|intros [Hx _]; congruence].
  - rewrite lookup_insert_ne by congruence. split; [intros H; split; [exact Hne|exact H]|intros [_ H]; exact H].
Qed.

(** For the correspondence driver. *)
Definition p_init : pstate := mkP ∅ ∅.
Definition poller_plan_list (s : pstate) (node : nat) (reported : list (N * N)) : list N :=
  poller_plan s node (list_to_map reported).
