(** * Transfer: a peer receives the sender's keyspace state unchanged (C19)

    The state travels as: [on_serialize] (rkyv bytes of the set) -> raw bytes inside the
    [GetState] reply -> CRC frame (C12) -> client -> nested decode.  The byte format
    (rkyv's layout of BTreeMap/HashMap, alignment of the nested slice) is NOT modelled:
    [encode]/[decode] are section variables with the round-trip law as a hypothesis, and the
    executor validates that law on the real code.  What is proved is what follows from it. *)

From stdpp Require Import gmap list.
From Coq Require Import NArith.
From DC Require Import Ts Orswot.
Open Scope N_scope.

(** What the repairing node obtains: the decoded state, an error for an undecodable
    payload; [TUndefined] is the unchecked cast of the client before a repair of D13 on a
    payload that is not a valid archive. *)
Inductive transfer_result :=
| TOk (s : oset)
| TErr
| TUndefined.

Section transfer.
  Context (encode : oset -> list N) (decode : list N -> option oset).

  Definition get_state_checked (bytes : list N) : transfer_result :=
    match decode bytes with Some s => TOk s | None => TErr end.

  Definition get_state_unchecked (bytes : list N) : transfer_result :=
    match decode bytes with Some s => TOk s | None => TUndefined end.

  Hypothesis roundtrip : forall s, decode (encode s) = Some s.

  (** The received state equals the sent one ... *)
  Lemma transfer_exact s : get_state_checked (encode s) = TOk s /\ get_state_unchecked (encode s) = TOk s.
  Proof. unfold get_state_checked, get_state_unchecked. rewrite roundtrip. split; reflexivity. Qed.

  (** ... so every observation and every further operation agree: lookups, the difference
      against any other set in both directions, accept/refuse decisions, results of inserts
      and deletes, purges and merges (equality of sets is equality of contents: gmap is
      canonical, a decoder that rebuilds the hash map in another iteration order cannot
      change anything). *)
  Lemma transfer_observably_identical s r :
    get_state_checked (encode s) = TOk r ->
    (forall k, set_get r k = set_get s k) /\
    (forall k, view r k = view s k) /\
    (forall k t, will_apply r k t = will_apply s k t) /\
    (forall x, set_diff x r = set_diff x s) /\ (forall x, set_diff r x = set_diff s x) /\
    (forall src k t, insert_ws false r src k t = insert_ws false s src k t) /\
    (forall src k t, delete_ws false r src k t = delete_ws false s src k t) /\
    set_purge r = set_purge s /\ (forall x, set_merge x r = set_merge x s).
  Proof.
    intros H. destruct (transfer_exact s) as [E _]. rewrite E in H. injection H as <-.
    repeat split; reflexivity.
  Qed.

  (** An undecodable state is reported as an error by the checked client. *)
  Lemma undecodable_is_error bytes : decode bytes = None -> get_state_checked bytes = TErr.
  Proof. unfold get_state_checked. intros ->. reflexivity. Qed.

  Lemma unchecked_is_undefined bytes : decode bytes = None -> get_state_unchecked bytes = TUndefined.
  Proof. unfold get_state_unchecked. intros ->. reflexivity. Qed.
End transfer.

(** Equal contents are equal sets: two sets with the same entries, tombstones, per-source
    maxima and cut-offs are the same value, whatever order they were built in. *)
Lemma oset_ext (a b : oset) :
  (forall k, entries a !! k = entries b !! k) -> (forall k, dead a !! k = dead b !! k) ->
  maxs (versions a) = maxs (versions b) ->
  (forall n, safe (versions a) !! n = safe (versions b) !! n) -> a = b.
Proof.
  destruct a as [ea da [ma sa]], b as [eb db [mb sb]]. cbn. intros He Hd Hm Hs.
  f_equal; [apply map_eq; exact He|apply map_eq; exact Hd|]. f_equal; [exact Hm|apply map_eq; exact Hs].
Qed.
