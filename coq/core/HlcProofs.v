(** * HlcProofs: the hybrid logical clock issues unique, increasing, causal stamps *)

From Coq Require Import NArith List Bool Lia ZArith.
From Coq Require Import ZifyBool ZifyN ZifyNat.
From DC Require Import Ts TsProofs Hlc.
Import ListNotations.
Open Scope N_scope.

Ltac Zify.zify_post_hook ::= Z.div_mod_to_equations.

Arguments N.add : simpl never.
Arguments N.sub : simpl never.
Arguments N.mul : simpl never.
Arguments N.div : simpl never.
Arguments N.modulo : simpl never.
Arguments N.ltb : simpl never.
Arguments N.leb : simpl never.
Arguments N.eqb : simpl never.
Arguments N.max : simpl never.

(** ** Fields of valid stamps and of [mk_ts] *)

Lemma valid_bounds t :
  valid_ts t = true ->
  ts_seconds t <= TS_MAX /\ ts_fractional t <= 249 /\ ts_counter t <= 65535 /\
  ts_node t <= 255 /\ ts_tick t <= WALL_MAX.
Proof.
  unfold valid_ts, WALL_MAX, ts_tick, TS_MAX, TWO64.
  rewrite ts_seconds_arith, ts_fractional_arith, ts_counter_arith, ts_node_arith.
  intros H. repeat split; lia.
Qed.

Lemma mk_ts_fields k cnt n :
  k <= WALL_MAX -> cnt <= 65535 -> n <= 255 ->
  ts_tick (mk_ts k cnt n) = k /\ ts_counter (mk_ts k cnt n) = cnt /\
  ts_node (mk_ts k cnt n) = n /\ valid_ts (mk_ts k cnt n) = true.
Proof.
  intros Hk Hc Hn. unfold mk_ts, WALL_MAX, TS_MAX in *.
  assert (Hs : k / 250 <= TS_MAX) by (unfold TS_MAX; lia).
  assert (Hf : k mod 250 <= 255) by lia.
  destruct (accessors_pack (k / 250) (k mod 250) cnt n Hs Hf Hc Hn) as (A & B & C & D).
  pose proof (pack_lt_two64 (k / 250) (k mod 250) cnt n Hs Hf Hc Hn) as Hlt.
  unfold ts_tick, valid_ts. rewrite A, B, C, D.
  repeat split; try lia.
Qed.

(** Comparison of valid stamps through (tick, counter, node). *)
Lemma ts_lt_lex t u :
  valid_ts t = true -> valid_ts u = true ->
  (t <? u) = true <->
  (ts_tick t < ts_tick u \/
   (ts_tick t = ts_tick u /\
    (ts_counter t < ts_counter u \/ (ts_counter t = ts_counter u /\ ts_node t < ts_node u)))).
Proof.
  intros Ht Hu. rewrite (ts_order t u Ht Hu). unfold lex_lt. lia.
Qed.

(** ** [send] *)

Lemma send_ok wall c t c' :
  valid_ts c = true -> wall <= WALL_MAX ->
  send wall c = (HOk t, c') ->
  c' = t /\ (c <? t) = true /\ ts_node t = ts_node c /\ ts_tick t <= wall + DRIFT /\
  wall <= ts_tick t /\ valid_ts t = true.
Proof.
  intros Hv Hw. destruct (valid_bounds c Hv) as (_ & _ & Hc & Hn & Hk).
  unfold send.
  destruct (N.ltb_spec DRIFT (N.max (ts_tick c) wall - wall)) as [Hd|Hd]; [discriminate|].
  assert (Hmax : N.max (ts_tick c) wall <= WALL_MAX) by lia.
  destruct (N.eqb_spec (ts_tick c) (N.max (ts_tick c) wall)) as [He|He].
  - destruct (N.eqb_spec (ts_counter c) 65535) as [Ho|Ho]; [discriminate|].
    intros [= <- <-].
    destruct (mk_ts_fields (N.max (ts_tick c) wall) (ts_counter c + 1) (ts_node c)
                Hmax ltac:(lia) Hn) as (A & B & C & D).
    repeat split; try assumption; try lia.
    apply ts_lt_lex; try assumption. rewrite A, B, C. lia.
  - intros [= <- <-].
    destruct (mk_ts_fields (N.max (ts_tick c) wall) 0 (ts_node c)
                Hmax ltac:(lia) Hn) as (A & B & C & D).
    repeat split; try assumption; try lia.
    apply ts_lt_lex; try assumption. rewrite A, B, C. lia.
Qed.

Lemma send_err wall c e c' : send wall c = (HErr e, c') -> c' = c.
Proof.
  unfold send.
  repeat match goal with |- context [if ?b then _ else _] => destruct b end;
    intros H; inversion H; subst; reflexivity.
Qed.

Lemma send_no_panic wall c c' : send wall c <> (HPanic, c').
Proof.
  unfold send.
  destruct (DRIFT <? _); [discriminate|].
  destruct (_ =? _); [destruct (_ =? _)|]; discriminate.
Qed.

(** The exact failure conditions of [send]. *)
Lemma send_err_iff wall c :
  (fst (send wall c) = HErr ClockDrift <-> DRIFT < ts_tick c - wall) /\
  (fst (send wall c) = HErr Overflow <->
     ts_tick c - wall <= DRIFT /\ wall <= ts_tick c /\ ts_counter c = 65535).
Proof.
  unfold send.
  destruct (N.ltb_spec DRIFT (N.max (ts_tick c) wall - wall)) as [Hd|Hd]; cbn [fst].
  - split; split; try discriminate; try lia. intros _. reflexivity.
  - destruct (N.eqb_spec (ts_tick c) (N.max (ts_tick c) wall)) as [He|He].
    + destruct (N.eqb_spec (ts_counter c) 65535) as [Ho|Ho]; cbn [fst].
      * split; split; try discriminate; try lia. intros _. reflexivity.
      * split; split; try discriminate; lia.
    + cbn [fst]. split; split; try discriminate; lia.
Qed.

(** ** [recv] *)

Lemma recv_counter_bound ts_new ts_old ts_msg c_old c_msg c_new :
  c_old <= 65535 -> c_msg <= 65535 ->
  recv_counter ts_new ts_old ts_msg c_old c_msg = Some c_new ->
  c_new <= 65535 /\
  (ts_new = ts_old -> c_old < c_new) /\ (ts_new = ts_msg -> c_msg < c_new).
Proof.
  intros Ho Hm. unfold recv_counter.
  destruct (N.eqb_spec ts_new ts_old) as [E1|E1];
    destruct (N.eqb_spec ts_new ts_msg) as [E2|E2]; cbn [andb].
  - destruct (N.eqb_spec (N.max c_old c_msg) 65535); [discriminate|]. intros [= <-]. lia.
  - destruct (N.eqb_spec c_old 65535); [discriminate|]. intros [= <-]. lia.
  - destruct (N.eqb_spec c_msg 65535); [discriminate|]. intros [= <-]. lia.
  - intros [= <-]. lia.
Qed.

Lemma recv_ok wall c msg r c' :
  valid_ts c = true -> valid_ts msg = true -> wall <= WALL_MAX ->
  recv wall c msg = (HOk r, c') ->
  (c <? c') = true /\ (msg <? c') = true /\ ts_node c' = ts_node c /\
  valid_ts c' = true /\ ts_tick c' <= wall + DRIFT /\
  ts_tick r = ts_tick c' /\ ts_counter r = ts_counter c' /\ ts_node r = ts_node msg.
Proof.
  intros Hv Hm Hw.
  destruct (valid_bounds c Hv) as (_ & _ & Hc & Hn & Hk).
  destruct (valid_bounds msg Hm) as (_ & _ & Hcm & Hnm & Hkm).
  unfold recv.
  destruct (N.eqb_spec (ts_node c) (ts_node msg)) as [Hdup|Hdup]; [discriminate|].
  destruct (N.ltb_spec DRIFT (ts_tick msg - wall)) as [Hd1|Hd1]; [discriminate|].
  set (ts_new := N.max (N.max (ts_tick c) wall) (ts_tick msg)).
  destruct (N.ltb_spec DRIFT (ts_new - wall)) as [Hd2|Hd2]; [discriminate|].
  destruct (recv_counter ts_new (ts_tick c) (ts_tick msg) (ts_counter c) (ts_counter msg))
    as [c_new|] eqn:Ec; [|discriminate].
  destruct (recv_counter_bound _ _ _ _ _ _ Hc Hcm Ec) as (Hcn & Hold & Hmsg).
  assert (Hmax : ts_new <= WALL_MAX) by (subst ts_new; lia).
  destruct (mk_ts_fields ts_new c_new (ts_node c) Hmax Hcn Hn) as (A & B & C & D).
  destruct (N.ltb_spec TS_MAX (ts_new / 250)) as [Hp|Hp]; [discriminate|].
  intros [= <- <-]. rewrite B.
  destruct (mk_ts_fields ts_new c_new (ts_node msg) Hmax Hcn Hnm) as (A' & B' & C' & D').
  rewrite ?A, ?B, ?C, ?A', ?B', ?C'.
  repeat split; try assumption; try lia.
  - apply ts_lt_lex; try assumption. rewrite A, B, C. subst ts_new. lia.
  - apply ts_lt_lex; try assumption. rewrite A, B, C. subst ts_new. lia.
Qed.

Lemma recv_err wall c msg e c' : recv wall c msg = (HErr e, c') -> c' = c.
Proof.
  unfold recv.
  repeat match goal with
         | |- context [if ?b then _ else _] => destruct b
         | |- context [match ?o with Some _ => _ | None => _ end] => destruct o
         end;
    intros H; inversion H; subst; reflexivity.
Qed.

Lemma recv_no_panic wall c msg c' :
  valid_ts c = true -> valid_ts msg = true -> wall <= WALL_MAX ->
  recv wall c msg <> (HPanic, c').
Proof.
  intros Hv Hm Hw.
  destruct (valid_bounds c Hv) as (_ & _ & _ & _ & Hk).
  destruct (valid_bounds msg Hm) as (_ & _ & _ & _ & Hkm).
  unfold recv.
  destruct (_ =? _); [discriminate|].
  destruct (DRIFT <? _); [discriminate|].
  destruct (DRIFT <? _); [discriminate|].
  destruct (recv_counter _ _ _ _ _); [|discriminate].
  destruct (N.ltb_spec TS_MAX (N.max (N.max (ts_tick c) wall) (ts_tick msg) / 250)) as [Hp|Hp];
    [|discriminate].
  exfalso. unfold WALL_MAX, TS_MAX in *. lia.
Qed.

(** The exact failure conditions of [recv]. *)
Lemma recv_err_iff wall c msg :
  (fst (recv wall c msg) = HErr DuplicatedNode <-> ts_node c = ts_node msg) /\
  (fst (recv wall c msg) = HErr ClockDrift <->
     ts_node c <> ts_node msg /\
     (DRIFT < ts_tick msg - wall \/ DRIFT < ts_tick c - wall)).
Proof.
  unfold recv.
  destruct (N.eqb_spec (ts_node c) (ts_node msg)) as [Hdup|Hdup]; cbn [fst];
  [|destruct (N.ltb_spec DRIFT (ts_tick msg - wall)) as [Hd1|Hd1]; cbn [fst];
    [|destruct (N.ltb_spec DRIFT (N.max (N.max (ts_tick c) wall) (ts_tick msg) - wall)) as [Hd2|Hd2];
      cbn [fst];
      [|destruct (recv_counter _ _ _ _ _); [destruct (TS_MAX <? _)|]; cbn [fst]]]].
  all: split; split; intro H; try discriminate H; try reflexivity; try tauto;
    try (destruct H as [? [?|?]]; lia); try (split; [assumption|lia]).
Qed.

(** ** Histories: every issued stamp exceeds everything issued or accepted before *)

Definition ev_ok (e : hlc_event) : Prop :=
  match e with
  | ESend w => w <= WALL_MAX
  | ERecv w m => w <= WALL_MAX /\ valid_ts m = true
  end.

(** What a history lets the outside world see, in order: [(true, t)] = [t] was issued
    by a successful [send]; [(false, m)] = the remote stamp [m] was accepted by [recv]. *)
Fixpoint observe (c : N) (evs : list hlc_event) : list (bool * N) :=
  match evs with
  | [] => []
  | e :: evs' =>
      let '(r, c') := hlc_step c e in
      match e, r with
      | ESend _, HOk t => (true, t) :: observe c' evs'
      | ERecv _ m, HOk _ => (false, m) :: observe c' evs'
      | _, _ => observe c' evs'
      end
  end.

Lemma step_valid c e r c' :
  valid_ts c = true -> ev_ok e -> hlc_step c e = (r, c') ->
  r <> HPanic /\ valid_ts c' = true /\ (c <=? c') = true.
Proof.
  intros Hv He Hs. destruct e as [w|w m]; cbn [hlc_step ev_ok] in *.
  - destruct r as [t|err|].
    + destruct (send_ok w c t c' Hv He Hs) as (-> & Hlt & _ & _ & _ & Hv').
      repeat split; [discriminate|assumption|lia].
    + apply send_err in Hs. subst c'. repeat split; [discriminate|assumption|lia].
    + exfalso. eapply send_no_panic. eassumption.
  - destruct He as [Hw Hm]. destruct r as [t|err|].
    + destruct (recv_ok w c m t c' Hv Hm Hw Hs) as (Hlt & _ & _ & Hv' & _).
      repeat split; [discriminate|assumption|lia].
    + apply recv_err in Hs. subst c'. repeat split; [discriminate|assumption|lia].
    + exfalso. exact (recv_no_panic w c m c' Hv Hm Hw Hs).
Qed.

Lemma observe_increasing evs :
  forall c l1 t l2,
    valid_ts c = true -> Forall ev_ok evs ->
    observe c evs = l1 ++ (true, t) :: l2 ->
    (c <? t) = true /\ ts_node t = ts_node c /\
    forall b u, In (b, u) l1 -> (u <? t) = true.
Proof.
  induction evs as [|e evs IH]; intros c l1 t l2 Hv Hok Hobs.
  - destruct l1; discriminate.
  - inversion Hok as [|? ? He Hok']; subst.
    cbn [observe] in Hobs. destruct (hlc_step c e) as [r c'] eqn:Hs.
    destruct (step_valid c e r c' Hv He Hs) as (Hnp & Hv' & Hle).
    assert (Hnode : ts_node c' = ts_node c).
    { destruct e as [w|w m]; cbn [hlc_step ev_ok] in *.
      - destruct r as [t0|err|]; [|apply send_err in Hs; subst; reflexivity|contradiction].
        destruct (send_ok w c t0 c' Hv He Hs) as (-> & _ & Hn & _). assumption.
      - destruct He as [Hw Hm].
        destruct r as [t0|err|]; [|apply recv_err in Hs; subst; reflexivity|contradiction].
        destruct (recv_ok w c m t0 c' Hv Hm Hw Hs) as (_ & _ & Hn & _). assumption. }
    assert (Hrest : forall l1' , observe c' evs = l1' ++ (true, t) :: l2 ->
              (c <? t) = true /\ ts_node t = ts_node c /\
              forall b u, In (b, u) l1' -> (u <? t) = true).
    { intros l1' H. destruct (IH c' l1' t l2 Hv' Hok' H) as (A & B & C).
      repeat split; [lia|congruence|assumption]. }
    destruct e as [w|w m]; destruct r as [t0|err|]; try (apply Hrest; assumption).
    + (* successful send: t0 is observed first *)
      cbn [hlc_step ev_ok] in *.
      destruct (send_ok w c t0 c' Hv He Hs) as (-> & Hlt & Hn & _ & _ & Hvt).
      destruct l1 as [|x l1'].
      * injection Hobs as <- _. repeat split; [assumption|assumption|]. intros b u [].
      * injection Hobs as <- Hobs.
        destruct (IH t0 l1' t l2 Hvt Hok' Hobs) as (A & B & C).
        repeat split; [lia|congruence|].
        intros b u [[= <- <-]|Hin]; [assumption|]. eapply C. eassumption.
    + (* successful recv: m is observed first *)
      cbn [hlc_step ev_ok] in *. destruct He as [Hw Hm].
      destruct (recv_ok w c m t0 c' Hv Hm Hw Hs) as (Hlt & Hmlt & Hn & _).
      destruct l1 as [|x l1'].
      * discriminate Hobs.
      * injection Hobs as <- Hobs.
        destruct (IH c' l1' t l2 Hv' Hok' Hobs) as (A & B & C).
        repeat split; [lia|congruence|].
        intros b u [[= <- <-]|Hin]; [lia|]. eapply C. eassumption.
Qed.

(** Issued stamps are pairwise distinct. *)
Lemma observe_issued_distinct evs c l1 t l2 l3 t' :
  valid_ts c = true -> Forall ev_ok evs ->
  observe c evs = l1 ++ (true, t) :: l2 ++ (true, t') :: l3 ->
  (t <? t') = true.
Proof.
  intros Hv Hok Hobs.
  replace (l1 ++ (true, t) :: l2 ++ (true, t') :: l3)
    with ((l1 ++ (true, t) :: l2) ++ (true, t') :: l3) in Hobs
    by (rewrite <- app_assoc; reflexivity).
  destruct (observe_increasing evs c _ t' l3 Hv Hok Hobs) as (_ & _ & H).
  apply (H true t). apply in_or_app. right. left. reflexivity.
Qed.

(** A run never panics on valid inputs, and the clock stays valid. *)
Lemma run_no_panic evs :
  forall c rs c', valid_ts c = true -> Forall ev_ok evs ->
    hlc_run c evs = (rs, c') -> ~ In HPanic rs /\ valid_ts c' = true.
Proof.
  induction evs as [|e evs IH]; intros c rs c' Hv Hok Hr.
  - cbn in Hr. injection Hr as <- <-. split; [intros []|assumption].
  - inversion Hok as [|? ? He Hok']; subst. cbn [hlc_run] in Hr.
    destruct (hlc_step c e) as [r c1] eqn:Hs.
    destruct (hlc_run c1 evs) as [rs1 c2] eqn:Hr1.
    injection Hr as <- <-.
    destruct (step_valid c e r c1 Hv He Hs) as (Hnp & Hv1 & _).
    destruct (IH c1 rs1 c2 Hv1 Hok' Hr1) as (Hnin & Hv2).
    split; [|assumption]. intros [H|H]; [congruence|contradiction].
Qed.

(** ** The clock actor (C11) *)

Definition req_ok (q : clock_req) : Prop :=
  match q with
  | CGet _ w => w <= WALL_MAX
  | CRegister w ts => w <= WALL_MAX /\ valid_ts ts = true
  end.

(** Replies of the actor, in queue order, as (task, stamp). *)
Fixpoint clock_replies (outs : list clock_out) : list (N * N) :=
  match outs with
  | [] => []
  | CStamp task t :: r => (task, t) :: clock_replies r
  | _ :: r => clock_replies r
  end.

(** Every stamp the actor hands out is greater than the clock it started from, than
    every stamp handed out earlier (to any task) and than every remote stamp whose
    registration was accepted earlier in the queue. *)
Lemma clock_run_increasing q :
  forall c, valid_ts c = true -> Forall req_ok q ->
    forall l1 task t l2,
      clock_replies (clock_run c q) = l1 ++ (task, t) :: l2 ->
      (c <? t) = true /\ forall task' u, In (task', u) l1 -> (u <? t) = true.
Proof.
  induction q as [|r q IH]; intros c Hv Hok l1 task t l2 H.
  - destruct l1; discriminate.
  - inversion Hok as [|? ? Hr Hok']; subst. destruct r as [tk w|w ts]; cbn [clock_run] in H.
    + cbn [req_ok] in Hr. destruct (send w c) as [res c'] eqn:Hs.
      destruct res as [t0|err|]; try (destruct l1; discriminate).
      destruct (send_ok w c t0 c' Hv Hr Hs) as (-> & Hlt & _ & _ & _ & Hvt).
      cbn [clock_replies] in H. destruct l1 as [|x l1'].
      * injection H as <- <- _. split; [assumption|intros ? ? []].
      * injection H as <- H. destruct (IH t0 Hvt Hok' l1' task t l2 H) as (A & B).
        split; [lia|]. intros task' u [[= <- <-]|Hin]; [assumption|]. eapply B; eassumption.
    + cbn [req_ok] in Hr. destruct Hr as [Hw Hts].
      destruct (recv w c ts) as [res c'] eqn:Hs.
      destruct res as [t0|err|].
      * destruct (recv_ok w c ts t0 c' Hv Hts Hw Hs) as (Hlt & _ & _ & Hv' & _).
        cbn [clock_replies] in H. destruct (IH c' Hv' Hok' l1 task t l2 H) as (A & B).
        split; [lia|assumption].
      * apply recv_err in Hs. subst c'. cbn [clock_replies] in H.
        exact (IH c Hv Hok' l1 task t l2 H).
      * exfalso. exact (recv_no_panic w c ts c' Hv Hts Hw Hs).
Qed.

(** A [Get] queued after an accepted [Register r] returns a stamp greater than [r]. *)
Lemma clock_get_after_register c w r q task t l1 l2 c1 t0 :
  valid_ts c = true -> w <= WALL_MAX -> valid_ts r = true -> Forall req_ok q ->
  recv w c r = (HOk t0, c1) ->
  clock_replies (clock_run c (CRegister w r :: q)) = l1 ++ (task, t) :: l2 ->
  (r <? t) = true.
Proof.
  intros Hv Hw Hr Hok Hrecv H. cbn [clock_run] in H. rewrite Hrecv in H.
  cbn [clock_replies] in H.
  destruct (recv_ok w c r t0 c1 Hv Hr Hw Hrecv) as (_ & Hlt & _ & Hv1 & _).
  destruct (clock_run_increasing q c1 Hv1 Hok l1 task t l2 H) as (A & _). lia.
Qed.

(** The actor dies only when [send] fails: the logical clock is more than [DRIFT]
    ahead of the wall clock, or the counter is exhausted with a stalled wall clock. *)
Lemma clock_get_panics_iff c task w q :
  clock_run c (CGet task w :: q) = [CPanic] <->
  (DRIFT < ts_tick c - w \/ (w <= ts_tick c /\ ts_counter c = 65535)).
Proof.
  destruct (send_err_iff w c) as (Hd & Ho). cbn [clock_run].
  destruct (send w c) as [res c'] eqn:Hs. cbn [fst] in Hd, Ho.
  destruct res as [t|e|].
  - split; [discriminate|]. intros [H|H].
    + apply Hd in H. discriminate.
    + destruct (N.le_gt_cases (ts_tick c - w) DRIFT) as [Hle|Hgt].
      * assert (HOk t = HErr Overflow) by (apply Ho; tauto). discriminate.
      * apply Hd in Hgt. discriminate.
  - split; [|reflexivity]. intros _. destruct e.
    + left. apply Hd. reflexivity.
    + right. assert (H : HErr Overflow = HErr Overflow) by reflexivity.
      apply Ho in H. tauto.
    + exfalso. unfold send in Hs.
      destruct (DRIFT <? _); [discriminate|].
      destruct (_ =? _); [destruct (_ =? _)|]; discriminate.
  - exfalso. eapply send_no_panic. eassumption.
Qed.
