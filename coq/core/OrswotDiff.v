(** * OrswotDiff: the difference is exact and one exchange repairs (C05) *)

From stdpp Require Import gmap list.
From Coq Require Import NArith Lia ZArith.
From Coq Require Import ZifyBool ZifyN ZifyNat.
From DC Require Import Ts TsProofs Hlc HlcProofs Orswot OrswotInv OrswotLww OrswotTimely OrswotPurge.
Open Scope N_scope.

(** ** Characterisation *)

(** [a] wants [(k, t)] exactly when what it holds for [k] is strictly older than [t], or
    it holds nothing for [k] and [t] is not older than its cut-off for [t]'s origin. *)
Lemma diff_wants_spec a k t :
  diff_wants a k t =
  match view a k with
  | Some (u, _) => u <? t
  | None => negb (before (versions a) t)
  end.
Proof.
  unfold diff_wants, view. destruct (entries a !! k); [reflexivity|].
  destruct (dead a !! k); reflexivity.
Qed.

Lemma diff_modified a b k t :
  (k, t) ∈ (set_diff a b).1 <-> entries b !! k = Some t /\ diff_wants a k t = true.
Proof.
  unfold set_diff. cbn [fst]. rewrite elem_of_list_filter, elem_of_map_to_list. cbn. tauto.
Qed.

Lemma diff_removed a b k t :
  (k, t) ∈ (set_diff a b).2 <-> dead b !! k = Some t /\ diff_wants a k t = true.
Proof.
  unfold set_diff. cbn [snd]. rewrite elem_of_list_filter, elem_of_map_to_list. cbn. tauto.
Qed.

(** In terms of views (for a peer state with disjoint entries and tombstones): the
    difference lists [k] with the peer's stamp, as a modification if the peer has it live
    and as a removal if tombstoned, exactly when [a] wants it. *)
Lemma diff_exact a b k t :
  Disjoint b ->
  ((k, t) ∈ (set_diff a b).1 <-> view b k = Some (t, false) /\ diff_wants a k t = true) /\
  ((k, t) ∈ (set_diff a b).2 <-> view b k = Some (t, true) /\ diff_wants a k t = true).
Proof.
  intros Hd. rewrite diff_modified, diff_removed. unfold view.
  destruct (Hd k) as [He|Hk]; rewrite ?He, ?Hk.
  - destruct (dead b !! k) as [d|]; split; split; intros [H1 H2]; try discriminate;
      (split; [congruence|assumption]).
  - destruct (entries b !! k) as [e|]; split; split; intros [H1 H2]; try discriminate;
      (split; [congruence|assumption]).
Qed.

(** ** Applying operations that touch each key at most once *)

Fixpoint op_for (k : N) (ops : list op) : option op :=
  match ops with
  | [] => None
  | o :: r => if bool_decide (op_key o = k) then Some o else op_for k r
  end.

Lemma op_for_None k ops : k ∉ map op_key ops -> op_for k ops = None.
Proof.
  induction ops as [|o r IH]; [reflexivity|]. cbn [map op_for]. intros H.
  apply not_elem_of_cons in H as [Hne Hr]. rewrite bool_decide_eq_false_2 by congruence. auto.
Qed.

Lemma op_for_Some k ops o : op_for k ops = Some o -> o ∈ ops /\ op_key o = k.
Proof.
  induction ops as [|o' r IH]; [discriminate|]. cbn [op_for].
  destruct (bool_decide_reflect (op_key o' = k)) as [E|_].
  - intros [= <-]. split; [left|assumption].
  - intros H. destruct (IH H). split; [right; assumption|assumption].
Qed.

Lemma op_for_in k ops o :
  NoDup (map op_key ops) -> o ∈ ops -> op_key o = k -> op_for k ops = Some o.
Proof.
  induction ops as [|o' r IH]; [intros _ H; inversion H|].
  cbn [map op_for]. intros Hnd Hin Hk. apply NoDup_cons in Hnd as [Hnin Hnd].
  apply elem_of_cons in Hin as [->|Hin].
  - rewrite bool_decide_eq_true_2 by assumption. reflexivity.
  - destruct (bool_decide_reflect (op_key o' = k)) as [E|_]; [|auto].
    exfalso. apply Hnin. rewrite E, <- Hk. apply elem_of_list_fmap_1. assumption.
Qed.

Lemma run_view_single legacy ops : forall s k,
  Inv s -> Forall (fun o => valid_ts (op_ts o) = true) ops ->
  NoDup (map op_key ops) -> all_accepted legacy s ops = true ->
  view (run_ops legacy s ops) k =
  match op_for k ops with
  | Some o => join (view s k) (op_ts o, op_del o)
  | None => view s k
  end.
Proof.
  induction ops as [|o r IH]; intros s k Hi Hv Hnd Hacc; [reflexivity|].
  inversion Hv as [|? ? Hvo Hv']; subst. cbn [map] in Hnd. apply NoDup_cons in Hnd as [Hnin Hnd].
  cbn [all_accepted] in Hacc. apply andb_true_iff in Hacc as [Ha Hacc].
  unfold run_ops. cbn [foldl op_for]. fold (run_ops legacy (apply_op legacy s o).1 r).
  destruct (apply_op_view legacy s o (proj1 Hi)) as [Hview _].
  rewrite IH; try assumption; [|apply apply_op_Inv; assumption].
  rewrite Hview, Ha. cbn [andb].
  destruct (bool_decide_reflect (op_key o = k)) as [<-|Hne].
  - rewrite op_for_None by assumption. rewrite bool_decide_eq_true_2 by reflexivity. reflexivity.
  - rewrite bool_decide_eq_false_2 by congruence. reflexivity.
Qed.

Lemma run_before_persist legacy ops : forall s d,
  Inv s -> Forall (fun o => valid_ts (op_ts o) = true) ops ->
  valid_ts d = true -> 1 <= ts_tick d ->
  before (versions s) d = true -> before (versions (run_ops legacy s ops)) d = true.
Proof.
  induction ops as [|o r IH]; intros s d Hi Hv Hvd H1 Hb; [exact Hb|].
  inversion Hv as [|? ? Hvo Hv']; subst. unfold run_ops. cbn [foldl].
  apply IH; try assumption; [apply apply_op_Inv; assumption|].
  rewrite apply_op_versions. apply before_persist_try_update; try assumption. apply Hi.
Qed.

(** ** One exchange repairs *)

(** [rep] is an arrangement of the operations the difference [diff a b] asks for: each
    key at most once, each operation carrying the peer's view of its key, and
    everything [a] wants from [b] is present.  Sources and order are arbitrary. *)
Definition repairs_diff (a b : oset) (rep : list op) : Prop :=
  NoDup (map op_key rep) /\
  (forall o, o ∈ rep -> view b (op_key o) = Some (op_ts o, op_del o)) /\
  (forall k t d, view b k = Some (t, d) -> diff_wants a k t = true ->
                 exists o, o ∈ rep /\ op_key o = k).

Lemma repair_leaves_nothing a b rep :
  Inv a -> Inv b -> ViewOk b ->
  repairs_diff a b rep ->
  all_accepted false a rep = true ->
  forall k t d, view b k = Some (t, d) -> diff_wants (run_ops false a rep) k t = false.
Proof.
  intros Hia Hib Hokb (Hnd & Hcarry & Hall) Hacc k t d Hb.
  assert (Hv : Forall (fun o => valid_ts (op_ts o) = true) rep).
  { apply Forall_forall. intros o Ho. specialize (Hcarry o Ho).
    destruct (Hokb _ _ _ Hcarry) as [H _]. exact H. }
  rewrite diff_wants_spec. rewrite (run_view_single false rep a k Hia Hv Hnd Hacc).
  destruct (op_for k rep) as [o|] eqn:Eo.
  - destruct (op_for_Some _ _ _ Eo) as [Hin Hk]. specialize (Hcarry o Hin).
    rewrite Hk, Hb in Hcarry. injection Hcarry as Et Ed. rewrite <- Et, <- Ed.
    destruct (view a k) as [[u ud]|]; cbn [join];
      repeat match goal with
             | |- context [?x <? ?y] => destruct (N.ltb_spec x y)
             | |- context [if ?c then _ else _] => destruct c
             end; try reflexivity; lia.
  - (* no operation on k: a did not want it, and still does not *)
    destruct (diff_wants a k t) eqn:Hw.
    + exfalso. destruct (Hall k t d Hb Hw) as (o & Hin & Hk).
      rewrite (op_for_in k rep o Hnd Hin Hk) in Eo. discriminate.
    + rewrite diff_wants_spec in Hw. destruct (view a k) as [[u ud]|]; [exact Hw|].
      apply negb_false_iff in Hw. apply negb_false_iff.
      destruct (Hokb _ _ _ Hb) as [Hvt H1].
      apply run_before_persist; assumption.
Qed.

Lemma filter_none {A} (P : A -> Prop) `{forall x, Decision (P x)} (l : list A) :
  (forall x, x ∈ l -> ~ P x) -> filter P l = [].
Proof.
  induction l as [|x l IH]; intros Hn; [reflexivity|].
  rewrite filter_cons. destruct (decide (P x)) as [Hp|_].
  - exfalso. apply (Hn x); [left|assumption].
  - apply IH. intros y Hy. apply Hn. right. assumption.
Qed.

(** C05 (2): after applying the difference — in any split into batches, any
    interleaving and through any sources, provided each operation is accepted at its
    arrival — nothing further is to be fetched from that peer. *)
Lemma repair_empties_diff a b rep :
  Inv a -> Inv b -> ViewOk b ->
  repairs_diff a b rep ->
  all_accepted false a rep = true ->
  set_diff (run_ops false a rep) b = ([], []).
Proof.
  intros Hia Hib Hokb Hrep Hacc.
  pose proof (repair_leaves_nothing a b rep Hia Hib Hokb Hrep Hacc) as H.
  unfold set_diff. f_equal.
  - apply filter_none. intros [k t] Hin. cbn [fst snd]. apply elem_of_map_to_list in Hin.
    assert (Hv : view b k = Some (t, false)) by (unfold view; rewrite Hin; reflexivity).
    rewrite (H k t false Hv). discriminate.
  - apply filter_none. intros [k t] Hin. cbn [fst snd]. apply elem_of_map_to_list in Hin.
    assert (Hv : view b k = Some (t, true)).
    { unfold view. destruct (proj1 Hib k) as [He|Hd]; [rewrite He, Hin; reflexivity|congruence]. }
    rewrite (H k t true Hv). discriminate.
Qed.

(** The two lists of [set_diff a b], turned into operations on source [src] — removals
    first or modifications first — are arrangements in the sense above. *)
Definition diff_ops (src : nat) (a b : oset) (removals_first : bool) : list op :=
  let ins := map (fun kt => OIns src kt.1 kt.2) (set_diff a b).1 in
  let del := map (fun kt => ODel src kt.1 kt.2) (set_diff a b).2 in
  if removals_first then del ++ ins else ins ++ del.

Lemma diff_ops_repairs src a b rf : Disjoint b -> repairs_diff a b (diff_ops src a b rf).
Proof.
  intros Hd.
  set (ins := map (fun kt : N * N => OIns src kt.1 kt.2) (set_diff a b).1).
  set (del := map (fun kt : N * N => ODel src kt.1 kt.2) (set_diff a b).2).
  assert (Hins : forall o, o ∈ ins -> exists k t, o = OIns src k t /\ entries b !! k = Some t /\
                                               diff_wants a k t = true).
  { intros o Ho. apply elem_of_list_fmap in Ho as ([k t] & -> & Hin).
    apply diff_modified in Hin. eauto. }
  assert (Hdel : forall o, o ∈ del -> exists k t, o = ODel src k t /\ dead b !! k = Some t /\
                                               diff_wants a k t = true).
  { intros o Ho. apply elem_of_list_fmap in Ho as ([k t] & -> & Hin).
    apply diff_removed in Hin. eauto. }
  assert (Hki : map op_key ins = (set_diff a b).1.*1).
  { unfold ins. rewrite map_map. reflexivity. }
  assert (Hkd : map op_key del = (set_diff a b).2.*1).
  { unfold del. rewrite map_map. reflexivity. }
  assert (Hndi : NoDup (map op_key ins)).
  { rewrite Hki. unfold set_diff. cbn [fst]. apply NoDup_fmap_fst.
    - intros k t1 t2 H1 H2. apply elem_of_list_filter in H1 as [_ H1], H2 as [_ H2].
      apply elem_of_map_to_list in H1, H2. congruence.
    - apply NoDup_filter. apply NoDup_map_to_list. }
  assert (Hndd : NoDup (map op_key del)).
  { rewrite Hkd. unfold set_diff. cbn [snd]. apply NoDup_fmap_fst.
    - intros k t1 t2 H1 H2. apply elem_of_list_filter in H1 as [_ H1], H2 as [_ H2].
      apply elem_of_map_to_list in H1, H2. congruence.
    - apply NoDup_filter. apply NoDup_map_to_list. }
  assert (Hdisj : forall k, k ∈ map op_key ins -> k ∉ map op_key del).
  { intros k Hi Hdl. apply elem_of_list_fmap in Hi as (o & -> & Ho).
    apply elem_of_list_fmap in Hdl as (o' & Hk & Ho').
    destruct (Hins o Ho) as (k1 & t1 & -> & He & _). destruct (Hdel o' Ho') as (k2 & t2 & -> & Hdd & _).
    cbn in Hk. subst k2. destruct (Hd k1); congruence. }
  assert (Hcarry : forall o, o ∈ ins ++ del -> view b (op_key o) = Some (op_ts o, op_del o)).
  { intros o Ho. apply elem_of_app in Ho as [Ho|Ho].
    - destruct (Hins o Ho) as (k & t & -> & He & _). cbn. unfold view. rewrite He. reflexivity.
    - destruct (Hdel o Ho) as (k & t & -> & Hdd & _). cbn. unfold view.
      destruct (Hd k) as [He|Hn]; [rewrite He, Hdd; reflexivity|congruence]. }
  assert (Hall : forall k t d, view b k = Some (t, d) -> diff_wants a k t = true ->
                               exists o, o ∈ ins ++ del /\ op_key o = k).
  { intros k t d Hv Hw. unfold view in Hv. destruct (entries b !! k) as [e|] eqn:He.
    - injection Hv as <- <-. exists (OIns src k e). split; [|reflexivity].
      apply elem_of_app. left. unfold ins. apply (elem_of_list_fmap_1 (fun kt : N * N => OIns src kt.1 kt.2) _ (k, e)).
      apply diff_modified. auto.
    - destruct (dead b !! k) as [dd|] eqn:Hdd; [|discriminate]. injection Hv as <- <-.
      exists (ODel src k dd). split; [|reflexivity].
      apply elem_of_app. right. unfold del. apply (elem_of_list_fmap_1 (fun kt : N * N => ODel src kt.1 kt.2) _ (k, dd)).
      apply diff_removed. auto. }
  unfold diff_ops. fold ins del. destruct rf; split; try split.
  - rewrite map_app. apply NoDup_app. split; [assumption|]. split; [|assumption].
    intros k Hk Hk'. exact (Hdisj k Hk' Hk).
  - intros o Ho. apply Hcarry. apply elem_of_app in Ho as [Ho|Ho]; apply elem_of_app; auto.
  - intros k t d Hv Hw. destruct (Hall k t d Hv Hw) as (o & Ho & Hk). exists o. split; [|assumption].
    apply elem_of_app in Ho as [Ho|Ho]; apply elem_of_app; auto.
  - rewrite map_app. apply NoDup_app. auto.
  - exact Hcarry.
  - exact Hall.
Qed.

(** ** Symmetry: both sides apply their difference against the other *)

Definition vjoin (x y : option (N * bool)) : option (N * bool) :=
  match y with
  | Some new => if match x with
                   | Some (u, _) => u <? new.1
                   | None => true
                   end then Some new else x
  | None => x
  end.

(** Same stamp, same operation: [a] and [b] were built from one history with distinct
    stamps, so they cannot hold one stamp as an insert on one side and a delete on the other. *)
Definition same_history_at (a b : oset) (k : N) : Prop :=
  forall ta da tb db, view a k = Some (ta, da) -> view b k = Some (tb, db) -> ta = tb -> da = db.

Lemma repaired_view a b rep k :
  Inv a -> Inv b -> ViewOk b ->
  repairs_diff a b rep -> all_accepted false a rep = true ->
  (forall t d, view b k = Some (t, d) -> before (versions a) t = false) ->
  same_history_at a b k ->
  view (run_ops false a rep) k = vjoin (view a k) (view b k).
Proof.
  intros Hia Hib Hokb (Hnd & Hcarry & Hall) Hacc Hnb Hsame.
  assert (Hv : Forall (fun o => valid_ts (op_ts o) = true) rep).
  { apply Forall_forall. intros o Ho. specialize (Hcarry o Ho).
    destruct (Hokb _ _ _ Hcarry) as [H _]. exact H. }
  rewrite (run_view_single false rep a k Hia Hv Hnd Hacc).
  destruct (op_for k rep) as [o|] eqn:Eo.
  - destruct (op_for_Some _ _ _ Eo) as [Hin Hk]. pose proof (Hcarry o Hin) as Hc.
    rewrite Hk in Hc. rewrite Hc. cbn [vjoin fst].
    destruct (view a k) as [[u ud]|] eqn:Ea; cbn [join]; [|reflexivity].
    destruct (N.ltb_spec u (op_ts o)); [reflexivity|].
    destruct (N.eqb_spec (op_ts o) u) as [E|_]; [|reflexivity].
    (* equal stamps: same operation on both sides, so no insert-over-tombstone tie *)
    rewrite (Hsame u ud (op_ts o) (op_del o) Ea Hc (eq_sym E)).
    destruct (op_del o); reflexivity.
  - destruct (view b k) as [[t d]|] eqn:Eb; cbn [vjoin fst]; [|reflexivity].
    destruct (diff_wants a k t) eqn:Hw.
    + exfalso. destruct (Hall k t d Eb Hw) as (o & Hin & Hk).
      rewrite (op_for_in k rep o Hnd Hin Hk) in Eo. discriminate.
    + rewrite diff_wants_spec in Hw. destruct (view a k) as [[u ud]|]; [rewrite Hw; reflexivity|].
      rewrite (Hnb t d eq_refl) in Hw. discriminate.
Qed.

(** C05 (3): two replicas that each apply their difference against the other expose
    identical views (live ids, tombstones and stamps), provided nothing either side
    holds is older than the other's cut-off (within one forgiveness period / gap-free). *)
Lemma mutual_repair_agrees a b rep_a rep_b k :
  Inv a -> Inv b -> ViewOk a -> ViewOk b ->
  repairs_diff a b rep_a -> all_accepted false a rep_a = true ->
  repairs_diff b a rep_b -> all_accepted false b rep_b = true ->
  (forall t d, view b k = Some (t, d) -> before (versions a) t = false) ->
  (forall t d, view a k = Some (t, d) -> before (versions b) t = false) ->
  same_history_at a b k ->
  view (run_ops false a rep_a) k = view (run_ops false b rep_b) k.
Proof.
  intros Hia Hib Hoka Hokb Hra Haa Hrb Hab Hnba Hnbb Hsame.
  rewrite (repaired_view a b rep_a k) by assumption.
  rewrite (repaired_view b a rep_b k); try assumption.
  2:{ intros ta da tb db Ha Hb E. symmetry. eapply Hsame; eauto. }
  destruct (view a k) as [[ua da]|] eqn:Ea, (view b k) as [[ub db]|] eqn:Eb; cbn [vjoin fst];
    try reflexivity.
  destruct (N.ltb_spec ua ub), (N.ltb_spec ub ua); try reflexivity; try lia.
  assert (ua = ub) by lia. subst ub. rewrite (Hsame ua da ua db Ea Eb eq_refl). reflexivity.
Qed.
