(** * ClusterPayload: the bytes a node serves are the bytes of the write (C01, "same bytes")

    Stamps are distinct, so a history assigns one payload to a stamp: [pay t].  Every store
    write of every handler, for every storage outcome, writes the payload of a document
    carried by the request; documents fetched during an exchange are copied from the peer's
    store.  Hence on every node, after every trace, a live row with stamp [t] carries
    [pay t] — independent of the CRDT reasoning of ClusterProofs.v. *)

From stdpp Require Import gmap list.
From Coq Require Import NArith Lia.
From DC Require Import Ts Orswot OrswotLww Actor ActorProofs Cluster ClusterProofs.
Open Scope N_scope.

Section payload.
  Context (pay : N -> N).

  Definition PayInv (st : store) : Prop := forall k t p, st !! k = Some (t, Some p) -> p = pay t.
  Definition doc_ok (d : doc) : Prop := d_data d = pay (d_ts d).

  Definition req_pay_ok (r : request) : Prop :=
    match r with
    | RSet _ d => doc_ok d
    | RMultiSet _ ds => Forall doc_ok ds
    | _ => True
    end.

  Definition mut_pay_ok (m : mutation) : Prop :=
    match m with
    | MPut d => doc_ok d
    | MPutMany ds => Forall doc_ok ds
    | _ => True
    end.

  Lemma put_pay st d : PayInv st -> doc_ok d -> PayInv (st_put st (d_id d) (d_ts d) (d_data d)).
  Proof.
    intros Hs Hd k t p. unfold st_put. destruct (decide (k = d_id d)) as [->|Hne].
    - rewrite lookup_insert. intros [= <- <-]. exact Hd.
    - rewrite lookup_insert_ne by congruence. apply Hs.
  Qed.

  Lemma foldl_put_pay wr : forall st, PayInv st -> Forall doc_ok wr ->
    PayInv (foldl (fun st d => st_put st (d_id d) (d_ts d) (d_data d)) st wr).
  Proof.
    induction wr as [|d wr IH]; intros st Hs Hall; [exact Hs|].
    inversion Hall; subst. cbn [foldl]. apply IH; [apply put_pay|]; assumption.
  Qed.

  Lemma tomb_pay st k t : PayInv st -> PayInv (st_tomb st k t).
  Proof.
    intros Hs k' t' p. unfold st_tomb. destruct (decide (k' = k)) as [->|Hne].
    - rewrite lookup_insert. discriminate.
    - rewrite lookup_insert_ne by congruence. apply Hs.
  Qed.

  Lemma foldl_tomb_pay (wr : list dmeta) : forall st, PayInv st ->
    PayInv (foldl (fun st m => st_tomb st (m_id m) (m_ts m)) st wr).
  Proof. induction wr as [|m wr IH]; intros st Hs; [exact Hs|]. cbn [foldl]. apply IH, tomb_pay, Hs. Qed.

  Lemma foldl_remove_pay (l : list (N * N)) : forall st, PayInv st ->
    PayInv (foldl (fun st (kt : N * N) => st_remove st kt.1) st l).
  Proof.
    induction l as [|kt l IH]; intros st Hs; [exact Hs|]. cbn [foldl]. apply IH.
    intros k t p. unfold st_remove. destruct (decide (k = kt.1)) as [->|Hne].
    - rewrite lookup_delete. discriminate.
    - rewrite lookup_delete_ne by congruence. apply Hs.
  Qed.

  (** Every handler, every storage outcome (success, failure, any partial bulk write), with
      or without the repairs of D1/D2. *)
  Lemma actor_step_pay legacy dedup x r o :
    PayInv x.2 -> req_pay_ok r -> PayInv (actor_step legacy dedup x r o).1.2.
  Proof.
    destruct x as [s st]. cbn [snd]. intros Hs Hr. destruct r; cbn [actor_step req_pay_ok] in *.
    - unfold on_set. destruct (negb _); [exact Hs|]. destruct o; cbn [fst snd]; try exact Hs.
      apply put_pay; assumption.
    - unfold on_multi_set. cbn [fst snd]. apply foldl_put_pay; [exact Hs|].
      set (valid0 := filter (fun d => will_apply s (d_id d) (d_ts d) = true) ds).
      assert (Hv : Forall doc_ok (if dedup then newest_per_id d_id d_ts valid0 else valid0)).
      { rewrite Forall_forall in *. intros d Hd. apply Hr.
        destruct dedup; [apply newest_per_id_in in Hd|]; apply elem_of_list_filter in Hd as [_ Hd]; exact Hd. }
      destruct o; [exact Hv|constructor|apply written_Forall; exact Hv].
    - unfold on_del. destruct (negb _); [exact Hs|]. destruct o; cbn [fst snd]; try exact Hs.
      apply tomb_pay; assumption.
    - unfold on_multi_del. cbn [fst snd]. apply foldl_tomb_pay; exact Hs.
    - unfold on_purge. destruct (set_purge s) as [purged s1].
      destruct o; cbn [fst snd]; apply foldl_remove_pay; exact Hs.
  Qed.

  Lemma apply_reqs_pay rs : forall x, PayInv x.2 -> Forall req_pay_ok rs -> PayInv (apply_reqs x rs).2.
  Proof.
    induction rs as [|r rs IH]; intros x Hx Hall; [exact Hx|].
    inversion Hall; subst. unfold apply_reqs in *. cbn [foldl]. apply IH; [|assumption].
    unfold apply_req. apply actor_step_pay; assumption.
  Qed.

  (** Documents fetched from a peer's store carry that store's payloads. *)
  Lemma fetch_docs_pay xi ids : PayInv xi.2 -> Forall doc_ok (fetch_docs xi ids).
  Proof.
    intros Hx. rewrite Forall_forall. intros d Hd. unfold fetch_docs in Hd.
    apply elem_of_list_omap in Hd as (k & _ & Hk). unfold st_get in Hk.
    destruct (xi.2 !! k) as [[t [p|]]|] eqn:E; try discriminate. injection Hk as <-.
    unfold doc_ok. cbn. eapply Hx. exact E.
  Qed.

  Lemma modified_requests_pay xi modified : PayInv xi.2 -> Forall req_pay_ok (modified_requests xi modified).
  Proof.
    intros Hx. unfold modified_requests. destruct modified; [constructor|].
    constructor; [|constructor]. cbn [req_pay_ok]. apply fetch_docs_pay. exact Hx.
  Qed.

  Lemma removal_requests_pay removed : Forall req_pay_ok (removal_requests removed).
  Proof.
    unfold removal_requests. destruct removed as [|kt [|kt' l]]; repeat constructor.
  Qed.

  Lemma batch_requests_pay ms : Forall mut_pay_ok ms -> Forall req_pay_ok (batch_requests ms).
  Proof.
    intros Hall. unfold batch_requests. apply Forall_app. split.
    - destruct (flat_map _ ms); repeat constructor.
    - set (puts := flat_map (fun m => match m with MPut d => [d] | MPutMany ds => ds | _ => [] end) ms).
      assert (Hp : Forall doc_ok puts).
      { rewrite Forall_forall in Hall. rewrite Forall_forall. intros d Hd. subst puts. apply elem_of_list_In, in_flat_map in Hd as (m & Hm & Hd).
        apply elem_of_list_In in Hm. specialize (Hall m Hm). destruct m; cbn in Hd; try contradiction.
        - destruct Hd as [<-|[]]. exact Hall.
        - cbn in Hall. rewrite Forall_forall in Hall. apply Hall, elem_of_list_In, Hd. }
      destruct puts; [constructor|]. constructor; [exact Hp|constructor].
  Qed.

  Lemma mutation_request_pay src m : mut_pay_ok m -> req_pay_ok (mutation_request src m).
  Proof. destruct m; cbn; auto. Qed.

  (** ** The cluster invariant *)

  Definition pay_event (e : cevent) : Prop :=
    match e with
    | CIssue _ m _ => mut_pay_ok m
    | CBatch _ ms => Forall mut_pay_ok ms
    | _ => True
    end.

  Definition cluster_pay (c : list nodestate) : Prop := Forall (fun x : nodestate => PayInv x.2) c.

  Lemma node_pay c i : cluster_pay c -> PayInv (node c i).2.
  Proof.
    intros Hc. unfold node. destruct (c !! i) as [x|] eqn:E; cbn [default from_option id].
    - unfold cluster_pay in Hc. rewrite Forall_forall in Hc. apply Hc. eapply elem_of_list_lookup_2. exact E.
    - intros k t p. cbn [snd]. rewrite lookup_empty. discriminate.
  Qed.

  Lemma upd_pay c i x : cluster_pay c -> PayInv x.2 -> cluster_pay (upd c i x).
  Proof. intros Hc Hx. unfold upd, cluster_pay. apply Forall_insert; assumption. Qed.

  Lemma cstep_pay c e : cluster_pay c -> pay_event e -> cluster_pay (cstep c e).
  Proof.
    intros Hc He. destruct e; cbn [cstep pay_event] in *.
    - assert (Hstep : forall c' j, cluster_pay c' ->
                cluster_pay (upd c' j (apply_req (node c' j) (mutation_request 0 m)))).
      { intros c' j Hc'. apply upd_pay; [exact Hc'|]. unfold apply_req.
        apply actor_step_pay; [apply node_pay; exact Hc'|apply mutation_request_pay; exact He]. }
      pose proof (Hstep c i Hc) as Hc1. revert Hc1.
      generalize (upd c i (apply_req (node c i) (mutation_request 0 m))). intros c1 Hc1.
      revert c1 Hc1. induction acks as [|j acks IH]; intros c1 Hc1; [exact Hc1|].
      cbn [foldl]. apply IH, Hstep, Hc1.
    - apply upd_pay; [exact Hc|]. apply apply_reqs_pay; [apply node_pay; exact Hc|apply batch_requests_pay; exact He].
    - destruct (exchange_diff (node c j) (node c i)) as [modified removed].
      apply upd_pay; [exact Hc|]. apply apply_reqs_pay; [|apply modified_requests_pay, node_pay, Hc].
      apply apply_reqs_pay; [apply node_pay; exact Hc|apply removal_requests_pay].
    - apply upd_pay; [exact Hc|]. apply apply_reqs_pay; [apply node_pay; exact Hc|apply removal_requests_pay].
    - apply upd_pay; [exact Hc|]. apply apply_reqs_pay; [apply node_pay; exact Hc|apply modified_requests_pay, node_pay, Hc].
    - apply upd_pay; [exact Hc|]. apply actor_step_pay; [apply node_pay; exact Hc|exact I].
    - apply upd_pay; [exact Hc|]. cbn [snd]. apply node_pay; exact Hc.
  Qed.

  Lemma crun_pay es : forall c, cluster_pay c -> Forall pay_event es -> cluster_pay (crun c es).
  Proof.
    induction es as [|e es IH]; intros c Hc Hall; [exact Hc|].
    inversion Hall; subst. unfold crun in *. cbn [foldl]. apply IH; [apply cstep_pay|]; assumption.
  Qed.

  Lemma cinit_pay n : cluster_pay (cinit n).
  Proof.
    unfold cinit, cluster_pay. apply Forall_replicate. intros k t p. cbn [snd]. rewrite lookup_empty. discriminate.
  Qed.

  (** After any trace: a node whose metadata shows [k] live at [t] serves [pay t] for [k]. *)
  Lemma served_bytes n es idx k t :
    Forall pay_event es ->
    meta (node (crun (cinit n) es) idx).2 k = Some (t, false) ->
    st_get (node (crun (cinit n) es) idx).2 k = Some (t, pay t).
  Proof.
    intros Hall Hm. pose proof (node_pay _ idx (crun_pay es _ (cinit_pay n) Hall)) as Hp.
    unfold meta in Hm. unfold st_get. destruct ((node (crun (cinit n) es) idx).2 !! k) as [[t' [p|]]|] eqn:E; try discriminate.
    injection Hm as ->. rewrite (Hp _ _ _ E). reflexivity.
  Qed.
End payload.

(** ** What a read returns on every node once the cluster has converged *)
Section reads.
  Set Default Proof Using "All".
  Context (H : list (N * N * bool)) (pay : N -> N).
  Context (Hvalid : forall k t d, (k, t, d) ∈ H -> valid_ts t = true /\ 1 <= ts_tick t).
  Context (Hwithin : forall k t d k' t' d', (k, t, d) ∈ H -> (k', t', d') ∈ H -> ts_tick t' < ts_tick t + W).
  Context (Hdistinct : forall k t d d', (k, t, d) ∈ H -> (k, t, d') ∈ H -> d = d').

  Lemma converged_reads n es1 es2 k t d :
    Forall (wf_event H n) es1 -> Forall (wf_event H n) es2 ->
    Forall (pay_event pay) (es1 ++ es2) ->
    is_winner H k t d ->
    (exists i m acks, CIssue i m acks ∈ es1 /\ (k, t, d) ∈ req_ops (mutation_request 0 m)) ->
    (forall j i, (j < n)%nat -> (i < n)%nat -> j <> i -> CRepair j i ∈ es2) ->
    forall idx, (idx < n)%nat ->
      st_get (node (crun (cinit n) (es1 ++ es2)) idx).2 k = if d then None else Some (t, pay t).
  Proof.
    intros Hwf1 Hwf2 Hpay Hwin Hiss Hrep idx Hidx.
    pose proof (converged_store H Hvalid Hwithin Hdistinct n es1 es2 k t d Hwf1 Hwf2 Hwin Hiss Hrep idx Hidx) as Hm.
    destruct d.
    - unfold meta in Hm. unfold st_get.
      destruct ((node (crun (cinit n) (es1 ++ es2)) idx).2 !! k) as [[t' [p|]]|]; try discriminate; reflexivity.
    - apply served_bytes; assumption.
  Qed.
End reads.
