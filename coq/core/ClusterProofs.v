(** * ClusterProofs: every node converges to the last-writer-wins documents (C01) and a
    write that returned Ok is held by the replicas that acknowledged it (C06) *)

From stdpp Require Import gmap list.
From Coq Require Import NArith Lia ZArith.
From Coq Require Import ZifyBool ZifyN ZifyNat.
From DC Require Import Ts TsProofs Hlc HlcProofs Orswot OrswotInv OrswotLww OrswotTimely
     OrswotPurge OrswotDiff Actor ActorProofs Cluster.
Open Scope N_scope.

(** ** Ordering views by stamp *)

Definition vle (a b : option (N * bool)) : Prop :=
  match a, b with
  | None, _ => True
  | Some _, None => False
  | Some (t, _), Some (u, _) => t <= u
  end.

Lemma vle_refl a : vle a a.
Proof. destruct a as [[t d]|]; cbn; lia. Qed.

Lemma vle_trans a b c : vle a b -> vle b c -> vle a c.
Proof.
  destruct a as [[ta da]|], b as [[tb db]|], c as [[tc dc]|]; cbn; try tauto; lia.
Qed.

(** ** The operations a request carries *)

Definition req_ops (r : request) : list (N * N * bool) :=
  match r with
  | RSet _ d => [(d_id d, d_ts d, false)]
  | RMultiSet _ ds => map (fun d => (d_id d, d_ts d, false)) ds
  | RDel _ m => [(m_id m, m_ts m, true)]
  | RMultiDel _ ms => map (fun m => (m_id m, m_ts m, true)) ms
  | RPurge => []
  end.

(** No stamp of the request is before the node's cut-off (true within one forgiveness
    period, see [cluster_none_before]). *)
Definition none_before (s : oset) (r : request) : Prop :=
  forall k t d, (k, t, d) ∈ req_ops r -> before (versions s) t = false.

(** ** [newest_per_id] keeps a maximum of every id *)

Section newest.
  Context {A : Type} (idf tsf : A -> N).

  Lemma newest_max (l : list A) x :
    x ∈ l -> exists y, y ∈ newest_per_id idf tsf l /\ idf y = idf x /\ tsf x <= tsf y.
  Proof.
    induction l as [|h r IH]; intros Hx; [inversion Hx|]. cbn [newest_per_id].
    pose proof (newest_per_id_NoDup idf tsf r) as Hnd.
    destruct (find_id idf (idf h) (newest_per_id idf tsf r)) as [z|] eqn:Ef.
    - apply (find_id_iff idf (idf h) _ z Hnd) in Ef as [Hz Hzk].
      destruct (N.ltb_spec (tsf h) (tsf z)) as [Hlt|Hge].
      + apply elem_of_cons in Hx as [->|Hx]; [exists z; repeat split; [assumption|assumption|lia]|].
        apply IH. exact Hx.
      + apply elem_of_cons in Hx as [->|Hx]; [exists h; repeat split; [left|lia]|].
        destruct (IH Hx) as (y & Hy & Hyk & Hle).
        destruct (N.eq_dec (idf y) (idf h)) as [E|Hne].
        * (* y is the element that h replaced *)
          assert (y = z).
          { assert (H1 : find_id idf (idf h) (newest_per_id idf tsf r) = Some y)
              by (apply find_id_iff; auto).
            assert (H2 : find_id idf (idf h) (newest_per_id idf tsf r) = Some z)
              by (apply find_id_iff; auto).
            congruence. }
          subst y. exists h. repeat split; [left|congruence|lia].
        * exists y. split; [|split; assumption]. right. unfold remove_id. apply elem_of_list_filter. split; assumption.
    - apply elem_of_cons in Hx as [->|Hx]; [exists h; repeat split; [left|lia]|].
      destruct (IH Hx) as (y & Hy & Hyk & Hle). exists y. repeat split; [right|..]; assumption.
  Qed.
End newest.

(** ** What one request does to the view of every key *)

(** (a) sound: the new view is the old one or an operation of the request;
    (b) monotone: it never goes back;
    (c) inclusive: it is at least every operation of the request on that key — provided
        nothing in the request is before the cut-off and the storage call succeeds. *)
Definition req_effect (x x' : nodestate) (r : request) : Prop :=
  forall k,
    (view x'.1 k = view x.1 k \/ exists t d, (k, t, d) ∈ req_ops r /\ view x'.1 k = Some (t, d)) /\
    vle (view x.1 k) (view x'.1 k) /\
    (forall t d, (k, t, d) ∈ req_ops r -> vle (Some (t, d)) (view x'.1 k)).

Lemma single_effect (s : oset) (o : op) :
  Inv s -> valid_ts (op_ts o) = true -> (op_src o < NSRC s)%nat ->
  before (versions s) (op_ts o) = false ->
  let s' := if will_apply s (op_key o) (op_ts o) then (apply_op false s o).1 else s in
  forall k,
    (view s' k = view s k \/ (k = op_key o /\ view s' k = Some (op_ts o, op_del o))) /\
    vle (view s k) (view s' k) /\
    (k = op_key o -> vle (Some (op_ts o, op_del o)) (view s' k)).
Proof.
  intros Hi Hv Hsrc Hnb s' k. subst s'.
  destruct (will_apply s (op_key o) (op_ts o)) eqn:Hw.
  - destruct (will_apply_accepted s o Hi Hv Hsrc Hw) as [Hacc Hj].
    destruct (apply_op_view false s o (proj1 Hi)) as [Hview _].
    rewrite Hview, Hacc. cbn [andb].
    destruct (bool_decide_reflect (k = op_key o)) as [->|Hne].
    + rewrite Hj. split; [right; auto|]. split; [|intros _; cbn; lia].
      rewrite will_apply_spec in Hw. apply andb_true_iff in Hw as [_ Hold].
      destruct (view s (op_key o)) as [[u ud]|]; cbn; [lia|exact I].
    + split; [left; reflexivity|]. split; [apply vle_refl|]. intros E. contradiction.
  - split; [left; reflexivity|]. split; [apply vle_refl|]. intros ->.
    rewrite will_apply_spec, Hnb in Hw. cbn [negb andb] in Hw.
    destruct (view s (op_key o)) as [[u ud]|]; [|discriminate]. cbn. lia.
Qed.

(** The bulk handlers, storage succeeding. *)
Section bulk_effect.
  Context {A : Type} (idf tsf : A -> N) (opf : A -> op) (stw : gmap N (N * option N) -> A -> gmap N (N * option N))
          (del : bool).
  Context (Hkey : forall x, op_key (opf x) = idf x) (Hts : forall x, op_ts (opf x) = tsf x)
          (Hdel : forall x, op_del (opf x) = del)
          (Hstw : forall st x k', meta (stw st x) k' =
                                  if decide (k' = idf x) then Some (tsf x, del) else meta st k').

  Lemma bulk_effect s st src (items : list A) :
    Inv s -> Agree s st ->
    (forall x, op_src (opf x) = src) ->
    Forall (fun x => doc_ok (NSRC s) src (tsf x)) items ->
    (forall x, x ∈ items -> before (versions s) (tsf x) = false) ->
    let valid := newest_per_id idf tsf (filter (fun x => will_apply s (idf x) (tsf x) = true) items) in
    let s' := foldl (fun s x => (apply_op false s (opf x)).1) s (sort_by_ts tsf valid) in
    forall k,
      (view s' k = view s k \/ exists x, x ∈ items /\ idf x = k /\ view s' k = Some (tsf x, del)) /\
      vle (view s k) (view s' k) /\
      (forall x, x ∈ items -> idf x = k -> vle (Some (tsf x, del)) (view s' k)).
  Proof.
    intros Hi Hag Hsrcf Hitems Hnb valid s' k.
    destruct (bulk_handler_agree idf tsf opf stw del Hkey Hts Hdel Hstw s st src items SOk
                Hi Hag Hsrcf Hitems) as (Hi' & Hag' & _).
    fold valid in Hag'. cbv zeta in Hag'. fold s' in Hag', Hi'.
    assert (Hnd : NoDup (map idf valid)) by apply newest_per_id_NoDup.
    assert (Hv' : view s' k = match find_id idf k valid with
                              | Some x => Some (tsf x, del)
                              | None => view s k
                              end).
    { rewrite (Hag' k), (meta_foldl_stw idf tsf stw del Hstw valid st k Hnd).
      destruct (find_id idf k valid); [reflexivity|]. symmetry. apply Hag. }
    assert (Hin : forall x, x ∈ valid -> x ∈ items /\ will_apply s (idf x) (tsf x) = true).
    { intros x Hx. apply newest_per_id_in in Hx. apply elem_of_list_filter in Hx. tauto. }
    assert (Hnewer : forall x, will_apply s (idf x) (tsf x) = true -> vle (view s (idf x)) (Some (tsf x, del))).
    { intros x Hw. rewrite will_apply_spec in Hw. apply andb_true_iff in Hw as [_ Hold].
      destruct (view s (idf x)) as [[u ud]|]; cbn; [lia|exact I]. }
    rewrite Hv'. destruct (find_id idf k valid) as [z|] eqn:Ez.
    - apply (find_id_iff idf k valid z Hnd) in Ez as [Hz Hzk]. destruct (Hin z Hz) as [Hzi Hzw].
      split; [right; exists z; auto|]. split; [subst k; apply Hnewer; exact Hzw|].
      intros x Hx Hxk.
      destruct (will_apply s (idf x) (tsf x)) eqn:Hw.
      + assert (Hxf : x ∈ filter (fun x => will_apply s (idf x) (tsf x) = true) items)
          by (apply elem_of_list_filter; auto).
        destruct (newest_max idf tsf _ x Hxf) as (y & Hy & Hyk & Hle).
        assert (y = z).
        { assert (H1 : find_id idf k valid = Some y) by (apply find_id_iff; auto; split; [exact Hy|congruence]).
          assert (H2 : find_id idf k valid = Some z) by (apply find_id_iff; auto).
          congruence. }
        subst y. cbn. exact Hle.
      + rewrite will_apply_spec, (Hnb x Hx) in Hw. cbn [negb andb] in Hw.
        rewrite Hxk in Hw. pose proof (Hnewer z Hzw) as Hn. rewrite Hzk in Hn.
        destruct (view s k) as [[u ud]|]; [|discriminate]. cbn in *. lia.
    - split; [left; reflexivity|]. split; [apply vle_refl|].
      intros x Hx Hxk.
      destruct (will_apply s (idf x) (tsf x)) eqn:Hw.
      + exfalso. assert (Hxf : x ∈ filter (fun x => will_apply s (idf x) (tsf x) = true) items)
          by (apply elem_of_list_filter; auto).
        destruct (newest_max idf tsf _ x Hxf) as (y & Hy & Hyk & _).
        apply find_id_None_iff in Ez. apply Ez. rewrite <- Hxk, <- Hyk. apply elem_of_list_fmap_1. exact Hy.
      + rewrite will_apply_spec, (Hnb x Hx) in Hw. cbn [negb andb] in Hw. rewrite Hxk in Hw.
        destruct (view s k) as [[u ud]|]; [|discriminate]. cbn. lia.
  Qed.
End bulk_effect.

(** ** One request on one node *)

Lemma apply_req_effect x r :
  AInv x -> req_ok (NSRC x.1) r -> none_before x.1 r -> r <> RPurge ->
  AInv (apply_req x r) /\ NSRC (apply_req x r).1 = NSRC x.1 /\ req_effect x (apply_req x r) r.
Proof.
  intros HA Hr Hnb Hnp. destruct (actor_step_agree x r SOk HA Hr) as [HA' Hn].
  split; [exact HA'|]. split; [exact Hn|].
  destruct x as [s st]. destruct HA as [Hi Hag]. cbn [fst snd] in *.
  unfold apply_req. destruct r; cbn [actor_step fst req_ops req_ok] in *; try contradiction.
  - (* Set *)
    destruct Hr as [Hv Hsrc].
    pose proof (single_effect s (OIns src (d_id d) (d_ts d)) Hi Hv Hsrc
                  (Hnb _ _ _ ltac:(left))) as H. cbn [op_key op_ts op_del apply_op] in H.
    intros k. destruct (H k) as (A & B & C). unfold on_set.
    destruct (will_apply s (d_id d) (d_ts d)); cbn [negb fst snd] in *.
    + split; [|split].
      * destruct A as [A|[-> A]]; [left; exact A|right]. exists (d_ts d), false. split; [left|exact A].
      * exact B.
      * intros t dd Hin. apply elem_of_list_singleton in Hin. injection Hin as -> -> ->. apply C. reflexivity.
    + split; [left; reflexivity|]. split; [apply vle_refl|].
      intros t dd Hin. apply elem_of_list_singleton in Hin. injection Hin as -> -> ->. apply C. reflexivity.
  - (* MultiSet *)
    pose proof (bulk_effect d_id d_ts (fun d => OIns src (d_id d) (d_ts d))
                  (fun st d => st_put st (d_id d) (d_ts d) (d_data d)) false
                  (fun _ => eq_refl) (fun _ => eq_refl) (fun _ => eq_refl)
                  (fun st x k' => meta_put st (d_id x) (d_ts x) (d_data x) k')
                  s st src ds Hi Hag (fun _ => eq_refl) Hr) as H.
    cbv zeta in H. unfold on_multi_set. cbn [fst snd]. intros k.
    destruct (H (fun x Hx => Hnb (d_id x) (d_ts x) false
                    (elem_of_list_fmap_1 (fun d => (d_id d, d_ts d, false)) ds x Hx)) k) as (A & B & C).
    split; [|split; [exact B|]].
    + destruct A as [A|(x & Hx & Hk & A)]; [left; exact A|right].
      exists (d_ts x), false. split; [|exact A]. rewrite <- Hk.
      apply (elem_of_list_fmap_1 (fun d => (d_id d, d_ts d, false)) ds x Hx).
    + intros t dd Hin. apply elem_of_list_fmap in Hin as (x & [= -> -> ->] & Hx). apply (C x Hx eq_refl).
  - (* Del *)
    destruct Hr as [Hv Hsrc].
    pose proof (single_effect s (ODel src (m_id m) (m_ts m)) Hi Hv Hsrc
                  (Hnb _ _ _ ltac:(left))) as H. cbn [op_key op_ts op_del apply_op] in H.
    intros k. destruct (H k) as (A & B & C). unfold on_del.
    destruct (will_apply s (m_id m) (m_ts m)); cbn [negb fst snd] in *.
    + split; [|split].
      * destruct A as [A|[-> A]]; [left; exact A|right]. exists (m_ts m), true. split; [left|exact A].
      * exact B.
      * intros t dd Hin. apply elem_of_list_singleton in Hin. injection Hin as -> -> ->. apply C. reflexivity.
    + split; [left; reflexivity|]. split; [apply vle_refl|].
      intros t dd Hin. apply elem_of_list_singleton in Hin. injection Hin as -> -> ->. apply C. reflexivity.
  - (* MultiDel *)
    pose proof (bulk_effect m_id m_ts (fun m => ODel src (m_id m) (m_ts m))
                  (fun st m => st_tomb st (m_id m) (m_ts m)) true
                  (fun _ => eq_refl) (fun _ => eq_refl) (fun _ => eq_refl)
                  (fun st x k' => meta_tomb st (m_id x) (m_ts x) k')
                  s st src ms Hi Hag (fun _ => eq_refl) Hr) as H.
    cbv zeta in H. unfold on_multi_del. cbn [fst snd]. intros k.
    destruct (H (fun x Hx => Hnb (m_id x) (m_ts x) true
                    (elem_of_list_fmap_1 (fun m => (m_id m, m_ts m, true)) ms x Hx)) k) as (A & B & C).
    split; [|split; [exact B|]].
    + destruct A as [A|(x & Hx & Hk & A)]; [left; exact A|right].
      exists (m_ts x), true. split; [|exact A]. rewrite <- Hk.
      apply (elem_of_list_fmap_1 (fun m => (m_id m, m_ts m, true)) ms x Hx).
    + intros t dd Hin. apply elem_of_list_fmap in Hin as (x & [= -> -> ->] & Hx). apply (C x Hx eq_refl).
Qed.

(** ** The cluster *)

Section cluster.
  Set Default Proof Using "All".
  (** The complete history of client operations of the run: (key, stamp, is_delete).
      It is fixed up front (it includes operations that are issued later in the trace),
      which lets the invariants speak about "any stamp of the history". *)
  Context (H : list (N * N * bool)).
  Let HS : list N := map (fun o => o.1.2) H.

  (** Premises of C01: valid stamps, all within one forgiveness period; two operations on the
      same id never share a stamp unless they are the same operation (a bulk operation stamps
      all its ids alike; stamps of different operations differ by C09/C11). *)
  Context (Hvalid : forall k t d, (k, t, d) ∈ H -> valid_ts t = true /\ 1 <= ts_tick t).
  Context (Hwithin : forall k t d k' t' d', (k, t, d) ∈ H -> (k', t', d') ∈ H -> ts_tick t' < ts_tick t + W).
  Context (Hdistinct : forall k t d d', (k, t, d) ∈ H -> (k, t, d') ∈ H -> d = d').

  Definition NInv (x : nodestate) : Prop :=
    AInv x /\ NSRC x.1 = 2%nat /\ MaxsFrom (versions x.1) HS /\
    (forall k t d, view x.1 k = Some (t, d) -> (k, t, d) ∈ H).

  Definition req_in_H (r : request) : Prop := forall k t d, (k, t, d) ∈ req_ops r -> (k, t, d) ∈ H.

  Lemma HS_in k t d : (k, t, d) ∈ H -> t ∈ HS.
  Proof. intros Hin. unfold HS. apply (elem_of_list_fmap_1 (fun o : N * N * bool => o.1.2) H (k, t, d) Hin). Qed.

  (** Within one forgiveness period nothing of the history is ever before a cut-off. *)
  Lemma none_before_H x k t d : NInv x -> (k, t, d) ∈ H -> before (versions x.1) t = false.
  Proof.
    intros (HA & _ & HM & _) Hin. destruct (Hvalid _ _ _ Hin) as [Hv H1].
    destruct (before (versions x.1) t) eqn:Hb; [|reflexivity].
    destruct (before_witness _ _ _ (proj2 (proj1 HA)) HM Hv Hb) as (y & Hy & Hvy & _ & Hlt).
    unfold HS in Hy. apply elem_of_list_fmap in Hy as ([[k' t'] d'] & -> & Hin'). cbn [fst snd] in *.
    rewrite (not_before_within t t' Hv Hvy H1 (Hwithin _ _ _ _ _ _ Hin Hin')) in Hlt. discriminate.
  Qed.

  (** Within one forgiveness period the purge task has nothing to purge: no tombstone of the
      history is older than a cut-off.  The purge handler leaves the node as it is. *)
  Lemma purge_is_noop_within_W x : NInv x -> (actor_step false true x RPurge SOk).1 = x.
  Proof.
    destruct x as [s st]. intros Hx. pose proof Hx as ([Hi Hag] & _ & _ & Hs). cbn [fst snd] in *.
    unfold actor_step, on_purge, set_purge.
    assert (Hdead : forall k d, dead s !! k = Some d -> before (versions s) d = false).
    { intros k d Hd. apply (none_before_H (s, st) k d true Hx). apply Hs. unfold view.
      destruct (proj1 Hi k) as [He|Hn]; [rewrite He, Hd; reflexivity|congruence]. }
    rewrite (filter_none (fun kt : N * N => before (versions s) kt.2 = true)).
    - cbn [foldl fst]. rewrite map_filter_id.
      + destruct s; reflexivity.
      + intros k d Hd. cbn [snd]. exact (Hdead k d Hd).
    - intros [k d] Hin. apply elem_of_map_to_list in Hin. cbn [snd]. rewrite (Hdead k d Hin). discriminate.
  Qed.

  (** A node restarted on its own store (the set rebuilt by [load_states_from_storage]) is again
      a consistent node of the history and shows what it showed before. *)
  Lemma restart_ok x :
    NInv x -> NInv (rebuild 2 x.2, x.2) /\ forall k, view (rebuild 2 x.2) k = view x.1 k.
  Proof.
    intros (HA & Hn & HM & Hs).
    assert (Hsv : StoreValid x.2).
    { intros k t p Hst. pose proof (proj2 HA k) as Hag. unfold meta in Hag. rewrite Hst in Hag.
      destruct p; apply Hs in Hag; exact (proj1 (Hvalid _ _ _ Hag)). }
    assert (Hv : forall k, view (rebuild 2 x.2) k = view x.1 k).
    { intros k. rewrite (proj2 (rebuild_view 2 x.2 k ltac:(lia) Hsv)). symmetry. apply (proj2 HA). }
    split; [|exact Hv]. split; [|split; [|split]].
    - split; [exact (proj1 (rebuild_view 2 x.2 0 ltac:(lia) Hsv))|].
      intros k. cbn [fst snd]. exact (proj2 (rebuild_view 2 x.2 k ltac:(lia) Hsv)).
    - apply rebuild_length.
    - cbn [fst]. apply rebuild_MaxsFrom. intros k t b Hm. rewrite <- (proj2 HA k) in Hm.
      apply Hs in Hm. exact (HS_in _ _ _ Hm).
    - intros k t d. cbn [fst]. rewrite Hv. apply Hs.
  Qed.

  Definition src_ok (r : request) : Prop :=
    match r with RSet s _ | RMultiSet s _ | RDel s _ | RMultiDel s _ => (s < 2)%nat | RPurge => True end.

  Lemma req_ok_of r : req_in_H r -> src_ok r -> req_ok 2 r.
  Proof.
    intros Hin Hsrc. destruct r; cbn [req_ok req_ops src_ok] in *.
    - split; [|exact Hsrc]. eapply Hvalid. apply Hin. left.
    - apply Forall_forall. intros x Hx. split; [|exact Hsrc].
      eapply Hvalid. apply Hin. apply (elem_of_list_fmap_1 (fun d => (d_id d, d_ts d, false)) ds x Hx).
    - split; [|exact Hsrc]. eapply Hvalid. apply Hin. left.
    - apply Forall_forall. intros x Hx. split; [|exact Hsrc].
      eapply Hvalid. apply Hin. apply (elem_of_list_fmap_1 (fun m => (m_id m, m_ts m, true)) ms x Hx).
    - exact I.
  Qed.

  (** The versions after a request only learn stamps of the request. *)
  Lemma foldl_apply_MaxsFrom {A} (opf : A -> op) (l : list A) : forall s S,
    MaxsFrom (versions s) S -> (forall x, x ∈ l -> op_ts (opf x) ∈ S) ->
    MaxsFrom (versions (foldl (fun s x => (apply_op false s (opf x)).1) s l)) S.
  Proof.
    induction l as [|x l IH]; intros s S HM Hin; [exact HM|]. cbn [foldl]. apply IH.
    - eapply MaxsFrom_mono; [apply apply_op_MaxsFrom; exact HM|].
      intros y Hy. apply elem_of_cons in Hy as [->|Hy]; [apply Hin; left|exact Hy].
    - intros y Hy. apply Hin. right. exact Hy.
  Qed.

  Lemma apply_req_MaxsFrom x r :
    MaxsFrom (versions x.1) HS -> req_in_H r -> MaxsFrom (versions (apply_req x r).1) HS.
  Proof.
    intros HM Hin. destruct x as [s st]. unfold apply_req. cbn [fst] in *.
    destruct r; cbn [actor_step req_ops] in *.
    - unfold on_set. destruct (negb _); [exact HM|]. cbn [fst].
      eapply MaxsFrom_mono; [apply (apply_op_MaxsFrom false s (OIns src (d_id d) (d_ts d))); exact HM|].
      intros y Hy. apply elem_of_cons in Hy as [->|Hy]; [|exact Hy]. eapply HS_in. apply Hin. left.
    - unfold on_multi_set. cbn [fst].
      apply (foldl_apply_MaxsFrom (fun d => OIns src (d_id d) (d_ts d))); [exact HM|].
      intros d Hd. cbn [op_ts].
      assert (Hd' : d ∈ ds).
      { rewrite (sort_perm d_ts) in Hd. apply newest_per_id_in in Hd. apply elem_of_list_filter in Hd. tauto. }
      eapply HS_in. apply Hin. apply (elem_of_list_fmap_1 (fun d => (d_id d, d_ts d, false)) ds d Hd').
    - unfold on_del. destruct (negb _); [exact HM|]. cbn [fst].
      eapply MaxsFrom_mono; [apply (apply_op_MaxsFrom false s (ODel src (m_id m) (m_ts m))); exact HM|].
      intros y Hy. apply elem_of_cons in Hy as [->|Hy]; [|exact Hy]. eapply HS_in. apply Hin. left.
    - unfold on_multi_del. cbn [fst].
      apply (foldl_apply_MaxsFrom (fun m => ODel src (m_id m) (m_ts m))); [exact HM|].
      intros d Hd. cbn [op_ts].
      assert (Hd' : d ∈ ms).
      { rewrite (sort_perm m_ts) in Hd. apply newest_per_id_in in Hd. apply elem_of_list_filter in Hd. tauto. }
      eapply HS_in. apply Hin. apply (elem_of_list_fmap_1 (fun m => (m_id m, m_ts m, true)) ms d Hd').
    - unfold on_purge. destruct (set_purge s) as [purged s1] eqn:Ep. cbn [fst].
      assert (Hs1 : versions s1 = versions s).
      { assert (E : s1 = (set_purge s).2) by (rewrite Ep; reflexivity). rewrite E. reflexivity. }
      rewrite Hs1. exact HM.
  Qed.

  (** One request from the history on one node. *)
  Lemma node_request x r :
    NInv x -> req_in_H r -> src_ok r -> r <> RPurge ->
    NInv (apply_req x r) /\ req_effect x (apply_req x r) r.
  Proof.
    intros HN Hin Hsrc Hnp. pose proof HN as (HA & Hn & HM & Hsound).
    assert (Hrok : req_ok (NSRC x.1) r).
    { rewrite Hn. apply req_ok_of; assumption. }
    assert (Hnb : none_before x.1 r).
    { intros k t d Hk. eapply none_before_H; [exact HN|]. apply Hin. exact Hk. }
    destruct (apply_req_effect x r HA Hrok Hnb Hnp) as (HA' & Hn' & Heff).
    split; [|exact Heff]. split; [exact HA'|]. split; [congruence|]. split.
    - apply apply_req_MaxsFrom; assumption.
    - intros k t d Hv. destruct (Heff k) as ([E|(t' & d' & Hr & E)] & _ & _).
      + rewrite E in Hv. eapply Hsound. exact Hv.
      + rewrite E in Hv. injection Hv as <- <-. apply Hin. exact Hr.
  Qed.
End cluster.

Section cluster2.
  Set Default Proof Using "All".
  Context (H : list (N * N * bool)).
  Context (Hvalid : forall k t d, (k, t, d) ∈ H -> valid_ts t = true /\ 1 <= ts_tick t).
  Context (Hwithin : forall k t d k' t' d', (k, t, d) ∈ H -> (k', t', d') ∈ H -> ts_tick t' < ts_tick t + W).
  Context (Hdistinct : forall k t d d', (k, t, d) ∈ H -> (k, t, d') ∈ H -> d = d').

  Notation NInvH := (NInv H).

  (** Several requests in a row. *)
  Lemma node_requests rs : forall x,
    NInvH x -> Forall (fun r => req_in_H H r /\ src_ok r /\ r <> RPurge) rs ->
    NInvH (apply_reqs x rs) /\
    (forall k, vle (view x.1 k) (view (apply_reqs x rs).1 k)) /\
    (forall k t d r, r ∈ rs -> (k, t, d) ∈ req_ops r -> vle (Some (t, d)) (view (apply_reqs x rs).1 k)).
  Proof.
    induction rs as [|r rs IH]; intros x HN Hall.
    - split; [exact HN|]. split; [intros k; apply vle_refl|]. intros k t d r Hr. inversion Hr.
    - inversion Hall as [|? ? (Hin & Hsrc & Hnp) Hall']; subst.
      destruct (node_request H Hvalid Hwithin Hdistinct x r HN Hin Hsrc Hnp) as [HN1 Heff].
      unfold apply_reqs. cbn [foldl]. fold (apply_reqs (apply_req x r) rs).
      destruct (IH (apply_req x r) HN1 Hall') as (HN2 & Hmono & Hincl).
      split; [exact HN2|]. split.
      + intros k. eapply vle_trans; [apply (proj1 (proj2 (Heff k)))|apply Hmono].
      + intros k t d r' Hr' Hop. apply elem_of_cons in Hr' as [->|Hr'].
        * eapply vle_trans; [apply (proj2 (proj2 (Heff k)) t d Hop)|apply Hmono].
        * eapply Hincl; eassumption.
  Qed.

  (** The repair requests derived from a peer's state are requests of the history. *)
  Lemma removal_requests_ok xj xi :
    NInvH xi ->
    Forall (fun r => req_in_H H r /\ src_ok r /\ r <> RPurge)
           (removal_requests (exchange_diff xj xi).2).
  Proof.
    intros (HAi & _ & _ & Hsi).
    assert (Hrem : forall k t, (k, t) ∈ (exchange_diff xj xi).2 -> (k, t, true) ∈ H).
    { intros k t Hin. unfold exchange_diff in Hin. apply diff_removed in Hin as [Hd _].
      apply Hsi. unfold view. destruct (proj1 (proj1 HAi) k) as [He|Hn]; [rewrite He, Hd; reflexivity|congruence]. }
    unfold removal_requests. destruct (exchange_diff xj xi).2 as [|kt [|kt' l]] eqn:E.
    - constructor.
    - constructor; [|constructor]. split; [|split; [cbn; lia|discriminate]].
      intros k t d Hin. cbn in Hin. apply elem_of_list_singleton in Hin. injection Hin as -> -> ->.
      apply Hrem. destruct kt. left.
    - constructor; [|constructor]. split; [|split; [cbn; lia|discriminate]].
      intros k t d Hin. cbn [req_ops] in Hin. apply elem_of_list_fmap in Hin as (m & [= -> -> ->] & Hm).
      apply elem_of_list_fmap in Hm as ([k0 t0] & -> & Hkt). cbn. apply Hrem. exact Hkt.
  Qed.

  Lemma fetch_docs_sound xi ids d :
    NInvH xi -> d ∈ fetch_docs xi ids -> (d_id d, d_ts d, false) ∈ H /\ view xi.1 (d_id d) = Some (d_ts d, false).
  Proof.
    intros (HAi & _ & _ & Hsi) Hd. unfold fetch_docs in Hd. apply elem_of_list_omap in Hd as (k & Hk & Hx).
    unfold st_get in Hx. destruct (xi.2 !! k) as [[t [p|]]|] eqn:E; try discriminate.
    injection Hx as <-. cbn [d_id d_ts].
    assert (Hv : view xi.1 k = Some (t, false)).
    { rewrite (proj2 HAi k). unfold meta. rewrite E. reflexivity. }
    split; [apply Hsi; exact Hv|exact Hv].
  Qed.

  Lemma modified_requests_ok xi modified :
    NInvH xi ->
    Forall (fun r => req_in_H H r /\ src_ok r /\ r <> RPurge) (modified_requests xi modified).
  Proof.
    intros HNi. unfold modified_requests. destruct modified as [|kt l]; [constructor|].
    constructor; [|constructor]. split; [|split; [cbn; lia|discriminate]].
    intros k t d Hin. cbn [req_ops] in Hin. apply elem_of_list_fmap in Hin as (x & [= -> -> ->] & Hx).
    apply (fetch_docs_sound xi _ x HNi Hx).
  Qed.

  (** A complete exchange of [j] against [i] (both states taken at the same moment):
      afterwards [j] holds, for every key, at least what [i] holds. *)
  Lemma repair_catches_up xj xi :
    NInvH xj -> NInvH xi ->
    let '(modified, removed) := exchange_diff xj xi in
    let xj' := apply_reqs (apply_reqs xj (removal_requests removed)) (modified_requests xi modified) in
    NInvH xj' /\ (forall k, vle (view xj.1 k) (view xj'.1 k)) /\ (forall k, vle (view xi.1 k) (view xj'.1 k)).
  Proof.
    intros HNj HNi. destruct (exchange_diff xj xi) as [modified removed] eqn:Ed.
    pose proof (removal_requests_ok xj xi HNi) as Hr. rewrite Ed in Hr. cbn [snd] in Hr.
    destruct (node_requests _ xj HNj Hr) as (HN1 & Hm1 & Hi1).
    pose proof (modified_requests_ok xi modified HNi) as Hmq.
    destruct (node_requests _ _ HN1 Hmq) as (HN2 & Hm2 & Hi2).
    split; [exact HN2|]. split; [intros k; eapply vle_trans; [apply Hm1|apply Hm2]|].
    intros k. destruct (view xi.1 k) as [[t d]|] eqn:Evi; [|exact I].
    pose proof HNi as (HAi & _ & _ & Hsi). pose proof (Hsi _ _ _ Evi) as HinH.
    destruct (diff_wants xj.1 k t) eqn:Hw.
    - (* listed *)
      destruct d.
      + (* a removal *)
        assert (Hin : (k, t) ∈ removed).
        { assert (E : removed = (exchange_diff xj xi).2) by (rewrite Ed; reflexivity). rewrite E.
          apply diff_removed. split; [|exact Hw]. unfold view in Evi.
          destruct (entries xi.1 !! k); [discriminate|]. destruct (dead xi.1 !! k); congruence. }
        eapply vle_trans; [|apply Hm2].
        assert (Hreq : exists r, r ∈ removal_requests removed /\ (k, t, true) ∈ req_ops r).
        { clear -Hin. unfold removal_requests. destruct removed as [|kt [|kt' l]].
          - inversion Hin.
          - apply elem_of_list_singleton in Hin. subst kt. eexists. split; [left|]. cbn. left.
          - eexists. split; [left|]. cbn [req_ops].
            apply elem_of_list_fmap. exists (mkMeta k t). split; [reflexivity|].
            apply (elem_of_list_fmap_1 (fun kt : N * N => mkMeta kt.1 kt.2) (kt :: kt' :: l) (k, t) Hin). }
        destruct Hreq as (r & Hr1 & Hr2). eapply Hi1; eassumption.
      + (* a modification: the document is fetched from i's store *)
        assert (Hin : (k, t) ∈ modified).
        { assert (E : modified = (exchange_diff xj xi).1) by (rewrite Ed; reflexivity). rewrite E.
          apply diff_modified. split; [|exact Hw]. unfold view in Evi.
          destruct (entries xi.1 !! k); [congruence|]. destruct (dead xi.1 !! k); discriminate. }
        assert (Hdoc : exists p, mkDoc k t p ∈ fetch_docs xi (map fst modified)).
        { pose proof (proj2 HAi k) as Hag. rewrite Evi in Hag. unfold meta in Hag.
          destruct (xi.2 !! k) as [[t' [p|]]|] eqn:Es; try discriminate. injection Hag as Et. subst t'.
          exists p. unfold fetch_docs. apply elem_of_list_omap. exists k. split.
          - apply (elem_of_list_fmap_1 fst modified (k, t) Hin).
          - unfold st_get. rewrite Es. reflexivity. }
        destruct Hdoc as (p & Hp).
        assert (Hreq : exists r, r ∈ modified_requests xi modified /\ (k, t, false) ∈ req_ops r).
        { clear -Hin Hp. unfold modified_requests. destruct modified as [|kt l]; [inversion Hin|].
          eexists. split; [left|]. cbn [req_ops].
          apply (elem_of_list_fmap_1 (fun d => (d_id d, d_ts d, false)) _ (mkDoc k t p) Hp). }
        destruct Hreq as (r & Hr1 & Hr2). eapply Hi2; eassumption.
    - (* not listed: j already holds something at least as new (nothing is before the cut-off) *)
      rewrite diff_wants_spec in Hw.
      eapply vle_trans; [|eapply vle_trans; [apply Hm1|apply Hm2]].
      destruct (view xj.1 k) as [[u ud]|] eqn:Evj.
      + cbn. lia.
      + rewrite (none_before_H H Hvalid Hwithin Hdistinct xj k t d HNj HinH) in Hw. discriminate.
  Qed.
End cluster2.

Section convergence.
  Set Default Proof Using "All".
  Context (H : list (N * N * bool)).
  Context (Hvalid : forall k t d, (k, t, d) ∈ H -> valid_ts t = true /\ 1 <= ts_tick t).
  Context (Hwithin : forall k t d k' t' d', (k, t, d) ∈ H -> (k', t', d') ∈ H -> ts_tick t' < ts_tick t + W).
  Context (Hdistinct : forall k t d d', (k, t, d) ∈ H -> (k, t, d') ∈ H -> d = d').

  Notation NInvH := (NInv H).

  Definition cluster_ok (n : nat) (c : list nodestate) : Prop := length c = n /\ Forall NInvH c.

  Lemma NInv_init : NInvH (empty_set 2, ∅).
  Proof.
    split; [apply AInv_empty; lia|]. split; [reflexivity|]. split; [apply MaxsFrom_empty|].
    intros k t d. cbn [fst]. rewrite view_empty. discriminate.
  Qed.

  Lemma cluster_ok_init n : cluster_ok n (cinit n).
  Proof.
    split; [apply replicate_length|]. apply Forall_forall. intros x Hx.
    apply elem_of_replicate in Hx as [-> _]. apply NInv_init.
  Qed.

  Lemma node_ok n c i : cluster_ok n c -> NInvH (node c i).
  Proof.
    intros [_ Hall]. unfold node. destruct (c !! i) as [x|] eqn:E; cbn; [|apply NInv_init].
    rewrite Forall_forall in Hall. apply Hall. eapply elem_of_list_lookup_2. exact E.
  Qed.

  Lemma upd_ok n c i x : cluster_ok n c -> NInvH x -> cluster_ok n (upd c i x).
  Proof.
    intros [Hl Hall] Hx. split; [unfold upd; rewrite insert_length; exact Hl|].
    unfold upd. apply Forall_insert; assumption.
  Qed.

  Lemma node_upd c i x j : (i < length c)%nat ->
    node (upd c i x) j = if decide (j = i) then x else node c j.
  Proof.
    intros Hi. unfold node, upd. destruct (decide (j = i)) as [->|Hne].
    - rewrite list_lookup_insert by exact Hi. reflexivity.
    - rewrite list_lookup_insert_ne by congruence. reflexivity.
  Qed.

  Lemma node_upd_out c i x j : ~ (i < length c)%nat -> node (upd c i x) j = node c j.
  Proof. intros Hi. unfold node, upd. rewrite list_insert_ge by lia. reflexivity. Qed.

  (** Well-formed events: indices in range, operations from the history. *)
  Definition mut_in_H (m : mutation) : Prop := req_in_H H (mutation_request 0 m).

  Definition wf_event (n : nat) (e : cevent) : Prop :=
    match e with
    | CIssue i m acks => (i < n)%nat /\ mut_in_H m /\ Forall (fun j => (j < n)%nat) acks
    | CBatch j ms => (j < n)%nat /\ Forall mut_in_H ms
    | CRepair j i => (j < n)%nat /\ (i < n)%nat
    | CDiffRemovals j removed => (j < n)%nat /\ (forall k t, (k, t) ∈ removed -> (k, t, true) ∈ H)
    | CFetchApply j i _ => (j < n)%nat /\ (i < n)%nat
    | CPurge i | CRestart i => (i < n)%nat
    end.

  Lemma mutation_request_ok m : mut_in_H m ->
    req_in_H H (mutation_request 0 m) /\ src_ok (mutation_request 0 m) /\ mutation_request 0 m <> RPurge.
  Proof. intros Hm. split; [exact Hm|]. destruct m; cbn; split; try lia; discriminate. Qed.

  Lemma batch_requests_ok ms : Forall mut_in_H ms ->
    Forall (fun r => req_in_H H r /\ src_ok r /\ r <> RPurge) (batch_requests ms).
  Proof.
    intros Hall. unfold batch_requests.
    set (dels := flat_map _ ms). set (puts := flat_map (fun m => match m with MPut d => [d] | MPutMany ds => ds | _ => [] end) ms).
    assert (Hd : forall x, x ∈ dels -> (m_id x, m_ts x, true) ∈ H).
    { intros x Hx. subst dels. apply elem_of_list_In, in_flat_map in Hx as (m & Hm & Hx).
      apply elem_of_list_In in Hm. rewrite Forall_forall in Hall. specialize (Hall m Hm).
      destruct m; cbn in Hx; try contradiction.
      - destruct Hx as [<-|[]]. apply Hall. cbn. left.
      - apply Hall. cbn. apply elem_of_list_In in Hx.
        apply (elem_of_list_fmap_1 (fun m => (m_id m, m_ts m, true)) ms0 x Hx). }
    assert (Hp : forall x, x ∈ puts -> (d_id x, d_ts x, false) ∈ H).
    { intros x Hx. subst puts. apply elem_of_list_In, in_flat_map in Hx as (m & Hm & Hx).
      apply elem_of_list_In in Hm. rewrite Forall_forall in Hall. specialize (Hall m Hm).
      destruct m; cbn in Hx; try contradiction.
      - destruct Hx as [<-|[]]. apply Hall. cbn. left.
      - apply Hall. cbn. apply elem_of_list_In in Hx.
        apply (elem_of_list_fmap_1 (fun d => (d_id d, d_ts d, false)) ds x Hx). }
    apply Forall_app. split.
    - destruct dels as [|d0 dl] eqn:E; [constructor|]. rewrite <- E in *. constructor; [|constructor].
      split; [|split; [cbn; lia|discriminate]]. intros k t d Hin. cbn in Hin.
      apply elem_of_list_fmap in Hin as (x & [= -> -> ->] & Hx). apply Hd. exact Hx.
    - destruct puts as [|d0 dl] eqn:E; [constructor|]. rewrite <- E in *. constructor; [|constructor].
      split; [|split; [cbn; lia|discriminate]]. intros k t d Hin. cbn in Hin.
      apply elem_of_list_fmap in Hin as (x & [= -> -> ->] & Hx). apply Hp. exact Hx.
  Qed.

  Lemma removal_requests_of_H removed :
    (forall k t, (k, t) ∈ removed -> (k, t, true) ∈ H) ->
    Forall (fun r => req_in_H H r /\ src_ok r /\ r <> RPurge) (removal_requests removed).
  Proof.
    intros Hrem. unfold removal_requests. destruct removed as [|kt [|kt' l]].
    - constructor.
    - constructor; [|constructor]. split; [|split; [cbn; lia|discriminate]].
      intros k t d Hin. cbn in Hin. apply elem_of_list_singleton in Hin. injection Hin as -> -> ->.
      apply Hrem. destruct kt. left.
    - constructor; [|constructor]. split; [|split; [cbn; lia|discriminate]].
      intros k t d Hin. cbn [req_ops] in Hin. apply elem_of_list_fmap in Hin as (m & [= -> -> ->] & Hm).
      apply elem_of_list_fmap in Hm as ([k0 t0] & -> & Hkt). cbn. apply Hrem. exact Hkt.
  Qed.

  (** Every event keeps the cluster invariant, and no node's view of any key goes back. *)
  Lemma cstep_ok n c e :
    cluster_ok n c -> wf_event n e ->
    cluster_ok n (cstep c e) /\
    forall idx k, vle (view (node c idx).1 k) (view (node (cstep c e) idx).1 k).
  Proof.
    intros Hc Hwf. pose proof Hc as [Hlen _]. destruct e; cbn [cstep wf_event] in *; try contradiction.
    - (* issue: the issuer, then every acknowledging replica *)
      destruct Hwf as (Hi & Hm & Hacks). destruct (mutation_request_ok m Hm) as (A & B & C).
      set (r := mutation_request 0 m) in *.
      assert (Hstep : forall c' j, cluster_ok n c' -> (j < n)%nat ->
                cluster_ok n (upd c' j (apply_req (node c' j) r)) /\
                forall idx k, vle (view (node c' idx).1 k) (view (node (upd c' j (apply_req (node c' j) r)) idx).1 k)).
      { intros c' j Hc' Hj. destruct (node_request H Hvalid Hwithin Hdistinct _ r (node_ok n c' j Hc') A B C) as [HN Heff].
        split; [apply upd_ok; assumption|]. intros idx k. rewrite node_upd by (rewrite (proj1 Hc'); exact Hj).
        destruct (decide (idx = j)) as [->|_]; [apply (proj1 (proj2 (Heff k)))|apply vle_refl]. }
      destruct (Hstep c i Hc Hi) as [Hc1 Hm1].
      revert Hc1 Hm1. generalize (upd c i (apply_req (node c i) r)). intros c1 Hc1 Hm1.
      revert c1 Hc1 Hm1. induction acks as [|j acks IH]; intros c1 Hc1 Hm1; [split; assumption|].
      inversion Hacks as [|? ? Hj Hacks']; subst. cbn [foldl].
      destruct (Hstep c1 j Hc1 Hj) as [Hc2 Hm2]. apply IH; [assumption|assumption|].
      intros idx k. eapply vle_trans; [apply Hm1|apply Hm2].
    - (* batch *)
      destruct Hwf as (Hj & Hms).
      destruct (node_requests H Hvalid Hwithin Hdistinct _ _ (node_ok n c j Hc) (batch_requests_ok ms Hms)) as (HN & Hmono & _).
      split; [apply upd_ok; assumption|]. intros idx k. rewrite node_upd by (rewrite Hlen; exact Hj).
      destruct (decide (idx = j)) as [->|_]; [apply Hmono|apply vle_refl].
    - (* complete repair *)
      destruct Hwf as (Hj & Hi).
      pose proof (repair_catches_up H Hvalid Hwithin Hdistinct (node c j) (node c i) (node_ok n c j Hc) (node_ok n c i Hc)) as Hr.
      destruct (exchange_diff (node c j) (node c i)) as [modified removed]. destruct Hr as (HN & Hmono & _).
      split; [apply upd_ok; assumption|]. intros idx k. rewrite node_upd by (rewrite Hlen; exact Hj).
      destruct (decide (idx = j)) as [->|_]; [apply Hmono|apply vle_refl].
    - (* removal half alone *)
      destruct Hwf as (Hj & Hrem).
      destruct (node_requests H Hvalid Hwithin Hdistinct _ _ (node_ok n c j Hc) (removal_requests_of_H removed Hrem)) as (HN & Hmono & _).
      split; [apply upd_ok; assumption|]. intros idx k. rewrite node_upd by (rewrite Hlen; exact Hj).
      destruct (decide (idx = j)) as [->|_]; [apply Hmono|apply vle_refl].
    - (* fetch + modification half alone *)
      destruct Hwf as (Hj & Hi).
      destruct (node_requests H Hvalid Hwithin Hdistinct _ _ (node_ok n c j Hc)
                  (modified_requests_ok H Hvalid Hwithin Hdistinct (node c i) modified (node_ok n c i Hc))) as (HN & Hmono & _).
      split; [apply upd_ok; assumption|]. intros idx k. rewrite node_upd by (rewrite Hlen; exact Hj).
      destruct (decide (idx = j)) as [->|_]; [apply Hmono|apply vle_refl].
    - (* purge: nothing to purge within the period *)
      rewrite (purge_is_noop_within_W H Hvalid Hwithin Hdistinct _ (node_ok n c i Hc)).
      split; [apply upd_ok; [assumption|exact (node_ok n c i Hc)]|].
      intros idx k. rewrite node_upd by (rewrite Hlen; exact Hwf).
      destruct (decide (idx = i)) as [->|_]; apply vle_refl.
    - (* restart on the node's own store *)
      destruct (restart_ok H Hvalid Hwithin Hdistinct _ (node_ok n c i Hc)) as [HN Hv].
      split; [apply upd_ok; assumption|]. intros idx k. rewrite node_upd by (rewrite Hlen; exact Hwf).
      destruct (decide (idx = i)) as [->|_]; [cbn [fst]; rewrite Hv|]; apply vle_refl.
  Qed.

  Lemma crun_ok n es : forall c,
    cluster_ok n c -> Forall (wf_event n) es ->
    cluster_ok n (crun c es) /\
    forall idx k, vle (view (node c idx).1 k) (view (node (crun c es) idx).1 k).
  Proof.
    induction es as [|e es IH]; intros c Hc Hwf; [split; [exact Hc|intros; apply vle_refl]|].
    inversion Hwf as [|? ? He Hwf']; subst. destruct (cstep_ok n c e Hc He) as [Hc1 Hm1].
    unfold crun. cbn [foldl]. fold (crun (cstep c e) es).
    destruct (IH _ Hc1 Hwf') as [Hc2 Hm2]. split; [exact Hc2|].
    intros idx k. eapply vle_trans; [apply Hm1|apply Hm2].
  Qed.

  (** After its issue the issuer holds the operation (or a newer one for the key). *)
  Lemma issue_holds n c i m acks k t d :
    cluster_ok n c -> wf_event n (CIssue i m acks) ->
    (k, t, d) ∈ req_ops (mutation_request 0 m) ->
    vle (Some (t, d)) (view (node (cstep c (CIssue i m acks)) i).1 k) /\
    forall j, j ∈ acks -> vle (Some (t, d)) (view (node (cstep c (CIssue i m acks)) j).1 k).
  Proof.
    intros Hc Hwf Hop. pose proof Hwf as (Hi & Hm & Hacks). pose proof Hc as [Hlen _].
    destruct (mutation_request_ok m Hm) as (A & B & C). cbn [cstep].
    set (r := mutation_request 0 m) in *.
    assert (Hstep : forall c' j, cluster_ok n c' -> (j < n)%nat ->
              cluster_ok n (upd c' j (apply_req (node c' j) r)) /\
              vle (Some (t, d)) (view (node (upd c' j (apply_req (node c' j) r)) j).1 k) /\
              forall idx k', vle (view (node c' idx).1 k') (view (node (upd c' j (apply_req (node c' j) r)) idx).1 k')).
    { intros c' j Hc' Hj. destruct (node_request H Hvalid Hwithin Hdistinct _ r (node_ok n c' j Hc') A B C) as [HN Heff].
      split; [apply upd_ok; assumption|]. split.
      - rewrite node_upd by (rewrite (proj1 Hc'); exact Hj). rewrite decide_True by reflexivity.
        apply (proj2 (proj2 (Heff k)) t d Hop).
      - intros idx k'. rewrite node_upd by (rewrite (proj1 Hc'); exact Hj).
        destruct (decide (idx = j)) as [->|_]; [apply (proj1 (proj2 (Heff k')))|apply vle_refl]. }
    destruct (Hstep c i Hc Hi) as (Hc1 & Hh1 & _).
    revert Hc1 Hh1. generalize (upd c i (apply_req (node c i) r)). intros c1 Hc1 Hh1.
    assert (Hgen : forall acks' c1, Forall (fun j => (j < n)%nat) acks' -> cluster_ok n c1 ->
              let c2 := foldl (fun c j => upd c j (apply_req (node c j) r)) c1 acks' in
              cluster_ok n c2 /\
              (forall idx, vle (Some (t, d)) (view (node c1 idx).1 k) -> vle (Some (t, d)) (view (node c2 idx).1 k)) /\
              (forall j, j ∈ acks' -> vle (Some (t, d)) (view (node c2 j).1 k))).
    { induction acks' as [|j acks' IH]; intros c0 Hall Hc0; cbn [foldl].
      - split; [exact Hc0|]. split; [tauto|]. intros j Hj. inversion Hj.
      - inversion Hall as [|? ? Hj Hall']; subst. destruct (Hstep c0 j Hc0 Hj) as (Hc2 & Hh2 & Hm2).
        destruct (IH _ Hall' Hc2) as (Hc3 & Hkeep & Hacks3). split; [exact Hc3|]. split.
        + intros idx Hidx. apply Hkeep. eapply vle_trans; [exact Hidx|apply Hm2].
        + intros j' Hj'. apply elem_of_cons in Hj' as [->|Hj']; [apply Hkeep; exact Hh2|apply Hacks3; exact Hj']. }
    destruct (Hgen acks c1 Hacks Hc1) as (_ & Hkeep & Hall). split; [apply Hkeep; exact Hh1|exact Hall].
  Qed.

  (** A complete exchange transfers what the peer holds. *)
  Lemma repair_transfers n c j i k v :
    cluster_ok n c -> (j < n)%nat -> (i < n)%nat ->
    vle v (view (node c i).1 k) ->
    vle v (view (node (cstep c (CRepair j i)) j).1 k).
  Proof.
    intros Hc Hj Hi Hv. pose proof Hc as [Hlen _]. cbn [cstep].
    pose proof (repair_catches_up H Hvalid Hwithin Hdistinct (node c j) (node c i) (node_ok n c j Hc) (node_ok n c i Hc)) as Hr.
    destruct (exchange_diff (node c j) (node c i)) as [modified removed]. destruct Hr as (_ & _ & Hcatch).
    rewrite node_upd by (rewrite Hlen; exact Hj). rewrite decide_True by reflexivity.
    eapply vle_trans; [exact Hv|apply Hcatch].
  Qed.

  (** The greatest-stamp operation of the history on a key. *)
  Definition is_winner (k t : N) (d : bool) : Prop :=
    (k, t, d) ∈ H /\ forall t' d', (k, t', d') ∈ H -> t' <= t.

  (** A node that holds at least the winner holds exactly the winner. *)
  Lemma holds_winner x k t d :
    NInvH x -> is_winner k t d -> vle (Some (t, d)) (view x.1 k) -> view x.1 k = Some (t, d).
  Proof.
    intros (_ & _ & _ & Hsound) [Hin Hmax] Hle.
    destruct (view x.1 k) as [[u ud]|] eqn:Ev; [|contradiction]. cbn in Hle.
    pose proof (Hsound _ _ _ Ev) as Hu. pose proof (Hmax _ _ Hu). assert (u = t) by lia. subst u.
    rewrite (Hdistinct _ _ _ _ Hin Hu). reflexivity.
  Qed.

  (** C01 (model level): all operations are issued in the first part of the trace; in the
      second part (any further well-formed events: late or duplicated batches, partial
      exchanges in any interleaving) every ordered pair of nodes completes one exchange.
      Then every node's view of every key is the greatest-stamp operation on it. *)
  Lemma convergence n es1 es2 k t d :
    Forall (wf_event n) es1 -> Forall (wf_event n) es2 ->
    is_winner k t d ->
    (exists i m acks, CIssue i m acks ∈ es1 /\ (k, t, d) ∈ req_ops (mutation_request 0 m)) ->
    (forall j i, (j < n)%nat -> (i < n)%nat -> j <> i -> CRepair j i ∈ es2) ->
    forall idx, (idx < n)%nat ->
      view (node (crun (cinit n) (es1 ++ es2)) idx).1 k = Some (t, d).
  Proof.
    intros Hwf1 Hwf2 Hwin (o & m & acks & Hiss & Hop) Hrep idx Hidx.
    (* the origin holds the winner after the first part *)
    apply elem_of_list_split in Hiss as (ea & eb & ->).
    apply Forall_app in Hwf1 as [Hwfa Hwfb]. inversion Hwfb as [|? ? Hwfi Hwfb']; subst.
    pose proof Hwfi as (Ho & _ & _).
    destruct (crun_ok n ea (cinit n) (cluster_ok_init n) Hwfa) as [Hca _].
    destruct (issue_holds n _ o m acks k t d Hca Hwfi Hop) as [Hho _].
    destruct (cstep_ok n _ _ Hca Hwfi) as [Hci _].
    destruct (crun_ok n eb _ Hci Hwfb') as [Hcb Hmb].
    assert (Hc1 : crun (cinit n) ((ea ++ CIssue o m acks :: eb) ++ es2) =
                  crun (crun (cstep (crun (cinit n) ea) (CIssue o m acks)) eb) es2).
    { unfold crun. rewrite !foldl_app. reflexivity. }
    rewrite Hc1. set (c1 := crun (cstep (crun (cinit n) ea) (CIssue o m acks)) eb) in *.
    assert (Hh1 : vle (Some (t, d)) (view (node c1 o).1 k)) by (eapply vle_trans; [exact Hho|apply Hmb]).
    destruct (crun_ok n es2 c1 Hcb Hwf2) as [Hc2 Hm2].
    apply holds_winner; [eapply node_ok; exact Hc2|exact Hwin|].
    destruct (decide (idx = o)) as [->|Hne]; [eapply vle_trans; [exact Hh1|apply Hm2]|].
    (* the exchange of idx against the origin *)
    pose proof (Hrep idx o Hidx Ho Hne) as Hin. apply elem_of_list_split in Hin as (e1 & e2 & He).
    rewrite He in *. apply Forall_app in Hwf2 as [Hw1 Hw2]. inversion Hw2 as [|? ? Hwr Hw2']; subst.
    destruct (crun_ok n e1 c1 Hcb Hw1) as [Hce1 Hme1].
    assert (Hho1 : vle (Some (t, d)) (view (node (crun c1 e1) o).1 k)) by (eapply vle_trans; [exact Hh1|apply Hme1]).
    pose proof (repair_transfers n _ idx o k _ Hce1 Hidx Ho Hho1) as Hj.
    destruct (cstep_ok n _ _ Hce1 Hwr) as [Hcr _].
    destruct (crun_ok n e2 _ Hcr Hw2') as [_ Hme2].
    assert (E : crun c1 (e1 ++ CRepair idx o :: e2) = crun (cstep (crun c1 e1) (CRepair idx o)) e2).
    { unfold crun. rewrite foldl_app. reflexivity. }
    rewrite E. eapply vle_trans; [exact Hj|apply Hme2].
  Qed.
  (** A key nobody ever wrote is absent everywhere. *)
  Lemma untouched_key_absent n es k idx :
    Forall (wf_event n) es -> (forall t d, (k, t, d) ∉ H) ->
    view (node (crun (cinit n) es) idx).1 k = None.
  Proof.
    intros Hwf Hno. destruct (crun_ok n es (cinit n) (cluster_ok_init n) Hwf) as [Hc _].
    destruct (node_ok n _ idx Hc) as (_ & _ & _ & Hsound).
    destruct (view _ k) as [[t d]|] eqn:E; [|reflexivity]. exfalso. eapply Hno. eapply Hsound. exact E.
  Qed.

  (** On every node, after every event, the set agrees with the store (C02 at cluster level). *)
  Lemma cluster_agreement n es idx :
    Forall (wf_event n) es -> AInv (node (crun (cinit n) es) idx).
  Proof.
    intros Hwf. destruct (crun_ok n es (cinit n) (cluster_ok_init n) Hwf) as [Hc _].
    exact (proj1 (node_ok n _ idx Hc)).
  Qed.

  (** What a node serves from storage for the winner of a key: the live document at the
      winner's stamp if the winner is a put, nothing if it is a delete. *)
  Lemma converged_store n es1 es2 k t d :
    Forall (wf_event n) es1 -> Forall (wf_event n) es2 ->
    is_winner k t d ->
    (exists i m acks, CIssue i m acks ∈ es1 /\ (k, t, d) ∈ req_ops (mutation_request 0 m)) ->
    (forall j i, (j < n)%nat -> (i < n)%nat -> j <> i -> CRepair j i ∈ es2) ->
    forall idx, (idx < n)%nat ->
      meta (node (crun (cinit n) (es1 ++ es2)) idx).2 k = Some (t, d).
  Proof.
    intros Hwf1 Hwf2 Hwin Hiss Hrep idx Hidx.
    rewrite <- (convergence n es1 es2 k t d Hwf1 Hwf2 Hwin Hiss Hrep idx Hidx).
    symmetry. apply (cluster_agreement n (es1 ++ es2) idx). apply Forall_app. split; assumption.
  Qed.
End convergence.

(** ** C06: what a successful write guarantees *)

Lemma filter_all {A} (P : A -> Prop) `{forall x, Decision (P x)} (l : list A) :
  Forall P l -> filter P l = l.
Proof.
  induction 1 as [|x l Hx Hl IH]; [reflexivity|]. rewrite filter_cons, decide_True by exact Hx.
  f_equal. exact IH.
Qed.

(** Ok exactly when every selected node acknowledged; otherwise a consistency failure
    stating how many did and how many were selected. *)
Lemma distribute_spec sel acked :
  (distribute sel acked = DOk <-> Forall (fun j => acked j = true) sel) /\
  (forall r q, distribute sel acked = DConsistencyFailure r q ->
     r = length (filter (fun j => acked j = true) sel) /\ q = length sel /\ (r < q)%nat).
Proof.
  unfold distribute.
  destruct (Nat.eqb_spec (length (filter (fun j => acked j = true) sel)) (length sel)) as [E|E].
  - split; [|discriminate]. split; [intros _|reflexivity]. apply Forall_forall. intros j Hj.
    destruct (acked j) eqn:Ea; [reflexivity|exfalso].
    assert (Hlt : (length (filter (fun j => acked j = true) sel) < length sel)%nat).
    { apply (filter_length_lt (fun j => acked j = true) sel j Hj). cbn. rewrite Ea. discriminate. }
    lia.
  - split.
    + split; [discriminate|]. intros Hall. exfalso. apply E. rewrite filter_all by exact Hall. reflexivity.
    + intros r q [= <- <-]. split; [reflexivity|]. split; [reflexivity|].
      pose proof (filter_length (fun j => acked j = true) sel). lia.
Qed.

Section c06.
  Set Default Proof Using "All".
  Context (H : list (N * N * bool)).
  Context (Hvalid : forall k t d, (k, t, d) ∈ H -> valid_ts t = true /\ 1 <= ts_tick t).
  Context (Hwithin : forall k t d k' t' d', (k, t, d) ∈ H -> (k', t', d') ∈ H -> ts_tick t' < ts_tick t + W).
  Context (Hdistinct : forall k t d d', (k, t, d) ∈ H -> (k, t, d') ∈ H -> d = d').

  (** After a write — whatever its result — the issuer's STORE holds every operation of
      the mutation or a newer one for the same id, and so does the store of every replica
      that acknowledged (the handler awaits the storage write before replying). *)
  Lemma write_is_stored n c i m acks k t d :
    cluster_ok H n c -> wf_event H n (CIssue i m acks) ->
    (k, t, d) ∈ req_ops (mutation_request 0 m) ->
    let c' := cstep c (CIssue i m acks) in
    vle (Some (t, d)) (meta (node c' i).2 k) /\
    forall j, j ∈ acks -> vle (Some (t, d)) (meta (node c' j).2 k).
  Proof.
    intros Hc Hwf Hop c'. destruct (issue_holds H Hvalid Hwithin Hdistinct n c i m acks k t d Hc Hwf Hop) as [Hi Ha].
    destruct (cstep_ok H Hvalid Hwithin Hdistinct n c _ Hc Hwf) as [Hc' _]. fold c' in Hc', Hi, Ha.
    split.
    - rewrite <- (proj2 (proj1 (node_ok H Hvalid Hwithin Hdistinct n c' i Hc')) k). exact Hi.
    - intros j Hj. rewrite <- (proj2 (proj1 (node_ok H Hvalid Hwithin Hdistinct n c' j Hc')) k). apply Ha. exact Hj.
  Qed.

  (** ... and it stays there through every later event. *)
  Lemma write_stays_stored n c es idx k v :
    cluster_ok H n c -> Forall (wf_event H n) es ->
    vle v (meta (node c idx).2 k) -> vle v (meta (node (crun c es) idx).2 k).
  Proof.
    intros Hc Hwf Hv. destruct (crun_ok H Hvalid Hwithin Hdistinct n es c Hc Hwf) as [Hc' Hm].
    rewrite <- (proj2 (proj1 (node_ok H Hvalid Hwithin Hdistinct n _ idx Hc')) k).
    rewrite <- (proj2 (proj1 (node_ok H Hvalid Hwithin Hdistinct n c idx Hc)) k) in Hv.
    eapply vle_trans; [exact Hv|apply Hm].
  Qed.

  (** A later batch carrying the mutation brings it to any node that missed it. *)
  Lemma batch_delivers n c j ms m k t d :
    cluster_ok H n c -> wf_event H n (CBatch j ms) -> m ∈ ms ->
    (k, t, d) ∈ req_ops (mutation_request 0 m) ->
    vle (Some (t, d)) (view (node (cstep c (CBatch j ms)) j).1 k).
  Proof.
    intros Hc Hwf Hm Hop. pose proof Hwf as (Hj & Hms). pose proof Hc as [Hlen _]. cbn [cstep].
    destruct (node_requests H Hvalid Hwithin Hdistinct _ _ (node_ok H Hvalid Hwithin Hdistinct n c j Hc) (batch_requests_ok H Hvalid Hwithin Hdistinct ms Hms)) as (_ & _ & Hincl).
    rewrite (node_upd H Hvalid Hwithin Hdistinct) by (rewrite Hlen; exact Hj). rewrite decide_True by reflexivity.
    (* the operation is in one of the (at most two) requests of the batch *)
    unfold batch_requests in *.
    set (dels := flat_map (fun m => match m with MDel x => [x] | MDelMany xs => xs | _ => [] end) ms) in *.
    set (puts := flat_map (fun m => match m with MPut d => [d] | MPutMany ds => ds | _ => [] end) ms) in *.
    destruct d.
    - assert (Hx : mkMeta k t ∈ dels \/ exists x, x ∈ dels /\ m_id x = k /\ m_ts x = t).
      { right. destruct m; cbn in Hop.
        - apply elem_of_list_singleton in Hop. discriminate.
        - apply elem_of_list_fmap in Hop as (x & E & _). discriminate.
        - apply elem_of_list_singleton in Hop. injection Hop as -> ->. exists m. split; [|auto].
          subst dels. apply elem_of_list_In, in_flat_map. exists (MDel m). split; [apply elem_of_list_In; exact Hm|left; reflexivity].
        - apply elem_of_list_fmap in Hop as (x & [= -> ->] & Hx). exists x. split; [|auto].
          subst dels. apply elem_of_list_In, in_flat_map. exists (MDelMany ms0). split; [apply elem_of_list_In; exact Hm|apply elem_of_list_In; exact Hx]. }
      destruct Hx as [Hx|(x & Hx & <- & <-)].
      + destruct dels as [|d0 dl] eqn:E; [inversion Hx|]. rewrite <- E in *.
        eapply (Hincl _ _ _ (RMultiDel 0 dels)); [apply elem_of_app; left; left|].
        cbn. apply (elem_of_list_fmap_1 (fun m => (m_id m, m_ts m, true)) dels (mkMeta k t) Hx).
      + destruct dels as [|d0 dl] eqn:E; [inversion Hx|]. rewrite <- E in *.
        eapply (Hincl _ _ _ (RMultiDel 0 dels)); [apply elem_of_app; left; left|].
        cbn. apply (elem_of_list_fmap_1 (fun m => (m_id m, m_ts m, true)) dels x Hx).
    - assert (Hx : exists x, x ∈ puts /\ d_id x = k /\ d_ts x = t).
      { destruct m; cbn in Hop.
        - apply elem_of_list_singleton in Hop. injection Hop as -> ->. exists d. split; [|auto].
          subst puts. apply elem_of_list_In, in_flat_map. exists (MPut d). split; [apply elem_of_list_In; exact Hm|left; reflexivity].
        - apply elem_of_list_fmap in Hop as (x & [= -> ->] & Hx). exists x. split; [|auto].
          subst puts. apply elem_of_list_In, in_flat_map. exists (MPutMany ds). split; [apply elem_of_list_In; exact Hm|apply elem_of_list_In; exact Hx].
        - apply elem_of_list_singleton in Hop. discriminate.
        - apply elem_of_list_fmap in Hop as (x & E & _). discriminate. }
      destruct Hx as (x & Hx & <- & <-).
      destruct puts as [|d0 dl] eqn:E; [inversion Hx|]. rewrite <- E in *.
      eapply (Hincl _ _ _ (RMultiSet 0 puts)); [apply elem_of_app; right; left|].
      cbn. apply (elem_of_list_fmap_1 (fun d => (d_id d, d_ts d, false)) puts x Hx).
  Qed.
End c06.

(** ** Deciding the premises of C01 on a concrete history (for the non-vacuity examples) *)

Definition cluster_hist_ok (H : list (N * N * bool)) : bool :=
  forallb (fun x : N * N * bool =>
    valid_ts x.1.2 && (1 <=? ts_tick x.1.2) &&
    forallb (fun y : N * N * bool =>
      (ts_tick y.1.2 <? ts_tick x.1.2 + W) &&
      (if (x.1.1 =? y.1.1) && (x.1.2 =? y.1.2) then Bool.eqb x.2 y.2 else true)) H) H.

Lemma cluster_hist_ok_spec H :
  cluster_hist_ok H = true ->
  (forall k t d, (k, t, d) ∈ H -> valid_ts t = true /\ 1 <= ts_tick t) /\
  (forall k t d k' t' d', (k, t, d) ∈ H -> (k', t', d') ∈ H -> ts_tick t' < ts_tick t + W) /\
  (forall k t d d', (k, t, d) ∈ H -> (k, t, d') ∈ H -> d = d').
Proof.
  unfold cluster_hist_ok. rewrite forallb_forall. intros Hall. split; [|split].
  - intros k t d Hin. apply elem_of_list_In in Hin. apply Hall in Hin. cbn [fst snd] in Hin.
    apply andb_true_iff in Hin as [Hin _]. apply andb_true_iff in Hin as [Hv H1]. split; [exact Hv|lia].
  - intros k t d k' t' d' Hin Hin'. apply elem_of_list_In in Hin, Hin'. apply Hall in Hin.
    apply andb_true_iff in Hin as [_ Hin]. rewrite forallb_forall in Hin. apply Hin in Hin'. cbn [fst snd] in Hin'.
    apply andb_true_iff in Hin' as [Hlt _]. lia.
  - intros k t d d' Hin Hin'. apply elem_of_list_In in Hin, Hin'. apply Hall in Hin.
    apply andb_true_iff in Hin as [_ Hin]. rewrite forallb_forall in Hin. apply Hin in Hin'. cbn [fst snd] in Hin'.
    apply andb_true_iff in Hin' as [_ He]. rewrite !N.eqb_refl in He. cbn [andb] in He. apply Bool.eqb_prop in He. exact He.
Qed.
