(** * OrswotLww: every accepted operation acts as a last-writer-wins join on its key

    [join] is the LWW register update: the greater stamp wins, an insert wins an exact
    tie against a tombstone.  [insert_ws]/[delete_ws] refine it (step refinement);
    order independence and the return-value / prediction statements follow. *)

From stdpp Require Import gmap list.
From Coq Require Import NArith Lia ZArith.
From Coq Require Import ZifyBool ZifyN ZifyNat.
From DC Require Import Ts TsProofs Hlc HlcProofs Orswot OrswotInv.
Open Scope N_scope.

Lemma map_reverse {A B} (f : A -> B) (l : list A) : map f (reverse l) = reverse (map f l).
Proof. exact (fmap_reverse f l). Qed.

Lemma NoDup_reverse {A} (l : list A) : NoDup l -> NoDup (reverse l).
Proof. intros H. rewrite reverse_Permutation. exact H. Qed.

Definition join (old : option (N * bool)) (new : N * bool) : option (N * bool) :=
  match old with
  | None => Some new
  | Some (u, ud) =>
      let '(t, td) := new in
      if u <? t then Some new
      else if (t =? u) && ud && negb td then Some new
      else old
  end.

(** ** Step refinement *)

Lemma view_mkSet e d v k :
  view (mkSet e d v) k =
  match e !! k with Some t => Some (t, false)
               | None => match d !! k with Some t => Some (t, true) | None => None end end.
Proof. reflexivity. Qed.

(** A refused operation changes neither entries nor tombstones. *)
Lemma insert_ws_refused legacy s src k t :
  (try_update legacy (versions s) src t).2 = false ->
  entries (insert_ws legacy s src k t).1 = entries s /\
  dead (insert_ws legacy s src k t).1 = dead s /\
  (insert_ws legacy s src k t).2 = false.
Proof.
  unfold insert_ws. destruct (try_update legacy (versions s) src t) as [v' ok].
  cbn [snd]. intros ->. cbn. auto.
Qed.

Lemma delete_ws_refused legacy s src k t :
  (try_update legacy (versions s) src t).2 = false ->
  entries (delete_ws legacy s src k t).1 = entries s /\
  dead (delete_ws legacy s src k t).1 = dead s /\
  (delete_ws legacy s src k t).2 = false.
Proof.
  unfold delete_ws. destruct (try_update legacy (versions s) src t) as [v' ok].
  cbn [snd]. intros ->. cbn. auto.
Qed.

(** An accepted insert is a join on its key and leaves every other key alone; its
    return value says whether the view of the key changed. *)
Lemma insert_ws_accepted legacy s src k t :
  Disjoint s ->
  (try_update legacy (versions s) src t).2 = true ->
  let r := insert_ws legacy s src k t in
  (forall k', view r.1 k' = if decide (k' = k) then join (view s k) (t, false) else view s k') /\
  (r.2 = true <-> view r.1 k <> view s k).
Proof.
  intros Hd Hok r. subst r. unfold insert_ws.
  destruct (try_update legacy (versions s) src t) as [v' ok]. cbn [snd] in Hok. subst ok.
  cbn [negb]. destruct (Hd k) as [He|Hdk].
  - (* not live *)
    destruct (dead s !! k) as [d|] eqn:Hdd.
    + assert (Hvk : view s k = Some (d, true)) by (unfold view; rewrite He, Hdd; reflexivity).
      rewrite Hvk. destruct (N.ltb_spec t d) as [Hlt|Hge]; cbn [fst snd].
      * split.
        -- intros k'. destruct (decide (k' = k)) as [->|Hne]; [|reflexivity].
           rewrite view_mkSet, He, Hdd. cbn [join]. destruct (N.ltb_spec d t); [lia|].
           destruct (N.eqb_spec t d); [lia|]. reflexivity.
        -- rewrite view_mkSet, He, Hdd. split; [discriminate|congruence].
      * rewrite He. cbn [fst snd]. split.
        -- intros k'. rewrite view_mkSet. destruct (decide (k' = k)) as [->|Hne].
           ++ rewrite lookup_insert. cbn [join].
              destruct (N.ltb_spec d t); [reflexivity|].
              destruct (N.eqb_spec t d); [reflexivity|lia].
           ++ rewrite lookup_insert_ne, lookup_delete_ne by congruence. reflexivity.
        -- rewrite view_mkSet, lookup_insert. split; [intros _; congruence|reflexivity].
    + assert (Hvk : view s k = None) by (unfold view; rewrite He, Hdd; reflexivity).
      rewrite Hvk, He. cbn [fst snd]. split.
      * intros k'. rewrite view_mkSet. destruct (decide (k' = k)) as [->|Hne].
        -- rewrite lookup_insert. reflexivity.
        -- rewrite lookup_insert_ne by congruence. reflexivity.
      * rewrite view_mkSet, lookup_insert. split; [intros _; congruence|reflexivity].
  - (* not a tombstone *)
    rewrite Hdk. destruct (entries s !! k) as [e|] eqn:Hee.
    + assert (Hvk : view s k = Some (e, false)) by (unfold view; rewrite Hee; reflexivity).
      rewrite Hvk. destruct (N.ltb_spec e t) as [Hlt|Hge]; cbn [fst snd].
      * split.
        -- intros k'. rewrite view_mkSet. destruct (decide (k' = k)) as [->|Hne].
           ++ rewrite lookup_insert. cbn [join]. destruct (N.ltb_spec e t); [reflexivity|lia].
           ++ rewrite lookup_insert_ne by congruence. reflexivity.
        -- rewrite view_mkSet, lookup_insert. split; [intros _ [= E]; lia|reflexivity].
      * split.
        -- intros k'. destruct (decide (k' = k)) as [->|Hne]; [|reflexivity].
           rewrite view_mkSet, Hee. cbn [join]. destruct (N.ltb_spec e t); [lia|].
           rewrite andb_false_r. reflexivity.
        -- rewrite view_mkSet, Hee. split; [discriminate|congruence].
    + assert (Hvk : view s k = None) by (unfold view; rewrite Hee, Hdk; reflexivity).
      rewrite Hvk. cbn [fst snd]. split.
      * intros k'. rewrite view_mkSet. destruct (decide (k' = k)) as [->|Hne].
        -- rewrite lookup_insert. reflexivity.
        -- rewrite lookup_insert_ne by congruence. reflexivity.
      * rewrite view_mkSet, lookup_insert. split; [intros _; congruence|reflexivity].
Qed.

Lemma delete_ws_accepted legacy s src k t :
  Disjoint s ->
  (try_update legacy (versions s) src t).2 = true ->
  let r := delete_ws legacy s src k t in
  (forall k', view r.1 k' = if decide (k' = k) then join (view s k) (t, true) else view s k') /\
  (r.2 = true <-> view r.1 k <> view s k).
Proof.
  intros Hd Hok r. subst r. unfold delete_ws.
  destruct (try_update legacy (versions s) src t) as [v' ok]. cbn [snd] in Hok. subst ok.
  cbn [negb]. destruct (Hd k) as [He|Hdk].
  - (* not live *)
    rewrite He. destruct (dead s !! k) as [d|] eqn:Hdd.
    + assert (Hvk : view s k = Some (d, true)) by (unfold view; rewrite He, Hdd; reflexivity).
      rewrite Hvk. destruct (N.ltb_spec d t) as [Hlt|Hge]; cbn [fst snd].
      * split.
        -- intros k'. rewrite view_mkSet. destruct (decide (k' = k)) as [->|Hne].
           ++ rewrite He, lookup_insert. cbn [join]. destruct (N.ltb_spec d t); [reflexivity|lia].
           ++ rewrite lookup_insert_ne by congruence. reflexivity.
        -- rewrite view_mkSet, He, lookup_insert. split; [intros _ [= E]; lia|reflexivity].
      * split.
        -- intros k'. destruct (decide (k' = k)) as [->|Hne]; [|reflexivity].
           rewrite view_mkSet, He, Hdd. cbn [join]. destruct (N.ltb_spec d t); [lia|].
           rewrite andb_false_r. reflexivity.
        -- rewrite view_mkSet, He, Hdd. split; [discriminate|congruence].
    + assert (Hvk : view s k = None) by (unfold view; rewrite He, Hdd; reflexivity).
      rewrite Hvk. cbn [fst snd]. split.
      * intros k'. rewrite view_mkSet. destruct (decide (k' = k)) as [->|Hne].
        -- rewrite He, lookup_insert. reflexivity.
        -- rewrite lookup_insert_ne by congruence. reflexivity.
      * rewrite view_mkSet, He, lookup_insert. split; [intros _; congruence|reflexivity].
  - (* not a tombstone *)
    destruct (entries s !! k) as [e|] eqn:Hee.
    + assert (Hvk : view s k = Some (e, false)) by (unfold view; rewrite Hee; reflexivity).
      rewrite Hvk. destruct (N.leb_spec t e) as [Hle|Hgt]; cbn [fst snd].
      * split.
        -- intros k'. destruct (decide (k' = k)) as [->|Hne]; [|reflexivity].
           rewrite view_mkSet, Hee. cbn [join]. destruct (N.ltb_spec e t); [lia|].
           rewrite andb_false_r. reflexivity.
        -- rewrite view_mkSet, Hee. split; [discriminate|congruence].
      * rewrite Hdk. cbn [fst snd]. split.
        -- intros k'. rewrite view_mkSet. destruct (decide (k' = k)) as [->|Hne].
           ++ rewrite lookup_delete, lookup_insert. cbn [join].
              destruct (N.ltb_spec e t); [reflexivity|lia].
           ++ rewrite lookup_delete_ne, lookup_insert_ne by congruence. reflexivity.
        -- rewrite view_mkSet, lookup_delete, lookup_insert.
           split; [intros _; congruence|reflexivity].
    + assert (Hvk : view s k = None) by (unfold view; rewrite Hee, Hdk; reflexivity).
      rewrite Hvk, Hdk. cbn [fst snd]. split.
      * intros k'. rewrite view_mkSet. destruct (decide (k' = k)) as [->|Hne].
        -- rewrite Hee, lookup_insert. reflexivity.
        -- rewrite lookup_insert_ne by congruence. reflexivity.
      * rewrite view_mkSet, Hee, lookup_insert. split; [intros _; congruence|reflexivity].
Qed.

(** One statement for both kinds of operation. *)
Definition accepted (legacy : bool) (s : oset) (o : op) : bool :=
  (try_update legacy (versions s) (op_src o) (op_ts o)).2.

Lemma apply_op_view legacy s o :
  Disjoint s ->
  let r := apply_op legacy s o in
  (forall k', view r.1 k' =
     if accepted legacy s o && bool_decide (k' = op_key o)
     then join (view s (op_key o)) (op_ts o, op_del o) else view s k') /\
  (r.2 = true <-> view r.1 (op_key o) <> view s (op_key o)).
Proof.
  intros Hd r. subst r. unfold accepted.
  destruct o as [src k t|src k t]; cbn [apply_op op_src op_ts op_key op_del].
  - destruct (try_update legacy (versions s) src t).2 eqn:Hok.
    + destruct (insert_ws_accepted legacy s src k t Hd Hok) as [A B]. split; [|exact B].
      intros k'. rewrite A. cbn [andb]. destruct (decide (k' = k)).
      * rewrite bool_decide_eq_true_2 by assumption. reflexivity.
      * rewrite bool_decide_eq_false_2 by assumption. reflexivity.
    + destruct (insert_ws_refused legacy s src k t Hok) as (A & B & C). cbn [andb].
      split.
      * intros k'. unfold view. rewrite A, B. reflexivity.
      * rewrite C. unfold view. rewrite A, B. split; [discriminate|congruence].
  - destruct (try_update legacy (versions s) src t).2 eqn:Hok.
    + destruct (delete_ws_accepted legacy s src k t Hd Hok) as [A B]. split; [|exact B].
      intros k'. rewrite A. cbn [andb]. destruct (decide (k' = k)).
      * rewrite bool_decide_eq_true_2 by assumption. reflexivity.
      * rewrite bool_decide_eq_false_2 by assumption. reflexivity.
    + destruct (delete_ws_refused legacy s src k t Hok) as (A & B & C). cbn [andb].
      split.
      * intros k'. unfold view. rewrite A, B. reflexivity.
      * rewrite C. unfold view. rewrite A, B. split; [discriminate|congruence].
Qed.

(** ** Folding [join] over operations with distinct stamps yields the greatest stamp *)

(** The greatest-stamp operation on key [k] among [ops], as a view. *)
Fixpoint lww (ops : list op) (k : N) : option (N * bool) :=
  match ops with
  | [] => None
  | o :: ops' =>
      let rest := lww ops' k in
      if bool_decide (op_key o = k) then
        match rest with
        | Some (u, ud) => if u <? op_ts o then Some (op_ts o, op_del o) else rest
        | None => Some (op_ts o, op_del o)
        end
      else rest
  end.

Definition stamps (ops : list op) : list N := map op_ts ops.

Lemma lww_stamp_in ops k u ud : lww ops k = Some (u, ud) -> u ∈ stamps ops.
Proof.
  induction ops as [|o ops IH]; cbn [lww stamps map]; [discriminate|].
  destruct (bool_decide (op_key o = k)); [|intros H; right; auto].
  destruct (lww ops k) as [[u' ud']|]; [destruct (u' <? op_ts o)|];
    intros H; try (injection H as <- <-; left); right; auto.
Qed.

(** [join] with a stamp different from the current one is "greater stamp wins". *)
Lemma join_distinct old t td :
  (forall u ud, old = Some (u, ud) -> u <> t) ->
  join old (t, td) =
  match old with
  | Some (u, ud) => if u <? t then Some (t, td) else old
  | None => Some (t, td)
  end.
Proof.
  intros H. destruct old as [[u ud]|]; [|reflexivity]. cbn [join].
  destruct (u <? t); [reflexivity|].
  destruct (N.eqb_spec t u) as [->|]; [exfalso; eapply H; reflexivity|reflexivity].
Qed.

(** The maximum of two views by stamp. *)
Definition vmax (a b : option (N * bool)) : option (N * bool) :=
  match a, b with
  | None, _ => b
  | _, None => a
  | Some (u, ud), Some (t, td) => if u <? t then b else a
  end.

Ltac ltb_cases :=
  repeat match goal with
         | |- context [?a <? ?b] => destruct (N.ltb_spec a b); cbn [vmax]
         end; try reflexivity; try lia.

Lemma lww_app ops1 ops2 k :
  NoDup (stamps (ops1 ++ ops2)) ->
  lww (ops1 ++ ops2) k = vmax (lww ops2 k) (lww ops1 k).
Proof.
  induction ops1 as [|o ops1 IH]; cbn [app lww stamps map].
  - intros _. destruct (lww ops2 k) as [[? ?]|]; reflexivity.
  - intros Hnd. apply NoDup_cons in Hnd as [Hnin Hnd]. specialize (IH Hnd).
    destruct (bool_decide (op_key o = k)); [|exact IH].
    rewrite IH. clear IH.
    assert (H2 : forall u ud, lww ops2 k = Some (u, ud) -> u <> op_ts o).
    { intros u ud H ->. apply Hnin. rewrite map_app. apply elem_of_app. right.
      eapply lww_stamp_in. eassumption. }
    assert (H1 : forall u ud, lww ops1 k = Some (u, ud) -> u <> op_ts o).
    { intros u ud H ->. apply Hnin. rewrite map_app. apply elem_of_app. left.
      eapply lww_stamp_in. eassumption. }
    destruct (lww ops2 k) as [[u2 d2]|], (lww ops1 k) as [[u1 d1]|]; cbn [vmax];
      try reflexivity;
      try (specialize (H2 _ _ eq_refl)); try (specialize (H1 _ _ eq_refl)); ltb_cases.
Qed.

(** ** Order independence *)

(** All operations of an arrival sequence are accepted at their arrival. *)
Fixpoint all_accepted (legacy : bool) (s : oset) (arr : list op) : bool :=
  match arr with
  | [] => true
  | o :: arr' => accepted legacy s o && all_accepted legacy (apply_op legacy s o).1 arr'
  end.

Lemma view_empty nsrc k : view (empty_set nsrc) k = None.
Proof. unfold view, empty_set. cbn. rewrite !lookup_empty. reflexivity. Qed.

(** The view after an accepted arrival sequence, starting from any state whose stamps
    differ from the arriving ones, is the max of the old view and the sequence's [lww]. *)
Lemma run_accepted_view legacy arr : forall s,
  Inv s ->
  Forall (fun o => valid_ts (op_ts o) = true) arr ->
  all_accepted legacy s arr = true ->
  NoDup (stamps arr) ->
  (forall k u ud, view s k = Some (u, ud) -> u ∉ stamps arr) ->
  forall k, view (run_ops legacy s arr) k = vmax (view s k) (lww (reverse arr) k).
Proof.
  induction arr as [|o arr IH]; intros s Hi Hv Hacc Hnd Hfresh k.
  - cbn. destruct (view s k) as [[? ?]|]; reflexivity.
  - inversion Hv as [|? ? Hvo Hv']; subst.
    cbn [all_accepted] in Hacc. apply andb_true_iff in Hacc as [Ha Hacc].
    cbn [stamps map] in Hnd. apply NoDup_cons in Hnd as [Hnin Hnd].
    destruct (apply_op_view legacy s o (proj1 Hi)) as [Hview _].
    unfold run_ops. cbn [foldl]. fold (run_ops legacy (apply_op legacy s o).1 arr).
    assert (Hfresh' : forall k' u ud, view (apply_op legacy s o).1 k' = Some (u, ud) ->
                                      u ∉ stamps arr).
    { intros k' u ud Hu Hin. rewrite Hview in Hu.
      assert (Hold : forall kk, view s kk = Some (u, ud) -> False).
      { intros kk Hk. eapply Hfresh; [exact Hk|]. right. exact Hin. }
      destruct (accepted legacy s o && bool_decide (k' = op_key o)); [|eapply Hold; eassumption].
      destruct (view s (op_key o)) as [[u0 ud0]|] eqn:Ev; cbn [join] in Hu.
      - destruct (u0 <? op_ts o).
        + injection Hu as <- <-. contradiction.
        + destruct ((op_ts o =? u0) && ud0 && negb (op_del o)).
          * injection Hu as <- <-. contradiction.
          * injection Hu as <- <-. eapply Hold. exact Ev.
      - injection Hu as <- <-. contradiction. }
    rewrite IH; try assumption; [|apply apply_op_Inv; assumption].
    rewrite Hview, Ha. cbn [andb]. rewrite reverse_cons.
    rewrite lww_app.
    2:{ unfold stamps. rewrite map_app, map_reverse. cbn [map].
        apply NoDup_app. split; [apply NoDup_reverse; assumption|]. split.
        - intros x Hx Hx'. apply elem_of_list_singleton in Hx'. subst x. apply Hnin.
          rewrite elem_of_reverse in Hx. exact Hx.
        - apply NoDup_singleton. }
    cbn [lww]. destruct (bool_decide_reflect (k = op_key o)) as [->|Hne].
    + rewrite bool_decide_eq_true_2 by reflexivity.
      rewrite join_distinct.
      2:{ intros u ud Hu ->. eapply Hfresh; [exact Hu|]. left. }
      assert (Hl : forall u ud, lww (reverse arr) (op_key o) = Some (u, ud) -> u <> op_ts o).
      { intros u ud H ->. apply Hnin. apply lww_stamp_in in H. unfold stamps in H.
        rewrite map_reverse, elem_of_reverse in H. exact H. }
      assert (Hvs : forall u ud, view s (op_key o) = Some (u, ud) -> u <> op_ts o).
      { intros u ud Ev ->. eapply Hfresh; [exact Ev|]. left. }
      destruct (view s (op_key o)) as [[u ud]|] eqn:Ev,
               (lww (reverse arr) (op_key o)) as [[u' ud']|] eqn:El; cbn [vmax];
        try reflexivity;
        try (specialize (Hl _ _ eq_refl)); try (specialize (Hvs _ _ eq_refl)); ltb_cases.
    + rewrite ?bool_decide_eq_false_2 by congruence.
      destruct (lww (reverse arr) k) as [[? ?]|]; destruct (view s k) as [[? ?]|]; reflexivity.
Qed.

(** [lww] does not depend on the order of the operations. *)
Lemma lww_perm ops ops' k :
  NoDup (stamps ops) -> ops ≡ₚ ops' -> lww ops k = lww ops' k.
Proof.
  intros Hnd Hp. induction Hp as [|o l l' Hp IH|o1 o2 l|l l' l'' Hp1 IH1 Hp2 IH2].
  - reflexivity.
  - cbn [lww]. cbn [stamps map] in Hnd. apply NoDup_cons in Hnd as [_ Hnd].
    rewrite IH by assumption. reflexivity.
  - cbn [stamps map] in Hnd. apply NoDup_cons in Hnd as [Hn1 Hnd].
    apply NoDup_cons in Hnd as [Hn2 Hnd].
    assert (Hne : op_ts o2 <> op_ts o1).
    { intros E. apply Hn1. rewrite E. left. }
    assert (H1 : forall u ud, lww l k = Some (u, ud) -> u <> op_ts o1).
    { intros u ud H ->. apply Hn2. eapply lww_stamp_in. eassumption. }
    assert (H2 : forall u ud, lww l k = Some (u, ud) -> u <> op_ts o2).
    { intros u ud H ->. apply Hn1. right. eapply lww_stamp_in. eassumption. }
    cbn [lww]. destruct (bool_decide (op_key o1 = k)), (bool_decide (op_key o2 = k));
      try reflexivity.
    destruct (lww l k) as [[u ud]|];
      try (specialize (H1 _ _ eq_refl)); try (specialize (H2 _ _ eq_refl)); ltb_cases.
  - rewrite IH1 by assumption. apply IH2.
    unfold stamps. rewrite <- Hp1. assumption.
Qed.

(** What an operation is, apart from the source it arrives through. *)
Definition op_core (o : op) : N * N * bool := (op_key o, op_ts o, op_del o).

Lemma lww_core ops ops' k : map op_core ops = map op_core ops' -> lww ops k = lww ops' k.
Proof.
  revert ops'. induction ops as [|o ops IH]; intros [|o' ops']; cbn [map]; try discriminate;
    [reflexivity|].
  intros [= Hk Ht Hd Hr]. cbn [lww]. rewrite (IH ops' Hr), Hk, Ht, Hd. reflexivity.
Qed.

Lemma stamps_core ops : stamps ops = map (fun c => c.1.2) (map op_core ops).
Proof. unfold stamps. rewrite map_map. reflexivity. Qed.

(** C04 (2): whatever the arrival order and the sources, if every operation is accepted
    at its arrival (stamps pairwise distinct), each key's view is the greatest-stamp
    operation on it. *)
Lemma arrival_lww nsrc arr k :
  (nsrc > 0)%nat ->
  Forall (fun o => valid_ts (op_ts o) = true) arr ->
  NoDup (stamps arr) ->
  all_accepted false (empty_set nsrc) arr = true ->
  view (run_ops false (empty_set nsrc) arr) k = lww arr k.
Proof.
  intros Hn Hv Hnd Hacc.
  rewrite (run_accepted_view false arr (empty_set nsrc)); try assumption.
  - rewrite view_empty. cbn [vmax].
    apply lww_perm.
    + unfold stamps. rewrite map_reverse. apply NoDup_reverse. exact Hnd.
    + apply reverse_Permutation.
  - apply Inv_empty. assumption.
  - intros k' u ud. rewrite view_empty. discriminate.
Qed.

(** [lww] is invariant under permutation and re-assignment of sources. *)
Lemma lww_perm_core ops ops' k :
  NoDup (stamps ops) -> map op_core ops ≡ₚ map op_core ops' -> lww ops k = lww ops' k.
Proof.
  intros Hnd Hp. symmetry in Hp.
  apply Permutation_map_inv in Hp as (ops'' & Heq & Hp).
  rewrite (lww_perm ops ops'' k Hnd Hp). symmetry. apply lww_core. exact Heq.
Qed.

(** Two arrival orders and source assignments of the same operations agree. *)
Lemma two_orders_agree nsrc arr1 arr2 k :
  (nsrc > 0)%nat ->
  Forall (fun o => valid_ts (op_ts o) = true) arr1 ->
  Forall (fun o => valid_ts (op_ts o) = true) arr2 ->
  NoDup (stamps arr1) ->
  map op_core arr1 ≡ₚ map op_core arr2 ->
  all_accepted false (empty_set nsrc) arr1 = true ->
  all_accepted false (empty_set nsrc) arr2 = true ->
  view (run_ops false (empty_set nsrc) arr1) k = view (run_ops false (empty_set nsrc) arr2) k.
Proof.
  intros Hn Hv1 Hv2 Hnd Hp Ha1 Ha2.
  assert (Hnd2 : NoDup (stamps arr2)).
  { rewrite stamps_core. rewrite <- Hp. rewrite <- stamps_core. exact Hnd. }
  rewrite !arrival_lww by assumption. apply lww_perm_core; assumption.
Qed.

(** ** Return value = prediction = "the view changed" (C04 (3)) *)

Lemma will_apply_spec s k t :
  will_apply s k t =
  negb (before (versions s) t) &&
  match view s k with Some (u, _) => u <? t | None => true end.
Proof.
  unfold will_apply, view. destruct (before (versions s) t); [reflexivity|]. cbn [negb andb].
  destruct (entries s !! k); [reflexivity|]. destruct (dead s !! k); reflexivity.
Qed.

Lemma prediction_correct s o :
  Inv s -> valid_ts (op_ts o) = true ->
  (op_src o < length (maxs (versions s)))%nat ->
  (forall u ud, view s (op_key o) = Some (u, ud) -> u <> op_ts o) ->
  let r := apply_op false s o in
  r.2 = will_apply s (op_key o) (op_ts o) /\
  (r.2 = true <-> view r.1 (op_key o) <> view s (op_key o)).
Proof.
  intros Hi Hv Hsrc Hfresh r. subst r.
  destruct (apply_op_view false s o (proj1 Hi)) as [Hview Hret]. split; [|exact Hret].
  destruct (try_update false (versions s) (op_src o) (op_ts o)) as [v' ok] eqn:Htu.
  destruct (try_update_accept _ _ _ _ _ (proj2 Hi) Hv Hsrc Htu) as [Hok _].
  assert (Hacc : accepted false s o = negb (before (versions s) (op_ts o))).
  { unfold accepted. rewrite Htu. exact Hok. }
  rewrite will_apply_spec.
  apply Bool.eq_true_iff_eq. rewrite Hret, (Hview (op_key o)), Hacc.
  rewrite bool_decide_eq_true_2 by reflexivity.
  destruct (before (versions s) (op_ts o)); cbn [negb andb].
  - split; [congruence|discriminate].
  - rewrite join_distinct by exact Hfresh.
    destruct (view s (op_key o)) as [[u ud]|] eqn:Ev.
    + specialize (Hfresh _ _ eq_refl). destruct (N.ltb_spec u (op_ts o)).
      * split; [reflexivity|]. intros _ [= E _]. lia.
      * split; [congruence|discriminate].
    + split; [reflexivity|discriminate].
Qed.

(** ** The legacy acceptance rule violates all of this (defect D1) *)

Definition d1_t1 : N := mk_ts 50000000 0 1.
Definition d1_t2 : N := mk_ts 50000005 0 1.

Lemma legacy_lww_refuted :
  let ops := [OIns 0 2 d1_t2; OIns 0 1 d1_t1] in
  let s1 := (apply_op true (empty_set 1) (OIns 0 2 d1_t2)).1 in
  (* order dependence: the older stamp of the same origin, arriving second, is lost *)
  view (run_ops true (empty_set 1) ops) 1 = None /\
  view (run_ops true (empty_set 1) (rev ops)) 1 = Some (d1_t1, false) /\
  (* and the prediction is wrong *)
  will_apply s1 1 d1_t1 = true /\ (apply_op true s1 (OIns 0 1 d1_t1)).2 = false /\
  (* the repaired rule agrees with last-writer-wins on the same history *)
  view (run_ops false (empty_set 1) ops) 1 = Some (d1_t1, false).
Proof. vm_compute. repeat split; reflexivity. Qed.
