(** Extraction of the executable model to OCaml ([ExtrOcamlBasic] only). *)
From Coq Require Import ExtrOcamlBasic NArith String.
From DC Require Import Ts Hlc Orswot Actor Cluster Distributor TsDiff PollerPlan.
Extraction Language OCaml.
Extraction "model.ml"
  N.add N.mul N.sub N.div N.modulo N.ltb N.leb N.eqb N.of_nat N.to_nat
  pack ts_new ts_node ts_counter ts_seconds ts_fractional ts_tick mk_ts
  to_le8 of_le8 show parse legacy_parse
  send recv hlc_run clock_run
  empty_set insert_ws delete_ws will_apply set_get set_diff set_purge add_raw_tombstones set_merge
  entries_list dead_list before_set view apply_op run_ops
  actor_step rebuild store_list st_put st_tomb st_remove meta_list gmap_empty_store
  cstep cinit node exchange_diff live_docs
  d_init d_register d_tick tick_events ts_diff_lists
  p_init poller_apply poller_record poller_plan_list.
