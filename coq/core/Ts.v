(** * Ts: model of [datacake_crdt::HLCTimestamp] (datacake-crdt/src/timestamp.rs)

    Definitions only (the executable model).  Proofs are in [TsProofs.v].

    A timestamp is the packed [u64] as an [N] below [2^64]:
    32 bit seconds | 8 bit fraction (4 ms units) | 16 bit counter | 8 bit node.
    The derived [Ord] on [HLCTimestamp(u64)] is [N.ltb] on that word. *)

From Coq Require Import NArith List String Ascii Bool.
From Coq Require Import Decimal DecimalString DecimalN.
Import ListNotations.
Open Scope N_scope.

Definition TS_MAX : N := 4294967295.           (* TIMESTAMP_MAX = (1 << 32) - 1 *)
Definition U64_MAX : N := 18446744073709551615.
Definition TWO64 : N := 18446744073709551616.

(** Outcome of an operation that may fail or panic in Rust. *)
Inductive outcome (A : Type) : Type :=
| Ok (a : A)
| Err
| Panic.
Arguments Ok {A} a.
Arguments Err {A}.
Arguments Panic {A}.

(** ** Packing

    [pack(duration, counter, node)]:
    [(seconds << 32) | (fractional << 24) | (counter << 8) | node] on [u64];
    [seconds << 32] silently drops the bits above bit 63. *)
Definition pack (sec frac cnt node : N) : N :=
  N.lor (N.lor (N.lor ((N.shiftl sec 32) mod TWO64) (N.shiftl frac 24))
               (N.shiftl cnt 8)) node.

(** The same word written with arithmetic (proved equal to [pack] on valid fields). *)
Definition pack_arith (sec frac cnt node : N) : N :=
  sec * 4294967296 + frac * 16777216 + cnt * 256 + node.

(** [HLCTimestamp::new(duration, counter, node)]: [duration] is given as whole
    seconds and sub-second milliseconds ([ms < 1000]; anything below a
    millisecond is discarded by [subsec_millis]); the fraction is [ms / 4].
    Panics (the [assert!]) when the seconds exceed 32 bits. *)
Definition ts_new (sec ms cnt node : N) : outcome N :=
  if TS_MAX <? sec then Panic else Ok (pack sec (ms / 4) cnt node).

(** Accessors, as in the Rust code (masks and shifts on the word). *)
Definition ts_node (t : N) : N := N.land t 255.
Definition ts_counter (t : N) : N := N.land (N.shiftr t 8) 65535.
Definition ts_seconds (t : N) : N := N.shiftr t 32.
Definition ts_fractional (t : N) : N := N.land (N.shiftr t 24) 255.

(** [datacake_timestamp()] as a count of 4 ms ticks:
    [Duration::from_secs(seconds) + Duration::from_millis(fractional * 4)]. *)
Definition ts_tick (t : N) : N := ts_seconds t * 250 + ts_fractional t.

(** A stamp from a tick count, counter and node ([HLCTimestamp::new] applied to a
    duration that is a whole number of ticks; no range check). *)
Definition mk_ts (tick cnt node : N) : N :=
  pack (tick / 250) (tick mod 250) cnt node.

(** Lexicographic order on (tick, counter, node). *)
Definition lex_lt (a b : N * N * N) : bool :=
  let '(ta, ca, na) := a in
  let '(tb, cb, nb) := b in
  (ta <? tb) || ((ta =? tb) && ((ca <? cb) || ((ca =? cb) && (na <? nb)))).

Definition valid_fields (sec frac cnt node : N) : bool :=
  (sec <=? TS_MAX) && (frac <=? 249) && (cnt <=? 65535) && (node <=? 255).

Definition valid_ts (t : N) : bool :=
  (t <? TWO64) && (ts_fractional t <=? 249).

(** ** Archived form: 8 little-endian bytes ([rkyv] with [archive_le]). *)
Definition to_le8 (t : N) : list N :=
  [ t mod 256; (t / 256) mod 256; (t / 65536) mod 256; (t / 16777216) mod 256;
    (t / 4294967296) mod 256; (t / 1099511627776) mod 256;
    (t / 281474976710656) mod 256; (t / 72057594037927936) mod 256 ].

Definition of_le8 (bs : list N) : option N :=
  match bs with
  | [b0; b1; b2; b3; b4; b5; b6; b7] =>
      Some (b0 + 256 * (b1 + 256 * (b2 + 256 * (b3 + 256 * (b4 + 256 * (b5 + 256 * (b6 + 256 * b7)))))))
  | _ => None
  end.

(** ** Text form

    [Display]: ["{}-{:0>4}-{:0>4X}-{:0>4}"] of seconds, fractional, counter, node. *)
Open Scope string_scope.
Open Scope N_scope.

Definition show_dec (n : N) : string := NilEmpty.string_of_uint (N.to_uint n).

Fixpoint pad_zeros (k : nat) (s : string) : string :=
  match k with O => s | S k' => String "0" (pad_zeros k' s) end.

(** [{:0>4}]: left-pad with ['0'] to a minimum width of four. *)
Definition pad4 (s : string) : string := pad_zeros (4 - String.length s) s.

Definition hex_digit (d : N) : ascii :=
  match d with
  | 0%N => "0" | 1%N => "1" | 2%N => "2" | 3%N => "3" | 4%N => "4" | 5%N => "5"
  | 6%N => "6" | 7%N => "7" | 8%N => "8" | 9%N => "9" | 10%N => "A" | 11%N => "B"
  | 12%N => "C" | 13%N => "D" | 14%N => "E" | _ => "F"
  end%char.

(** Upper-case hexadecimal without leading zeros, most significant digit first
    (fuel = number of hex digits that can occur in a 64-bit word). *)
Fixpoint show_hex_aux (fuel : nat) (n : N) (acc : string) : string :=
  match fuel with
  | O => acc
  | S f =>
      let acc' := String (hex_digit (n mod 16)) acc in
      if n / 16 =? 0 then acc' else show_hex_aux f (n / 16) acc'
  end.
Definition show_hex (n : N) : string := show_hex_aux 16 n "".

Definition show (t : N) : string :=
  (show_dec (ts_seconds t) ++ "-" ++ pad4 (show_dec (ts_fractional t)) ++ "-"
    ++ pad4 (show_hex (ts_counter t)) ++ "-" ++ pad4 (show_dec (ts_node t)))%string.

(** *** Parsing

    Rust's [u64::from_str] / [u8::from_str]: an optional leading ['+'], then at
    least one ASCII decimal digit and nothing else; a value above the type's
    maximum is an error.  [u16::from_str_radix(_, 16)]: the same with
    hexadecimal digits of either case. *)
Definition strip_plus (s : string) : string :=
  match s with
  | String c r => if Ascii.eqb c "+" then r else s
  | EmptyString => s
  end.

Definition parse_dec (max : N) (s : string) : option N :=
  match strip_plus s with
  | EmptyString => None
  | s' =>
      match NilEmpty.uint_of_string s' with
      | Some d => let n := N.of_uint d in if n <=? max then Some n else None
      | None => None
      end
  end.

Definition hex_val (c : ascii) : option N :=
  let n := N_of_ascii c in
  if (48 <=? n) && (n <=? 57) then Some (n - 48)
  else if (65 <=? n) && (n <=? 70) then Some (n - 55)
  else if (97 <=? n) && (n <=? 102) then Some (n - 87)
  else None.

Fixpoint parse_hex_digits (s : string) (acc : N) : option N :=
  match s with
  | EmptyString => Some acc
  | String c r =>
      match hex_val c with
      | Some d => parse_hex_digits r (acc * 16 + d)
      | None => None
      end
  end.

Definition parse_hex (max : N) (s : string) : option N :=
  match strip_plus s with
  | EmptyString => None
  | s' =>
      match parse_hex_digits s' 0 with
      | Some n => if n <=? max then Some n else None
      | None => None
      end
  end.

(** Split at the first ['-']: [None] when there is none. *)
Fixpoint split_dash (s : string) : option (string * string) :=
  match s with
  | EmptyString => None
  | String c r =>
      if Ascii.eqb c "-" then Some (EmptyString, r)
      else match split_dash r with
           | Some (a, b) => Some (String c a, b)
           | None => None
           end
  end.

(** The four pieces of [s.splitn(4, '-')], when there are four. *)
Definition splitn4 (s : string) : option (string * string * string * string) :=
  match split_dash s with
  | Some (a, r1) =>
      match split_dash r1 with
      | Some (b, r2) =>
          match split_dash r2 with
          | Some (c, d) => Some (a, b, c, d)
          | None => None
          end
      | None => None
      end
  | None => None
  end.

Definition parse_fields (s : string) : option (N * N * N * N) :=
  match splitn4 s with
  | Some (a, b, c, d) =>
      match parse_dec U64_MAX a, parse_dec 255 b, parse_hex 65535 c, parse_dec 255 d with
      | Some sec, Some frac, Some cnt, Some node => Some (sec, frac, cnt, node)
      | _, _, _, _ => None
      end
  | None => None
  end.

(** [FromStr] as it stood before the repair (defect D3): [parts_as_duration]
    adds [fractional * 4] ms to the seconds ([Duration] addition panics on
    [u64] overflow), then [HLCTimestamp::new] asserts the 32-bit range. *)
Definition legacy_parse (s : string) : outcome N :=
  match parse_fields s with
  | Some (sec, frac, cnt, node) =>
      let sec' := sec + (frac * 4) / 1000 in
      let ms := (frac * 4) mod 1000 in
      if U64_MAX <? sec' then Panic else ts_new sec' ms cnt node
  | None => Err
  end.

(** [FromStr] after the repair: out-of-range seconds are an [InvalidFormat]. *)
Definition parse (s : string) : outcome N :=
  match parse_fields s with
  | Some (sec, frac, cnt, node) =>
      let sec' := sec + (frac * 4) / 1000 in
      let ms := (frac * 4) mod 1000 in
      if TS_MAX <? sec' then Err else ts_new sec' ms cnt node
  | None => Err
  end.
