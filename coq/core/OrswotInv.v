(** * OrswotInv: invariants of the set model and the acceptance rule

    - [Disjoint]: no key is both live and a tombstone;
    - [Sync]: the safe cut-off of every origin is exactly the shifted minimum of the
      per-source maxima ([compute_safe_last_stamp] is called whenever a column changes);
    - acceptance: [try_update] accepts a stamp exactly when it is not [before] the
      cut-off — the rule [will_apply], [diff] and [purge] use. *)

From stdpp Require Import gmap list.
From Coq Require Import NArith Lia ZArith.
From Coq Require Import ZifyBool ZifyN ZifyNat.
From DC Require Import Ts TsProofs Hlc HlcProofs Orswot.
Open Scope N_scope.

Ltac Zify.zify_post_hook ::= Z.div_mod_to_equations.

(** ** Stamp arithmetic used by the set proofs *)

Lemma W_le_WALL_MAX : W <= WALL_MAX.
Proof. vm_compute. discriminate. Qed.

Lemma valid_zero_ts n : n <= 255 -> valid_ts (zero_ts n) = true.
Proof.
  intros Hn. unfold zero_ts, valid_ts, TWO64. rewrite ts_fractional_arith. lia.
Qed.

Lemma zero_ts_fields n :
  n <= 255 -> ts_tick (zero_ts n) = 0 /\ ts_counter (zero_ts n) = 0 /\ ts_node (zero_ts n) = n.
Proof.
  intros Hn. unfold zero_ts, ts_tick.
  rewrite ts_seconds_arith, ts_fractional_arith, ts_counter_arith, ts_node_arith. lia.
Qed.

Lemma shiftW_fields m :
  valid_ts m = true ->
  ts_tick (shiftW m) = ts_tick m - W /\ ts_counter (shiftW m) = ts_counter m /\
  ts_node (shiftW m) = ts_node m /\ valid_ts (shiftW m) = true.
Proof.
  intros Hv. destruct (valid_bounds m Hv) as (_ & _ & Hc & Hn & Hk).
  unfold shiftW. apply mk_ts_fields; lia.
Qed.

(** The cut-off never exceeds the stamp it is computed from. *)
Lemma shiftW_le m : valid_ts m = true -> (m <? shiftW m) = false.
Proof.
  intros Hv. destruct (shiftW_fields m Hv) as (A & B & C & D).
  destruct (m <? shiftW m) eqn:E; [|reflexivity].
  apply ts_lt_lex in E; try assumption. rewrite A, B, C in E. lia.
Qed.

(** A stamp is never below the zero stamp of its own node. *)
Lemma zero_ts_le t : valid_ts t = true -> (t <? zero_ts (ts_node t)) = false.
Proof.
  intros Hv. destruct (valid_bounds t Hv) as (_ & _ & _ & Hn & _).
  destruct (zero_ts_fields _ Hn) as (A & B & C).
  destruct (t <? zero_ts (ts_node t)) eqn:E; [|reflexivity].
  apply ts_lt_lex in E; try assumption; [|apply valid_zero_ts; assumption].
  rewrite A, B, C in E. lia.
Qed.

(** ** [min_stamp] *)

Lemma min_stamp_le n ms src m x :
  min_stamp n ms = Some x -> ms !! src = Some m -> x <= src_stamp n m.
Proof.
  destruct ms as [|m0 ms]; [discriminate|]. cbn [min_stamp]. intros [= <-].
  revert src. induction ms as [|m1 ms IH]; intros src Hl.
  - destruct src; cbn in Hl; [injection Hl as <-; cbn; lia|discriminate].
  - destruct src as [|[|src]]; cbn in Hl.
    + injection Hl as <-. cbn [foldr]. specialize (IH 0%nat eq_refl). lia.
    + injection Hl as <-. cbn [foldr]. lia.
    + cbn [foldr]. specialize (IH (S src)). cbn in IH. specialize (IH Hl). lia.
Qed.

Lemma min_stamp_in n ms x :
  min_stamp n ms = Some x -> exists src m, ms !! src = Some m /\ x = src_stamp n m.
Proof.
  destruct ms as [|m0 ms]; [discriminate|]. cbn [min_stamp]. intros [= <-].
  induction ms as [|m1 ms IH].
  - exists 0%nat, m0. split; reflexivity.
  - cbn [foldr]. destruct (N.min_spec (src_stamp n m1) (foldr (fun m' acc => N.min (src_stamp n m') acc) (src_stamp n m0) ms)) as [[_ E]|[_ E]]; rewrite E.
    + exists 1%nat, m1. split; reflexivity.
    + destruct IH as (src & m & Hl & ->). destruct src as [|src].
      * exists 0%nat, m. split; [assumption|reflexivity].
      * exists (S (S src)), m. split; [assumption|reflexivity].
Qed.

Lemma min_stamp_ext n ms ms' :
  length ms = length ms' ->
  (forall src m m', ms !! src = Some m -> ms' !! src = Some m' -> src_stamp n m = src_stamp n m') ->
  min_stamp n ms = min_stamp n ms'.
Proof.
  destruct ms as [|m0 ms], ms' as [|m0' ms']; cbn [length]; try discriminate; [reflexivity|].
  intros Hlen H. cbn [min_stamp]. f_equal.
  rewrite (H 0%nat m0 m0' eq_refl eq_refl).
  assert (Hlen' : length ms = length ms') by lia. clear Hlen.
  assert (H' : forall src m m', ms !! src = Some m -> ms' !! src = Some m' ->
                                src_stamp n m = src_stamp n m')
    by (intros src m m' A B; exact (H (S src) m m' A B)).
  clear H. revert ms' Hlen' H'. induction ms as [|m1 ms IH]; intros [|m1' ms'] Hlen H';
    cbn [length] in Hlen; try discriminate; [reflexivity|].
  cbn [foldr]. rewrite (H' 0%nat m1 m1' eq_refl eq_refl). f_equal.
  apply IH; [lia|]. intros src m m' A B. exact (H' (S src) m m' A B).
Qed.

Lemma min_stamp_is_Some n ms : ms <> [] -> is_Some (min_stamp n ms).
Proof. destruct ms; [contradiction|]. intros _. eexists. reflexivity. Qed.

(** ** Invariants *)

Definition Disjoint (s : oset) : Prop :=
  forall k, entries s !! k = None \/ dead s !! k = None.

(** An origin [n] is untouched when no source has a stamp for it. *)
Definition untouched (v : vers) (n : N) : Prop :=
  (forall src m, maxs v !! src = Some m -> m !! n = None) /\ safe v !! n = None.

Definition SyncAt (v : vers) (n : N) : Prop :=
  untouched v n \/
  (exists x, min_stamp n (maxs v) = Some x /\ safe v !! n = Some (shiftW x)).

(** All stamps recorded for origin [n] are valid and carry node [n]. *)
Definition StampsOk (v : vers) : Prop :=
  forall src m n e, maxs v !! src = Some m -> m !! n = Some e ->
                    valid_ts e = true /\ ts_node e = n.

Definition VInv (v : vers) : Prop :=
  maxs v <> [] /\ StampsOk v /\ forall n, SyncAt v n.

Definition Inv (s : oset) : Prop := Disjoint s /\ VInv (versions s).

Lemma Inv_empty nsrc : (nsrc > 0)%nat -> Inv (empty_set nsrc).
Proof.
  intros Hn. split.
  - intros k. left. apply lookup_empty.
  - split; [|split].
    + cbn. destruct nsrc; [lia|discriminate].
    + intros src m n e Hl He. cbn in Hl. apply lookup_replicate in Hl as [-> _].
      rewrite lookup_empty in He. discriminate.
    + intros n. left. split.
      * intros src m Hl. cbn in Hl. apply lookup_replicate in Hl as [-> _]. apply lookup_empty.
      * apply lookup_empty.
Qed.

(** Stamps recorded in column [n] are valid; so is the minimum (or the zero default). *)
Lemma src_stamp_valid v src m n :
  StampsOk v -> n <= 255 -> maxs v !! src = Some m ->
  valid_ts (src_stamp n m) = true /\ ts_node (src_stamp n m) = n.
Proof.
  intros Hok Hn Hl. unfold src_stamp. destruct (m !! n) as [e|] eqn:E; cbn [from_option id].
  - exact (Hok src m n e Hl E).
  - split; [apply valid_zero_ts; assumption|]. apply (zero_ts_fields n Hn).
Qed.

Lemma min_stamp_valid v n x :
  StampsOk v -> n <= 255 -> min_stamp n (maxs v) = Some x ->
  valid_ts x = true /\ ts_node x = n.
Proof.
  intros Hok Hn Hm. destruct (min_stamp_in _ _ _ Hm) as (src & m & Hl & ->).
  eapply src_stamp_valid; eassumption.
Qed.

(** ** The cut-off is never above any source's maximum *)

Lemma safe_le_src v n c src m :
  VInv v -> n <= 255 -> safe v !! n = Some c -> maxs v !! src = Some m ->
  (src_stamp n m <? c) = false.
Proof.
  intros (Hne & Hok & Hsync) Hn Hs Hl.
  destruct (Hsync n) as [[_ Hnone]|(x & Hmin & Hsafe)]; [congruence|].
  rewrite Hs in Hsafe. injection Hsafe as ->.
  destruct (min_stamp_valid v n x Hok Hn Hmin) as (Hvx & _).
  pose proof (min_stamp_le n _ src m x Hmin Hl) as Hle.
  pose proof (shiftW_le x Hvx) as Hsh. lia.
Qed.

(** ** [set_max] / [compute_safe] *)

Lemma set_max_lookup v src t src' m' :
  maxs (set_max v src t) !! src' = Some m' ->
  exists m, maxs v !! src' = Some m /\
            m' = if decide (src' = src) then <[ts_node t := t]> m else m.
Proof.
  unfold set_max. cbn [maxs]. intros H.
  destruct (decide (src' = src)) as [->|Hne].
  - rewrite list_lookup_alter in H. destruct (maxs v !! src) as [m|]; [|discriminate].
    injection H as <-. eauto.
  - rewrite list_lookup_alter_ne in H by congruence. eauto.
Qed.

Lemma set_max_src_stamp_ne v src t n :
  n <> ts_node t ->
  min_stamp n (maxs (set_max v src t)) = min_stamp n (maxs v).
Proof.
  intros Hn. apply min_stamp_ext.
  - unfold set_max. cbn [maxs]. apply alter_length.
  - intros src' m' m Hl' Hl. destruct (set_max_lookup _ _ _ _ _ Hl') as (m0 & Hl0 & ->).
    assert (m0 = m) by congruence. subst m0.
    destruct (decide (src' = src)); [|reflexivity].
    unfold src_stamp. rewrite lookup_insert_ne by congruence. reflexivity.
Qed.

Lemma compute_safe_maxs v n : maxs (compute_safe v n) = maxs v.
Proof. unfold compute_safe. destruct (min_stamp n (maxs v)); reflexivity. Qed.

Lemma compute_safe_safe_ne v n n' :
  n' <> n -> safe (compute_safe v n) !! n' = safe v !! n'.
Proof.
  intros Hne. unfold compute_safe. destruct (min_stamp n (maxs v)); [|reflexivity].
  cbn [safe]. apply lookup_insert_ne. congruence.
Qed.

Lemma compute_safe_safe_eq v n x :
  min_stamp n (maxs v) = Some x -> safe (compute_safe v n) !! n = Some (shiftW x).
Proof. intros H. unfold compute_safe. rewrite H. cbn [safe]. apply lookup_insert. Qed.

(** Recomputing the cut-off of a synchronised origin changes nothing. *)
Lemma compute_safe_sync_id v n :
  maxs v <> [] -> SyncAt v n ->
  (exists src m e, maxs v !! src = Some m /\ m !! n = Some e) ->
  compute_safe v n = v.
Proof.
  intros Hne [[Hun _]|(x & Hmin & Hsafe)] (src & m & e & Hl & He).
  - rewrite (Hun src m Hl) in He. discriminate.
  - unfold compute_safe. rewrite Hmin. destruct v as [ms sf]. cbn [maxs safe] in *.
    f_equal. apply insert_id. assumption.
Qed.

(** ** [try_update] preserves the version invariant *)

Lemma try_update_VInv legacy v src t v' ok :
  VInv v -> valid_ts t = true ->
  try_update legacy v src t = (v', ok) -> VInv v'.
Proof.
  intros (Hne & Hok & Hsync) Hvt Htu.
  destruct (valid_bounds t Hvt) as (_ & _ & _ & Hnt & _).
  assert (Hcs : forall v0, maxs v0 <> [] -> StampsOk v0 ->
                 (forall n, n <> ts_node t -> SyncAt v0 n) ->
                 VInv (compute_safe v0 (ts_node t))).
  { intros v0 Hne0 Hok0 Hs0. split; [|split].
    - rewrite compute_safe_maxs. assumption.
    - intros s0 m0 n0 e0. rewrite compute_safe_maxs. apply Hok0.
    - intros n. destruct (decide (n = ts_node t)) as [->|Hn].
      + right. destruct (min_stamp_is_Some (ts_node t) (maxs v0) Hne0) as [x Hx].
        exists x. rewrite compute_safe_maxs. split; [assumption|].
        apply compute_safe_safe_eq. assumption.
      + destruct (Hs0 n Hn) as [[Hun Hsn]|(x & Hx & Hsx)].
        * left. split.
          -- intros s0 m0. rewrite compute_safe_maxs. apply Hun.
          -- rewrite compute_safe_safe_ne by assumption. assumption.
        * right. exists x. rewrite compute_safe_maxs. split; [assumption|].
          rewrite compute_safe_safe_ne by assumption. assumption. }
  assert (Hset : VInv (compute_safe (set_max v src t) (ts_node t))).
  { apply Hcs.
    - unfold set_max. cbn [maxs]. intros E. apply Hne.
      apply (f_equal length) in E. rewrite alter_length in E.
      destruct (maxs v); [reflexivity|discriminate].
    - intros s0 m0 n0 e0 Hl He. destruct (set_max_lookup _ _ _ _ _ Hl) as (m & Hlm & ->).
      destruct (decide (s0 = src)) as [->|_]; [|exact (Hok _ _ _ _ Hlm He)].
      destruct (decide (n0 = ts_node t)) as [->|Hn0].
      + rewrite lookup_insert in He. injection He as <-. split; [assumption|reflexivity].
      + rewrite lookup_insert_ne in He by congruence. exact (Hok _ _ _ _ Hlm He).
    - intros n Hn. destruct (Hsync n) as [[Hun Hsn]|(x & Hx & Hsx)].
      + left. split; [|exact Hsn].
        intros s0 m0 Hl. destruct (set_max_lookup _ _ _ _ _ Hl) as (m & Hlm & ->).
        destruct (decide (s0 = src)); [|exact (Hun _ _ Hlm)].
        rewrite lookup_insert_ne by congruence. exact (Hun _ _ Hlm).
      + right. exists x. split; [|exact Hsx].
        rewrite set_max_src_stamp_ne by assumption. assumption. }
  unfold try_update in Htu.
  destruct (maxs v !! src ≫= (fun m => m !! ts_node t)) as [e|] eqn:E.
  - destruct (t <? e).
    + injection Htu as <- _. apply Hcs; [assumption|assumption|]. intros n _. apply Hsync.
    + injection Htu as <- _. assumption.
  - injection Htu as <- _. assumption.
Qed.

(** ** Acceptance = not before the cut-off (the repaired rule) *)

Lemma try_update_accept v src t v' ok :
  VInv v -> valid_ts t = true -> (src < length (maxs v))%nat ->
  try_update false v src t = (v', ok) ->
  ok = negb (before v t) /\ (ok = false -> v' = v).
Proof.
  intros HV Hvt Hsrc Htu. pose proof HV as (Hne & Hok & Hsync).
  destruct (valid_bounds t Hvt) as (_ & _ & _ & Hnt & _).
  destruct (lookup_lt_is_Some_2 _ _ Hsrc) as [m Hm].
  assert (Hnb : (src_stamp (ts_node t) m <=? t) = true -> before v t = false).
  { intros Hle. unfold before. destruct (safe v !! ts_node t) as [c|] eqn:Hs; [|reflexivity].
    pose proof (safe_le_src v _ c src m HV Hnt Hs Hm). lia. }
  unfold try_update in Htu. rewrite Hm in Htu. cbn [mbind option_bind] in Htu.
  destruct (m !! ts_node t) as [e|] eqn:He.
  - destruct (t <? e) eqn:Hlt.
    + rewrite (compute_safe_sync_id v (ts_node t) Hne (Hsync _)) in Htu
        by (exists src, m, e; split; assumption).
      injection Htu as <- <-. split; [reflexivity|intros _; reflexivity].
    + injection Htu as <- <-. split; [|discriminate].
      rewrite Hnb; [reflexivity|]. unfold src_stamp. rewrite He. cbn [from_option id]. lia.
  - injection Htu as <- <-. split; [|discriminate].
    rewrite Hnb; [reflexivity|]. unfold src_stamp. rewrite He. cbn [from_option id].
    pose proof (zero_ts_le t Hvt). lia.
Qed.

(** The legacy rule refuses more: an accepted stamp under the legacy rule is accepted by
    the repaired rule, but not conversely (see [OrswotLww.legacy_lww_refuted]). *)

(** ** Set operations preserve [Inv] *)

Lemma insert_ws_Inv legacy s src k t :
  Inv s -> valid_ts t = true -> Inv (insert_ws legacy s src k t).1.
Proof.
  intros [Hd HV] Hvt. unfold insert_ws.
  destruct (try_update legacy (versions s) src t) as [v' ok] eqn:Htu.
  pose proof (try_update_VInv _ _ _ _ _ _ HV Hvt Htu) as HV'.
  destruct ok; cbn [negb]; [|split; [exact Hd|exact HV']].
  assert (Hins : forall dead', (forall k', k' <> k -> entries s !! k' = None \/ dead' !! k' = None) ->
                   dead' !! k = None ->
                   Inv (match entries s !! k with
                        | Some e => if e <? t then (mkSet (<[k := t]> (entries s)) dead' v', true)
                                    else (mkSet (entries s) dead' v', false)
                        | None => (mkSet (<[k := t]> (entries s)) dead' v', true)
                        end).1).
  { intros dead' Hdis Hk.
    assert (Hnew : Inv (mkSet (<[k := t]> (entries s)) dead' v')).
    { split; [|exact HV']. intros k'. cbn [entries dead].
      destruct (decide (k' = k)) as [->|Hne]; [right; assumption|].
      rewrite lookup_insert_ne by congruence. apply Hdis. assumption. }
    assert (Hold : Inv (mkSet (entries s) dead' v')).
    { split; [|exact HV']. intros k'. cbn [entries dead].
      destruct (decide (k' = k)) as [->|Hne]; [right; assumption|]. apply Hdis. assumption. }
    destruct (entries s !! k) as [e|]; [destruct (e <? t)|]; assumption. }
  destruct (dead s !! k) as [d|] eqn:Hdk.
  - destruct (t <? d); [split; [exact Hd|exact HV']|].
    apply Hins.
    + intros k' Hne. rewrite lookup_delete_ne by congruence. apply Hd.
    + apply lookup_delete.
  - apply Hins; [intros k' _; apply Hd|assumption].
Qed.

Lemma delete_ws_Inv legacy s src k t :
  Inv s -> valid_ts t = true -> Inv (delete_ws legacy s src k t).1.
Proof.
  intros [Hd HV] Hvt. unfold delete_ws.
  destruct (try_update legacy (versions s) src t) as [v' ok] eqn:Htu.
  pose proof (try_update_VInv _ _ _ _ _ _ HV Hvt Htu) as HV'.
  destruct ok; cbn [negb]; [|split; [exact Hd|exact HV']].
  assert (Hdel : forall entries', (forall k', k' <> k -> entries' !! k' = None \/ dead s !! k' = None) ->
                   entries' !! k = None ->
                   Inv (match dead s !! k with
                        | Some d => if d <? t then (mkSet entries' (<[k := t]> (dead s)) v', true)
                                    else (mkSet entries' (dead s) v', false)
                        | None => (mkSet entries' (<[k := t]> (dead s)) v', true)
                        end).1).
  { intros entries' Hdis Hk.
    assert (Hnew : Inv (mkSet entries' (<[k := t]> (dead s)) v')).
    { split; [|exact HV']. intros k'. cbn [entries dead].
      destruct (decide (k' = k)) as [->|Hne]; [left; assumption|].
      rewrite lookup_insert_ne by congruence. apply Hdis. assumption. }
    assert (Hold : Inv (mkSet entries' (dead s) v')).
    { split; [|exact HV']. intros k'. cbn [entries dead].
      destruct (decide (k' = k)) as [->|Hne]; [left; assumption|]. apply Hdis. assumption. }
    destruct (dead s !! k) as [d|]; [destruct (d <? t)|]; assumption. }
  destruct (entries s !! k) as [e|] eqn:Hek.
  - destruct (t <=? e); [split; [exact Hd|exact HV']|].
    apply Hdel.
    + intros k' Hne. rewrite lookup_delete_ne by congruence. apply Hd.
    + apply lookup_delete.
  - apply Hdel; [intros k' _; apply Hd|assumption].
Qed.

Lemma apply_op_Inv legacy s o :
  Inv s -> valid_ts (op_ts o) = true -> Inv (apply_op legacy s o).1.
Proof. destruct o; cbn [apply_op op_ts]; [apply insert_ws_Inv|apply delete_ws_Inv]. Qed.

Lemma run_ops_Inv legacy ops : forall s,
  Inv s -> Forall (fun o => valid_ts (op_ts o) = true) ops -> Inv (run_ops legacy s ops).
Proof.
  induction ops as [|o ops IH]; intros s Hi Hv; [exact Hi|].
  inversion Hv; subst. unfold run_ops. cbn [foldl]. apply IH; [|assumption].
  apply apply_op_Inv; assumption.
Qed.

(** The number of sources never changes. *)
Lemma try_update_length legacy v src t :
  length (maxs (try_update legacy v src t).1) = length (maxs v).
Proof.
  unfold try_update.
  destruct (maxs v !! src ≫= _) as [e|]; [destruct (t <? e)|]; cbn [fst];
    rewrite compute_safe_maxs; try reflexivity; unfold set_max; cbn [maxs]; apply alter_length.
Qed.

Lemma apply_op_length legacy s o :
  length (maxs (versions (apply_op legacy s o).1)) = length (maxs (versions s)).
Proof.
  pose proof (try_update_length legacy (versions s) (op_src o) (op_ts o)) as H.
  destruct o as [src k t|src k t]; cbn [apply_op op_src op_ts] in *.
  - unfold insert_ws. destruct (try_update legacy (versions s) src t) as [v' ok]. cbn [fst] in H.
    destruct ok; cbn [negb]; [|exact H].
    destruct (dead s !! k) as [d|]; [destruct (t <? d); [exact H|]|];
      (destruct (entries s !! k) as [e|]; [destruct (e <? t)|]); exact H.
  - unfold delete_ws. destruct (try_update legacy (versions s) src t) as [v' ok]. cbn [fst] in H.
    destruct ok; cbn [negb]; [|exact H].
    destruct (entries s !! k) as [e|]; [destruct (t <=? e); [exact H|]|];
      (destruct (dead s !! k) as [d|]; [destruct (d <? t)|]); exact H.
Qed.
