(** * TsProofs: facts about the timestamp model of [Ts.v] *)

From Coq Require Import NArith List String Ascii Bool Lia ZArith.
From Coq Require Import Decimal DecimalString DecimalN DecimalPos.
From Coq Require Import ZifyBool ZifyN ZifyNat.
From DC Require Import Ts.
Import ListNotations.
Open Scope N_scope.

Ltac Zify.zify_post_hook ::= Z.div_mod_to_equations.

Arguments N.add : simpl never.
Arguments N.sub : simpl never.
Arguments N.mul : simpl never.
Arguments N.div : simpl never.
Arguments N.modulo : simpl never.
Arguments N.ltb : simpl never.
Arguments N.leb : simpl never.
Arguments N.eqb : simpl never.
Arguments N.shiftl : simpl never.
Arguments N.shiftr : simpl never.
Arguments N.lor : simpl never.
Arguments N.land : simpl never.
Arguments N.pow : simpl never.

(** ** Bit-level lemmas: a disjoint [lor] is an addition. *)

Lemma testbit_small b k n : b < 2 ^ k -> k <= n -> N.testbit b n = false.
Proof.
  intros Hb Hk. destruct (N.eq_dec b 0) as [->|Hnz]; [apply N.bits_0|].
  apply N.bits_above_log2.
  assert (N.log2 b < k) by (apply N.log2_lt_pow2; lia). lia.
Qed.

Lemma land_shiftl_small a k b : b < 2 ^ k -> N.land (N.shiftl a k) b = 0.
Proof.
  intros Hb. apply N.bits_inj. intros n. rewrite N.land_spec, N.bits_0.
  destruct (N.lt_ge_cases n k) as [Hlt|Hge].
  - rewrite N.shiftl_spec_low by assumption. reflexivity.
  - rewrite (testbit_small b k n) by assumption. apply andb_false_r.
Qed.

Lemma lor_add a b : N.land a b = 0 -> N.lor a b = a + b.
Proof.
  intros H. rewrite <- N.lxor_lor by assumption.
  symmetry. apply N.add_nocarry_lxor. assumption.
Qed.

Lemma lor_shiftl_small a k b : b < 2 ^ k -> N.lor (N.shiftl a k) b = a * 2 ^ k + b.
Proof.
  intros Hb. rewrite lor_add by (apply land_shiftl_small; assumption).
  rewrite N.shiftl_mul_pow2. reflexivity.
Qed.

Lemma pow2_8 : 2 ^ 8 = 256. Proof. reflexivity. Qed.
Lemma pow2_24 : 2 ^ 24 = 16777216. Proof. reflexivity. Qed.
Lemma pow2_32 : 2 ^ 32 = 4294967296. Proof. reflexivity. Qed.

(** ** [pack] is the arithmetic word on valid fields *)

Lemma pack_arith_eq sec frac cnt node :
  sec <= TS_MAX -> frac <= 255 -> cnt <= 65535 -> node <= 255 ->
  pack sec frac cnt node = pack_arith sec frac cnt node.
Proof.
  unfold pack, pack_arith, TS_MAX, TWO64. intros Hs Hf Hc Hn.
  remember (sec * 4294967296 + frac * 16777216 + cnt * 256 + node) as rhs eqn:Erhs.
  rewrite N.mod_small by (rewrite N.shiftl_mul_pow2, pow2_32; lia).
  rewrite (N.shiftl_mul_pow2 frac 24), pow2_24.
  rewrite lor_shiftl_small by (rewrite pow2_32; lia).
  rewrite pow2_32.
  rewrite (N.shiftl_mul_pow2 cnt 8), pow2_8.
  replace (sec * 4294967296 + frac * 16777216)
    with (N.shiftl (sec * 256 + frac) 24)
    by (rewrite N.shiftl_mul_pow2, pow2_24; lia).
  rewrite lor_shiftl_small by (rewrite pow2_24; lia).
  rewrite pow2_24.
  replace ((sec * 256 + frac) * 16777216 + cnt * 256)
    with (N.shiftl (sec * 16777216 + frac * 65536 + cnt) 8)
    by (rewrite N.shiftl_mul_pow2, pow2_8; lia).
  rewrite lor_shiftl_small by (rewrite pow2_8; lia).
  rewrite pow2_8. subst rhs. lia.
Qed.

Lemma pack_lt_two64 sec frac cnt node :
  sec <= TS_MAX -> frac <= 255 -> cnt <= 65535 -> node <= 255 ->
  pack sec frac cnt node < TWO64.
Proof.
  intros. rewrite pack_arith_eq by assumption.
  unfold pack_arith, TS_MAX, TWO64 in *. lia.
Qed.

(** ** Accessors as arithmetic *)

Lemma ts_node_arith t : ts_node t = t mod 256.
Proof. unfold ts_node. change 255 with (N.ones 8). rewrite N.land_ones. reflexivity. Qed.

Lemma ts_counter_arith t : ts_counter t = (t / 256) mod 65536.
Proof.
  unfold ts_counter. change 65535 with (N.ones 16).
  rewrite N.land_ones, N.shiftr_div_pow2. reflexivity.
Qed.

Lemma ts_seconds_arith t : ts_seconds t = t / 4294967296.
Proof. unfold ts_seconds. rewrite N.shiftr_div_pow2. reflexivity. Qed.

Lemma ts_fractional_arith t : ts_fractional t = (t / 16777216) mod 256.
Proof.
  unfold ts_fractional. change 255 with (N.ones 8).
  rewrite N.land_ones, N.shiftr_div_pow2. reflexivity.
Qed.

Lemma accessors_pack sec frac cnt node :
  sec <= TS_MAX -> frac <= 255 -> cnt <= 65535 -> node <= 255 ->
  let t := pack sec frac cnt node in
  ts_seconds t = sec /\ ts_fractional t = frac /\ ts_counter t = cnt /\ ts_node t = node.
Proof.
  intros Hs Hf Hc Hn t. subst t. rewrite pack_arith_eq by assumption.
  rewrite ts_seconds_arith, ts_fractional_arith, ts_counter_arith, ts_node_arith.
  unfold pack_arith, TS_MAX in *. repeat split; lia.
Qed.

(** Every 64-bit word is the packing of its own fields. *)
Lemma pack_accessors t :
  t < TWO64 ->
  pack (ts_seconds t) (ts_fractional t) (ts_counter t) (ts_node t) = t.
Proof.
  intros Ht. unfold TWO64 in Ht.
  rewrite pack_arith_eq.
  - rewrite ts_seconds_arith, ts_fractional_arith, ts_counter_arith, ts_node_arith.
    unfold pack_arith. lia.
  - rewrite ts_seconds_arith. unfold TS_MAX. lia.
  - rewrite ts_fractional_arith. lia.
  - rewrite ts_counter_arith. lia.
  - rewrite ts_node_arith. lia.
Qed.

(** ** The order on packed words is the lexicographic order on the fields *)

Lemma pack_order s1 f1 c1 n1 s2 f2 c2 n2 :
  s1 <= TS_MAX -> f1 <= 249 -> c1 <= 65535 -> n1 <= 255 ->
  s2 <= TS_MAX -> f2 <= 249 -> c2 <= 65535 -> n2 <= 255 ->
  (pack s1 f1 c1 n1 <? pack s2 f2 c2 n2) =
  lex_lt (s1 * 250 + f1, c1, n1) (s2 * 250 + f2, c2, n2).
Proof.
  intros. rewrite !pack_arith_eq by lia.
  unfold pack_arith, lex_lt, TS_MAX in *. lia.
Qed.

Lemma pack_inj s1 f1 c1 n1 s2 f2 c2 n2 :
  s1 <= TS_MAX -> f1 <= 255 -> c1 <= 65535 -> n1 <= 255 ->
  s2 <= TS_MAX -> f2 <= 255 -> c2 <= 65535 -> n2 <= 255 ->
  pack s1 f1 c1 n1 = pack s2 f2 c2 n2 ->
  s1 = s2 /\ f1 = f2 /\ c1 = c2 /\ n1 = n2.
Proof.
  intros ? ? ? ? ? ? ? ?. rewrite !pack_arith_eq by lia.
  unfold pack_arith, TS_MAX in *. lia.
Qed.

(** The order on arbitrary valid stamps, through the accessors. *)
Lemma ts_order t u :
  valid_ts t = true -> valid_ts u = true ->
  (t <? u) = lex_lt (ts_tick t, ts_counter t, ts_node t) (ts_tick u, ts_counter u, ts_node u).
Proof.
  unfold valid_ts, ts_tick, lex_lt, TWO64.
  rewrite !ts_seconds_arith, !ts_fractional_arith, !ts_counter_arith, !ts_node_arith.
  intros Ht Hu. lia.
Qed.

(** ** Little-endian archive form *)

Lemma le8_roundtrip t : t < TWO64 -> of_le8 (to_le8 t) = Some t.
Proof.
  intros Ht. unfold TWO64 in Ht. unfold to_le8, of_le8. f_equal. lia.
Qed.

Lemma le8_bytes t b : In b (to_le8 t) -> b < 256.
Proof.
  unfold to_le8. cbn [In]. intros H.
  repeat (destruct H as [<-|H]; [lia|]). contradiction.
Qed.

(** ** Text form *)

Open Scope string_scope.
Open Scope N_scope.

Definition is_digit (c : ascii) : bool :=
  let n := N_of_ascii c in (48 <=? n) && (n <=? 57).

Fixpoint all_chars (p : ascii -> bool) (s : string) : bool :=
  match s with
  | EmptyString => true
  | String c r => p c && all_chars p r
  end.

Definition not_dash (c : ascii) : bool := negb (Ascii.eqb c "-").

Lemma digit_not_dash c : is_digit c = true -> not_dash c = true.
Proof. destruct c as [[|] [|] [|] [|] [|] [|] [|] [|]]; vm_compute; congruence. Qed.

Lemma digit_not_plus c : is_digit c = true -> Ascii.eqb c "+" = false.
Proof. destruct c as [[|] [|] [|] [|] [|] [|] [|] [|]]; vm_compute; congruence. Qed.

Lemma string_of_uint_digits d : all_chars is_digit (NilEmpty.string_of_uint d) = true.
Proof. induction d; cbn [NilEmpty.string_of_uint all_chars]; try rewrite IHd; reflexivity. Qed.

Lemma all_chars_impl (p q : ascii -> bool) s :
  (forall c, p c = true -> q c = true) -> all_chars p s = true -> all_chars q s = true.
Proof.
  intros Hpq. induction s as [|c r IH]; cbn [all_chars]; [reflexivity|].
  rewrite !andb_true_iff. intros [Hc Hr]. split; auto.
Qed.

Lemma to_uint_not_nil n : N.to_uint n <> Nil.
Proof.
  intros H. pose proof (DecimalN.Unsigned.of_to n) as E. rewrite H in E.
  cbn in E. subst n. discriminate H.
Qed.

Lemma show_dec_digits n : all_chars is_digit (show_dec n) = true.
Proof. apply string_of_uint_digits. Qed.

Lemma show_dec_not_empty n : show_dec n <> EmptyString.
Proof.
  unfold show_dec. pose proof (to_uint_not_nil n) as H.
  destruct (N.to_uint n); try contradiction; discriminate.
Qed.

Lemma strip_plus_digits s : all_chars is_digit s = true -> strip_plus s = s.
Proof.
  destruct s as [|c r]; [reflexivity|]. cbn [all_chars strip_plus].
  rewrite andb_true_iff. intros [Hc _]. rewrite (digit_not_plus c Hc). reflexivity.
Qed.

Lemma parse_show_dec max n : n <= max -> parse_dec max (show_dec n) = Some n.
Proof.
  intros Hn. unfold parse_dec.
  rewrite strip_plus_digits by apply show_dec_digits.
  pose proof (show_dec_not_empty n) as Hne.
  destruct (show_dec n) as [|c r] eqn:E; [contradiction|].
  rewrite <- E. unfold show_dec. rewrite NilEmpty.usu.
  rewrite DecimalN.Unsigned.of_to.
  destruct (N.leb_spec n max); [reflexivity|lia].
Qed.

Lemma split_dash_app a r :
  all_chars not_dash a = true ->
  split_dash (a ++ "-" ++ r)%string = Some (a, r).
Proof.
  change ("-" ++ r)%string with (String "-" r).
  induction a as [|c a IH]; cbn [all_chars append split_dash].
  - reflexivity.
  - rewrite andb_true_iff. intros [Hc Ha]. unfold not_dash in Hc.
    destruct (Ascii.eqb c "-"); [discriminate|]. rewrite IH by assumption. reflexivity.
Qed.

(** The narrow fields are finite: their print/parse round trip and dash-freeness are
    checked for every value by computation (256, 65536 and 256 values) and lifted. *)

Definition N_range_step (st : N * list N) : N * list N := (fst st + 1, fst st :: snd st).
Definition N_range (k : N) : list N := snd (N.iter k N_range_step (0, [])).

Lemma N_range_iter k :
  fst (N.iter k N_range_step (0, [])) = k /\
  forall n, n < k -> In n (snd (N.iter k N_range_step (0, []))).
Proof.
  induction k as [|k [IH1 IH2]] using N.peano_ind.
  - split; [reflexivity|]. intros n Hn. lia.
  - rewrite N.iter_succ. unfold N_range_step at 1 3. cbn [fst snd]. rewrite IH1.
    split; [lia|]. intros n Hn. destruct (N.eq_dec n k) as [->|Hne].
    + left. reflexivity.
    + right. apply IH2. lia.
Qed.

Lemma N_range_In n k : n < k -> In n (N_range k).
Proof. intros H. apply (proj2 (N_range_iter k)). assumption. Qed.

Definition option_N_eqb (a : option N) (b : N) : bool :=
  match a with Some x => x =? b | None => false end.

Definition dec_field_ok (f : N) : bool :=
  all_chars not_dash (pad4 (show_dec f)) && option_N_eqb (parse_dec 255 (pad4 (show_dec f))) f.

Definition hex_field_ok (c : N) : bool :=
  all_chars not_dash (pad4 (show_hex c)) && option_N_eqb (parse_hex 65535 (pad4 (show_hex c))) c.

Lemma dec_fields_all : forallb dec_field_ok (N_range 256) = true.
Proof. vm_compute. reflexivity. Qed.

Lemma hex_fields_all : forallb hex_field_ok (N_range 65536) = true.
Proof. vm_compute. reflexivity. Qed.

Lemma dec_field f :
  f <= 255 ->
  all_chars not_dash (pad4 (show_dec f)) = true /\ parse_dec 255 (pad4 (show_dec f)) = Some f.
Proof.
  intros Hf. pose proof dec_fields_all as H. rewrite forallb_forall in H.
  specialize (H f (N_range_In f 256 ltac:(lia))). unfold dec_field_ok in H.
  apply andb_true_iff in H as [H1 H2]. split; [assumption|].
  destruct (parse_dec 255 (pad4 (show_dec f))) as [x|]; cbn in H2; [|discriminate].
  f_equal. lia.
Qed.

Lemma hex_field c :
  c <= 65535 ->
  all_chars not_dash (pad4 (show_hex c)) = true /\ parse_hex 65535 (pad4 (show_hex c)) = Some c.
Proof.
  intros Hc. pose proof hex_fields_all as H. rewrite forallb_forall in H.
  specialize (H c (N_range_In c 65536 ltac:(lia))). unfold hex_field_ok in H.
  apply andb_true_iff in H as [H1 H2]. split; [assumption|].
  destruct (parse_hex 65535 (pad4 (show_hex c))) as [x|]; cbn in H2; [|discriminate].
  f_equal. lia.
Qed.

Lemma parse_fields_show t :
  t < TWO64 ->
  parse_fields (show t) = Some (ts_seconds t, ts_fractional t, ts_counter t, ts_node t).
Proof.
  intros Ht. unfold TWO64 in Ht.
  assert (Hs : ts_seconds t <= U64_MAX)
    by (rewrite ts_seconds_arith; unfold U64_MAX; lia).
  assert (Hf : ts_fractional t <= 255) by (rewrite ts_fractional_arith; lia).
  assert (Hc : ts_counter t <= 65535) by (rewrite ts_counter_arith; lia).
  assert (Hn : ts_node t <= 255) by (rewrite ts_node_arith; lia).
  destruct (dec_field _ Hf) as [Df Pf].
  destruct (hex_field _ Hc) as [Dc Pc].
  destruct (dec_field _ Hn) as [Dn Pn].
  unfold parse_fields, splitn4, show.
  rewrite split_dash_app
    by (apply (all_chars_impl is_digit); [apply digit_not_dash|apply show_dec_digits]).
  rewrite split_dash_app by assumption.
  rewrite split_dash_app by assumption.
  rewrite (parse_show_dec U64_MAX _ Hs), Pf, Pc, Pn. reflexivity.
Qed.

(** Printing then parsing is the identity on valid timestamps. *)
Lemma parse_show t : valid_ts t = true -> parse (show t) = Ok t.
Proof.
  unfold valid_ts. rewrite andb_true_iff. intros [Ht Hf].
  assert (Ht' : t < TWO64) by lia. assert (Hf' : ts_fractional t <= 249) by lia.
  unfold parse. rewrite parse_fields_show by assumption.
  assert (Hs : ts_seconds t <= TS_MAX)
    by (rewrite ts_seconds_arith; unfold TS_MAX, TWO64 in *; lia).
  replace (ts_fractional t * 4 / 1000) with 0 by lia.
  rewrite N.add_0_r.
  destruct (N.ltb_spec TS_MAX (ts_seconds t)); [lia|].
  unfold ts_new. destruct (N.ltb_spec TS_MAX (ts_seconds t)); [lia|].
  f_equal.
  replace (ts_fractional t * 4 mod 1000 / 4) with (ts_fractional t) by lia.
  apply pack_accessors. assumption.
Qed.

(** Parsing never panics, whatever the text. *)
Lemma parse_never_panics s : parse s <> Panic.
Proof.
  unfold parse. destruct (parse_fields s) as [[[[sec frac] cnt] node]|]; [|discriminate].
  destruct (N.ltb_spec TS_MAX (sec + frac * 4 / 1000)) as [H|H]; [discriminate|].
  unfold ts_new. destruct (N.ltb_spec TS_MAX (sec + frac * 4 / 1000)); [lia|discriminate].
Qed.

Lemma parse_dec_bound max s n : parse_dec max s = Some n -> n <= max.
Proof.
  unfold parse_dec. destruct (strip_plus s); [discriminate|].
  destruct (NilEmpty.uint_of_string _); [|discriminate].
  destruct (N.leb_spec (N.of_uint u) max); [|discriminate]. intros [= <-]. assumption.
Qed.

Lemma parse_hex_bound max s n : parse_hex max s = Some n -> n <= max.
Proof.
  unfold parse_hex. destruct (strip_plus s); [discriminate|].
  destruct (parse_hex_digits _ _) as [m|]; [|discriminate].
  destruct (N.leb_spec m max); [|discriminate]. intros [= <-]. assumption.
Qed.

(** Whatever parses is a valid timestamp. *)
Lemma parse_ok_valid s t : parse s = Ok t -> valid_ts t = true.
Proof.
  unfold parse. destruct (parse_fields s) as [[[[sec frac] cnt] node]|] eqn:E; [|discriminate].
  unfold parse_fields in E. destruct (splitn4 s) as [[[[a b] c] d]|]; [|discriminate].
  destruct (parse_dec U64_MAX a) as [sec0|] eqn:Ea; [|discriminate].
  destruct (parse_dec 255 b) as [frac0|] eqn:Eb; [|discriminate].
  destruct (parse_hex 65535 c) as [cnt0|] eqn:Ec; [|discriminate].
  destruct (parse_dec 255 d) as [node0|] eqn:Ed; [|discriminate].
  injection E as <- <- <- <-.
  apply parse_dec_bound in Eb, Ed. apply parse_hex_bound in Ec.
  destruct (N.ltb_spec TS_MAX (sec0 + frac0 * 4 / 1000)) as [H|H]; [discriminate|].
  unfold ts_new. destruct (N.ltb_spec TS_MAX (sec0 + frac0 * 4 / 1000)); [lia|].
  intros [= <-]. unfold valid_ts.
  assert (Hfr : frac0 * 4 mod 1000 / 4 <= 249) by lia.
  pose proof (pack_lt_two64 (sec0 + frac0 * 4 / 1000) (frac0 * 4 mod 1000 / 4) cnt0 node0
                ltac:(lia) ltac:(lia) Ec Ed) as Hlt.
  destruct (accessors_pack (sec0 + frac0 * 4 / 1000) (frac0 * 4 mod 1000 / 4) cnt0 node0
                ltac:(lia) ltac:(lia) Ec Ed) as (_ & Hfa & _ & _).
  rewrite Hfa. apply andb_true_iff. split; lia.
Qed.

(** The unrepaired parser does panic (defect D3): two witnesses. *)
Lemma legacy_parse_panics :
  legacy_parse "4294967296-0000-0000-0000" = Panic /\
  legacy_parse "18446744073709551615-255-0-0" = Panic.
Proof. split; vm_compute; reflexivity. Qed.

(** [ts_new] on valid fields and its relation to [mk_ts]. *)
Lemma ts_new_ok sec ms cnt node :
  sec <= TS_MAX -> ts_new sec ms cnt node = Ok (pack sec (ms / 4) cnt node).
Proof. intros H. unfold ts_new. destruct (N.ltb_spec TS_MAX sec); [lia|reflexivity]. Qed.

Lemma ts_new_panics sec ms cnt node :
  TS_MAX < sec -> ts_new sec ms cnt node = Panic.
Proof. intros H. unfold ts_new. destruct (N.ltb_spec TS_MAX sec); [reflexivity|lia]. Qed.
