(** * Actor: model of the keyspace actor (datacake-eventual-consistency/src/keyspace/actor.rs)
    on top of the reference store of one keyspace, and of [load_states_from_storage]
    (keyspace/group.rs).

    A puppet actor handles one message at a time with [&mut self]: each handler is one
    atomic transition.  The storage call inside a handler is the reference store below
    plus an *outcome oracle* (which documents a failing bulk call wrote): theorems
    quantify over every outcome. *)

From stdpp Require Import gmap list sorting.
From Coq Require Import NArith.
From DC Require Import Ts Orswot.
Open Scope N_scope.

(** ** Reference store of one keyspace: id -> (stamp, Some payload | None = tombstone) *)

Notation store := (gmap N (N * option N)).

Definition st_put (st : store) (k t p : N) : store := <[k := (t, Some p)]> st.
Definition st_tomb (st : store) (k t : N) : store := <[k := (t, None)]> st.
Definition st_remove (st : store) (k : N) : store := delete k st.

(** [iter_metadata]: (id, stamp, is_tombstone) *)
Definition meta (st : store) (k : N) : option (N * bool) :=
  match st !! k with
  | Some (t, Some _) => Some (t, false)
  | Some (t, None) => Some (t, true)
  | None => None
  end.

Definition st_get (st : store) (k : N) : option (N * N) :=
  match st !! k with
  | Some (t, Some p) => Some (t, p)
  | _ => None
  end.

Definition meta_list (st : store) : list (N * (N * bool)) :=
  omap (fun kv => match kv.2 with (t, Some _) => Some (kv.1, (t, false))
                                | (t, None) => Some (kv.1, (t, true)) end) (map_to_list st).

(** ** Requests and storage outcomes *)

Record doc := mkDoc { d_id : N; d_ts : N; d_data : N }.
Record dmeta := mkMeta { m_id : N; m_ts : N }.

Inductive request :=
| RSet (src : nat) (d : doc)
| RMultiSet (src : nat) (ds : list doc)
| RDel (src : nat) (m : dmeta)
| RMultiDel (src : nat) (ms : list dmeta)
| RPurge.

(** Outcome of the storage call of one request.  For a bulk call [OPartial mask]: the
    call returned an error after writing exactly the items whose position is marked
    [true] (positions beyond the mask: not written); the error's [successful_doc_ids]
    are the ids of the written items, as the Storage contract requires. *)
Inductive outcome_s :=
| SOk
| SFail
| SPartial (mask : list bool).

Inductive reply := ROk | RErr.

(** ** De-duplication of a bulk request (repair of defect D2): per id only the newest
       item is kept (the first one among equals), in the original relative order. *)

Fixpoint find_id {A} (idf : A -> N) (k : N) (l : list A) : option A :=
  match l with
  | [] => None
  | x :: r => if idf x =? k then Some x else find_id idf k r
  end.

Definition remove_id {A} (idf : A -> N) (k : N) (l : list A) : list A :=
  filter (fun x => idf x <> k) l.

Fixpoint newest_per_id {A} (idf tsf : A -> N) (l : list A) : list A :=
  match l with
  | [] => []
  | x :: r =>
      let r' := newest_per_id idf tsf r in
      match find_id idf (idf x) r' with
      | Some y => if tsf x <? tsf y then r' else x :: remove_id idf (idf x) r'
      | None => x :: r'
      end
  end.

(** [written mask l]: the items of [l] a partially failing bulk call wrote. *)
Fixpoint written {A} (mask : list bool) (l : list A) : list A :=
  match l, mask with
  | x :: r, true :: m => x :: written m r
  | _ :: r, false :: m => written m r
  | _, _ => []
  end.

Definition ts_le {A} (tsf : A -> N) (x y : A) : Prop := (tsf x <=? tsf y) = true.
Global Instance ts_le_dec {A} (tsf : A -> N) : RelDecision (ts_le tsf).
Proof. intros x y. unfold ts_le. apply bool_eq_dec. Defined.

(** [valid_entries.sort_by_key(|entry| entry.1)] *)
Definition sort_by_ts {A} (tsf : A -> N) (l : list A) : list A := merge_sort (ts_le tsf) l.

(** ** The handlers.  [dedup = false] is the code before the repair of D2. *)

Definition on_set (legacy : bool) (s : oset) (st : store) (src : nat) (d : doc) (o : outcome_s)
  : oset * store * reply :=
  if negb (will_apply s (d_id d) (d_ts d)) then (s, st, ROk)
  else match o with
       | SOk => ((insert_ws legacy s src (d_id d) (d_ts d)).1, st_put st (d_id d) (d_ts d) (d_data d), ROk)
       | _ => (s, st, RErr)
       end.

Definition on_del (legacy : bool) (s : oset) (st : store) (src : nat) (m : dmeta) (o : outcome_s)
  : oset * store * reply :=
  if negb (will_apply s (m_id m) (m_ts m)) then (s, st, ROk)
  else match o with
       | SOk => ((delete_ws legacy s src (m_id m) (m_ts m)).1, st_tomb st (m_id m) (m_ts m), ROk)
       | _ => (s, st, RErr)
       end.

Definition on_multi_set (legacy dedup : bool) (s : oset) (st : store) (src : nat) (ds : list doc)
           (o : outcome_s) : oset * store * reply :=
  let valid := filter (fun d => will_apply s (d_id d) (d_ts d) = true) ds in
  let valid := if dedup then newest_per_id d_id d_ts valid else valid in
  let wr := match o with SOk => valid | SFail => [] | SPartial mask => written mask valid end in
  let st' := foldl (fun st d => st_put st (d_id d) (d_ts d) (d_data d)) st wr in
  let ok_ids := map d_id wr in
  let entries := sort_by_ts d_ts valid in
  let entries := match o with
                 | SOk => entries
                 | _ => filter (fun d => d_id d ∈ ok_ids) entries
                 end in
  let s' := foldl (fun s d => (insert_ws legacy s src (d_id d) (d_ts d)).1) s entries in
  (s', st', match o with SOk => ROk | _ => RErr end).

Definition on_multi_del (legacy dedup : bool) (s : oset) (st : store) (src : nat) (ms : list dmeta)
           (o : outcome_s) : oset * store * reply :=
  let valid := filter (fun m => will_apply s (m_id m) (m_ts m) = true) ms in
  let valid := if dedup then newest_per_id m_id m_ts valid else valid in
  let wr := match o with SOk => valid | SFail => [] | SPartial mask => written mask valid end in
  let st' := foldl (fun st m => st_tomb st (m_id m) (m_ts m)) st wr in
  let ok_ids := map m_id wr in
  let entries := sort_by_ts m_ts valid in
  let entries := match o with
                 | SOk => entries
                 | _ => filter (fun m => m_id m ∈ ok_ids) entries
                 end in
  let s' := foldl (fun s m => (delete_ws legacy s src (m_id m) (m_ts m)).1) s entries in
  (s', st', match o with SOk => ROk | _ => RErr end).

(** [on_purge_tombstones]: purge the set, ask storage to remove the purged keys; on a
    (partial) failure re-add the tombstones that were not removed. *)
Definition on_purge (s : oset) (st : store) (o : outcome_s) : oset * store * reply :=
  let '(purged, s1) := set_purge s in
  let removed := match o with SOk => purged | SFail => [] | SPartial mask => written mask purged end in
  let st' := foldl (fun st (kt : N * N) => st_remove st kt.1) st removed in
  match o with
  | SOk => (s1, st', ROk)
  | _ =>
      let ok_ids : list N := map fst removed in
      let back := filter (fun kt : N * N => kt.1 ∉ ok_ids) purged in
      (add_raw_tombstones s1 back, st', RErr)
  end.

Definition actor_step (legacy dedup : bool) (x : oset * store) (r : request) (o : outcome_s)
  : oset * store * reply :=
  let '(s, st) := x in
  match r with
  | RSet src d => on_set legacy s st src d o
  | RMultiSet src ds => on_multi_set legacy dedup s st src ds o
  | RDel src m => on_del legacy s st src m o
  | RMultiDel src ms => on_multi_del legacy dedup s st src ms o
  | RPurge => on_purge s st o
  end.

Definition actor_run (legacy dedup : bool) (x : oset * store) (rs : list (request * outcome_s))
  : oset * store :=
  foldl (fun x ro => (actor_step legacy dedup x ro.1 ro.2).1) x rs.

(** ** Restart: [load_states_from_storage] replays the metadata in stamp order into a
       fresh set through source 0. *)
Definition rebuild (nsrc : nat) (st : store) : oset :=
  let rows := sort_by_ts (fun r : N * (N * bool) => r.2.1) (meta_list st) in
  foldl (fun s (r : N * (N * bool)) => if r.2.2 then (delete_ws false s 0 r.1 r.2.1).1
                    else (insert_ws false s 0 r.1 r.2.1).1)
        (empty_set nsrc) rows.

(** Observers for the extracted driver. *)
Definition store_list (st : store) : list (N * (N * option N)) := map_to_list st.
Definition gmap_empty_store : store := ∅.
