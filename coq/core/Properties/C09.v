(** * C09 — Hybrid clock stamps are unique, strictly increasing and respect causality

    Only the property theorems (closed by [exact] of lemmas of [HlcProofs.v]). The wall
    clock is an arbitrary argument of every step (it may stall or jump backwards);
    the only bound is [wall <= WALL_MAX] (seconds fit 32 bits: year 2159), without
    which [seconds << 32] wraps — stated, not hidden. *)

From Coq Require Import NArith List Bool.
From DC Require Import Ts Hlc HlcProofs.
Import ListNotations.
Open Scope N_scope.

(** A successful [send] issues the new clock value, strictly greater than the clock
    before, carrying the clock's node id, at most [DRIFT] ahead of the wall clock. *)
Theorem C09_send_ok :
  forall wall c t c',
    valid_ts c = true -> wall <= WALL_MAX ->
    send wall c = (HOk t, c') ->
    c' = t /\ (c <? t) = true /\ ts_node t = ts_node c /\ ts_tick t <= wall + DRIFT /\
    wall <= ts_tick t /\ valid_ts t = true.
Proof. exact send_ok. Qed.

(** A failing request leaves the clock unchanged; [send] never panics. *)
Theorem C09_send_err_unchanged :
  forall wall c e c', send wall c = (HErr e, c') -> c' = c.
Proof. exact send_err. Qed.

Theorem C09_send_never_panics : forall wall c c', send wall c <> (HPanic, c').
Proof. exact send_no_panic. Qed.

Theorem C09_send_error_conditions :
  forall wall c,
    (fst (send wall c) = HErr ClockDrift <-> DRIFT < ts_tick c - wall) /\
    (fst (send wall c) = HErr Overflow <->
       ts_tick c - wall <= DRIFT /\ wall <= ts_tick c /\ ts_counter c = 65535).
Proof. exact send_err_iff. Qed.

(** After accepting a remote stamp the clock is greater than both its old value and the
    remote stamp, keeps its node id and stays within [DRIFT] of the wall clock. *)
Theorem C09_recv_ok :
  forall wall c msg r c',
    valid_ts c = true -> valid_ts msg = true -> wall <= WALL_MAX ->
    recv wall c msg = (HOk r, c') ->
    (c <? c') = true /\ (msg <? c') = true /\ ts_node c' = ts_node c /\
    valid_ts c' = true /\ ts_tick c' <= wall + DRIFT /\
    ts_tick r = ts_tick c' /\ ts_counter r = ts_counter c' /\ ts_node r = ts_node msg.
Proof. exact recv_ok. Qed.

Theorem C09_recv_err_unchanged :
  forall wall c msg e c', recv wall c msg = (HErr e, c') -> c' = c.
Proof. exact recv_err. Qed.

Theorem C09_recv_never_panics_on_valid :
  forall wall c msg c',
    valid_ts c = true -> valid_ts msg = true -> wall <= WALL_MAX ->
    recv wall c msg <> (HPanic, c').
Proof. exact recv_no_panic. Qed.

Theorem C09_recv_error_conditions :
  forall wall c msg,
    (fst (recv wall c msg) = HErr DuplicatedNode <-> ts_node c = ts_node msg) /\
    (fst (recv wall c msg) = HErr ClockDrift <->
       ts_node c <> ts_node msg /\
       (DRIFT < ts_tick msg - wall \/ DRIFT < ts_tick c - wall)).
Proof. exact recv_err_iff. Qed.

(** For every interleaving of send/recv with arbitrary remote stamps and arbitrary
    wall-clock readings: every stamp issued by [send] is strictly greater than the
    initial clock and than every stamp issued or accepted earlier in the history, and
    carries the clock's node id. *)
Theorem C09_history_increasing :
  forall evs c l1 t l2,
    valid_ts c = true -> Forall ev_ok evs ->
    observe c evs = l1 ++ (true, t) :: l2 ->
    (c <? t) = true /\ ts_node t = ts_node c /\
    forall b u, In (b, u) l1 -> (u <? t) = true.
Proof. exact observe_increasing. Qed.

(** Hence issued stamps are pairwise distinct (strictly increasing). *)
Theorem C09_issued_pairwise_distinct :
  forall evs c l1 t l2 l3 t',
    valid_ts c = true -> Forall ev_ok evs ->
    observe c evs = l1 ++ (true, t) :: l2 ++ (true, t') :: l3 ->
    (t <? t') = true.
Proof. exact observe_issued_distinct. Qed.

Theorem C09_run_never_panics :
  forall evs c rs c', valid_ts c = true -> Forall ev_ok evs ->
    hlc_run c evs = (rs, c') -> ~ In HPanic rs /\ valid_ts c' = true.
Proof. exact run_no_panic. Qed.

(** Non-vacuity: a history with a stalled, a backwards-jumping and a far-ahead wall
    clock, a remote stamp from the future and an exhausted counter. *)
Example C09_nonvacuous :
  let c0 := mk_ts 1000000 65534 1 in
  let remote := mk_ts 1500000 7 2 in
  let evs := [ESend 1000000; ESend 1000000; ESend 999000; ERecv 999000 remote; ESend 10; ESend 1500001] in
  valid_ts c0 = true /\ Forall ev_ok evs /\
  fst (hlc_run c0 evs) =
    [HOk (mk_ts 1000000 65535 1); HErr Overflow; HErr Overflow;
     HOk (mk_ts 1500000 8 2); HErr ClockDrift; HOk (mk_ts 1500001 0 1)] /\
  observe c0 evs = [(true, mk_ts 1000000 65535 1); (false, remote); (true, mk_ts 1500001 0 1)].
Proof.
  cbv zeta. split; [vm_compute; reflexivity|]. split.
  - repeat constructor; vm_compute; congruence.
  - split; vm_compute; reflexivity.
Qed.
