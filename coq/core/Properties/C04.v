(** * C04 — Per key the greatest timestamp wins, whatever order operations arrive in

    Only the property theorems (closed by [exact] of lemmas of [OrswotInv.v],
    [OrswotLww.v], [OrswotTimely.v]).  Stamps are compared by the packed word, which C10
    proves is the order on (time, counter, node). *)

From stdpp Require Import gmap list.
From Coq Require Import NArith.
From DC Require Import Ts Orswot OrswotInv OrswotLww OrswotTimely.
Open Scope N_scope.

(** The repaired acceptance rule: an operation is accepted exactly when it is not older
    than the safe cut-off of its origin (the rule [will_apply], [diff] and the purge
    use); a refused operation leaves the versions unchanged. *)
Theorem C04_acceptance_rule :
  forall v src t v' ok,
    VInv v -> valid_ts t = true -> (src < length (maxs v))%nat ->
    try_update false v src t = (v', ok) ->
    ok = negb (before v t) /\ (ok = false -> v' = v).
Proof. exact try_update_accept. Qed.

(** Step refinement: an operation acts on the view of its own key as the last-writer-wins
    join (greater stamp wins; an insert wins an exact tie with a tombstone) when it is
    accepted, changes nothing when refused, never touches another key, and its return
    value is true exactly when the view of its key changed. *)
Theorem C04_step_refinement :
  forall legacy s o,
    Disjoint s ->
    let r := apply_op legacy s o in
    (forall k', view r.1 k' =
       if accepted legacy s o && bool_decide (k' = op_key o)
       then join (view s (op_key o)) (op_ts o, op_del o) else view s k') /\
    (r.2 = true <-> view r.1 (op_key o) <> view s (op_key o)).
Proof. exact apply_op_view. Qed.

(** Greatest stamp wins: for every arrival sequence with pairwise distinct stamps, through
    any sources, in which no operation is refused at its arrival, every key's view is the
    greatest-stamp operation on it ([lww]). *)
Theorem C04_greatest_stamp_wins :
  forall nsrc arr k,
    (nsrc > 0)%nat ->
    Forall (fun o => valid_ts (op_ts o) = true) arr ->
    NoDup (stamps arr) ->
    all_accepted false (empty_set nsrc) arr = true ->
    view (run_ops false (empty_set nsrc) arr) k = lww arr k.
Proof. exact arrival_lww. Qed.

(** Order independence: two arrival orders / source assignments of the same operations
    give the same view of every key. *)
Theorem C04_any_arrival_order :
  forall nsrc arr1 arr2 k,
    (nsrc > 0)%nat ->
    Forall (fun o => valid_ts (op_ts o) = true) arr1 ->
    Forall (fun o => valid_ts (op_ts o) = true) arr2 ->
    NoDup (stamps arr1) ->
    map op_core arr1 ≡ₚ map op_core arr2 ->
    all_accepted false (empty_set nsrc) arr1 = true ->
    all_accepted false (empty_set nsrc) arr2 = true ->
    view (run_ops false (empty_set nsrc) arr1) k = view (run_ops false (empty_set nsrc) arr2) k.
Proof. exact two_orders_agree. Qed.

(** The premise is met whenever each operation arrives less than one forgiveness period
    behind everything that arrived before it (and not in the first tick of the epoch)... *)
Theorem C04_timely_operations_are_accepted :
  forall arr s S,
    Inv s -> MaxsFrom (versions s) S ->
    (forall o, o ∈ arr -> (op_src o < length (maxs (versions s)))%nat) ->
    Forall (fun o => valid_ts (op_ts o) = true) arr ->
    timely S arr ->
    all_accepted false s arr = true.
Proof. exact timely_accepted. Qed.

(** ... in particular when all operations lie within one forgiveness period. *)
Theorem C04_within_one_period_all_accepted :
  forall nsrc arr,
    (nsrc > 0)%nat ->
    (forall o, o ∈ arr -> (op_src o < nsrc)%nat) ->
    Forall (fun o => valid_ts (op_ts o) = true) arr ->
    within_W arr ->
    all_accepted false (empty_set nsrc) arr = true.
Proof. exact within_W_accepted. Qed.

(** Return value = prediction = "the view of the key changed", for a stamp that differs
    from what the replica holds for the key. *)
Theorem C04_return_value_and_prediction :
  forall s o,
    Inv s -> valid_ts (op_ts o) = true ->
    (op_src o < length (maxs (versions s)))%nat ->
    (forall u ud, view s (op_key o) = Some (u, ud) -> u <> op_ts o) ->
    let r := apply_op false s o in
    r.2 = will_apply s (op_key o) (op_ts o) /\
    (r.2 = true <-> view r.1 (op_key o) <> view s (op_key o)).
Proof. exact prediction_correct. Qed.

(** The invariant the statements above assume holds in every reachable state. *)
Theorem C04_invariant_reachable :
  forall legacy nsrc ops,
    (nsrc > 0)%nat ->
    Forall (fun o => valid_ts (op_ts o) = true) ops ->
    Inv (run_ops legacy (empty_set nsrc) ops).
Proof. intros. apply run_ops_Inv; [apply Inv_empty|]; assumption. Qed.

(** The acceptance rule before the repair violates order independence and the
    prediction (defect D1, now fixed). *)
Theorem C04_legacy_refuted :
  let ops := [OIns 0 2 d1_t2; OIns 0 1 d1_t1] in
  let s1 := (apply_op true (empty_set 1) (OIns 0 2 d1_t2)).1 in
  view (run_ops true (empty_set 1) ops) 1 = None /\
  view (run_ops true (empty_set 1) (rev ops)) 1 = Some (d1_t1, false) /\
  will_apply s1 1 d1_t1 = true /\ (apply_op true s1 (OIns 0 1 d1_t1)).2 = false /\
  view (run_ops false (empty_set 1) ops) 1 = Some (d1_t1, false).
Proof. exact legacy_lww_refuted. Qed.

(** Non-vacuity: a concrete history through two sources, with a same-instant tie between
    two origins and a delete, meets every hypothesis. *)
Example C04_nonvacuous :
  let a := mk_ts 50000000 0 1 in
  let b := mk_ts 50000000 0 2 in
  let c := mk_ts 50000005 3 1 in
  let arr := [OIns 1 7 c; ODel 0 7 b; OIns 0 7 a; OIns 1 8 b] in
  Forall (fun o => valid_ts (op_ts o) = true) [OIns 1 7 c; ODel 0 7 b; OIns 0 7 a] /\
  within_W [OIns 1 7 c; ODel 0 7 b; OIns 0 7 a] /\
  all_accepted false (empty_set 2) [OIns 1 7 c; ODel 0 7 b; OIns 0 7 a] = true /\
  view (run_ops false (empty_set 2) [OIns 1 7 c; ODel 0 7 b; OIns 0 7 a]) 7 = Some (c, false) /\
  view (run_ops false (empty_set 2) [ODel 0 7 b; OIns 0 7 a]) 7 = Some (b, true).
Proof.
  cbv zeta. split; [repeat constructor|]. split.
  - intros o o' Ho Ho'.
    repeat (apply elem_of_cons in Ho as [->|Ho]); try (inversion Ho);
    repeat (apply elem_of_cons in Ho' as [->|Ho']); try (inversion Ho'); vm_compute; split; congruence.
  - vm_compute. repeat split; reflexivity.
Qed.
