(** * C06 — A successful write has reached the replicas its consistency level promises

    Only the property theorems (closed by [exact] of lemmas of [ClusterProofs.v]).  The
    selection of replicas ([sel]) is C15's subject: there it is proved duplicate-free,
    without the local node, inside the live membership and of at least the required size;
    here those facts are premises. *)

From stdpp Require Import gmap list.
From Coq Require Import NArith Lia.
From DC Require Import Ts Orswot OrswotInv OrswotLww OrswotTimely Actor ActorProofs Cluster ClusterProofs Handle
  Distributor DistributorProofs.
Open Scope N_scope.

(** The call returns Ok exactly when every selected replica acknowledged; otherwise it
    returns a consistency failure stating how many did (fewer than selected). *)
Theorem C06_ok_iff_all_selected_acknowledged :
  forall sel acked,
    (distribute sel acked = DOk <-> Forall (fun j => acked j = true) sel) /\
    (forall r q, distribute sel acked = DConsistencyFailure r q ->
       r = length (filter (fun j => acked j = true) sel) /\ q = length sel /\ (r < q)%nat).
Proof. exact distribute_spec. Qed.

(** Hence on Ok at least [required level n] distinct other nodes acknowledged. *)
Theorem C06_ok_means_enough_acknowledged :
  forall (lvl : level) (n i : nat) sel acked,
    NoDup sel -> i ∉ sel -> (required lvl n <= length sel)%nat ->
    distribute sel acked = DOk ->
    exists acks, NoDup acks /\ i ∉ acks /\ (required lvl n <= length acks)%nat /\
                 Forall (fun j => acked j = true) acks.
Proof.
  intros lvl n i sel acked Hnd Hi Hreq Hok. exists sel. repeat split; try assumption.
  apply (proj1 (proj1 (distribute_spec sel acked)) Hok).
Qed.

Section C06.
  Context (H : list (N * N * bool)).
  Context (Hvalid : forall k t d, (k, t, d) ∈ H -> valid_ts t = true /\ 1 <= ts_tick t).
  Context (Hwithin : forall k t d k' t' d', (k, t, d) ∈ H -> (k', t', d') ∈ H -> ts_tick t' < ts_tick t + W).
  Context (Hdistinct : forall k t d d', (k, t, d) ∈ H -> (k, t, d') ∈ H -> d = d').

  (** Whatever the call returns, the mutation (or a newer one for the same id) is in the
      STORE of the issuing node and of every replica that acknowledged. *)
  Theorem C06_write_is_stored_where_acknowledged :
    forall n c i m acks k t d,
      cluster_ok H n c -> wf_event H n (CIssue i m acks) ->
      (k, t, d) ∈ req_ops (mutation_request 0 m) ->
      let c' := cstep c (CIssue i m acks) in
      vle (Some (t, d)) (meta (node c' i).2 k) /\
      forall j, j ∈ acks -> vle (Some (t, d)) (meta (node c' j).2 k).
  Proof. exact (write_is_stored H Hvalid Hwithin Hdistinct). Qed.

  (** It stays there: no later event takes it back. *)
  Theorem C06_write_stays_stored :
    forall n c es idx k v,
      cluster_ok H n c -> Forall (wf_event H n) es ->
      vle v (meta (node c idx).2 k) -> vle v (meta (node (crun c es) idx).2 k).
  Proof. exact (write_stays_stored H Hvalid Hwithin Hdistinct). Qed.

  (** After a consistency failure the local write is in place (first theorem) and the
      mutation, registered with the distributor before the fan-out, reaches any node with
      the next batch that carries it. *)
  Theorem C06_failed_write_is_replicated_later :
    forall n c j ms m k t d,
      cluster_ok H n c -> wf_event H n (CBatch j ms) -> m ∈ ms ->
      (k, t, d) ∈ req_ops (mutation_request 0 m) ->
      vle (Some (t, d)) (view (node (cstep c (CBatch j ms)) j).1 k).
  Proof. exact (batch_delivers H Hvalid Hwithin Hdistinct). Qed.
End C06.

(** "...registered with the distributor before the fan-out": the call as a list of effects
    ([Handle.v]).  Whatever the selected replicas answer, the mutation is applied locally and
    handed to the task distributor, and the result is the count above. *)
Theorem C06_every_call_registers_with_the_distributor :
  forall sel acked,
    let '(effs, res) := client_call true sel acked in
    In ELocal effs /\ In ERegister effs /\ res = distribute sel acked /\
    (forall j, In j sel -> In (ESend j) effs).
Proof. exact client_call_registers. Qed.

(** Registration moved behind the consistency round (seeded change C06/B): a failed round
    leaves the mutation on the issuer only. *)
Theorem C06_register_after_round_refuted :
  let '(effs, res) := client_call false [1; 2]%nat (fun j => Nat.eqb j 1) in
  res = DConsistencyFailure 1 2 /\ In ELocal effs /\ ~ In ERegister effs.
Proof. exact register_after_round_refuted. Qed.

(** "...and still replicated later": the task distributor's loop ([Distributor.v]).  A mutation
    registered before a tick of the batching interval leaves with that tick's batch - together
    with, and in the order of, everything registered since the previous tick - addressed to every
    member the live map holds once the membership changes handed over before the tick are applied. *)
Theorem C06_registered_mutation_leaves_with_the_next_batch :
  forall s ops m,
    DMutation m ∈ ops ->
    exists x, (d_tick (foldl d_register s ops)).2 = Some x /\
              m ∈ s_batch x /\
              s_batch x = mutations_of (d_queue s ++ ops) /\
              s_to x = map_to_list (live_of (d_live s) (d_queue s ++ ops)).
Proof. exact registered_goes_out. Qed.

(** Over any history of registrations, membership changes and ticks: the batches sent so far,
    followed by what is still queued, are the registered mutations in registration order -
    nothing is lost, duplicated, merged or reordered. *)
Theorem C06_batches_partition_the_registered_mutations :
  forall s0 es,
    concat (map s_batch (d_run s0 es).2) ++ mutations_of (d_queue (d_run s0 es).1)
    = mutations_of (d_queue s0) ++ mutations_of (ops_of es).
Proof. exact batches_partition_the_stream. Qed.

(** The batch on the cluster: every member of the live map whose link is up applies the whole
    batch ([C06_failed_write_is_replicated_later] says what that does to its state); every other
    node is untouched. *)
Theorem C06_batch_reaches_every_reachable_live_member :
  forall (up : nat -> bool) (live : gmap nat N) ms c j,
    (forall i a, live !! i = Some a -> (i < length c)%nat) ->
    node (crun c (tick_events up (mkSend (map_to_list live) ms))) j =
    if decide (is_Some (live !! j) /\ up j = true)
    then apply_reqs (node c j) (batch_requests ms) else node c j.
Proof. exact tick_on_cluster. Qed.

(** Non-vacuity of the distributor theorems: two members join, a put and a delete are registered,
    the tick sends both in order to both members; then member 2 changes its address (one change
    lists it as left and joined), a second put goes to the new address; an idle tick sends nothing. *)
Example C06_nonvacuous_distributor :
  let p := MPut (mkDoc 7 100 1) in
  let d := MDel (mkMeta 8 101) in
  let q := MPut (mkDoc 9 102 2) in
  let es := [EOp (DMember [(1%nat, 11); (2%nat, 12)] []); EOp (DMutation p); EOp (DMutation d); ETick;
             EOp (DMember [(2%nat, 15)] [(2%nat, 12)]); EOp (DMutation q); ETick; ETick] in
  map (fun x => (s_to x, s_batch x)) (d_run d_init es).2
  = [([(1%nat, 11); (2%nat, 12)], [p; d]); ([(1%nat, 11); (2%nat, 15)], [q])].
Proof. vm_compute. reflexivity. Qed.

(** Non-vacuity: 4 nodes, level Quorum (2 others required), one selected replica fails. *)
Example C06_nonvacuous :
  required LQuorum 4 = 2%nat /\ required LAll 4 = 3%nat /\ required LNone 4 = 0%nat /\
  distribute [1%nat; 3%nat] (fun j => negb (Nat.eqb j 3)) = DConsistencyFailure 1 2 /\
  distribute [1%nat; 3%nat] (fun _ => true) = DOk.
Proof. vm_compute. repeat split; reflexivity. Qed.
