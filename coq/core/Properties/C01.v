(** * C01 — Cluster converges: every node ends with the same last-writer-wins documents

    Only the property theorems (closed by [exact] of lemmas of [ClusterProofs.v]).
    [H] is the complete history of client operations of the run, as (id, stamp,
    is_delete); the premises are C01's: distinct valid stamps, all within one forgiveness
    period (and after the first tick of the epoch, K1).  The trace is any sequence of
    well-formed events over [n] nodes: client operations with any set of acknowledging
    replicas (direct messages lost or delivered), batches of earlier operations delivered
    to any node any number of times in any order, complete exchanges, the removal and
    modification halves of an exchange as separate events in any interleaving, runs of the
    purge task and restarts of a node on its own store, anywhere in the trace. *)

From stdpp Require Import gmap list.
From Coq Require Import NArith.
From DC Require Import Ts Orswot OrswotInv OrswotLww OrswotTimely Actor ActorProofs Cluster ClusterProofs ClusterPayload Tracker
  Distributor DistributorProofs TsDiff TsDiffProofs PollerPlan TrackerMulti.
Open Scope N_scope.

Section C01.
  Context (H : list (N * N * bool)).
  Context (Hvalid : forall k t d, (k, t, d) ∈ H -> valid_ts t = true /\ 1 <= ts_tick t).
  Context (Hwithin : forall k t d k' t' d', (k, t, d) ∈ H -> (k', t', d') ∈ H -> ts_tick t' < ts_tick t + W).
  Context (Hdistinct : forall k t d d', (k, t, d) ∈ H -> (k, t, d') ∈ H -> d = d').

  (** Every event keeps every node consistent (set invariant, set = store, everything a node
      holds is an operation of the history) and no node's view of any key ever goes back. *)
  Theorem C01_cluster_invariant :
    forall n es c,
      cluster_ok H n c -> Forall (wf_event H n) es ->
      cluster_ok H n (crun c es) /\
      forall idx k, vle (view (node c idx).1 k) (view (node (crun c es) idx).1 k).
  Proof. exact (crun_ok H Hvalid Hwithin Hdistinct). Qed.

  (** One complete exchange of j against i: afterwards j holds, for every key, at least what
      i holds (removal and modification halves, documents fetched from i's store). *)
  Theorem C01_exchange_catches_up :
    forall xj xi,
      NInv H xj -> NInv H xi ->
      let '(modified, removed) := exchange_diff xj xi in
      let xj' := apply_reqs (apply_reqs xj (removal_requests removed)) (modified_requests xi modified) in
      NInv H xj' /\ (forall k, vle (view xj.1 k) (view xj'.1 k)) /\ (forall k, vle (view xi.1 k) (view xj'.1 k)).
  Proof. exact (repair_catches_up H Hvalid Hwithin Hdistinct). Qed.

  (** Convergence: all operations are issued in the first part of the trace; in the second
      part every ordered pair of nodes completes one exchange (among any other events).
      Then EVERY node's view of every written key is the greatest-stamp operation on it ... *)
  Theorem C01_convergence :
    forall n es1 es2 k t d,
      Forall (wf_event H n) es1 -> Forall (wf_event H n) es2 ->
      is_winner H k t d ->
      (exists i m acks, CIssue i m acks ∈ es1 /\ (k, t, d) ∈ req_ops (mutation_request 0 m)) ->
      (forall j i, (j < n)%nat -> (i < n)%nat -> j <> i -> CRepair j i ∈ es2) ->
      forall idx, (idx < n)%nat ->
        view (node (crun (cinit n) (es1 ++ es2)) idx).1 k = Some (t, d).
  Proof. exact (convergence H Hvalid Hwithin Hdistinct). Qed.

  (** ... its store serves the live document at that stamp if the winner is a put and
      nothing if it is a delete ... *)
  Theorem C01_converged_storage :
    forall n es1 es2 k t d,
      Forall (wf_event H n) es1 -> Forall (wf_event H n) es2 ->
      is_winner H k t d ->
      (exists i m acks, CIssue i m acks ∈ es1 /\ (k, t, d) ∈ req_ops (mutation_request 0 m)) ->
      (forall j i, (j < n)%nat -> (i < n)%nat -> j <> i -> CRepair j i ∈ es2) ->
      forall idx, (idx < n)%nat ->
        meta (node (crun (cinit n) (es1 ++ es2)) idx).2 k = Some (t, d).
  Proof. exact (converged_store H Hvalid Hwithin Hdistinct). Qed.

  (** ... and an id nobody wrote is absent on every node. *)
  Theorem C01_untouched_key_absent :
    forall n es k idx,
      Forall (wf_event H n) es -> (forall t d, (k, t, d) ∉ H) ->
      view (node (crun (cinit n) es) idx).1 k = None.
  Proof. exact (untouched_key_absent H Hvalid Hwithin Hdistinct). Qed.
  (** Purges and restarts are events of the trace like any other.  Within the period a purge
      finds nothing to purge and leaves the node as it is; a restart rebuilds a node that
      shows exactly what it showed and is again a consistent node of the history. *)
  Theorem C01_purge_changes_nothing :
    forall x, NInv H x -> (actor_step false true x RPurge SOk).1 = x.
  Proof. exact (purge_is_noop_within_W H Hvalid Hwithin Hdistinct). Qed.

  Theorem C01_restart_keeps_the_node :
    forall x, NInv H x -> NInv H (rebuild 2 x.2, x.2) /\ forall k, view (rebuild 2 x.2) k = view x.1 k.
  Proof. exact (restart_ok H Hvalid Hwithin Hdistinct). Qed.

  (** The bytes.  [pay t] is the payload of the put stamped [t] (stamps are distinct);
      [pay_event]: the documents carried by client operations and batches carry it.  Once
      converged, a read of id [k] on EVERY node returns the winner's stamp and bytes if the
      winner is a put, and nothing if it is a delete. *)
  Theorem C01_converged_reads :
    forall (pay : N -> N) n es1 es2 k t d,
      Forall (wf_event H n) es1 -> Forall (wf_event H n) es2 ->
      Forall (pay_event pay) (es1 ++ es2) ->
      is_winner H k t d ->
      (exists i m acks, CIssue i m acks ∈ es1 /\ (k, t, d) ∈ req_ops (mutation_request 0 m)) ->
      (forall j i, (j < n)%nat -> (i < n)%nat -> j <> i -> CRepair j i ∈ es2) ->
      forall idx, (idx < n)%nat ->
        st_get (node (crun (cinit n) (es1 ++ es2)) idx).2 k = if d then None else Some (t, pay t).
  Proof. intros pay. exact (converged_reads H pay Hvalid Hwithin Hdistinct). Qed.

  (** ... and a payload is never altered on the way: on every node, after any trace, with
      every storage outcome, a live row stamped [t] carries [pay t]. *)
  Theorem C01_bytes_are_the_writes :
    forall (pay : N -> N) n es idx k t,
      Forall (pay_event pay) es ->
      meta (node (crun (cinit n) es) idx).2 k = Some (t, false) ->
      st_get (node (crun (cinit n) es) idx).2 k = Some (t, pay t).
  Proof. intros pay. exact (served_bytes pay). Qed.
End C01.

(** With the acceptance rule before the repair of D1 a lagging node does not converge: its
    exchange with the origin applies the modification half first (put a@t1, put c@t3), then
    the removal half (delete b@t2 is written to storage but refused by the set); its
    exchange with Y then fetches the older put b@t1' and overwrites the tombstone.  All
    exchanges are complete, yet the node serves b although delete b@t2 is the winner. *)
Theorem C01_legacy_converge_refuted :
  let t0 := mk_ts 90000000 0 3 in   (* X: put b   *)
  let t1 := mk_ts 90000010 0 1 in   (* O: put a   *)
  let t1' := mk_ts 90000015 0 2 in  (* Y: put b   *)
  let t2 := mk_ts 90000020 0 1 in   (* O: del b   *)
  let t3 := mk_ts 90000030 0 1 in   (* O: put c   *)
  let rs := [(RSet 0 (mkDoc 2 t0 100), SOk);
             (RMultiSet 1 [mkDoc 1 t1 101; mkDoc 3 t3 103], SOk);
             (RDel 1 (mkMeta 2 t2), SOk);
             (RMultiSet 1 [mkDoc 2 t1' 102], SOk)] in
  st_get (actor_run true true (empty_set 2, ∅) rs).2 2 = Some (t1', 102) /\
  meta (actor_run false true (empty_set 2, ∅) rs).2 2 = Some (t2, true).
Proof. vm_compute. split; reflexivity. Qed.

(** Non-vacuity: a 3-node run (a lagging node, a lost direct message, a duplicated batch,
    the two halves of an exchange interleaved with another exchange) meets the premises,
    and all three nodes end with the last-writer-wins documents. *)
Example C01_nonvacuous :
  let t1 := mk_ts 90000010 0 0 in
  let t2 := mk_ts 90000020 0 0 in
  let t3 := mk_ts 90000030 0 1 in
  let H := [(1, t1, false); (2, t2, false); (1, t3, true)] in
  let es1 := [CIssue 0%nat (MPut (mkDoc 1 t1 7)) [1%nat]; CIssue 0%nat (MPut (mkDoc 2 t2 8)) [];
              CIssue 1%nat (MDel (mkMeta 1 t3)) []] in
  let es2 := [CBatch 2%nat [MPut (mkDoc 1 t1 7)]; CBatch 2%nat [MPut (mkDoc 1 t1 7)];
              CFetchApply 2%nat 0%nat [(2, t2)]; CRepair 0%nat 1%nat; CRepair 0%nat 2%nat;
              CRepair 1%nat 0%nat; CRepair 1%nat 2%nat;
              CDiffRemovals 2%nat [(1, t3)]; CRepair 2%nat 0%nat; CRepair 2%nat 1%nat] in
  Forall (wf_event H 3%nat) es1 /\ Forall (wf_event H 3%nat) es2 /\ is_winner H 1 t3 true /\
  map live_docs (crun (cinit 3%nat) (es1 ++ es2)) = [[(2, (t2, 8))]; [(2, (t2, 8))]; [(2, (t2, 8))]].
Proof.
  cbv zeta.
  assert (Hput : forall k t p (Hl : list (N * N * bool)), (k, t, false) ∈ Hl -> mut_in_H Hl (MPut (mkDoc k t p))).
  { intros k t p Hl Hin k' t' d' Hx. cbn in Hx. apply elem_of_list_singleton in Hx. injection Hx as -> -> ->. exact Hin. }
  assert (Hdel : forall k t (Hl : list (N * N * bool)), (k, t, true) ∈ Hl -> mut_in_H Hl (MDel (mkMeta k t))).
  { intros k t Hl Hin k' t' d' Hx. cbn in Hx. apply elem_of_list_singleton in Hx. injection Hx as -> -> ->. exact Hin. }
  split; [|split; [|split]].
  - constructor; [|constructor; [|constructor; [|constructor]]]; cbn [wf_event].
    + split; [lia|]. split; [apply Hput; set_solver|]. constructor; [lia|constructor].
    + split; [lia|]. split; [apply Hput; set_solver|]. constructor.
    + split; [lia|]. split; [apply Hdel; set_solver|]. constructor.
  - repeat (apply Forall_cons_2;
      [cbn [wf_event]; split; [lia|];
       first [ lia
             | constructor; [apply Hput; set_solver|constructor]
             | intros k t Hin; apply elem_of_list_singleton in Hin; injection Hin as -> ->; set_solver ]|]).
    apply Forall_nil_2.
  - split; [set_solver|]. intros t' d' Hin.
    repeat (apply elem_of_cons in Hin as [Hin|Hin]; [injection Hin as -> ->; vm_compute; congruence|]).
    inversion Hin.
  - vm_compute. reflexivity.
Qed.

(** Non-vacuity with purges and restarts in the trace, and the bytes: node 2 is restarted
    before it has heard anything and again after an exchange, node 0 runs the purge task
    between its two exchanges; every node ends serving document 2 with the bytes written. *)
Example C01_nonvacuous_purge_restart :
  let t1 := mk_ts 90000010 0 0 in
  let t2 := mk_ts 90000020 0 0 in
  let t3 := mk_ts 90000030 0 1 in
  let H := [(1, t1, false); (2, t2, false); (1, t3, true)] in
  let pay := fun t : N => if t =? t1 then 7 else 8 in
  let es1 := [CIssue 0%nat (MPut (mkDoc 1 t1 7)) [1%nat]; CRestart 2%nat; CIssue 0%nat (MPut (mkDoc 2 t2 8)) [];
              CIssue 1%nat (MDel (mkMeta 1 t3)) []] in
  let es2 := [CRepair 0%nat 1%nat; CPurge 0%nat; CRepair 0%nat 2%nat; CRepair 2%nat 0%nat; CRestart 2%nat;
              CRepair 1%nat 0%nat; CRepair 1%nat 2%nat; CPurge 1%nat; CRepair 2%nat 1%nat; CRestart 0%nat] in
  Forall (wf_event H 3%nat) (es1 ++ es2) /\ Forall (pay_event pay) (es1 ++ es2) /\
  map live_docs (crun (cinit 3%nat) (es1 ++ es2)) = [[(2, (t2, 8))]; [(2, (t2, 8))]; [(2, (t2, 8))]].
Proof.
  cbv zeta. split; [|split].
  - repeat (apply Forall_cons_2; [cbn [wf_event];
      first [ lia | split; lia
            | split; [lia|]; split; [|repeat constructor; lia];
              intros k' t' d' Hx; cbn in Hx; apply elem_of_list_singleton in Hx; injection Hx as -> -> ->; set_solver ]|]).
    apply Forall_nil_2.
  - repeat (apply Forall_cons_2; [cbn; first [exact I | vm_compute; reflexivity]|]). apply Forall_nil_2.
  - vm_compute. reflexivity.
Qed.

(** The poller's bookkeeping ("skip a keyspace whose change stamp I have recorded"): the exchange
    events above always exchange; the implementation skips when the peer's stamp equals the one it
    recorded.  [Tracker.v] models the stamp, the two separate reads of one GetState reply
    (stamp read when the peer had [a] writes, set read when it had [b]) and writes handled in
    between.  In the order of the code (stamp not after set) the recorded stamp never exceeds
    what was pulled, so a skipped poll skips nothing, and a poll after the last write leaves the
    node with every write - skipped or not. *)
Theorem C01_recorded_stamp_never_ahead_of_what_was_pulled :
  forall es, Tracker.wf 0%nat es -> Forall stamp_first es ->
    let st := Tracker.run es in
    (pulled (snd st) <= fst st)%nat /\
    match recorded (snd st) with Some r => (r <= pulled (snd st))%nat | None => True end.
Proof. exact recorded_le_pulled. Qed.

Theorem C01_poll_after_last_write_pulls_everything :
  forall es, Tracker.wf 0%nat es -> Forall stamp_first es ->
    let v := fst (Tracker.run es) in
    let st' := Tracker.step (Tracker.run es) (EPoll v v 0%nat) in
    pulled (snd st') = fst st' /\ fst st' = v.
Proof. exact quiescent_poll_pulls_everything. Qed.

(** With the reads swapped (set first; a write handled before the stamp is read) a write is
    never pulled although every later poll succeeds (seeded change C01/A). *)
Theorem C01_swapped_getstate_reads_refuted :
  let es := [EWrite; EPoll 2 1 1; EPoll 2 2 0; EPoll 2 2 0]%nat in
  Tracker.wf 0%nat es /\ ~ Forall stamp_first es /\
  fst (Tracker.run es) = 2%nat /\ pulled (snd (Tracker.run es)) = 1%nat /\ recorded (snd (Tracker.run es)) = Some 2%nat.
Proof. exact swapped_reads_refuted. Qed.

(** Non-vacuity of the PREMISES, with bulk operations: a put_many stamps all its ids alike
    (ids 1 and 2 share [t1]), a del_many likewise; the history satisfies the three premises of
    Section C01 (decided by [cluster_hist_ok]), the trace is well-formed, and every node ends
    serving exactly id 2. *)
Example C01_nonvacuous_bulk :
  let t1 := mk_ts 90000010 0 0 in
  let t2 := mk_ts 90000020 0 1 in
  let H := [(1, t1, false); (2, t1, false); (1, t2, true); (3, t2, true)] in
  let es1 := [CIssue 0%nat (MPutMany [mkDoc 1 t1 7; mkDoc 2 t1 8]) [1%nat];
              CIssue 1%nat (MDelMany [mkMeta 1 t2; mkMeta 3 t2]) []] in
  let es2 := [CRepair 0%nat 1%nat; CRepair 0%nat 2%nat; CRepair 1%nat 0%nat; CRepair 1%nat 2%nat;
              CRepair 2%nat 0%nat; CRepair 2%nat 1%nat] in
  ((forall k t d, (k, t, d) ∈ H -> valid_ts t = true /\ 1 <= ts_tick t) /\
   (forall k t d k' t' d', (k, t, d) ∈ H -> (k', t', d') ∈ H -> ts_tick t' < ts_tick t + W) /\
   (forall k t d d', (k, t, d) ∈ H -> (k, t, d') ∈ H -> d = d')) /\
  Forall (wf_event H 3%nat) (es1 ++ es2) /\
  map live_docs (crun (cinit 3%nat) (es1 ++ es2)) = [[(2, (t1, 8))]; [(2, (t1, 8))]; [(2, (t1, 8))]].
Proof.
  cbv zeta. split; [apply cluster_hist_ok_spec; vm_compute; reflexivity|]. split.
  - repeat (apply Forall_cons_2; [cbn [wf_event];
      first [ split; lia
            | split; [lia|]; split; [|repeat constructor; lia];
              intros k' t' d' Hx; cbn in Hx;
              repeat (apply elem_of_cons in Hx as [Hx|Hx]; [injection Hx as -> -> ->; set_solver|]);
              inversion Hx ]|]).
    apply Forall_nil_2.
  - vm_compute. reflexivity.
Qed.

(** ** Who the replication batches are addressed to ([Distributor.v])

    The task distributor keeps its own map of live members, fed by the membership changes the
    store's glue hands it.  Over any history of registrations, membership changes and ticks, every
    batch was addressed to the whole live map of its tick: the map obtained by applying, in order,
    all membership changes handed over before that tick - and nothing else enters that map
    (no mutation, no outcome of an earlier batch). *)
Theorem C01_every_batch_addresses_the_live_map_of_its_tick :
  forall s0 es x,
    x ∈ (d_run s0 es).2 ->
    exists pre, pre `prefix_of` es /\
      s_to x = map_to_list (live_of (d_live s0) (d_queue s0 ++ ops_of pre)) /\ s_batch x <> [].
Proof. exact every_send_addresses_its_live_map. Qed.

Theorem C01_live_map_is_a_function_of_the_membership_changes :
  forall s0 es,
    let s := (d_run s0 es).1 in
    live_of (d_live s) (d_queue s) = live_of (d_live s0) (d_queue s0 ++ ops_of es).
Proof. exact live_after_run. Qed.

(** One membership change on the map: a node that joined is addressed at the address it joined
    with - also when the same change lists it as having left (an address change) -, a node that
    left is dropped, every other entry is untouched. *)
Theorem C01_membership_change_on_the_live_map :
  forall (live : gmap nat N) joined left,
    (forall i a, NoDup joined.*1 -> (i, a) ∈ joined -> member_apply live joined left !! i = Some a) /\
    (forall i, i ∈ left.*1 -> i ∉ joined.*1 -> member_apply live joined left !! i = None) /\
    (forall i, i ∉ left.*1 -> i ∉ joined.*1 -> member_apply live joined left !! i = live !! i).
Proof.
  intros live joined left. split; [|split].
  - intros i a. exact (member_apply_joined live joined left i a).
  - intros i. exact (member_apply_left live joined left i).
  - intros i. exact (member_apply_other live joined left i).
Qed.

(** Dropping a peer from the live map when a batch to it fails (seeded change C16/F) is refuted:
    the member never left, is reachable again, and is not addressed by the next batch. *)
Theorem C01_dropping_a_peer_after_a_failed_batch_refuted :
  let p := MPut (mkDoc 7 100 1) in
  let q := MPut (mkDoc 9 102 2) in
  let s0 := foldl d_register d_init [DMember [(1%nat, 11%N); (2%nat, 12%N)] []; DMutation p] in
  let s1 := d_register (d_tick_dropping (fun j => negb (Nat.eqb j 1)) s0).1 (DMutation q) in
  let s1' := d_register (d_tick s0).1 (DMutation q) in
  option_map s_to (d_tick_dropping (fun _ => true) s1).2 = Some [(2%nat, 12%N)] /\
  option_map s_to (d_tick s1').2 = Some [(1%nat, 11%N); (2%nat, 12%N)].
Proof. exact dropping_refuted. Qed.

(** ** Which keyspaces of a peer an exchange covers ([TsDiff.v])

    The poller synchronises the keyspaces [KeyspaceTimestamps::diff] lists for (stamps recorded
    for the peer, stamps the peer reports now) and skips all others.  The listed keyspaces are
    exactly those whose two stamps differ, a keyspace known to one side only included - so a
    keyspace is skipped only when the poller recorded, after a successful exchange of that very
    keyspace, the stamp the peer still reports ([C01_recorded_stamp_never_ahead_of_what_was_pulled]
    says what that stamp covers).  No keyspace is listed twice. *)
Theorem C01_sync_plan_is_exactly_the_changed_keyspaces :
  forall (recorded reported : gmap N N),
    (forall k, k ∈ ts_diff recorded reported <-> recorded !! k <> reported !! k) /\
    (forall k, k ∉ ts_diff recorded reported <-> recorded !! k = reported !! k) /\
    NoDup (ts_diff recorded reported).
Proof.
  intros recorded reported. split; [|split].
  - intros k. exact (ts_diff_spec recorded reported k).
  - intros k. exact (ts_diff_skips recorded reported k).
  - exact (ts_diff_nodup recorded reported).
Qed.

(** Non-vacuity: four keyspaces - unchanged, changed, new on the peer, known only to the poller. *)
Example C01_nonvacuous_sync_plan :
  ts_diff_lists [(1, 10); (2, 20); (4, 40)] [(1, 10); (2, 21); (3, 30)] = [3; 2; 4].
Proof. vm_compute. reflexivity. Qed.

(** The poller's membership handling and its plan together ([PollerPlan.v]): a node listed as
    having left loses its recorded stamps - also when the same change lists it as joined again
    (address change, restart under a new address) - so its next poll plans every keyspace it
    reports; every other node's plan is untouched by the change; and recording a completed
    exchange of one keyspace at the reported stamp takes exactly that keyspace out of the plan. *)
Theorem C01_departed_or_moved_peer_is_resynced_in_full :
  forall s joined left i reported k,
    i ∈ left.*1 ->
    (k ∈ poller_plan (poller_apply s joined left) i reported <-> is_Some (reported !! k)).
Proof. exact departed_node_is_resynced_in_full. Qed.

Theorem C01_membership_change_keeps_other_peers_stamps :
  forall s joined left i reported,
    i ∉ left.*1 ->
    poller_plan (poller_apply s joined left) i reported = poller_plan s i reported.
Proof. exact other_nodes_keep_their_stamps. Qed.

Theorem C01_recorded_keyspace_leaves_the_plan :
  forall s node reported k t k',
    reported !! k = Some t ->
    (k' ∈ poller_plan (poller_record s node k t) node reported <->
     k' <> k /\ k' ∈ poller_plan s node reported).
Proof. exact recorded_keyspace_leaves_the_plan. Qed.

(** ** All keyspaces of a peer together ([TrackerMulti.v])

    A peer with any number of keyspaces, writes to any of them, polls whose plan is the code's
    ([planned] is what [KeyspaceTimestamps::diff] lists) and whose GetState replies may race with
    writes (stamp read not after the set, the order of the code).  In every keyspace the recorded
    stamp never exceeds what has been pulled; a keyspace a poll skips is one the polling node
    already holds completely; and one poll after the last write leaves the polling node with every
    write of EVERY keyspace, planned or skipped. *)
Theorem C01_recorded_stamp_never_ahead_in_any_keyspace :
  forall es k r,
    m_wf_run m_init es -> m_recorded (mrun m_init es) k = Some r ->
    r <= m_pulled (mrun m_init es) k /\ m_pulled (mrun m_init es) k <= version (mrun m_init es) k.
Proof. exact recorded_le_pulled_all. Qed.

Theorem C01_skipped_keyspace_is_complete :
  forall es k,
    m_wf_run m_init es ->
    planned (mrun m_init es) k = false ->
    m_pulled (mrun m_init es) k = version (mrun m_init es) k.
Proof. exact skipped_keyspace_is_complete. Qed.

Theorem C01_poll_after_last_write_pulls_every_keyspace :
  forall es k,
    m_wf_run m_init es ->
    let s := mrun m_init es in
    let s' := mstep s (MPoll (quiet s)) in
    m_pulled s' k = version s' k /\ version s' k = version s k.
Proof. exact quiescent_poll_pulls_every_keyspace. Qed.

Theorem C01_planned_keyspaces_are_the_codes_diff :
  forall (recorded reported : gmap N N) s k,
    (forall k, m_recorded s k = recorded !! k) ->
    (forall k, m_peer s k = reported !! k) ->
    (planned s k = true <-> k ∈ ts_diff recorded reported).
Proof. exact planned_is_ts_diff. Qed.

(** Non-vacuity: two keyspaces; keyspace 1 is written during the poll between the two reads of
    its reply (stamp at 2, set at 3), keyspace 2 is quiet.  The history is well-formed; afterwards
    keyspace 1 is planned again (recorded 2, reported 3) and keyspace 2 is skipped, complete. *)
Example C01_nonvacuous_multi_keyspace :
  let r1 := fun k => if N.eqb k 1 then mkR 2 3 1 else mkR 1 1 0 in
  let es := [MWrite 1; MWrite 2; MWrite 1; MPoll r1] in
  m_wf_run m_init es /\
  let s := mrun m_init es in
  (version s 1, m_pulled s 1, m_recorded s 1, planned s 1) = (3, 3, Some 2, true) /\
  (version s 2, m_pulled s 2, m_recorded s 2, planned s 2) = (1, 1, Some 1, false).
Proof.
  cbv zeta. split.
  - cbn [m_wf_run m_wf_event]. repeat split.
    all: unfold version in *; cbn [mstep m_peer m_init default from_option id] in *.
    all: destruct (N.eqb_spec k 1) as [->|H1]; cbn in *.
    all: try (destruct (N.eqb_spec k 2) as [->|H2]; cbn in *).
    all: try discriminate.
    all: match goal with H : Some _ = Some _ |- _ => injection H as <- end; cbn; lia.
  - vm_compute. split; reflexivity.
Qed.
