(** * C03 — Merging replica states is commutative, associative and idempotent

    Only the property theorems (closed by [exact] of lemmas of [OrswotMerge.v]).

    The property has two alternative premises, and the laws are proved under each:
    premise (A) — all timestamps of the history lie within one forgiveness period
    (Section C03, [C03_merge_laws_within_one_period]); premise (B) — each replica has applied
    a gap-free prefix of every origin's operations, the history spanning any number of
    periods (Section C03_prefixes, [C03_merge_laws_gap_free_prefixes]).  Outside both
    premises the laws fail (witness at the end), as the property allows. *)

From stdpp Require Import gmap list.
From Coq Require Import NArith.
From DC Require Import Ts Orswot OrswotInv OrswotLww OrswotTimely OrswotPurge OrswotMerge OrswotMergeB.
Open Scope N_scope.

Section C03.
  Context (H : list (N * N * bool)) (nsrc : nat).
  Context (Hvalid : forall k t d, (k, t, d) ∈ H -> valid_ts t = true /\ 1 <= ts_tick t).
  Context (Hwithin : forall k t d k' t' d', (k, t, d) ∈ H -> (k', t', d') ∈ H -> ts_tick t' < ts_tick t + W).
  Context (Hdistinct : forall k t d k' d', (k, t, d) ∈ H -> (k', t, d') ∈ H -> k = k' /\ d = d').

  (** Replicas of the history: reachable by applying operations of [H] in any order through
      any sources, and by merging such replicas. *)
  Theorem C03_replicas_of_the_history :
    (nsrc > 0)%nat ->
    MInv H nsrc (empty_set nsrc) /\
    (forall ops s, MInv H nsrc s -> Forall (fun o => (op_key o, op_ts o, op_del o) ∈ H) ops ->
                   MInv H nsrc (run_ops false s ops)) /\
    (forall a b, MInv H nsrc a -> MInv H nsrc b -> MInv H nsrc (set_merge a b)).
  Proof.
    intros Hn. split; [exact (MInv_empty H nsrc Hvalid Hwithin Hdistinct Hn)|]. split.
    - intros ops s. exact (run_ops_MInv H nsrc Hvalid Hwithin Hdistinct ops s).
    - intros a b Ha Hb. exact (proj1 (merge_is_max H nsrc Hvalid Hwithin Hdistinct a b Ha Hb)).
  Qed.

  (** A merge is the per-key maximum by stamp: live ids, tombstones and stamps. *)
  Theorem C03_merge_is_per_key_maximum :
    forall a b, MInv H nsrc a -> MInv H nsrc b ->
      forall k, view (set_merge a b) k = vmax (view a k) (view b k).
  Proof. intros a b Ha Hb. exact (proj2 (merge_is_max H nsrc Hvalid Hwithin Hdistinct a b Ha Hb)). Qed.

  (** Commutative, associative, idempotent; re-merging a state already merged changes
      nothing; replicas that merged each other (directly or through a third) answer every
      lookup identically.  Premise (A). *)
  Theorem C03_merge_laws_within_one_period :
    forall a b c k,
      MInv H nsrc a -> MInv H nsrc b -> MInv H nsrc c ->
      view (set_merge a b) k = view (set_merge b a) k /\
      view (set_merge (set_merge a b) c) k = view (set_merge a (set_merge b c)) k /\
      view (set_merge a a) k = view a k /\
      view (set_merge (set_merge a b) b) k = view (set_merge a b) k /\
      set_get (set_merge a b) k = set_get (set_merge b a) k /\
      set_get (set_merge (set_merge a b) c) k = set_get (set_merge c (set_merge b a)) k.
  Proof.
    intros a b c k Ha Hb Hc. repeat split.
    - exact (merge_commutative H nsrc Hvalid Hwithin Hdistinct a b k Ha Hb).
    - exact (merge_associative H nsrc Hvalid Hwithin Hdistinct a b c k Ha Hb Hc).
    - exact (merge_idempotent H nsrc Hvalid Hwithin Hdistinct a k Ha).
    - exact (merge_again_changes_nothing H nsrc Hvalid Hwithin Hdistinct a b k Ha Hb).
    - exact (merged_replicas_indistinguishable H nsrc Hvalid Hwithin Hdistinct a b k Ha Hb).
    - exact (merged_transitively_indistinguishable H nsrc Hvalid Hwithin Hdistinct a b c k Ha Hb Hc).
  Qed.
End C03.

Section C03_prefixes.
  (** Premise (B).  [H]: distinct valid stamps, NO bound on their span. *)
  Context (H : list (N * N * bool)) (nsrc : nat).
  Context (Hvalid : forall k t d, (k, t, d) ∈ H -> valid_ts t = true).
  Context (Hdistinct : forall k t d k' d', (k, t, d) ∈ H -> (k', t, d') ∈ H -> k = k' /\ d = d').

  (** Replicas that have applied a gap-free prefix of every origin's operations:
      [BInvC C s] = [s] reflects exactly the operations at or below the cut [C] (origin ->
      greatest stamp applied).  Reachable by applying, through any source, an operation all of
      whose origin's earlier operations are already applied (the origin's next operation, or
      a repeated one), and by merging such replicas. *)
  Theorem C03_gap_free_prefix_replicas :
    (nsrc > 0)%nat ->
    BInvC H nsrc ∅ (empty_set nsrc) /\
    (forall C s o, BInvC H nsrc C s -> (op_key o, op_ts o, op_del o) ∈ H -> (op_src o < nsrc)%nat ->
       (forall k' t' d', (k', t', d') ∈ H -> ts_node t' = ts_node (op_ts o) -> t' < op_ts o -> applied H C k' t' d') ->
       BInvC H nsrc (cut_max C {[ts_node (op_ts o) := op_ts o]}) (apply_op false s o).1) /\
    (forall a b, BInv H nsrc a -> BInv H nsrc b -> BInv H nsrc (set_merge a b)).
  Proof.
    intros Hn. split; [exact (BInvC_empty H nsrc Hvalid Hdistinct Hn)|]. split.
    - intros C s o. exact (apply_op_BInvC H nsrc Hvalid Hdistinct C s o).
    - intros a b. exact (BInv_merge H nsrc Hvalid Hdistinct a b).
  Qed.

  (** What such a replica shows: for every key the greatest-stamp operation at or below its cut. *)
  Theorem C03_prefix_replica_shows_lww :
    forall C s k, BInvC H nsrc C s ->
      (forall t d, view s k = Some (t, d) -> applied H C k t d) /\
      (forall t d, applied H C k t d -> exists t' d', view s k = Some (t', d') /\ t <= t').
  Proof. intros C s k (_ & _ & _ & Hs & Hc). split; intros t d; [apply Hs|apply Hc]. Qed.

  Theorem C03_merge_is_per_key_maximum_prefixes :
    forall a b, BInv H nsrc a -> BInv H nsrc b ->
      forall k, view (set_merge a b) k = vmax (view a k) (view b k).
  Proof. intros a b Ha Hb k. exact (merge_view_prefix H nsrc Hvalid Hdistinct a b k Ha Hb). Qed.

  Theorem C03_merge_laws_gap_free_prefixes :
    forall a b c k,
      BInv H nsrc a -> BInv H nsrc b -> BInv H nsrc c ->
      view (set_merge a b) k = view (set_merge b a) k /\
      view (set_merge (set_merge a b) c) k = view (set_merge a (set_merge b c)) k /\
      view (set_merge a a) k = view a k /\
      view (set_merge (set_merge a b) b) k = view (set_merge a b) k /\
      set_get (set_merge a b) k = set_get (set_merge b a) k /\
      set_get (set_merge (set_merge a b) c) k = set_get (set_merge c (set_merge b a)) k.
  Proof.
    intros a b c k Ha Hb Hc. repeat split.
    - exact (merge_commutative_B H nsrc Hvalid Hdistinct a b k Ha Hb).
    - exact (merge_associative_B H nsrc Hvalid Hdistinct a b c k Ha Hb Hc).
    - exact (merge_idempotent_B H nsrc Hvalid Hdistinct a k Ha).
    - exact (merge_again_changes_nothing_B H nsrc Hvalid Hdistinct a b k Ha Hb).
    - exact (merged_replicas_indistinguishable_B H nsrc Hvalid Hdistinct a b k Ha Hb).
    - exact (merged_transitively_indistinguishable_B H nsrc Hvalid Hdistinct a b c k Ha Hb Hc).
  Qed.
End C03_prefixes.

(** The merged set, key by key, for ANY two sets (no premise beyond disjoint entries and
    tombstones of the second): the executable characterisation the laws are derived from. *)
Theorem C03_merge_key_by_key :
  forall a b k, Disjoint b ->
    (entries (set_merge a b) !! k, dead (set_merge a b) !! k) =
    merge_key (versions a) (versions b) (entries a !! k) (dead a !! k) (entries b !! k) (dead b !! k).
Proof. exact merge_lookup. Qed.

(** Outside both premises commutativity fails: [b] has heard node 1 more than a forgiveness
    period after [a]'s only entry, on every source. *)
Theorem C03_outside_premises_not_commutative :
  let t1 := mk_ts 10000000 0 1 in
  let t2 := mk_ts 12000000 0 1 in
  let a := run_ops false (empty_set 1) [OIns 0 1 t1] in
  let b := run_ops false (empty_set 1) [OIns 0 2 t2] in
  set_get (set_merge a b) 1 = None /\ set_get (set_merge b a) 1 = Some t1.
Proof. vm_compute. split; reflexivity. Qed.

(** Non-vacuity: three replicas of one history (a same-instant tie of two origins, a delete,
    operations through both sources) satisfy the premises; the merged results agree. *)
Example C03_nonvacuous :
  let t1 := mk_ts 50000000 0 1 in
  let t2 := mk_ts 50000000 0 2 in
  let t3 := mk_ts 50000009 1 1 in
  let H := [(1, t1, false); (1, t2, true); (2, t3, false)] in
  let a := run_ops false (empty_set 2) [OIns 0 1 t1] in
  let b := run_ops false (empty_set 2) [ODel 1 1 t2; OIns 0 2 t3] in
  let c := run_ops false (empty_set 2) [OIns 1 2 t3; OIns 1 1 t1] in
  Forall (fun o => (op_key o, op_ts o, op_del o) ∈ H) [ODel 1 1 t2; OIns 0 2 t3; OIns 1 2 t3; OIns 1 1 t1] /\
  entries_list (set_merge (set_merge a b) c) = [(2, t3)] /\
  entries_list (set_merge a (set_merge b c)) = [(2, t3)] /\
  dead_list (set_merge c (set_merge b a)) = [(1, t2)].
Proof.
  cbv zeta. split; [repeat constructor; set_solver|]. vm_compute. repeat split; reflexivity.
Qed.

(** Non-vacuity of premise (B): a history spanning far more than one forgiveness period
    (900000 ticks): origin 1 writes key 1, much later deletes it and writes key 2; origin 2
    writes key 1 in between.  Replica [a] has applied origin 1's first operation only,
    replica [b] all of origin 1 and nothing of origin 2, replica [c] everything; each is a
    gap-free-prefix replica, and the merges agree although [b]'s cut-off is beyond [a]'s only
    entry. *)
Example C03_nonvacuous_prefixes :
  let t1 := mk_ts 10000000 0 1 in
  let t2 := mk_ts 15000000 0 2 in
  let t3 := mk_ts 20000000 0 1 in
  let t4 := mk_ts 20000001 0 1 in
  let H := [(1, t1, false); (1, t2, false); (1, t3, true); (2, t4, false)] in
  let a := run_ops false (empty_set 2) [OIns 0 1 t1] in
  let b := run_ops false (empty_set 2) [OIns 0 1 t1; ODel 1 1 t3; OIns 0 2 t4] in
  let c := run_ops false (empty_set 2) [OIns 1 1 t1; OIns 0 1 t2; ODel 0 1 t3; OIns 1 2 t4] in
  W < ts_tick t3 - ts_tick t1 /\
  BInv H 2 a /\ BInv H 2 b /\ BInv H 2 c /\
  entries_list (set_merge a b) = [(2, t4)] /\ dead_list (set_merge b a) = [(1, t3)] /\
  entries_list (set_merge (set_merge a b) c) = entries_list (set_merge c (set_merge b a)).
Proof.
  cbv zeta.
  set (t1 := mk_ts 10000000 0 1). set (t2 := mk_ts 15000000 0 2).
  set (t3 := mk_ts 20000000 0 1). set (t4 := mk_ts 20000001 0 1).
  set (H := [(1, t1, false); (1, t2, false); (1, t3, true); (2, t4, false)]).
  destruct (hist_ok_spec H ltac:(vm_compute; reflexivity)) as [Hvalid Hdistinct].
  pose proof (BInvC_empty H 2 Hvalid Hdistinct ltac:(lia)) as H0.
  (* one step of a replica: the next operation of its origin *)
  assert (Hstep : forall C s o, BInvC H 2 C s -> (op_key o, op_ts o, op_del o) ∈ H -> (op_src o < 2)%nat ->
            (forall k' t' d', (k', t', d') ∈ H -> ts_node t' = ts_node (op_ts o) -> t' < op_ts o -> applied H C k' t' d') ->
            BInvC H 2 (cut_max C {[ts_node (op_ts o) := op_ts o]}) (apply_op false s o).1)
    by (intros C s o; exact (apply_op_BInvC H 2 Hvalid Hdistinct C s o)).
  assert (Hin1 : (1, t1, false) ∈ H) by (subst H; set_solver).
  assert (Hin2 : (1, t2, false) ∈ H) by (subst H; set_solver).
  assert (Hin3 : (1, t3, true) ∈ H) by (subst H; set_solver).
  assert (Hin4 : (2, t4, false) ∈ H) by (subst H; set_solver).
  (* gap condition, decided on the concrete history *)
  Ltac gap := apply gap_ok_spec; vm_compute; reflexivity.
  split; [vm_compute; reflexivity|].
  (* a *)
  pose proof (Hstep _ _ (OIns 0 1 t1) H0 Hin1 ltac:(cbn; lia) ltac:(gap)) as Ha1.
  (* b *)
  pose proof (Hstep _ _ (ODel 1 1 t3) Ha1 Hin3 ltac:(cbn; lia) ltac:(gap)) as Hb2.
  pose proof (Hstep _ _ (OIns 0 2 t4) Hb2 Hin4 ltac:(cbn; lia) ltac:(gap)) as Hb3.
  (* c *)
  pose proof (Hstep _ _ (OIns 1 1 t1) H0 Hin1 ltac:(cbn; lia) ltac:(gap)) as Hc1.
  pose proof (Hstep _ _ (OIns 0 1 t2) Hc1 Hin2 ltac:(cbn; lia) ltac:(gap)) as Hc2.
  pose proof (Hstep _ _ (ODel 0 1 t3) Hc2 Hin3 ltac:(cbn; lia) ltac:(gap)) as Hc3.
  pose proof (Hstep _ _ (OIns 1 2 t4) Hc3 Hin4 ltac:(cbn; lia) ltac:(gap)) as Hc4.
  split; [eexists; exact Ha1|]. split; [eexists; exact Hb3|]. split; [eexists; exact Hc4|].
  vm_compute. repeat split; reflexivity.
Qed.
