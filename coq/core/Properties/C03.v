(** * C03 — Merging replica states is commutative, associative and idempotent

    Only the property theorems (closed by [exact] of lemmas of [OrswotMerge.v]).

    The property has two alternative premises.  Proved here: premise (A) — all timestamps
    of the history lie within one forgiveness period.  NOT proved: premise (B) — each
    replica has applied a gap-free prefix of every origin's operations (possibly
    spanning more than one period); the theorems below therefore carry premise (A) only and
    the combined statement is named [..._partial].  Outside both premises the laws fail
    (witness at the end), as the property allows. *)

From stdpp Require Import gmap list.
From Coq Require Import NArith.
From DC Require Import Ts Orswot OrswotInv OrswotLww OrswotTimely OrswotPurge OrswotMerge.
Open Scope N_scope.

Section C03.
  Context (H : list (N * N * bool)) (nsrc : nat).
  Context (Hvalid : forall k t d, (k, t, d) ∈ H -> valid_ts t = true /\ 1 <= ts_tick t).
  Context (Hwithin : forall k t d k' t' d', (k, t, d) ∈ H -> (k', t', d') ∈ H -> ts_tick t' < ts_tick t + W).
  Context (Hdistinct : forall k t d k' d', (k, t, d) ∈ H -> (k', t, d') ∈ H -> k = k' /\ d = d').

  (** Replicas of the history: reachable by applying operations of [H] in any order through
      any sources, and by merging such replicas. *)
  Theorem C03_replicas_of_the_history :
    (nsrc > 0)%nat ->
    MInv H nsrc (empty_set nsrc) /\
    (forall ops s, MInv H nsrc s -> Forall (fun o => (op_key o, op_ts o, op_del o) ∈ H) ops ->
                   MInv H nsrc (run_ops false s ops)) /\
    (forall a b, MInv H nsrc a -> MInv H nsrc b -> MInv H nsrc (set_merge a b)).
  Proof.
    intros Hn. split; [exact (MInv_empty H nsrc Hvalid Hwithin Hdistinct Hn)|]. split.
    - intros ops s. exact (run_ops_MInv H nsrc Hvalid Hwithin Hdistinct ops s).
    - intros a b Ha Hb. exact (proj1 (merge_is_max H nsrc Hvalid Hwithin Hdistinct a b Ha Hb)).
  Qed.

  (** A merge is the per-key maximum by stamp: live ids, tombstones and stamps. *)
  Theorem C03_merge_is_per_key_maximum :
    forall a b, MInv H nsrc a -> MInv H nsrc b ->
      forall k, view (set_merge a b) k = vmax (view a k) (view b k).
  Proof. intros a b Ha Hb. exact (proj2 (merge_is_max H nsrc Hvalid Hwithin Hdistinct a b Ha Hb)). Qed.

  (** Commutative, associative, idempotent; re-merging a state already merged changes
      nothing; replicas that merged each other (directly or through a third) answer every
      lookup identically.  Premise (A) only — see the header. *)
  Theorem C03_merge_laws_partial :
    forall a b c k,
      MInv H nsrc a -> MInv H nsrc b -> MInv H nsrc c ->
      view (set_merge a b) k = view (set_merge b a) k /\
      view (set_merge (set_merge a b) c) k = view (set_merge a (set_merge b c)) k /\
      view (set_merge a a) k = view a k /\
      view (set_merge (set_merge a b) b) k = view (set_merge a b) k /\
      set_get (set_merge a b) k = set_get (set_merge b a) k /\
      set_get (set_merge (set_merge a b) c) k = set_get (set_merge c (set_merge b a)) k.
  Proof.
    intros a b c k Ha Hb Hc. repeat split.
    - exact (merge_commutative H nsrc Hvalid Hwithin Hdistinct a b k Ha Hb).
    - exact (merge_associative H nsrc Hvalid Hwithin Hdistinct a b c k Ha Hb Hc).
    - exact (merge_idempotent H nsrc Hvalid Hwithin Hdistinct a k Ha).
    - exact (merge_again_changes_nothing H nsrc Hvalid Hwithin Hdistinct a b k Ha Hb).
    - exact (merged_replicas_indistinguishable H nsrc Hvalid Hwithin Hdistinct a b k Ha Hb).
    - exact (merged_transitively_indistinguishable H nsrc Hvalid Hwithin Hdistinct a b c k Ha Hb Hc).
  Qed.
End C03.

(** The merged set, key by key, for ANY two sets (no premise beyond disjoint entries and
    tombstones of the second): the executable characterisation the laws are derived from. *)
Theorem C03_merge_key_by_key :
  forall a b k, Disjoint b ->
    (entries (set_merge a b) !! k, dead (set_merge a b) !! k) =
    merge_key (versions a) (versions b) (entries a !! k) (dead a !! k) (entries b !! k) (dead b !! k).
Proof. exact merge_lookup. Qed.

(** Outside both premises commutativity fails: [b] has heard node 1 more than a forgiveness
    period after [a]'s only entry, on every source. *)
Theorem C03_outside_premises_not_commutative :
  let t1 := mk_ts 10000000 0 1 in
  let t2 := mk_ts 12000000 0 1 in
  let a := run_ops false (empty_set 1) [OIns 0 1 t1] in
  let b := run_ops false (empty_set 1) [OIns 0 2 t2] in
  set_get (set_merge a b) 1 = None /\ set_get (set_merge b a) 1 = Some t1.
Proof. vm_compute. split; reflexivity. Qed.

(** Non-vacuity: three replicas of one history (a same-instant tie of two origins, a delete,
    operations through both sources) satisfy the premises; the merged results agree. *)
Example C03_nonvacuous :
  let t1 := mk_ts 50000000 0 1 in
  let t2 := mk_ts 50000000 0 2 in
  let t3 := mk_ts 50000009 1 1 in
  let H := [(1, t1, false); (1, t2, true); (2, t3, false)] in
  let a := run_ops false (empty_set 2) [OIns 0 1 t1] in
  let b := run_ops false (empty_set 2) [ODel 1 1 t2; OIns 0 2 t3] in
  let c := run_ops false (empty_set 2) [OIns 1 2 t3; OIns 1 1 t1] in
  Forall (fun o => (op_key o, op_ts o, op_del o) ∈ H) [ODel 1 1 t2; OIns 0 2 t3; OIns 1 2 t3; OIns 1 1 t1] /\
  entries_list (set_merge (set_merge a b) c) = [(2, t3)] /\
  entries_list (set_merge a (set_merge b c)) = [(2, t3)] /\
  dead_list (set_merge c (set_merge b a)) = [(1, t2)].
Proof.
  cbv zeta. split; [repeat constructor; set_solver|]. vm_compute. repeat split; reflexivity.
Qed.
