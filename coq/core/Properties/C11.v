(** * C11 — Node clock serialises concurrent callers: no duplicate or regressing stamps

    The node clock ([datacake_node::Clock]) is one task owning an [HLCTimestamp], fed by a
    channel: whatever the interleaving of the callers, the task sees ONE queue of
    requests — any merge of the per-task sequences that preserves each task's order.
    The theorems quantify over every such queue and every wall-clock reading sequence.
    Only the property theorems (closed by [exact] of lemmas of [HlcProofs.v]). *)

From Coq Require Import NArith List Bool.
From DC Require Import Ts Hlc HlcProofs.
Import ListNotations.
Open Scope N_scope.

(** Every stamp handed out is greater than the clock's starting value, than every stamp
    handed out earlier (to ANY task) and hence pairwise distinct; in particular each
    task's own results strictly increase, since its requests are queued in its order. *)
Theorem C11_replies_strictly_increase :
  forall q c,
    valid_ts c = true -> Forall req_ok q ->
    forall l1 task t l2,
      clock_replies (clock_run c q) = l1 ++ (task, t) :: l2 ->
      (c <? t) = true /\ forall task' u, In (task', u) l1 -> (u <? t) = true.
Proof. exact clock_run_increasing. Qed.

(** A request queued after a remote stamp was registered (and accepted: not beyond the
    allowed drift, not from the same node) returns a stamp greater than that remote stamp. *)
Theorem C11_get_after_register_is_greater :
  forall c w r q task t l1 l2 c1 t0,
    valid_ts c = true -> w <= WALL_MAX -> valid_ts r = true -> Forall req_ok q ->
    recv w c r = (HOk t0, c1) ->
    clock_replies (clock_run c (CRegister w r :: q)) = l1 ++ (task, t) :: l2 ->
    (r <? t) = true.
Proof. exact clock_get_after_register. Qed.

(** The actor task dies (its [expect] panics) exactly when [send] fails: the logical clock
    is more than the permitted drift ahead of the wall clock, or the counter is exhausted
    while the wall clock has not passed the logical time.  Characterised, not assumed away. *)
Theorem C11_actor_dies_exactly_when :
  forall c task w q,
    clock_run c (CGet task w :: q) = [CPanic] <->
    (DRIFT < ts_tick c - w \/ (w <= ts_tick c /\ ts_counter c = 65535)).
Proof. exact clock_get_panics_iff. Qed.

(** Non-vacuity: three tasks, a stalled wall clock, a registered remote stamp from the
    future and one beyond the drift (ignored). *)
Example C11_nonvacuous :
  let c0 := mk_ts 2000000 0 1 in
  let far := mk_ts 9000000 0 2 in
  let near := mk_ts 2000500 7 2 in
  let q := [CGet 0 2000000; CGet 1 2000000; CRegister 2000000 far; CGet 2 2000000;
            CRegister 2000000 near; CGet 0 2000000; CGet 1 1999000] in
  valid_ts c0 = true /\ Forall req_ok q /\
  clock_replies (clock_run c0 q) =
    [(0, mk_ts 2000000 1 1); (1, mk_ts 2000000 2 1); (2, mk_ts 2000000 3 1);
     (0, mk_ts 2000500 9 1); (1, mk_ts 2000500 10 1)].
Proof.
  cbv zeta. split; [vm_compute; reflexivity|]. split.
  - repeat constructor; vm_compute; congruence.
  - vm_compute. reflexivity.
Qed.
