(** * C02 — On each node the replicated metadata and the persisted store never disagree

    Only the property theorems (closed by [exact] of lemmas of [ActorProofs.v]).
    [Agree s st]: for every id, what the set holds (live at t / tombstone at t / nothing)
    is what the store's metadata holds.  The storage outcome of every request (success,
    failure without a write, partial failure of a bulk call that wrote an arbitrary
    sub-sequence and reports exactly those ids) is universally quantified. *)

From stdpp Require Import gmap list.
From Coq Require Import NArith.
From DC Require Import Ts Orswot OrswotInv OrswotLww Actor ActorProofs.
Open Scope N_scope.

(** One request, any kind, any source, any stamps, any storage outcome. *)
Theorem C02_every_request_preserves_agreement :
  forall x r o,
    AInv x -> req_ok (NSRC x.1) r ->
    AInv (actor_step false true x r o).1 /\ NSRC (actor_step false true x r o).1.1 = NSRC x.1.
Proof. exact actor_step_agree. Qed.

(** After every prefix of every request sequence with every sequence of outcomes. *)
Theorem C02_agreement_after_any_history :
  forall rs x,
    AInv x -> Forall (fun ro => req_ok (NSRC x.1) ro.1) rs ->
    AInv (actor_run false true x rs) /\ NSRC (actor_run false true x rs).1 = NSRC x.1.
Proof. exact actor_run_agree. Qed.

Theorem C02_initial_state_agrees :
  forall nsrc, (nsrc > 0)%nat -> AInv (empty_set nsrc, ∅).
Proof. exact AInv_empty. Qed.

(** A mutation is applied to both or to neither: the single-request handlers. *)
Theorem C02_single_put_both_or_neither :
  forall s st src d o,
    AInv (s, st) -> req_ok (NSRC s) (RSet src d) ->
    let r := on_set false s st src d o in
    AInv r.1 /\ NSRC r.1.1 = NSRC s.
Proof. exact on_set_agree. Qed.

(** For a bulk call that fails part-way exactly the documents storage reports as written
    become visible in the set (the general bulk lemma the two bulk handlers instantiate). *)
Theorem C02_partial_bulk_failure_exact :
  forall s st src ds o,
    AInv (s, st) -> req_ok (NSRC s) (RMultiSet src ds) ->
    let r := on_multi_set false true s st src ds o in
    AInv r.1 /\ NSRC r.1.1 = NSRC s.
Proof. exact on_multi_set_agree. Qed.

Theorem C02_partial_bulk_delete_exact :
  forall s st src ms o,
    AInv (s, st) -> req_ok (NSRC s) (RMultiDel src ms) ->
    let r := on_multi_del false true s st src ms o in
    AInv r.1 /\ NSRC r.1.1 = NSRC s.
Proof. exact on_multi_del_agree. Qed.

(** Purge: what could not be removed from storage is re-added to the set. *)
Theorem C02_purge_keeps_agreement :
  forall s st o,
    AInv (s, st) ->
    let r := on_purge s st o in
    AInv r.1 /\ NSRC r.1.1 = NSRC s.
Proof. exact on_purge_agree. Qed.

(** Before the repairs the agreement broke (defects D1 and D2, now fixed). *)
Theorem C02_legacy_refuted :
  let t1 := mk_ts 80000000 0 1 in
  let t2 := mk_ts 80000002 0 1 in
  (* D1: a removal, then an older put of the same origin on the same source: storage gets
     the document, the set refuses it *)
  let x1 := actor_run true true (empty_set 2, ∅)
              [(RDel 1 (mkMeta 1 t2), SOk); (RSet 1 (mkDoc 2 t1 7), SOk)] in
  (view x1.1 2 = None /\ meta x1.2 2 = Some (t1, false)) /\
  (* D2: one bulk request carrying the same id twice, newest first: storage keeps the last
     written (older) document, the set the newest stamp *)
  let x2 := actor_run false false (empty_set 2, ∅)
              [(RMultiSet 0 [mkDoc 1 t2 8; mkDoc 1 t1 9], SOk)] in
  (view x2.1 1 = Some (t2, false) /\ meta x2.2 1 = Some (t1, false)) /\
  (* the repaired handlers on the same inputs *)
  let y1 := actor_run false true (empty_set 2, ∅)
              [(RDel 1 (mkMeta 1 t2), SOk); (RSet 1 (mkDoc 2 t1 7), SOk)] in
  let y2 := actor_run false true (empty_set 2, ∅)
              [(RMultiSet 0 [mkDoc 1 t2 8; mkDoc 1 t1 9], SOk)] in
  view y1.1 2 = meta y1.2 2 /\ view y2.1 1 = meta y2.2 1 /\ meta y2.2 1 = Some (t2, false).
Proof. vm_compute. repeat split; reflexivity. Qed.

(** Non-vacuity: a history with a partial bulk failure, a duplicate id, a failing purge
    and a refused old operation satisfies the request premises. *)
Example C02_nonvacuous :
  let t1 := mk_ts 80000000 0 1 in
  let t2 := mk_ts 80000002 0 1 in
  let t3 := mk_ts 81000000 0 1 in
  let rs := [(RMultiSet 0 [mkDoc 1 t2 8; mkDoc 1 t1 9; mkDoc 2 t1 5], SPartial [false; true]);
             (RDel 1 (mkMeta 2 t2), SOk); (RSet 0 (mkDoc 3 t3 1), SOk); (RSet 1 (mkDoc 4 t3 1), SOk);
             (RPurge, SPartial [false]); (RSet 0 (mkDoc 5 t1 2), SOk)] in
  Forall (fun ro => req_ok 2 ro.1) rs /\
  let x := actor_run false true (empty_set 2, ∅) rs in
  entries_list x.1 = [(3, t3); (4, t3)] /\ dead_list x.1 = [(2, t2)] /\
  meta x.2 2 = Some (t2, true) /\ meta x.2 1 = None /\ meta x.2 5 = None.
Proof.
  cbv zeta. split.
  - repeat constructor; vm_compute; reflexivity.
  - vm_compute. repeat split; reflexivity.
Qed.
