(** * C10 — Timestamp encoding is lossless and order-preserving; parsing never panics

    This file contains only the property theorems (each closed by [exact] of a lemma
    proved in [TsProofs.v]), their assumption audit, and non-vacuity examples. *)

From Coq Require Import NArith String List.
From DC Require Import Ts TsProofs.
Open Scope string_scope.
Open Scope N_scope.

(** For every valid (seconds, fraction, counter, node): the packed word is below 2^64,
    is the arithmetic word, and every accessor returns the field that was packed. *)
Theorem C10_pack_accessors_roundtrip :
  forall sec frac cnt node,
    sec <= TS_MAX -> frac <= 255 -> cnt <= 65535 -> node <= 255 ->
    let t := pack sec frac cnt node in
    ts_seconds t = sec /\ ts_fractional t = frac /\ ts_counter t = cnt /\ ts_node t = node.
Proof. exact accessors_pack. Qed.

Theorem C10_pack_is_arith :
  forall sec frac cnt node,
    sec <= TS_MAX -> frac <= 255 -> cnt <= 65535 -> node <= 255 ->
    pack sec frac cnt node = pack_arith sec frac cnt node.
Proof. exact pack_arith_eq. Qed.

(** [from_u64 (as_u64 t)] and re-packing the accessors give back the word. *)
Theorem C10_unpack_pack :
  forall t, t < TWO64 ->
    pack (ts_seconds t) (ts_fractional t) (ts_counter t) (ts_node t) = t.
Proof. exact pack_accessors. Qed.

(** Comparing packed words agrees with comparing (time at 4 ms, counter, node). *)
Theorem C10_order_is_lexicographic :
  forall s1 f1 c1 n1 s2 f2 c2 n2,
    s1 <= TS_MAX -> f1 <= 249 -> c1 <= 65535 -> n1 <= 255 ->
    s2 <= TS_MAX -> f2 <= 249 -> c2 <= 65535 -> n2 <= 255 ->
    (pack s1 f1 c1 n1 <? pack s2 f2 c2 n2) =
    lex_lt (s1 * 250 + f1, c1, n1) (s2 * 250 + f2, c2, n2).
Proof. exact pack_order. Qed.

Theorem C10_order_through_accessors :
  forall t u, valid_ts t = true -> valid_ts u = true ->
    (t <? u) = lex_lt (ts_tick t, ts_counter t, ts_node t) (ts_tick u, ts_counter u, ts_node u).
Proof. exact ts_order. Qed.

(** The archived (8 little-endian bytes) form round-trips. *)
Theorem C10_archive_roundtrip :
  forall t, t < TWO64 -> of_le8 (to_le8 t) = Some t.
Proof. exact le8_roundtrip. Qed.

(** Printing then parsing is the identity on valid timestamps. *)
Theorem C10_parse_show :
  forall t, valid_ts t = true -> parse (show t) = Ok t.
Proof. exact parse_show. Qed.

(** Parsing arbitrary text never panics, and whatever it returns is valid. *)
Theorem C10_parse_never_panics : forall s : string, parse s <> Panic.
Proof. exact parse_never_panics. Qed.

Theorem C10_parse_ok_valid : forall s t, parse s = Ok t -> valid_ts t = true.
Proof. exact parse_ok_valid. Qed.

(** The parser as it stood before the repair does panic (defect D3, now fixed). *)
Theorem C10_legacy_parse_refuted :
  legacy_parse "4294967296-0000-0000-0000" = Panic /\
  legacy_parse "18446744073709551615-255-0-0" = Panic.
Proof. exact legacy_parse_panics. Qed.

(** Non-vacuity: a concrete non-trivial stamp meets the hypotheses. *)
Example C10_nonvacuous :
  let t := pack 123456789 249 65535 255 in
  valid_ts t = true /\ t < TWO64 /\ show t = "123456789-0249-FFFF-0255" /\ parse (show t) = Ok t.
Proof. vm_compute. repeat split; reflexivity. Qed.
