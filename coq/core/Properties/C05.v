(** * C05 — The computed difference is exactly what a replica lacks; one exchange repairs

    Only the property theorems (closed by [exact] of lemmas of [OrswotDiff.v]). *)

From stdpp Require Import gmap list.
From Coq Require Import NArith.
From DC Require Import Ts Orswot OrswotInv OrswotLww OrswotTimely OrswotPurge OrswotDiff.
Open Scope N_scope.

(** What a replica wants from a peer's entry: the peer's stamp is strictly newer than what
    the replica holds for the key, or the replica holds nothing for it and the stamp is
    not older than the replica's cut-off for its origin. *)
Theorem C05_wants_spec :
  forall a k t,
    diff_wants a k t =
    match view a k with
    | Some (u, _) => u <? t
    | None => negb (before (versions a) t)
    end.
Proof. exact diff_wants_spec. Qed.

(** The difference lists a key exactly when the peer holds it and the replica wants it;
    it carries the peer's stamp and is a modification if the peer has the key live, a
    removal if tombstoned. *)
Theorem C05_diff_is_exact :
  forall a b k t,
    Disjoint b ->
    ((k, t) ∈ (set_diff a b).1 <-> view b k = Some (t, false) /\ diff_wants a k t = true) /\
    ((k, t) ∈ (set_diff a b).2 <-> view b k = Some (t, true) /\ diff_wants a k t = true).
Proof. exact diff_exact. Qed.

(** Applying the difference — any split into batches, any interleaving, any sources —
    leaves nothing further to fetch from that peer, provided every listed operation is
    accepted at its arrival (which holds within one forgiveness period, C04). *)
Theorem C05_one_exchange_repairs :
  forall a b rep,
    Inv a -> Inv b -> ViewOk b ->
    repairs_diff a b rep ->
    all_accepted false a rep = true ->
    set_diff (run_ops false a rep) b = ([], []).
Proof. exact repair_empties_diff. Qed.

(** The two lists the implementation turns into a MultiDel and a MultiSet on the
    read-repair source, in either order, are such an arrangement. *)
Theorem C05_both_batch_orders_are_arrangements :
  forall src a b removals_first,
    Disjoint b -> repairs_diff a b (diff_ops src a b removals_first).
Proof. exact diff_ops_repairs. Qed.

(** Two replicas that each apply their difference against the other expose identical
    views, provided nothing either holds is older than the other's cut-off. *)
Theorem C05_mutual_repair_agrees :
  forall a b rep_a rep_b k,
    Inv a -> Inv b -> ViewOk a -> ViewOk b ->
    repairs_diff a b rep_a -> all_accepted false a rep_a = true ->
    repairs_diff b a rep_b -> all_accepted false b rep_b = true ->
    (forall t d, view b k = Some (t, d) -> before (versions a) t = false) ->
    (forall t d, view a k = Some (t, d) -> before (versions b) t = false) ->
    same_history_at a b k ->
    view (run_ops false a rep_a) k = view (run_ops false b rep_b) k.
Proof. exact mutual_repair_agrees. Qed.

(** With the acceptance rule before the repair of D1 an exchange did not repair: the
    origin put k1@t1, put k2@t2, deleted k1@t3; a replica that applies the removal batch
    first then drops the older put k2@t2 and keeps asking for it. *)
Theorem C05_legacy_repair_refuted :
  let t1 := mk_ts 50000000 0 1 in
  let t2 := mk_ts 50000001 0 1 in
  let t3 := mk_ts 50000002 0 1 in
  let b := run_ops false (empty_set 2) [OIns 0 1 t1; OIns 0 2 t2; ODel 0 1 t3] in
  let a := empty_set 2 in
  let rep := diff_ops 1 a b true in
  rep = [ODel 1 1 t3; OIns 1 2 t2] /\
  set_diff (run_ops true a rep) b = ([(2, t2)], []) /\
  set_diff (run_ops false a rep) b = ([], []).
Proof. vm_compute. repeat split; reflexivity. Qed.

(** Non-vacuity: concrete replicas meeting every hypothesis of the repair theorems. *)
Example C05_nonvacuous :
  let t1 := mk_ts 50000000 0 1 in
  let t2 := mk_ts 50000001 0 1 in
  let t3 := mk_ts 50000002 0 2 in
  let t4 := mk_ts 50000003 0 2 in
  let a := run_ops false (empty_set 2) [OIns 0 1 t1; OIns 0 3 t3] in
  let b := run_ops false (empty_set 2) [OIns 0 1 t1; ODel 0 1 t2; OIns 0 2 t4] in
  set_diff a b = ([(2, t4)], [(1, t2)]) /\
  all_accepted false a (diff_ops 1 a b true) = true /\
  all_accepted false a (diff_ops 1 a b false) = true /\
  set_diff (run_ops false a (diff_ops 1 a b false)) b = ([], []) /\
  entries_list (run_ops false a (diff_ops 1 a b true)) = [(3, t3); (2, t4)].
Proof. vm_compute. repeat split; reflexivity. Qed.
