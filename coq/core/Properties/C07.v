(** * C07 — A restarted node rebuilds exactly what storage holds; acked writes survive

    Only the property theorems (closed by [exact] of lemmas of [ActorProofs.v]). *)

From stdpp Require Import gmap list.
From Coq Require Import NArith.
From DC Require Import Ts Orswot OrswotInv OrswotLww Actor ActorProofs.
Open Scope N_scope.

(** For EVERY store with valid stamps (reachable or not): the set rebuilt by replaying the
    metadata in stamp order contains exactly the live ids and tombstones, with the same
    stamps, that the store holds — and satisfies the set invariant. *)
Theorem C07_rebuild_is_exact :
  forall nsrc st k,
    (nsrc > 0)%nat -> StoreValid st ->
    Inv (rebuild nsrc st) /\ view (rebuild nsrc st) k = meta st k.
Proof. exact rebuild_view. Qed.

(** Stop between requests: after every request history (any outcomes), the rebuilt set
    shows what the store holds and what the running set showed; so every mutation that
    was visible before the stop is visible after the restart. *)
Theorem C07_restart_after_any_history :
  forall nsrc rs k,
    (nsrc > 0)%nat ->
    Forall (fun ro => req_ok nsrc ro.1) rs ->
    let x := actor_run false true (empty_set nsrc, ∅) rs in
    Inv (rebuild nsrc x.2) /\
    view (rebuild nsrc x.2) k = meta x.2 k /\
    view (rebuild nsrc x.2) k = view x.1 k.
Proof. exact restart_after_history. Qed.

(** Stop in the middle of a request, between its storage write and the in-memory update:
    whatever the store holds at that moment (any outcome of the write) is what the
    restarted node shows. *)
Theorem C07_restart_mid_request :
  forall nsrc rs r o k,
    (nsrc > 0)%nat ->
    Forall (fun ro => doc_ts_ok ro.1) rs -> doc_ts_ok r ->
    let st' := (actor_step false true (actor_run false true (empty_set nsrc, ∅) rs) r o).1.2 in
    view (rebuild nsrc st') k = meta st' k.
Proof. exact restart_mid_request. Qed.

(** The restarted node satisfies the hypotheses of the convergence theorems: set invariant
    and agreement with its store. *)
Theorem C07_restarted_node_is_consistent :
  forall nsrc st,
    (nsrc > 0)%nat -> StoreValid st -> AInv (rebuild nsrc st, st).
Proof.
  intros nsrc st Hn Hs. split; cbn [fst snd].
  - exact (proj1 (rebuild_view nsrc st 0 Hn Hs)).
  - intros k. exact (proj2 (rebuild_view nsrc st k Hn Hs)).
Qed.

(** Non-vacuity: a store with documents and tombstones from two origins. *)
Example C07_nonvacuous :
  let t1 := mk_ts 80000000 0 1 in
  let t2 := mk_ts 80000002 0 2 in
  let t3 := mk_ts 90000000 3 1 in
  let st : gmap N (N * option N) := st_tomb (st_put (st_put ∅ 1 t1 7) 2 t3 8) 3 t2 in
  StoreValid st /\
  entries_list (rebuild 2 st) = [(1, t1); (2, t3)] /\ dead_list (rebuild 2 st) = [(3, t2)].
Proof.
  cbv zeta. split.
  - intros k t p H. unfold st_tomb, st_put in H.
    repeat (apply lookup_insert_Some in H as [[_ H]|[_ H]]; [injection H as <- _; vm_compute; reflexivity|]).
    rewrite lookup_empty in H. discriminate.
  - vm_compute. split; reflexivity.
Qed.
