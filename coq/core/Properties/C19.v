(** * C19 — A peer receives the sender's keyspace state unchanged

    Level "other": the claim that matters lives in a byte format the model does not contain
    (rkyv's layout, alignment of the nested slice); here the codec is a pair of section
    variables with the round-trip law as a hypothesis, validated on the real code by the
    executor for states of many sizes and shapes.  What is proved is what follows from that
    law.  Only the property theorems (closed by [exact] of lemmas of [Transfer.v]). *)

From stdpp Require Import gmap list.
From Coq Require Import NArith.
From DC Require Import Ts Orswot Transfer.
Open Scope N_scope.

Theorem C19_received_state_is_the_sent_state :
  forall (encode : oset -> list N) (decode : list N -> option oset),
    (forall s, decode (encode s) = Some s) ->
    forall s, get_state_checked decode (encode s) = TOk s /\ get_state_unchecked decode (encode s) = TOk s.
Proof. exact transfer_exact. Qed.

Theorem C19_observably_identical :
  forall (encode : oset -> list N) (decode : list N -> option oset),
    (forall s, decode (encode s) = Some s) ->
    forall s r,
      get_state_checked decode (encode s) = TOk r ->
      (forall k, set_get r k = set_get s k) /\
      (forall k, view r k = view s k) /\
      (forall k t, will_apply r k t = will_apply s k t) /\
      (forall x, set_diff x r = set_diff x s) /\ (forall x, set_diff r x = set_diff s x) /\
      (forall src k t, insert_ws false r src k t = insert_ws false s src k t) /\
      (forall src k t, delete_ws false r src k t = delete_ws false s src k t) /\
      set_purge r = set_purge s /\ (forall x, set_merge x r = set_merge x s).
Proof. exact transfer_observably_identical. Qed.

(** Sets are determined by their contents (no dependence on construction or iteration order). *)
Theorem C19_sets_are_their_contents :
  forall a b : oset,
    (forall k, entries a !! k = entries b !! k) -> (forall k, dead a !! k = dead b !! k) ->
    maxs (versions a) = maxs (versions b) ->
    (forall n, safe (versions a) !! n = safe (versions b) !! n) -> a = b.
Proof. exact oset_ext. Qed.

(** A state that cannot be decoded is an error for a checking client, and undefined
    behaviour for the unchecked cast (defect D13). *)
Theorem C19_undecodable_state :
  forall (decode : list N -> option oset) bytes,
    decode bytes = None ->
    get_state_checked decode bytes = TErr /\ get_state_unchecked decode bytes = TUndefined.
Proof. intros decode bytes H. split; [apply undecodable_is_error|apply unchecked_is_undefined]; exact H. Qed.

(** The client before the repair of D13 (the nested bytes cast unchecked): whatever the
    codec, undecodable bytes are *used* - undefined behaviour, observed on the real code as a
    panic inside rkyv or a segmentation fault (corpus/C19) - instead of reported. *)
Theorem C19_legacy_unchecked_refuted :
  forall (decode : list N -> option oset) bytes,
    decode bytes = None ->
    get_state_unchecked decode bytes = TUndefined /\ get_state_unchecked decode bytes <> TErr.
Proof. intros decode bytes Hd. rewrite (unchecked_is_undefined decode bytes Hd). split; [reflexivity|discriminate]. Qed.

(** Non-vacuity: a codec satisfying the round-trip law exists (through the countable
    encoding of the four maps). *)
Definition to_tuple (s : oset) := (entries s, dead s, (maxs (versions s), safe (versions s))).
Definition of_tuple (x : gmap N N * gmap N N * (list (gmap N N) * gmap N N)) : oset :=
  mkSet x.1.1 x.1.2 (mkVers x.2.1 x.2.2).

Example C19_nonvacuous :
  exists (enc : oset -> list N) (dec : list N -> option oset), forall s, dec (enc s) = Some s.
Proof.
  exists (fun s => [Npos (encode (to_tuple s))]).
  exists (fun l => match l with [Npos p] => of_tuple <$> decode p | _ => None end).
  intros s. rewrite decode_encode. destruct s as [e d [m sf]]. reflexivity.
Qed.
