(** * C08 — Purging tombstones is invisible and deletes stay deleted

    Only the property theorems (closed by [exact] of lemmas of [OrswotPurge.v]). *)

From stdpp Require Import gmap list.
From Coq Require Import NArith.
From DC Require Import Ts Orswot OrswotInv OrswotLww OrswotTimely OrswotPurge OrswotMerge OrswotMergeCut.
Open Scope N_scope.

(** A purge never changes the live entries or the versions... *)
Theorem C08_purge_keeps_live_entries :
  forall s, entries (set_purge s).2 = entries s /\ versions (set_purge s).2 = versions s.
Proof. intros s. split; reflexivity. Qed.

(** ... removes only tombstones, exactly those older than the cut-off of their origin,
    and keeps all the others. *)
Theorem C08_purge_removes_exactly_old_tombstones :
  forall s k d,
    ((k, d) ∈ (set_purge s).1 <-> dead s !! k = Some d /\ before (versions s) d = true) /\
    (dead (set_purge s).2 !! k = Some d <-> dead s !! k = Some d /\ before (versions s) d = false).
Proof. intros s k d. split; [apply purge_purged|apply purge_remaining]. Qed.

(** After a purge removed the delete [d], an operation from the deleting node that is not
    newer than [d] — on any key, through any source, after any further operations and
    purges — is refused and changes nothing. *)
Theorem C08_purged_delete_stays_rejected :
  forall s k d evs o,
    Inv s -> (k, d) ∈ (set_purge s).1 ->
    valid_ts d = true -> 1 <= ts_tick d ->
    Forall ev_valid evs ->
    valid_ts (op_ts o) = true -> ts_node (op_ts o) = ts_node d -> (d <? op_ts o) = false ->
    let s' := run_evs false (set_purge s).2 evs in
    (op_src o < length (maxs (versions s')))%nat ->
    (apply_op false s' o).2 = false /\
    entries (apply_op false s' o).1 = entries s' /\ dead (apply_op false s' o).1 = dead s'.
Proof. exact purged_delete_stays_rejected. Qed.

(** The same with MERGES in the replica's further life ([OrswotMergeCut.v]): whatever the replica
    does after the purge - operations, purges, merging in the state of any other replica with the
    same number of sources - an operation of the deleting node that is not newer than the purged
    delete is refused and changes nothing. *)
Theorem C08_purged_delete_stays_rejected_through_merges :
  forall s k d es o,
    Inv s -> (k, d) ∈ (set_purge s).1 ->
    valid_ts d = true -> 1 <= ts_tick d ->
    Forall (mev_valid (length (maxs (versions s)))) es ->
    valid_ts (op_ts o) = true -> ts_node (op_ts o) = ts_node d -> (d <? op_ts o) = false ->
    let s' := run_mevs (set_purge s).2 es in
    (op_src o < length (maxs (versions s)))%nat ->
    (apply_op false s' o).2 = false /\
    entries (apply_op false s' o).1 = entries s' /\ dead (apply_op false s' o).1 = dead s'.
Proof. exact purged_delete_stays_rejected_merges. Qed.

(** Merging in another replica's state never moves a cut-off backwards. *)
Theorem C08_merge_never_moves_a_cutoff_back :
  forall a b d,
    Inv a -> Inv b -> length (maxs (versions a)) = length (maxs (versions b)) ->
    valid_ts d = true -> 1 <= ts_tick d ->
    before (versions a) d = true -> before (versions (set_merge a b)) d = true.
Proof. exact merge_keeps_cutoff. Qed.

(** The cut-off never moves backwards (for stamps after the first tick of the epoch). *)
Theorem C08_cutoff_monotone :
  forall legacy evs s d,
    Inv s -> Forall ev_valid evs -> valid_ts d = true -> 1 <= ts_tick d ->
    before (versions s) d = true -> before (versions (run_evs legacy s evs)) d = true.
Proof. exact before_persist_evs. Qed.

(** Whenever every operation reaches the replica less than one forgiveness period behind
    everything it has already seen, a replica that purges at arbitrary moments answers
    every lookup exactly like one that never purges ... *)
Theorem C08_purging_is_invisible :
  forall nsrc evs k,
    (nsrc > 0)%nat ->
    Forall ev_valid evs ->
    (forall o, o ∈ ev_ops evs -> (op_src o < nsrc)%nat) ->
    timely [] (ev_ops evs) ->
    set_get (run_evs false (empty_set nsrc) evs) k =
    set_get (run_ops false (empty_set nsrc) (ev_ops evs)) k.
Proof. exact purge_invisible. Qed.

(** ... namely with the last-writer-wins result: no deleted key reappears and no live
    key is lost.  Every replica of a cluster that receives all operations timely
    therefore converges to the same live documents whether or not it purges. *)
Theorem C08_purging_replica_shows_lww :
  forall nsrc evs k,
    (nsrc > 0)%nat ->
    Forall ev_valid evs ->
    (forall o, o ∈ ev_ops evs -> (op_src o < nsrc)%nat) ->
    NoDup (stamps (ev_ops evs)) ->
    timely [] (ev_ops evs) ->
    set_get (run_evs false (empty_set nsrc) evs) k =
    match lww (ev_ops evs) k with Some (t, false) => Some t | _ => None end.
Proof. exact purge_invisible_lww. Qed.

(** Non-vacuity: an 8000 s history in which two tombstones are actually purged. *)
Example C08_nonvacuous :
  let t0 := mk_ts 1000000 0 1 in          (* put k1        *)
  let t1 := mk_ts 1000100 0 1 in          (* delete k1     *)
  let t2 := mk_ts 1000200 0 2 in          (* delete k2 (node 2) *)
  let t3 := mk_ts 1900000 0 1 in          (* 3596 s later  *)
  let t4 := mk_ts 1900050 0 2 in
  let t5 := mk_ts 2100000 0 1 in          (* another 800 s *)
  let t6 := mk_ts 2100000 0 2 in
  let evs := [EOp (OIns 0 1 t0); EOp (ODel 0 1 t1); EOp (ODel 1 2 t2); EPurge;
              EOp (OIns 0 3 t3); EOp (OIns 1 3 t3); EOp (OIns 0 4 t4); EOp (OIns 1 4 t4);
              EOp (OIns 0 5 t5); EOp (OIns 1 5 t5); EOp (OIns 0 6 t6); EOp (OIns 1 6 t6); EPurge] in
  Forall ev_valid evs /\ timely [] (ev_ops [EOp (OIns 0 1 t0); EOp (ODel 0 1 t1); EOp (ODel 1 2 t2);
              EOp (OIns 0 3 t3); EOp (OIns 0 4 t4); EOp (OIns 0 5 t5); EOp (OIns 0 6 t6)]) /\
  dead_list (run_evs false (empty_set 2) evs) = [] /\
  (set_purge (run_ops false (empty_set 2) (ev_ops evs))).1 = [(1, t1); (2, t2)].
Proof.
  cbv zeta. split; [repeat constructor|]. split.
  - apply timely_b_sound. vm_compute. reflexivity.
  - split; vm_compute; reflexivity.
Qed.

(** Non-vacuity with a merge: node 1's delete of key 1 is purged on replica [a]; a stale replica
    [b] that has seen only an early stamp of node 1 is merged in; the purged delete itself and an
    older insert of node 1 are still refused as OPERATIONS.  (What the merge itself takes over from
    a replica that lags by more than the forgiveness period is outside C08's premise: [merge]
    checks the cut-off for the other side's tombstones only - C03/C05 are about that.) *)
Example C08_nonvacuous_merge :
  let t0 := mk_ts 1000000 0 1 in          (* node 1 puts key 1      *)
  let t1 := mk_ts 1000100 0 1 in          (* node 1 deletes key 1   *)
  let t3 := mk_ts 2000000 0 1 in          (* node 1, 4000 s later   *)
  let a := run_ops false (empty_set 2)
             [OIns 0 1 t0; ODel 0 1 t1; OIns 0 7 t3; OIns 1 7 t3] in
  let b := run_ops false (empty_set 2) [OIns 0 1 t0; OIns 1 1 t0] in
  let s' := run_mevs (set_purge a).2 [MMerge b] in
  (set_purge a).1 = [(1, t1)] /\
  (apply_op false s' (ODel 0 1 t1)).2 = false /\
  (apply_op false s' (OIns 1 1 t0)).2 = false.
Proof. vm_compute. repeat split; reflexivity. Qed.
