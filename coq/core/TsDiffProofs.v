(** * TsDiffProofs: [ts_diff] lists exactly the keyspaces whose recorded and reported change
      stamps differ (one side missing counts as different). *)

From stdpp Require Import gmap list.
From Coq Require Import NArith Lia.
From DC Require Import TsDiff.
Open Scope N_scope.

Lemma visit_other p kv k : kv.1 <> k -> visit p kv !! k = p !! k.
Proof.
  intros Hne. unfold visit. destruct (p !! kv.1) as [[[v c] d]|];
    rewrite lookup_insert_ne by exact Hne; reflexivity.
Qed.

Lemma visit_same p k w :
  visit p (k, w) !! k =
  Some (match p !! k with
        | Some (v, c, d) => (v, S c, if N.eqb v w then d else true)
        | None => (w, 1%nat, false)
        end).
Proof.
  unfold visit. cbn [fst snd]. destruct (p !! k) as [[[v c] d]|]; rewrite lookup_insert; reflexivity.
Qed.

Lemma foldl_visit_notin (l : list (N * N)) : forall p k,
  k ∉ l.*1 -> foldl visit p l !! k = p !! k.
Proof.
  induction l as [|kv l IH]; intros p k Hn; cbn [foldl]; [reflexivity|].
  cbn in Hn. apply not_elem_of_cons in Hn. destruct Hn as [Hne Hn].
  rewrite IH by exact Hn. apply visit_other. congruence.
Qed.

Lemma foldl_visit_in (l : list (N * N)) : forall p k w,
  NoDup l.*1 -> (k, w) ∈ l -> foldl visit p l !! k = visit p (k, w) !! k.
Proof.
  induction l as [|kv l IH]; intros p k w Hnd Hin; cbn [foldl].
  - apply elem_of_nil in Hin. destruct Hin.
  - cbn in Hnd. apply NoDup_cons in Hnd. destruct Hnd as [Hnotin Hnd].
    apply elem_of_cons in Hin. destruct Hin as [<-|Hin].
    + cbn [fst] in Hnotin. apply foldl_visit_notin. exact Hnotin.
    + assert (Hne : kv.1 <> k).
      { intros E. apply Hnotin. apply elem_of_list_fmap. exists (k, w). split; [cbn; exact E|exact Hin]. }
      rewrite (IH _ k w Hnd Hin). rewrite !visit_same. rewrite visit_other by exact Hne. reflexivity.
Qed.

Lemma foldl_visit_map (m : gmap N N) p k :
  foldl visit p (map_to_list m) !! k =
  match m !! k with
  | Some w => visit p (k, w) !! k
  | None => p !! k
  end.
Proof.
  destruct (m !! k) as [w|] eqn:E.
  - apply foldl_visit_in.
    + apply NoDup_fst_map_to_list.
    + apply elem_of_map_to_list. exact E.
  - apply foldl_visit_notin. intros Hin. apply elem_of_list_fmap in Hin.
    destruct Hin as ([k' w] & -> & Hin). apply elem_of_map_to_list in Hin. cbn in E. congruence.
Qed.

Lemma processed_lookup mine other k :
  processed mine other !! k =
  match mine !! k, other !! k with
  | Some v, Some w => Some (v, 2%nat, if N.eqb v w then false else true)
  | Some v, None => Some (v, 1%nat, false)
  | None, Some w => Some (w, 1%nat, false)
  | None, None => None
  end.
Proof.
  unfold processed. rewrite foldl_visit_map.
  destruct (other !! k) as [w|] eqn:Eo.
  - rewrite visit_same, foldl_visit_map.
    destruct (mine !! k) as [v|] eqn:Em.
    + rewrite visit_same, lookup_empty. reflexivity.
    + rewrite lookup_empty. reflexivity.
  - rewrite foldl_visit_map.
    destruct (mine !! k) as [v|] eqn:Em.
    + rewrite visit_same, lookup_empty. reflexivity.
    + apply lookup_empty.
Qed.

(** A keyspace is synchronised exactly when the stamp recorded for it differs from the stamp the
    peer reports - a keyspace known to one side only differs. *)
Lemma ts_diff_spec mine other k :
  k ∈ ts_diff mine other <-> mine !! k <> other !! k.
Proof.
  unfold ts_diff. rewrite elem_of_list_fmap. split.
  - intros ([k' e] & -> & Hin). apply elem_of_list_filter in Hin. destruct Hin as [Hl Hin].
    apply elem_of_map_to_list in Hin. cbn [fst]. rewrite processed_lookup in Hin.
    destruct (mine !! k') as [v|], (other !! k') as [w|]; try discriminate.
    + injection Hin as <-. unfold listed in Hl. cbn in Hl.
      destruct (N.eqb_spec v w) as [->|Hne]; [discriminate|]. congruence.
  - intros Hne.
    pose proof (processed_lookup mine other k) as Hp.
    destruct (mine !! k) as [v|] eqn:Em, (other !! k) as [w|] eqn:Eo.
    + exists (k, (v, 2%nat, if N.eqb v w then false else true)). split; [reflexivity|].
      apply elem_of_list_filter. split; [|apply elem_of_map_to_list; exact Hp].
      unfold listed. cbn. destruct (N.eqb_spec v w) as [->|_]; [congruence|reflexivity].
    + exists (k, (v, 1%nat, false)). split; [reflexivity|].
      apply elem_of_list_filter. split; [reflexivity|apply elem_of_map_to_list; exact Hp].
    + exists (k, (w, 1%nat, false)). split; [reflexivity|].
      apply elem_of_list_filter. split; [reflexivity|apply elem_of_map_to_list; exact Hp].
    + congruence.
Qed.

(** A keyspace is skipped exactly when both sides have it with the same stamp, or neither has it. *)
Lemma ts_diff_skips mine other k :
  k ∉ ts_diff mine other <-> mine !! k = other !! k.
Proof.
  rewrite ts_diff_spec. split.
  - intros Hnn. destruct (decide (mine !! k = other !! k)) as [E|Hne]; [exact E|contradiction].
  - intros E Hne. contradiction.
Qed.

Lemma ts_diff_nodup mine other : NoDup (ts_diff mine other).
Proof.
  unfold ts_diff. apply NoDup_fmap_fst.
  - intros k e1 e2 H1 H2. apply elem_of_list_filter in H1. apply elem_of_list_filter in H2.
    destruct H1 as [_ H1]. destruct H2 as [_ H2].
    apply elem_of_map_to_list in H1. apply elem_of_map_to_list in H2. congruence.
  - apply NoDup_filter. apply NoDup_map_to_list.
Qed.
