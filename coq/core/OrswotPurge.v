(** * OrswotPurge: purging tombstones is invisible and deletes stay deleted (C08) *)

From stdpp Require Import gmap list.
From Coq Require Import NArith Lia ZArith.
From Coq Require Import ZifyBool ZifyN ZifyNat.
From DC Require Import Ts TsProofs Hlc HlcProofs Orswot OrswotInv OrswotLww OrswotTimely.
Open Scope N_scope.

(** ** Local facts about one purge *)

Lemma purge_entries s : entries (set_purge s).2 = entries s.
Proof. reflexivity. Qed.

Lemma purge_versions s : versions (set_purge s).2 = versions s.
Proof. reflexivity. Qed.

Lemma purge_purged s k d :
  (k, d) ∈ (set_purge s).1 <-> dead s !! k = Some d /\ before (versions s) d = true.
Proof.
  unfold set_purge. cbn [fst]. rewrite elem_of_list_filter, elem_of_map_to_list. cbn. tauto.
Qed.

Lemma purge_remaining s k d :
  dead (set_purge s).2 !! k = Some d <-> dead s !! k = Some d /\ before (versions s) d = false.
Proof.
  unfold set_purge. cbn [snd dead]. rewrite map_filter_lookup_Some. cbn. tauto.
Qed.

Lemma purge_Inv s : Inv s -> Inv (set_purge s).2.
Proof.
  intros [Hd HV]. split; [|exact HV]. intros k. destruct (Hd k) as [H|H]; [left; exact H|].
  right. cbn. apply map_filter_lookup_None. left. exact H.
Qed.

(** A purge never changes the view of a live key, and can only turn a tombstone view
    into "nothing". *)
Lemma purge_view s k :
  view (set_purge s).2 k = view s k \/
  (exists d, view s k = Some (d, true) /\ before (versions s) d = true /\
             view (set_purge s).2 k = None).
Proof.
  unfold view. rewrite purge_entries. destruct (entries s !! k) as [e|]; [left; reflexivity|].
  destruct (dead s !! k) as [d|] eqn:Hd.
  - destruct (before (versions s) d) eqn:Hb.
    + right. exists d. repeat split; try assumption.
      destruct (dead (set_purge s).2 !! k) as [d'|] eqn:E; [|reflexivity].
      apply purge_remaining in E as [E1 E2]. congruence.
    + left. assert (E : dead (set_purge s).2 !! k = Some d) by (apply purge_remaining; auto).
      rewrite E. reflexivity.
  - left. destruct (dead (set_purge s).2 !! k) as [d'|] eqn:E; [|reflexivity].
    apply purge_remaining in E as [E1 _]. congruence.
Qed.

(** ** The cut-off only moves forward *)

Lemma shiftW_mono_on m m' d :
  valid_ts m = true -> valid_ts m' = true -> valid_ts d = true ->
  ts_node m = ts_node m' ->
  (m' <? m) = false -> 1 <= ts_tick d ->
  (d <? shiftW m) = true -> (d <? shiftW m') = true.
Proof.
  intros Hm Hm' Hd Hn Hle H1 Hlt.
  destruct (shiftW_fields m Hm) as (A & B & C & D).
  destruct (shiftW_fields m' Hm') as (A' & B' & C' & D').
  apply ts_lt_lex in Hlt; try assumption. apply ts_lt_lex; try assumption.
  rewrite A, B, C in Hlt. rewrite A', B', C'.
  assert (Hmm : ~ ((m' <? m) = true)) by congruence.
  rewrite (ts_lt_lex m' m Hm' Hm) in Hmm. lia.
Qed.

Lemma foldr_min_mono (f g : gmap N N -> N) ms a b :
  a <= b -> (forall m, f m <= g m) ->
  foldr (fun m' acc => N.min (f m') acc) a ms <= foldr (fun m' acc => N.min (g m') acc) b ms.
Proof.
  intros Hab Hfg. induction ms as [|m ms IH]; cbn [foldr]; [exact Hab|].
  specialize (Hfg m). lia.
Qed.

(** [try_update] never lowers any source's stamp for any origin. *)
Lemma try_update_src_stamp_mono legacy v src t n src' m m' :
  valid_ts t = true -> StampsOk v ->
  maxs v !! src' = Some m -> maxs (try_update legacy v src t).1 !! src' = Some m' ->
  src_stamp n m <= src_stamp n m'.
Proof.
  intros Hvt Hok Hl Hl'. unfold try_update in Hl'.
  destruct (maxs v !! src ≫= (fun m => m !! ts_node t)) as [e|] eqn:E.
  - destruct (t <? e) eqn:Hlt; cbn [fst] in Hl'; rewrite compute_safe_maxs in Hl'.
    + assert (m' = m) by congruence. subst. lia.
    + destruct (set_max_lookup _ _ _ _ _ Hl') as (m0 & Hl0 & ->).
      assert (m0 = m) by congruence. subst m0.
      destruct (decide (src' = src)) as [->|_]; [|lia].
      unfold src_stamp. destruct (decide (n = ts_node t)) as [->|Hne].
      * rewrite lookup_insert. rewrite Hl in E. cbn in E. rewrite E. cbn. lia.
      * rewrite lookup_insert_ne by congruence. lia.
  - cbn [fst] in Hl'. rewrite compute_safe_maxs in Hl'.
    destruct (set_max_lookup _ _ _ _ _ Hl') as (m0 & Hl0 & ->).
    assert (m0 = m) by congruence. subst m0.
    destruct (decide (src' = src)) as [->|_]; [|lia].
    unfold src_stamp. destruct (decide (n = ts_node t)) as [->|Hne].
    + rewrite lookup_insert. rewrite Hl in E. cbn in E. rewrite E. cbn.
      pose proof (zero_ts_le t Hvt). lia.
    + rewrite lookup_insert_ne by congruence. lia.
Qed.

Lemma min_stamp_mono n ms ms' x x' :
  length ms = length ms' ->
  (forall src m m', ms !! src = Some m -> ms' !! src = Some m' -> src_stamp n m <= src_stamp n m') ->
  min_stamp n ms = Some x -> min_stamp n ms' = Some x' -> x <= x'.
Proof.
  intros Hlen Hmono Hx Hx'.
  destruct (min_stamp_in _ _ _ Hx') as (src & m' & Hl' & ->).
  assert (Hlt : (src < length ms)%nat).
  { rewrite Hlen. eapply lookup_lt_Some. exact Hl'. }
  destruct (lookup_lt_is_Some_2 _ _ Hlt) as [m Hl].
  pose proof (min_stamp_le n ms src m x Hx Hl). specialize (Hmono src m m' Hl Hl'). lia.
Qed.

(** Once a (post-epoch) stamp is before the cut-off, it stays before it. *)
Lemma before_persist_try_update legacy v src t d :
  VInv v -> valid_ts t = true -> valid_ts d = true -> 1 <= ts_tick d ->
  before v d = true -> before (try_update legacy v src t).1 d = true.
Proof.
  intros HV Hvt Hvd H1 Hb.
  destruct (try_update legacy v src t) as [v' ok] eqn:Htu. cbn [fst].
  pose proof (try_update_VInv _ _ _ _ _ _ HV Hvt Htu) as HV'.
  destruct HV as (Hne & Hok & Hsync). destruct HV' as (Hne' & Hok' & Hsync').
  destruct (valid_bounds d Hvd) as (_ & _ & _ & Hnd & _).
  unfold before in *. destruct (safe v !! ts_node d) as [c|] eqn:Hs; [|discriminate].
  destruct (Hsync (ts_node d)) as [[_ Hnone]|(x & Hmin & Hsafe)]; [congruence|].
  rewrite Hs in Hsafe. injection Hsafe as ->.
  assert (Hlen : length (maxs v) = length (maxs v')).
  { pose proof (try_update_length legacy v src t) as H. rewrite Htu in H. cbn [fst] in H. lia. }
  destruct (Hsync' (ts_node d)) as [[Hun _]|(x' & Hmin' & Hsafe')].
  - (* cannot become untouched: some source already had a stamp or the minimum is zero *)
    exfalso.
    destruct (min_stamp_in _ _ _ Hmin) as (s0 & m0 & Hl0 & ->).
    assert (Hlt : (s0 < length (maxs v'))%nat) by (rewrite <- Hlen; eapply lookup_lt_Some; exact Hl0).
    destruct (lookup_lt_is_Some_2 _ _ Hlt) as [m0' Hl0'].
    pose proof (Hun s0 m0' Hl0') as Hnone.
    assert (Hmono : src_stamp (ts_node d) m0 <= src_stamp (ts_node d) m0').
    { pose proof (try_update_src_stamp_mono legacy v src t (ts_node d) s0 m0 m0' Hvt Hok Hl0) as H.
      rewrite Htu in H. cbn [fst] in H. apply H. exact Hl0'. }
    unfold src_stamp at 2 in Hmono. rewrite Hnone in Hmono. cbn in Hmono.
    (* so src_stamp n m0 <= zero_ts n, and d < shiftW of it: impossible *)
    destruct (src_stamp_valid v s0 m0 (ts_node d) Hok Hnd Hl0) as (Hvx & Hnx).
    destruct (shiftW_fields _ Hvx) as (A & B & C & D).
    apply ts_lt_lex in Hb; try assumption. rewrite A, B, C in Hb.
    assert (Hz : src_stamp (ts_node d) m0 = zero_ts (ts_node d)).
    { pose proof (zero_ts_le (src_stamp (ts_node d) m0) Hvx) as Hz. rewrite Hnx in Hz. lia. }
    rewrite Hz in Hb. destruct (zero_ts_fields _ Hnd) as (A0 & B0 & C0).
    rewrite A0, B0, C0 in Hb. lia.
  - rewrite Hsafe'.
    destruct (min_stamp_valid v _ x Hok Hnd Hmin) as (Hvx & Hnx).
    destruct (min_stamp_valid v' _ x' Hok' Hnd Hmin') as (Hvx' & Hnx').
    apply (shiftW_mono_on x x' d); try assumption; [congruence|].
    assert (x <= x'); [|lia].
    apply (min_stamp_mono (ts_node d) (maxs v) (maxs v') x x' Hlen); try assumption.
    intros s0 m0 m0' Hl0 Hl0'.
    pose proof (try_update_src_stamp_mono legacy v src t (ts_node d) s0 m0 m0' Hvt Hok Hl0) as H.
    rewrite Htu in H. cbn [fst] in H. apply H. exact Hl0'.
Qed.

Lemma apply_op_versions legacy s o :
  versions (apply_op legacy s o).1 = (try_update legacy (versions s) (op_src o) (op_ts o)).1.
Proof.
  destruct o as [src k t|src k t]; cbn [apply_op op_src op_ts].
  - unfold insert_ws. destruct (try_update legacy (versions s) src t) as [v' ok]. cbn [fst].
    destruct ok; cbn [negb]; [|reflexivity].
    destruct (dead s !! k) as [d|]; [destruct (t <? d); [reflexivity|]|];
      (destruct (entries s !! k) as [e|]; [destruct (e <? t)|]); reflexivity.
  - unfold delete_ws. destruct (try_update legacy (versions s) src t) as [v' ok]. cbn [fst].
    destruct ok; cbn [negb]; [|reflexivity].
    destruct (entries s !! k) as [e|]; [destruct (t <=? e); [reflexivity|]|];
      (destruct (dead s !! k) as [d|]; [destruct (d <? t)|]); reflexivity.
Qed.

(** Events of a replica's life: operations and purges. *)
Inductive ev :=
| EOp (o : op)
| EPurge.

Definition apply_ev (legacy : bool) (s : oset) (e : ev) : oset :=
  match e with
  | EOp o => (apply_op legacy s o).1
  | EPurge => (set_purge s).2
  end.

Definition run_evs (legacy : bool) (s : oset) (evs : list ev) : oset :=
  foldl (apply_ev legacy) s evs.

Definition ev_valid (e : ev) : Prop :=
  match e with EOp o => valid_ts (op_ts o) = true | EPurge => True end.

Lemma apply_ev_Inv legacy s e : Inv s -> ev_valid e -> Inv (apply_ev legacy s e).
Proof.
  destruct e as [o|]; cbn [apply_ev ev_valid]; intros Hi Hv;
    [apply apply_op_Inv; assumption|apply purge_Inv; assumption].
Qed.

Lemma run_evs_Inv legacy evs : forall s, Inv s -> Forall ev_valid evs -> Inv (run_evs legacy s evs).
Proof.
  induction evs as [|e evs IH]; intros s Hi Hv; [exact Hi|].
  inversion Hv; subst. unfold run_evs. cbn [foldl]. apply IH; [|assumption].
  apply apply_ev_Inv; assumption.
Qed.

Lemma before_persist_evs legacy evs : forall s d,
  Inv s -> Forall ev_valid evs -> valid_ts d = true -> 1 <= ts_tick d ->
  before (versions s) d = true -> before (versions (run_evs legacy s evs)) d = true.
Proof.
  induction evs as [|e evs IH]; intros s d Hi Hv Hvd H1 Hb; [exact Hb|].
  inversion Hv as [|? ? He Hv']; subst. unfold run_evs. cbn [foldl].
  apply IH; try assumption; [apply apply_ev_Inv; assumption|].
  destruct e as [o|]; cbn [apply_ev ev_valid] in *; [|exact Hb].
  rewrite apply_op_versions. apply before_persist_try_update; try assumption. apply Hi.
Qed.

(** C08 (3): after a purge removed the delete [d] of key [k], then — whatever
    operations and purges happen in between — an operation from the deleting node that
    is not newer than [d], on any key and through any source, is refused and changes
    nothing. *)
Lemma purged_delete_stays_rejected s k d evs o :
  Inv s -> (k, d) ∈ (set_purge s).1 ->
  valid_ts d = true -> 1 <= ts_tick d ->
  Forall ev_valid evs ->
  valid_ts (op_ts o) = true -> ts_node (op_ts o) = ts_node d -> (d <? op_ts o) = false ->
  let s' := run_evs false (set_purge s).2 evs in
  (op_src o < length (maxs (versions s')))%nat ->
  (apply_op false s' o).2 = false /\
  entries (apply_op false s' o).1 = entries s' /\ dead (apply_op false s' o).1 = dead s'.
Proof.
  intros Hi Hp Hvd H1 Hev Hvo Hn Hle s' Hsrc.
  apply purge_purged in Hp as [_ Hb].
  assert (Hi' : Inv s') by (apply run_evs_Inv; [apply purge_Inv; assumption|assumption]).
  assert (Hb' : before (versions s') d = true).
  { apply before_persist_evs;
      [apply purge_Inv; assumption|assumption|assumption|assumption|exact Hb]. }
  assert (Hbo : before (versions s') (op_ts o) = true).
  { unfold before in *. rewrite Hn. destruct (safe (versions s') !! ts_node d); [|discriminate]. lia. }
  assert (Hrej : (try_update false (versions s') (op_src o) (op_ts o)).2 = false).
  { destruct (try_update false (versions s') (op_src o) (op_ts o)) as [v' ok] eqn:Htu.
    destruct (try_update_accept _ _ _ _ _ (proj2 Hi') Hvo Hsrc Htu) as [-> _].
    cbn [snd]. rewrite Hbo. reflexivity. }
  destruct o as [src k0 t|src k0 t]; cbn [apply_op op_src op_ts] in *.
  - destruct (insert_ws_refused false s' src k0 t Hrej) as (A & B & C). auto.
  - destruct (delete_ws_refused false s' src k0 t Hrej) as (A & B & C). auto.
Qed.

(** ** A replica that purges at arbitrary moments shows the same live keys as one that
       never purges, when operations arrive timely *)

Fixpoint ev_ops (evs : list ev) : list op :=
  match evs with
  | [] => []
  | EOp o :: r => o :: ev_ops r
  | EPurge :: r => ev_ops r
  end.

(** The simulation between the purging run [p] and the non-purging run [u]: same
    versions, same live entries; tombstones of [p] are tombstones of [u]; a tombstone
    missing from [p] is at least one forgiveness period older than some stamp already
    seen. *)
Definition PurgeSim (S : list N) (p u : oset) : Prop :=
  versions p = versions u /\ entries p = entries u /\
  (forall k d, dead p !! k = Some d -> dead u !! k = Some d) /\
  (forall k d, dead u !! k = Some d -> dead p !! k = None ->
     exists x, x ∈ S /\ ts_tick d + W <= ts_tick x).

Lemma PurgeSim_view S p u k :
  PurgeSim S p u -> Disjoint u ->
  view p k = view u k \/
  (exists d x, view u k = Some (d, true) /\ view p k = None /\ x ∈ S /\ ts_tick d + W <= ts_tick x).
Proof.
  intros (Hv & He & Hsub & Hmiss) Hd. unfold view. rewrite He.
  destruct (entries u !! k) as [e|]; [left; reflexivity|].
  destruct (dead u !! k) as [d|] eqn:Hdu.
  - destruct (dead p !! k) as [d'|] eqn:Hdp.
    + left. rewrite (Hsub _ _ Hdp) in Hdu. congruence.
    + right. destruct (Hmiss _ _ Hdu Hdp) as (x & Hx & Hw). exists d, x. auto.
  - destruct (dead p !! k) as [d'|] eqn:Hdp; [|left; reflexivity].
    rewrite (Hsub _ _ Hdp) in Hdu. discriminate.
Qed.

(** View-level form of the simulation (used for the proof; [PurgeSim] above is its
    map-level reading). *)
Definition PurgeSimV (S : list N) (p u : oset) : Prop :=
  versions p = versions u /\
  forall k, view p k = view u k \/
            (exists d x, view u k = Some (d, true) /\ view p k = None /\
                         valid_ts d = true /\ x ∈ S /\ ts_tick d + W <= ts_tick x).

(** Every stamp a replica holds is valid and after the first tick of the epoch. *)
Definition ViewOk (u : oset) : Prop :=
  forall k d b, view u k = Some (d, b) -> valid_ts d = true /\ 1 <= ts_tick d.

Lemma get_view s k :
  set_get s k = match view s k with Some (t, false) => Some t | _ => None end.
Proof.
  unfold set_get, view. destruct (entries s !! k); [reflexivity|].
  destruct (dead s !! k); reflexivity.
Qed.

Lemma PurgeSimV_get S p u k : PurgeSimV S p u -> set_get p k = set_get u k.
Proof.
  intros [_ H]. rewrite !get_view. destruct (H k) as [->|(d & x & -> & -> & _)]; reflexivity.
Qed.

Lemma before_gap v S d :
  VInv v -> MaxsFrom v S -> valid_ts d = true -> 1 <= ts_tick d -> before v d = true ->
  exists x, x ∈ S /\ ts_tick d + W <= ts_tick x.
Proof.
  intros HV HS Hvd H1 Hb.
  destruct (before_witness v S d HV HS Hvd Hb) as (x & Hx & Hvx & _ & Hlt).
  exists x. split; [assumption|].
  destruct (shiftW_fields x Hvx) as (A & B & C & D).
  apply ts_lt_lex in Hlt; try assumption. rewrite A, B, C in Hlt. lia.
Qed.

Lemma timely_op_accepted s S o :
  Inv s -> MaxsFrom (versions s) S -> valid_ts (op_ts o) = true ->
  (op_src o < length (maxs (versions s)))%nat ->
  1 <= ts_tick (op_ts o) -> (forall x, x ∈ S -> ts_tick x < ts_tick (op_ts o) + W) ->
  accepted false s o = true.
Proof.
  intros Hi HS Hv Hsrc H1 Hw.
  pose proof (timely_accepted [o] s S Hi HS) as H. cbn [all_accepted] in H.
  rewrite andb_true_r in H. apply H.
  - intros o' Ho'. apply elem_of_list_singleton in Ho'. subst. assumption.
  - constructor; [assumption|constructor].
  - cbn [timely]. auto.
Qed.

Lemma PurgeSimV_op S p u o :
  PurgeSimV S p u -> Inv p -> Inv u -> ViewOk u -> MaxsFrom (versions u) S ->
  valid_ts (op_ts o) = true -> (op_src o < length (maxs (versions u)))%nat ->
  1 <= ts_tick (op_ts o) -> (forall x, x ∈ S -> ts_tick x < ts_tick (op_ts o) + W) ->
  PurgeSimV (op_ts o :: S) (apply_op false p o).1 (apply_op false u o).1 /\
  ViewOk (apply_op false u o).1.
Proof.
  intros [Hv Hk] Hip Hiu Hok HS Hvo Hsrc H1 Hw.
  assert (Hau : accepted false u o = true) by (eapply timely_op_accepted; eassumption).
  assert (Hap : accepted false p o = true).
  { unfold accepted in *. rewrite Hv. exact Hau. }
  destruct (apply_op_view false p o (proj1 Hip)) as [Vp _].
  destruct (apply_op_view false u o (proj1 Hiu)) as [Vu _].
  split; [split|].
  - rewrite !apply_op_versions, Hv. reflexivity.
  - intros k. rewrite Vp, Vu, Hap, Hau. cbn [andb].
    destruct (bool_decide_reflect (k = op_key o)) as [->|Hne].
    + destruct (Hk (op_key o)) as [->|(d & x & Eu & Ep & Hvd & Hx & Hgap)]; [left; reflexivity|].
      left. rewrite Eu, Ep. cbn [join].
      assert (Hlt : (d <? op_ts o) = true).
      { apply ts_lt_lex; try assumption. specialize (Hw x Hx). lia. }
      rewrite Hlt. reflexivity.
    + destruct (Hk k) as [E|(d & x & Eu & Ep & Hvd & Hx & Hgap)]; [left; exact E|].
      right. exists d, x. repeat split; try assumption. right. exact Hx.
  - intros k d b. rewrite Vu, Hau. cbn [andb].
    destruct (bool_decide_reflect (k = op_key o)) as [->|Hne]; [|apply Hok].
    destruct (view u (op_key o)) as [[u0 b0]|] eqn:Eu; cbn [join].
    + destruct (u0 <? op_ts o); [intros [= <- <-]; auto|].
      destruct ((op_ts o =? u0) && b0 && negb (op_del o)); [intros [= <- <-]; auto|].
      intros [= <- <-]. eapply Hok. exact Eu.
    + intros [= <- <-]. auto.
Qed.

Lemma PurgeSimV_purge S p u :
  PurgeSimV S p u -> Inv u -> ViewOk u -> MaxsFrom (versions u) S ->
  PurgeSimV S (set_purge p).2 u.
Proof.
  intros [Hv Hk] Hiu Hok HS. split; [rewrite purge_versions; exact Hv|].
  intros k. destruct (purge_view p k) as [E|(d & Ep & Hb & Ep')].
  - rewrite E. apply Hk.
  - destruct (Hk k) as [E|(d' & x & _ & Ep2 & _)]; [|congruence].
    rewrite Ep in E. symmetry in E. destruct (Hok _ _ _ E) as [Hvd H1].
    rewrite Hv in Hb.
    destruct (before_gap _ S d (proj2 Hiu) HS Hvd H1 Hb) as (x & Hx & Hgap).
    right. exists d, x. auto.
Qed.

(** C08 (4): along any timely event sequence (operations arriving less than one
    forgiveness period behind everything seen before; purges anywhere), the purging
    replica and the never-purging replica agree on every lookup. *)
Lemma purge_invisible_gen evs : forall S p u,
  PurgeSimV S p u -> Inv p -> Inv u -> ViewOk u -> MaxsFrom (versions u) S ->
  Forall ev_valid evs ->
  (forall o, o ∈ ev_ops evs -> (op_src o < length (maxs (versions u)))%nat) ->
  timely S (ev_ops evs) ->
  forall k, set_get (run_evs false p evs) k = set_get (run_ops false u (ev_ops evs)) k.
Proof.
  induction evs as [|e evs IH]; intros S p u Hsim Hip Hiu Hok HS Hv Hsrc Ht k.
  - cbn. eapply PurgeSimV_get. eassumption.
  - inversion Hv as [|? ? He Hv']; subst. unfold run_evs. cbn [foldl].
    destruct e as [o|]; cbn [apply_ev ev_ops ev_valid] in *.
    + destruct Ht as (H1 & Hw & Ht).
      destruct (PurgeSimV_op S p u o Hsim Hip Hiu Hok HS He (Hsrc o ltac:(left)) H1 Hw) as [Hsim' Hok'].
      unfold run_ops. cbn [foldl].
      apply (IH (op_ts o :: S)); try assumption.
      * apply apply_op_Inv; assumption.
      * apply apply_op_Inv; assumption.
      * apply apply_op_MaxsFrom. assumption.
      * intros o' Ho'. rewrite apply_op_length. apply Hsrc. right. assumption.
    + apply (IH S); try assumption.
      * apply PurgeSimV_purge; assumption.
      * apply purge_Inv. assumption.
Qed.

Lemma ViewOk_empty nsrc : ViewOk (empty_set nsrc).
Proof. intros k d b. rewrite view_empty. discriminate. Qed.

Lemma purge_invisible nsrc evs k :
  (nsrc > 0)%nat ->
  Forall ev_valid evs ->
  (forall o, o ∈ ev_ops evs -> (op_src o < nsrc)%nat) ->
  timely [] (ev_ops evs) ->
  set_get (run_evs false (empty_set nsrc) evs) k =
  set_get (run_ops false (empty_set nsrc) (ev_ops evs)) k.
Proof.
  intros Hn Hv Hsrc Ht. apply (purge_invisible_gen evs []); try assumption.
  - split; [reflexivity|]. intros k'. left. reflexivity.
  - apply Inv_empty. assumption.
  - apply Inv_empty. assumption.
  - apply ViewOk_empty.
  - apply MaxsFrom_empty.
  - intros o Ho. cbn. rewrite replicate_length. apply Hsrc. assumption.
Qed.

Lemma ev_ops_valid evs :
  Forall ev_valid evs -> Forall (fun o => valid_ts (op_ts o) = true) (ev_ops evs).
Proof.
  induction 1 as [|e evs He _ IH]; [constructor|].
  destruct e; cbn [ev_ops ev_valid] in *; [constructor; assumption|assumption].
Qed.

(** ... and what both show is the last-writer-wins result: no deleted key reappears, no
    live key is lost. *)
Lemma purge_invisible_lww nsrc evs k :
  (nsrc > 0)%nat ->
  Forall ev_valid evs ->
  (forall o, o ∈ ev_ops evs -> (op_src o < nsrc)%nat) ->
  NoDup (stamps (ev_ops evs)) ->
  timely [] (ev_ops evs) ->
  set_get (run_evs false (empty_set nsrc) evs) k =
  match lww (ev_ops evs) k with Some (t, false) => Some t | _ => None end.
Proof.
  intros Hn Hv Hsrc Hnd Ht. rewrite purge_invisible by assumption.
  rewrite get_view. rewrite arrival_lww; try assumption; [reflexivity| |].
  - apply ev_ops_valid. assumption.
  - apply (timely_accepted _ (empty_set nsrc) []); try assumption.
    + apply Inv_empty. assumption.
    + apply MaxsFrom_empty.
    + intros o Ho. cbn. rewrite replicate_length. apply Hsrc. assumption.
    + apply ev_ops_valid. assumption.
Qed.
