(** * OrswotMerge: merging replica states is a per-key maximum (C03) *)

From stdpp Require Import gmap list sorting.
From Coq Require Import NArith Lia ZArith.
From Coq Require Import ZifyBool ZifyN ZifyNat.
From DC Require Import Ts TsProofs Hlc HlcProofs Orswot OrswotInv OrswotLww OrswotTimely OrswotPurge.
Open Scope N_scope.

(** ** What the two loops of [merge] do to one key *)

(** State of a key inside the main loop: (new entries, tombstones, old entries). *)
Definition kstate : Type := option N * option N * option N.

Definition klook (st : gmap N N * gmap N N * gmap N N) (k : N) : kstate :=
  (st.1.1 !! k, st.1.2 !! k, st.2 !! k).

Definition step_key (av : vers) (x : kstate) (ts : N) (del : bool) : kstate :=
  let '(e, d, o) := x in
  if del then
    if before av ts then x
    else
      let dmax := match d with Some d0 => Some (if ts <? d0 then d0 else ts) | None => Some ts end in
      match e with
      | Some e' => if ts <? e' then x else (None, dmax, o)
      | None => (None, dmax, o)
      end
  else
    let timestamp := match o with Some ex => if ts <? ex then ex else ts | None => ts end in
    match d with
    | Some d0 => if timestamp <? d0 then (e, d, None) else (Some timestamp, None, None)
    | None => (Some timestamp, None, None)
    end.

Lemma merge_step_key av st e k :
  klook (merge_step av st e) k =
  if decide (k = l_key e) then step_key av (klook st k) (l_ts e) (l_del e) else klook st k.
Proof.
  destruct st as [[ents dd] old]. unfold merge_step, klook, step_key. cbn [fst snd].
  destruct (decide (k = l_key e)) as [->|Hne].
  - destruct (l_del e).
    + destruct (before av (l_ts e)); [reflexivity|].
      destruct (ents !! l_key e) as [e'|] eqn:Ee.
      * destruct (l_ts e <? e'); [cbn; rewrite Ee; reflexivity|]. cbn [fst snd].
        rewrite lookup_delete. destruct (dd !! l_key e); rewrite lookup_insert; reflexivity.
      * cbn [fst snd]. rewrite Ee. destruct (dd !! l_key e); rewrite lookup_insert; reflexivity.
    + destruct (dd !! l_key e) as [d0|] eqn:Ed.
      * destruct (_ <? d0); cbn [fst snd].
        -- rewrite Ed, lookup_delete. reflexivity.
        -- rewrite lookup_insert, !lookup_delete. reflexivity.
      * cbn [fst snd]. rewrite lookup_insert, Ed, lookup_delete. reflexivity.
  - destruct (l_del e).
    + destruct (before av (l_ts e)); [reflexivity|].
      destruct (ents !! l_key e) as [e'|].
      * destruct (l_ts e <? e'); [reflexivity|]. cbn [fst snd].
        rewrite lookup_delete_ne by congruence.
        destruct (dd !! l_key e); rewrite lookup_insert_ne by congruence; reflexivity.
      * cbn [fst snd]. destruct (dd !! l_key e); rewrite lookup_insert_ne by congruence; reflexivity.
    + destruct (dd !! l_key e) as [d0|].
      * destruct (_ <? d0); cbn [fst snd].
        -- rewrite lookup_delete_ne by congruence. reflexivity.
        -- rewrite lookup_insert_ne, !lookup_delete_ne by congruence. reflexivity.
      * cbn [fst snd]. rewrite lookup_insert_ne, lookup_delete_ne by congruence. reflexivity.
Qed.

Lemma foldl_merge_step av log : forall st k,
  NoDup (map l_key log) ->
  klook (foldl (merge_step av) st log) k =
  match list_find (fun e => l_key e = k) log with
  | Some (_, e) => step_key av (klook st k) (l_ts e) (l_del e)
  | None => klook st k
  end.
Proof.
  induction log as [|e log IH]; intros st k Hnd; [reflexivity|].
  cbn [map] in Hnd. apply NoDup_cons in Hnd as [Hnin Hnd]. cbn [foldl list_find].
  rewrite IH by assumption. rewrite merge_step_key.
  destruct (decide (l_key e = k)) as [E|Hne].
  - rewrite decide_True by congruence.
    destruct (list_find (fun e0 => l_key e0 = k) log) as [[i e']|] eqn:Ef; [|reflexivity].
    exfalso. apply list_find_Some in Ef as (Hl & Hk & _). apply Hnin. rewrite E, <- Hk.
    apply elem_of_list_fmap_1. eapply elem_of_list_lookup_2. exact Hl.
  - rewrite decide_False by congruence.
    destruct (list_find (fun e0 => l_key e0 = k) log) as [[i e']|]; reflexivity.
Qed.

(** The leftover loop. *)
Definition left_key (bv : vers) (x : option N * option N) (ts : N) : option N * option N :=
  let '(e, d) := x in
  if before bv ts then x
  else match d with
       | Some d0 => if ts <? d0 then x else (Some ts, None)
       | None => (Some ts, None)
       end.

Definition klook2 (st : gmap N N * gmap N N) (k : N) : option N * option N := (st.1 !! k, st.2 !! k).

Lemma merge_leftover_key bv st kt k :
  klook2 (merge_leftover bv st kt) k =
  if decide (k = kt.1) then left_key bv (klook2 st k) kt.2 else klook2 st k.
Proof.
  destruct st as [ents dd]. destruct kt as [k0 ts]. unfold merge_leftover, klook2, left_key. cbn [fst snd].
  destruct (decide (k = k0)) as [->|Hne].
  - destruct (before bv ts); [reflexivity|]. destruct (dd !! k0) as [d0|] eqn:Ed.
    + destruct (ts <? d0); cbn [fst snd]; [rewrite Ed; reflexivity|].
      rewrite lookup_insert, lookup_delete. reflexivity.
    + cbn [fst snd]. rewrite lookup_insert, Ed. reflexivity.
  - destruct (before bv ts); [reflexivity|]. destruct (dd !! k0) as [d0|].
    + destruct (ts <? d0); cbn [fst snd]; [reflexivity|].
      rewrite lookup_insert_ne, lookup_delete_ne by congruence. reflexivity.
    + cbn [fst snd]. rewrite lookup_insert_ne by congruence. reflexivity.
Qed.

Lemma foldl_merge_leftover bv (l : list (N * N)) : forall st k,
  NoDup l.*1 ->
  klook2 (foldl (merge_leftover bv) st l) k =
  match list_find (fun kt => kt.1 = k) l with
  | Some (_, kt) => left_key bv (klook2 st k) kt.2
  | None => klook2 st k
  end.
Proof.
  induction l as [|kt l IH]; intros st k Hnd; [reflexivity|].
  cbn [fmap list_fmap] in Hnd. apply NoDup_cons in Hnd as [Hnin Hnd]. cbn [foldl list_find].
  rewrite IH by assumption. rewrite merge_leftover_key.
  destruct (decide (kt.1 = k)) as [E|Hne].
  - rewrite decide_True by congruence.
    destruct (list_find (fun kt0 : N * N => kt0.1 = k) l) as [[i kt']|] eqn:Ef; [|reflexivity].
    exfalso. apply list_find_Some in Ef as (Hl & Hk & _). apply Hnin. rewrite E, <- Hk.
    apply elem_of_list_fmap_1. eapply elem_of_list_lookup_2. exact Hl.
  - rewrite decide_False by congruence.
    destruct (list_find (fun kt0 : N * N => kt0.1 = k) l) as [[i kt']|]; reflexivity.
Qed.

(** ** The merged set, key by key *)

Definition merge_key (av bv : vers) (ea da eb db : option N) : option N * option N :=
  let x0 : kstate := (None, da, ea) in
  let x1 := match eb, db with
            | Some t, _ => step_key av x0 t false
            | None, Some t => step_key av x0 t true
            | None, None => x0
            end in
  let '(e1, d1, o1) := x1 in
  match o1 with
  | Some ts => left_key bv (e1, d1) ts
  | None => (e1, d1)
  end.

Lemma list_find_map_to_list (m : gmap N N) k :
  match list_find (fun kt : N * N => kt.1 = k) (map_to_list m) with
  | Some (_, kt) => Some kt.2
  | None => None
  end = m !! k.
Proof.
  destruct (list_find (fun kt : N * N => kt.1 = k) (map_to_list m)) as [[i [k' t]]|] eqn:Ef.
  - apply list_find_Some in Ef as (Hl & Hk & _). cbn in Hk. subst k'.
    apply elem_of_list_lookup_2, elem_of_map_to_list in Hl. cbn. symmetry. exact Hl.
  - destruct (m !! k) as [t|] eqn:E; [|reflexivity]. exfalso.
    apply list_find_None in Ef. rewrite Forall_forall in Ef.
    apply (Ef (k, t)); [apply elem_of_map_to_list; exact E|reflexivity].
Qed.

Lemma merge_lookup a b k :
  Disjoint b ->
  (entries (set_merge a b) !! k, dead (set_merge a b) !! k) =
  merge_key (versions a) (versions b) (entries a !! k) (dead a !! k) (entries b !! k) (dead b !! k).
Proof.
  intros Hdb. unfold set_merge.
  set (log0 := map (fun kt : N * N => mkLog kt.1 kt.2 false) (map_to_list (entries b)) ++
               map (fun kt : N * N => mkLog kt.1 kt.2 true) (map_to_list (dead b))).
  set (log := merge_sort log_le log0).
  assert (Hperm : log ≡ₚ log0) by apply merge_sort_Permutation.
  (* keys of the log are unique: one entry per key of b *)
  assert (Hk0 : map l_key log0 = (map_to_list (entries b)).*1 ++ (map_to_list (dead b)).*1).
  { subst log0. rewrite map_app, !map_map. reflexivity. }
  assert (Hnd0 : NoDup (map l_key log0)).
  { rewrite Hk0. apply NoDup_app. split; [apply NoDup_fst_map_to_list|]. split; [|apply NoDup_fst_map_to_list].
    intros x Hx Hx'. apply elem_of_list_fmap in Hx as ([k1 t1] & -> & H1).
    apply elem_of_list_fmap in Hx' as ([k2 t2] & Hk & H2). cbn in Hk. subst k2.
    apply elem_of_map_to_list in H1, H2. destruct (Hdb k1); congruence. }
  assert (Hnd : NoDup (map l_key log)).
  { assert (Hp : map l_key log ≡ₚ map l_key log0) by (apply fmap_Permutation; exact Hperm).
    rewrite Hp. exact Hnd0. }
  (* the log entry for k, if any *)
  assert (Hfind : match list_find (fun e => l_key e = k) log with
                  | Some (_, e) => Some (l_ts e, l_del e)
                  | None => None
                  end =
                  match entries b !! k, dead b !! k with
                  | Some t, _ => Some (t, false)
                  | None, Some t => Some (t, true)
                  | None, None => None
                  end).
  { destruct (list_find (fun e => l_key e = k) log) as [[i e]|] eqn:Ef.
    - apply list_find_Some in Ef as (Hl & Hk & _).
      assert (Hin : e ∈ log0) by (rewrite <- Hperm; eapply elem_of_list_lookup_2; exact Hl).
      subst log0. apply elem_of_app in Hin as [Hin|Hin]; apply elem_of_list_fmap in Hin as ([k1 t1] & -> & H1);
        cbn in Hk; subst k1; apply elem_of_map_to_list in H1; cbn.
      + rewrite H1. reflexivity.
      + destruct (Hdb k) as [He|Hn]; [rewrite He, H1; reflexivity|congruence].
    - apply list_find_None in Ef. rewrite Forall_forall in Ef.
      destruct (entries b !! k) as [t|] eqn:Ee.
      + exfalso. apply (Ef (mkLog k t false)); [|reflexivity]. rewrite Hperm. subst log0.
        apply elem_of_app. left. apply (elem_of_list_fmap_1 (fun kt : N * N => mkLog kt.1 kt.2 false) _ (k, t)).
        apply elem_of_map_to_list. exact Ee.
      + destruct (dead b !! k) as [t|] eqn:Ed; [|reflexivity].
        exfalso. apply (Ef (mkLog k t true)); [|reflexivity]. rewrite Hperm. subst log0.
        apply elem_of_app. right. apply (elem_of_list_fmap_1 (fun kt : N * N => mkLog kt.1 kt.2 true) _ (k, t)).
        apply elem_of_map_to_list. exact Ed. }
  pose proof (foldl_merge_step (versions a) log (∅, dead a, entries a) k Hnd) as H1.
  destruct (foldl (merge_step (versions a)) (∅, dead a, entries a) log) as [[ents dd] old] eqn:Efold.
  pose proof (foldl_merge_leftover (versions b) (map_to_list old) (ents, dd) k (NoDup_fst_map_to_list old)) as H2.
  destruct (foldl (merge_leftover (versions b)) (ents, dd) (map_to_list old)) as [ents' dd'] eqn:Efold2.
  cbn [entries dead]. unfold klook2 in H2. cbn [fst snd] in H2. rewrite H2.
  unfold klook in H1. cbn [fst snd] in H1. rewrite lookup_empty in H1.
  pose proof (list_find_map_to_list old k) as Hold.
  unfold merge_key.
  destruct (list_find (fun e => l_key e = k) log) as [[i e]|].
  - destruct (entries b !! k) as [tb|], (dead b !! k) as [db|]; try discriminate Hfind;
      injection Hfind as Ht Hd; rewrite Ht, Hd in H1;
      (destruct (step_key _ _ _ _) as [[e1 d1] o1] eqn:Es; injection H1 as -> -> Ho; rewrite <- Ho;
       destruct (list_find (fun kt : N * N => kt.1 = k) (map_to_list old)) as [[j kt]|]; cbn in Hold;
       rewrite <- Hold; reflexivity).
  - destruct (entries b !! k) as [tb|], (dead b !! k) as [db|]; try discriminate Hfind.
    injection H1 as -> -> Ho. rewrite <- Ho.
    destruct (list_find (fun kt : N * N => kt.1 = k) (map_to_list old)) as [[j kt]|]; cbn in Hold;
      rewrite <- Hold; reflexivity.
Qed.

(** ** The merged view is the per-key maximum *)

(** Equal stamps on the two sides mean the same operation (both replicas stem from one
    history with distinct stamps). *)
Definition consistent (x y : option (N * bool)) : Prop :=
  forall t d t' d', x = Some (t, d) -> y = Some (t', d') -> t = t' -> d = d'.

Lemma merge_view a b k :
  Disjoint a -> Disjoint b ->
  (forall t, dead b !! k = Some t -> before (versions a) t = false) ->
  (forall t, entries a !! k = Some t -> before (versions b) t = false) ->
  consistent (view a k) (view b k) ->
  view (set_merge a b) k = vmax (view a k) (view b k).
Proof.
  intros Hda Hdb Hnb1 Hnb2 Hcons.
  pose proof (merge_lookup a b k Hdb) as Hl.
  assert (He : entries (set_merge a b) !! k =
               (merge_key (versions a) (versions b) (entries a !! k) (dead a !! k) (entries b !! k) (dead b !! k)).1)
    by (rewrite <- Hl; reflexivity).
  assert (Hd : dead (set_merge a b) !! k =
               (merge_key (versions a) (versions b) (entries a !! k) (dead a !! k) (entries b !! k) (dead b !! k)).2)
    by (rewrite <- Hl; reflexivity).
  unfold view at 1. rewrite He, Hd. unfold view in Hcons |- *. clear He Hd Hl.
  destruct (entries a !! k) as [ea|] eqn:Eea, (dead a !! k) as [da|] eqn:Eda;
    [destruct (Hda k); congruence| | |];
    destruct (entries b !! k) as [eb|] eqn:Eeb, (dead b !! k) as [db|] eqn:Edb;
    try (destruct (Hdb k); congruence);
    unfold merge_key, step_key, left_key; cbn [vmax fst snd];
    try rewrite (Hnb1 _ eq_refl); try rewrite (Hnb2 _ eq_refl);
    repeat match goal with
           | |- context [?x <? ?y] => destruct (N.ltb_spec x y)
           | |- context [before ?v ?t] => rewrite (Hnb2 _ eq_refl)
           end;
    cbn [vmax fst snd]; try reflexivity;
    repeat match goal with
           | |- context [?x <? ?y] => destruct (N.ltb_spec x y)
           end; try reflexivity; try lia;
    (* cross-kind ties are excluded by consistency *)
    try (exfalso;
         match goal with
         | _ : ?x <= ?y, _ : ?y <= ?x |- _ =>
             assert (x = y) by lia; subst;
             first [ pose proof (Hcons _ _ _ _ eq_refl eq_refl eq_refl); discriminate ]
         end).
  all: repeat f_equal; lia.
Qed.

(** ** [vmax] algebra on consistent views *)

Lemma vmax_comm x y : consistent x y -> vmax x y = vmax y x.
Proof.
  intros Hc. destruct x as [[t d]|], y as [[u e]|]; cbn [vmax]; try reflexivity.
  destruct (N.ltb_spec t u), (N.ltb_spec u t); try reflexivity; try lia.
  assert (t = u) by lia. subst. rewrite (Hc _ _ _ _ eq_refl eq_refl eq_refl). reflexivity.
Qed.

Lemma vmax_idem x : vmax x x = x.
Proof. destruct x as [[t d]|]; cbn [vmax]; [|reflexivity]. destruct (N.ltb_spec t t); [lia|reflexivity]. Qed.

Lemma vmax_assoc x y z :
  consistent x y -> consistent y z -> consistent x z ->
  vmax (vmax x y) z = vmax x (vmax y z).
Proof.
  intros Hxy Hyz Hxz.
  destruct x as [[t1 d1]|], y as [[t2 d2]|], z as [[t3 d3]|]; cbn [vmax]; try reflexivity;
    repeat match goal with |- context [?a <? ?b] => destruct (N.ltb_spec a b); cbn [vmax] end;
    try reflexivity; try lia.
Qed.

Lemma vmax_absorb x y : vmax (vmax x y) y = vmax x y.
Proof.
  destruct x as [[t1 d1]|], y as [[t2 d2]|]; cbn [vmax]; try reflexivity;
    repeat match goal with |- context [?a <? ?b] => destruct (N.ltb_spec a b); cbn [vmax] end;
    try reflexivity; try lia.
Qed.

Lemma vmax_either x y : vmax x y = x \/ vmax x y = y.
Proof.
  destruct x as [[t d]|], y as [[u e]|]; cbn [vmax]; auto. destruct (t <? u); auto.
Qed.

(** ** Versions of the merged set *)

Lemma merge_max_lookup m o n :
  merge_max m o !! n =
  match m !! n, o !! n with
  | Some a, Some b => Some (if b <? a then a else b)
  | Some a, None => Some a
  | None, ob => ob
  end.
Proof.
  unfold merge_max. rewrite lookup_union_with.
  destruct (m !! n), (o !! n); reflexivity.
Qed.

Lemma foldl_compute_safe_maxs nodes : forall v, maxs (foldl compute_safe v nodes) = maxs v.
Proof.
  induction nodes as [|n l IH]; intros v; [reflexivity|]. cbn [foldl]. rewrite IH. apply compute_safe_maxs.
Qed.

Lemma foldl_compute_safe_safe nodes : forall v n,
  maxs v <> [] -> NoDup nodes ->
  safe (foldl compute_safe v nodes) !! n =
  if decide (n ∈ nodes) then shiftW <$> min_stamp n (maxs v) else safe v !! n.
Proof.
  induction nodes as [|n0 l IH]; intros v n Hne Hnd.
  - cbn. rewrite decide_False by (intros H; inversion H). reflexivity.
  - apply NoDup_cons in Hnd as [Hnin Hnd]. cbn [foldl].
    rewrite IH; [|rewrite compute_safe_maxs; exact Hne|exact Hnd]. rewrite compute_safe_maxs.
    destruct (decide (n ∈ l)) as [Hin|Hnl].
    + rewrite decide_True by (right; exact Hin). reflexivity.
    + destruct (decide (n = n0)) as [->|Hne0].
      * rewrite decide_True by left.
        destruct (min_stamp_is_Some n0 (maxs v) Hne) as [x Hx]. rewrite Hx.
        cbn. apply compute_safe_safe_eq. exact Hx.
      * rewrite decide_False by (intros H; apply elem_of_cons in H as [H|H]; contradiction).
        apply compute_safe_safe_ne. exact Hne0.
Qed.

Definition merged_maxs (va vb : vers) : list (gmap N N) := zip_with merge_max (maxs va) (maxs vb).

Lemma vers_merge_maxs va vb : maxs (vers_merge va vb) = merged_maxs va vb.
Proof. unfold vers_merge. rewrite foldl_compute_safe_maxs. reflexivity. Qed.

Lemma merged_maxs_lookup va vb src m :
  merged_maxs va vb !! src = Some m ->
  exists ma mb, maxs va !! src = Some ma /\ maxs vb !! src = Some mb /\ m = merge_max ma mb.
Proof.
  unfold merged_maxs. rewrite lookup_zip_with.
  destruct (maxs va !! src) as [ma|]; [|discriminate]. cbn.
  destruct (maxs vb !! src) as [mb|]; [|discriminate]. cbn. intros [= <-]. eauto.
Qed.

(** Every stamp recorded after the merge was recorded on one of the two sides. *)
Lemma vers_merge_MaxsFrom va vb S :
  MaxsFrom va S -> MaxsFrom vb S -> MaxsFrom (vers_merge va vb) S.
Proof.
  intros Ha Hb src m n e Hl He. rewrite vers_merge_maxs in Hl.
  destruct (merged_maxs_lookup _ _ _ _ Hl) as (ma & mb & Hla & Hlb & ->).
  rewrite merge_max_lookup in He.
  destruct (ma !! n) as [x|] eqn:Ex, (mb !! n) as [y|] eqn:Ey.
  - injection He as <-. destruct (y <? x); [eapply Ha|eapply Hb]; eassumption.
  - injection He as <-. eapply Ha; eassumption.
  - injection He as <-. eapply Hb; eassumption.
  - discriminate.
Qed.

Lemma vers_merge_VInv va vb :
  VInv va -> VInv vb -> length (maxs va) = length (maxs vb) -> VInv (vers_merge va vb).
Proof.
  intros (Hnea & Hoka & Hsa) (Hneb & Hokb & Hsb) Hlen.
  assert (Hne : merged_maxs va vb <> []).
  { unfold merged_maxs. destruct (maxs va) as [|x l], (maxs vb) as [|y l']; try contradiction. discriminate. }
  split; [rewrite vers_merge_maxs; exact Hne|]. split.
  - intros src m n e Hl He. rewrite vers_merge_maxs in Hl.
    destruct (merged_maxs_lookup _ _ _ _ Hl) as (ma & mb & Hla & Hlb & ->).
    rewrite merge_max_lookup in He.
    destruct (ma !! n) as [x|] eqn:Ex, (mb !! n) as [y|] eqn:Ey.
    + injection He as <-. destruct (y <? x); [eapply Hoka|eapply Hokb]; eassumption.
    + injection He as <-. eapply Hoka; eassumption.
    + injection He as <-. eapply Hokb; eassumption.
    + discriminate.
  - intros n. unfold vers_merge.
    set (nodes := remove_dups (concat (map (fun m => (map_to_list m).*1) (maxs vb)))).
    set (v0 := mkVers (merged_maxs va vb) (safe va)).
    assert (Hnd : NoDup nodes) by apply NoDup_remove_dups.
    pose proof (foldl_compute_safe_safe nodes v0 n Hne Hnd) as Hsafe.
    assert (Hmx : maxs (foldl compute_safe v0 nodes) = merged_maxs va vb) by apply foldl_compute_safe_maxs.
    fold (merged_maxs va vb). fold v0.
    destruct (decide (n ∈ nodes)) as [Hin|Hnin].
    + right. destruct (min_stamp_is_Some n (merged_maxs va vb) Hne) as [x Hx].
      exists x. rewrite Hmx. split; [exact Hx|]. rewrite Hsafe. cbn [maxs v0]. rewrite Hx. reflexivity.
    + (* b knows nothing about n: column n is a's column *)
      assert (Hbn : forall src mb, maxs vb !! src = Some mb -> mb !! n = None).
      { intros src mb Hl. destruct (mb !! n) as [y|] eqn:Ey; [|reflexivity]. exfalso. apply Hnin.
        subst nodes. apply elem_of_remove_dups, elem_of_list_In, in_concat.
        exists (map_to_list mb).*1. split.
        - apply in_map_iff. exists mb. split; [reflexivity|]. apply elem_of_list_In. eapply elem_of_list_lookup_2. exact Hl.
        - apply elem_of_list_In. apply elem_of_list_fmap. exists (n, y). split; [reflexivity|].
          apply elem_of_map_to_list. exact Ey. }
      assert (Hcol : min_stamp n (merged_maxs va vb) = min_stamp n (maxs va)).
      { apply min_stamp_ext.
        - unfold merged_maxs. rewrite zip_with_length. lia.
        - intros src m m' Hl Hl'. destruct (merged_maxs_lookup _ _ _ _ Hl) as (ma & mb & Hla & Hlb & ->).
          assert (ma = m') by congruence. subst ma. unfold src_stamp. rewrite merge_max_lookup, (Hbn _ _ Hlb).
          destruct (m' !! n); reflexivity. }
      destruct (Hsa n) as [[Hun Hs]|(x & Hx & Hs)].
      * left. split.
        -- intros src m Hl. rewrite Hmx in Hl.
           destruct (merged_maxs_lookup _ _ _ _ Hl) as (ma & mb & Hla & Hlb & ->).
           rewrite merge_max_lookup, (Hun _ _ Hla), (Hbn _ _ Hlb). reflexivity.
        -- rewrite Hsafe. exact Hs.
      * right. exists x. rewrite Hmx, Hcol. split; [exact Hx|]. rewrite Hsafe. exact Hs.
Qed.

(** ** The merged set satisfies the set invariant *)

Lemma merge_key_disjoint av bv ea da eb db :
  (ea = None \/ da = None) ->
  let r := merge_key av bv ea da eb db in r.1 = None \/ r.2 = None.
Proof.
  intros Hd. unfold merge_key, step_key, left_key.
  destruct ea as [ea|], da as [da|], eb as [eb|], db as [db|]; try (destruct Hd; discriminate);
    repeat match goal with
           | |- context [if ?c then _ else _] => destruct c
           | |- context [match ?o with Some _ => _ | None => _ end] => destruct o
           end; cbn; auto.
Qed.

Lemma merge_Inv a b :
  Inv a -> Inv b -> length (maxs (versions a)) = length (maxs (versions b)) -> Inv (set_merge a b).
Proof.
  intros [Hda HVa] [Hdb HVb] Hlen. split.
  - intros k. pose proof (merge_lookup a b k Hdb) as Hl.
    pose proof (merge_key_disjoint (versions a) (versions b) (entries a !! k) (dead a !! k)
                  (entries b !! k) (dead b !! k) (Hda k)) as Hd. cbv zeta in Hd. rewrite <- Hl in Hd. exact Hd.
  - assert (E : versions (set_merge a b) = vers_merge (versions a) (versions b)).
    { unfold set_merge. destruct (foldl _ _ _) as [[ents dd] old]. destruct (foldl _ _ _) as [e' d']. reflexivity. }
    rewrite E. apply vers_merge_VInv; assumption.
Qed.

(** ** The laws, for replicas of one history within one forgiveness period *)

Section laws.
  Set Default Proof Using "All".
  (** [H]: the operations of the history the replicas stem from, as (key, stamp, is_delete);
      distinct valid stamps, all within one forgiveness period, after the first tick. *)
  Context (H : list (N * N * bool)) (nsrc : nat).
  Context (Hvalid : forall k t d, (k, t, d) ∈ H -> valid_ts t = true /\ 1 <= ts_tick t).
  Context (Hwithin : forall k t d k' t' d', (k, t, d) ∈ H -> (k', t', d') ∈ H -> ts_tick t' < ts_tick t + W).
  Context (Hdistinct : forall k t d k' d', (k, t, d) ∈ H -> (k', t, d') ∈ H -> k = k' /\ d = d').
  Let HS : list N := map (fun o => o.1.2) H.

  (** A replica of the history: set invariant, [nsrc] sources, every recorded maximum and
      everything it holds is an operation of [H]. *)
  Definition MInv (s : oset) : Prop :=
    Inv s /\ length (maxs (versions s)) = nsrc /\ MaxsFrom (versions s) HS /\
    (forall k t d, view s k = Some (t, d) -> (k, t, d) ∈ H).

  Lemma MInv_none_before s k t d : MInv s -> (k, t, d) ∈ H -> before (versions s) t = false.
  Proof.
    intros (Hi & _ & HM & _) Hin. destruct (Hvalid _ _ _ Hin) as [Hv H1].
    destruct (before (versions s) t) eqn:Hb; [|reflexivity].
    destruct (before_witness _ _ _ (proj2 Hi) HM Hv Hb) as (y & Hy & Hvy & _ & Hlt).
    unfold HS in Hy. apply elem_of_list_fmap in Hy as ([[k' t'] d'] & -> & Hin'). cbn [fst snd] in *.
    rewrite (not_before_within t t' Hv Hvy H1 (Hwithin _ _ _ _ _ _ Hin Hin')) in Hlt. discriminate.
  Qed.

  Lemma MInv_consistent a b k : MInv a -> MInv b -> consistent (view a k) (view b k).
  Proof.
    intros (_ & _ & _ & Hsa) (_ & _ & _ & Hsb) t d t' d' Ea Eb ->.
    exact (proj2 (Hdistinct _ _ _ _ _ (Hsa _ _ _ Ea) (Hsb _ _ _ Eb))).
  Qed.

  (** Merging is the per-key maximum, and the result is again a replica of the history. *)
  Lemma merge_is_max a b :
    MInv a -> MInv b ->
    MInv (set_merge a b) /\ forall k, view (set_merge a b) k = vmax (view a k) (view b k).
  Proof.
    intros Ha Hb. pose proof Ha as (Hia & Hla & HMa & Hsa). pose proof Hb as (Hib & Hlb & HMb & Hsb).
    assert (Hview : forall k, view (set_merge a b) k = vmax (view a k) (view b k)).
    { intros k. apply merge_view; [apply Hia|apply Hib| | |apply MInv_consistent; assumption].
      - intros t Hd. eapply (MInv_none_before a k t true Ha). apply Hsb. unfold view.
        destruct (proj1 Hib k) as [He|Hn]; [rewrite He, Hd; reflexivity|congruence].
      - intros t He. eapply (MInv_none_before b k t false Hb). apply Hsa. unfold view. rewrite He. reflexivity. }
    split; [|exact Hview].
    assert (E : versions (set_merge a b) = vers_merge (versions a) (versions b)).
    { unfold set_merge. destruct (foldl _ _ _) as [[ents dd] old]. destruct (foldl _ _ _) as [e' d']. reflexivity. }
    split; [apply merge_Inv; [assumption|assumption|congruence]|]. split; [|split].
    - rewrite E, vers_merge_maxs. unfold merged_maxs. rewrite zip_with_length. lia.
    - rewrite E. apply vers_merge_MaxsFrom; assumption.
    - intros k t d Hv. rewrite Hview in Hv. destruct (vmax_either (view a k) (view b k)) as [E'|E'];
        rewrite E' in Hv; [eapply Hsa|eapply Hsb]; exact Hv.
  Qed.

  Lemma merge_commutative a b k :
    MInv a -> MInv b -> view (set_merge a b) k = view (set_merge b a) k.
  Proof.
    intros Ha Hb. rewrite (proj2 (merge_is_max a b Ha Hb)), (proj2 (merge_is_max b a Hb Ha)).
    apply vmax_comm. apply MInv_consistent; assumption.
  Qed.

  Lemma merge_associative a b c k :
    MInv a -> MInv b -> MInv c ->
    view (set_merge (set_merge a b) c) k = view (set_merge a (set_merge b c)) k.
  Proof.
    intros Ha Hb Hc.
    destruct (merge_is_max a b Ha Hb) as [Hab Vab]. destruct (merge_is_max b c Hb Hc) as [Hbc Vbc].
    rewrite (proj2 (merge_is_max _ c Hab Hc)), (proj2 (merge_is_max a _ Ha Hbc)), Vab, Vbc.
    apply vmax_assoc; apply MInv_consistent; assumption.
  Qed.

  Lemma merge_idempotent a k : MInv a -> view (set_merge a a) k = view a k.
  Proof. intros Ha. rewrite (proj2 (merge_is_max a a Ha Ha)). apply vmax_idem. Qed.

  Lemma merge_again_changes_nothing a b k :
    MInv a -> MInv b -> view (set_merge (set_merge a b) b) k = view (set_merge a b) k.
  Proof.
    intros Ha Hb. destruct (merge_is_max a b Ha Hb) as [Hab Vab].
    rewrite (proj2 (merge_is_max _ b Hab Hb)), Vab. apply vmax_absorb.
  Qed.

  (** Replicas that merged each other's states answer every lookup identically. *)
  Lemma merged_replicas_indistinguishable a b k :
    MInv a -> MInv b -> set_get (set_merge a b) k = set_get (set_merge b a) k.
  Proof. intros Ha Hb. rewrite !get_view, (merge_commutative a b k Ha Hb). reflexivity. Qed.

  (** ... also through a third replica. *)
  Lemma merged_transitively_indistinguishable a b c k :
    MInv a -> MInv b -> MInv c ->
    set_get (set_merge (set_merge a b) c) k = set_get (set_merge c (set_merge b a)) k.
  Proof.
    intros Ha Hb Hc. rewrite !get_view.
    destruct (merge_is_max a b Ha Hb) as [Hab Vab]. destruct (merge_is_max b a Hb Ha) as [Hba Vba].
    rewrite (merge_commutative _ c k Hab Hc).
    rewrite (proj2 (merge_is_max c _ Hc Hab)), (proj2 (merge_is_max c _ Hc Hba)), Vab, Vba.
    rewrite (vmax_comm (view a k) (view b k)) by (apply MInv_consistent; assumption). reflexivity.
  Qed.

  (** Every replica built from operations of the history (any order, any sources) is one. *)
  Lemma run_ops_MInv ops : forall s,
    MInv s -> Forall (fun o => (op_key o, op_ts o, op_del o) ∈ H) ops ->
    MInv (run_ops false s ops).
  Proof.
    induction ops as [|o ops IH]; intros s Hs Hall; [exact Hs|].
    inversion Hall as [|? ? Ho Hall']; subst. unfold run_ops. cbn [foldl]. apply IH; [|exact Hall'].
    destruct Hs as (Hi & Hl & HM & Hsound). destruct (Hvalid _ _ _ Ho) as [Hv _].
    split; [apply apply_op_Inv; assumption|]. split; [rewrite apply_op_length; exact Hl|]. split.
    - eapply MaxsFrom_mono; [apply apply_op_MaxsFrom; exact HM|].
      intros y Hy. apply elem_of_cons in Hy as [->|Hy]; [|exact Hy].
      unfold HS. apply (elem_of_list_fmap_1 (fun o : N * N * bool => o.1.2) H _ Ho).
    - intros k t d Hvw. destruct (apply_op_view false s o (proj1 Hi)) as [Hview _]. rewrite Hview in Hvw.
      destruct (accepted false s o && bool_decide (k = op_key o)) eqn:Eb; [|eapply Hsound; exact Hvw].
      apply andb_true_iff in Eb as [_ Ek]. apply bool_decide_eq_true in Ek. subst k.
      destruct (view s (op_key o)) as [[u ud]|] eqn:Ev; cbn [join] in Hvw.
      + destruct (u <? op_ts o); [injection Hvw as <- <-; exact Ho|].
        destruct ((op_ts o =? u) && ud && negb (op_del o)); [injection Hvw as <- <-; exact Ho|].
        injection Hvw as <- <-. eapply Hsound. exact Ev.
      + injection Hvw as <- <-. exact Ho.
  Qed.

  Lemma MInv_empty : (nsrc > 0)%nat -> MInv (empty_set nsrc).
  Proof.
    intros Hn. split; [apply Inv_empty; exact Hn|]. split; [cbn; apply replicate_length|].
    split; [apply MaxsFrom_empty|]. intros k t d. rewrite view_empty. discriminate.
  Qed.
End laws.
