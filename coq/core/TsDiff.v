(** * TsDiff: which keyspaces of a peer the repair poller synchronises

    [KeyspaceTimestamps::diff] (keyspace/group.rs), called by the poller through
    [KeyspaceTracker::get_diff]: the change stamps the poller recorded for a peer (one per
    keyspace, after the last successful exchange of that keyspace) are compared with the stamps
    the peer reports now; the keyspaces returned are synchronised, every other keyspace is
    skipped.  The code counts: every name of either side gets an entry (stamp first seen, number
    of sides that have it, "stamps differ"), and a name is returned when the stamps differ or only
    one side has it.  The model is that algorithm, literally; keyspace names are numbers. *)

From stdpp Require Import gmap list.
From Coq Require Import NArith.
Open Scope N_scope.

(** [processed]: name -> (stamp first seen, sides counted, stamps differ). *)
Definition visit (p : gmap N (N * nat * bool)) (kv : N * N) : gmap N (N * nat * bool) :=
  match p !! kv.1 with
  | Some (v, c, d) => <[kv.1 := (v, S c, if N.eqb v kv.2 then d else true)]> p
  | None => <[kv.1 := (kv.2, 1%nat, false)]> p
  end.

Definition processed (mine other : gmap N N) : gmap N (N * nat * bool) :=
  foldl visit (foldl visit ∅ (map_to_list mine)) (map_to_list other).

Definition listed (e : N * (N * nat * bool)) : bool :=
  e.2.2 || negb (Nat.eqb e.2.1.2 2).

(** The keyspaces to synchronise (the code returns them in hash order; compared as a set). *)
Definition ts_diff (mine other : gmap N N) : list N :=
  (filter (fun e => listed e = true) (map_to_list (processed mine other))).*1.

(** For the correspondence driver: both sides as association lists (names are unique). *)
Definition ts_diff_lists (mine other : list (N * N)) : list N :=
  ts_diff (list_to_map mine) (list_to_map other).
