(** * Handle: what a client call does besides contacting the selected replicas (C06)

    [ReplicatedStoreHandle::{put, put_many, del, del_many}]: select the replicas of the
    level, apply the mutation locally, REGISTER it with the task distributor (which sends it
    with the next batch to every live member), send it to the selected replicas, count the
    acknowledgements.  The property's failure clause - "the local write is still in place and
    still replicated later" - rests on the registration happening whatever the replicas answer.
    The model is the call as a list of effects; the order is a parameter so that the seeded
    change C06/B (registration moved behind the `?` of the consistency round) is refutable. *)

From Coq Require Import List Arith Lia.
Import ListNotations.
From DC Require Import Cluster.

Inductive effect :=
| ELocal            (* the mutation is applied on the issuer *)
| ERegister         (* ... handed to the task distributor *)
| ESend (j : nat).  (* ... sent to selected replica j *)

(** [register_first = true] is the code. *)
Definition client_call (register_first : bool) (sel : list nat) (acked : nat -> bool)
  : list effect * dist_result :=
  let res := distribute sel acked in
  let sends := map ESend sel in
  if register_first then ([ELocal; ERegister] ++ sends, res)
  else match res with
       | DOk => ([ELocal] ++ sends ++ [ERegister], res)
       | DConsistencyFailure _ _ => ([ELocal] ++ sends, res)   (* early return: never registered *)
       end.

(** Whatever the selected replicas answer, the call applies the mutation locally and registers
    it with the distributor; its result is the count of [distribute]. *)
Lemma client_call_registers sel acked :
  let '(effs, res) := client_call true sel acked in
  In ELocal effs /\ In ERegister effs /\ res = distribute sel acked /\
  (forall j, In j sel -> In (ESend j) effs).
Proof.
  unfold client_call. repeat split.
  - left. reflexivity.
  - right. left. reflexivity.
  - intros j Hj. right. right. apply in_map. exact Hj.
Qed.

(** The seeded order: a failed consistency round leaves the mutation unregistered. *)
Lemma register_after_round_refuted :
  let '(effs, res) := client_call false [1; 2] (fun j => Nat.eqb j 1) in
  res = DConsistencyFailure 1 2 /\ In ELocal effs /\ ~ In ERegister effs.
Proof.
  vm_compute. split; [reflexivity|]. split; [left; reflexivity|].
  intros [H|[H|[H|[]]]]; discriminate.
Qed.
