(** * Hlc: model of [HLCTimestamp::send] / [recv] (datacake-crdt/src/timestamp.rs)
    and of the node clock actor (datacake-node/src/clock.rs).

    The clock is one packed stamp.  The wall clock reading is an argument, in 4 ms
    ticks since the datacake epoch ([get_datacake_timestamp()] is already rounded to
    4 ms), arbitrary and possibly decreasing. *)

From Coq Require Import NArith List Bool.
From DC Require Import Ts.
Import ListNotations.
Open Scope N_scope.

(** [MAX_CLOCK_DRIFT] = 4100 s, in ticks. *)
Definition DRIFT : N := 1025000.
(** Largest wall clock reading whose seconds fit 32 bits. *)
Definition WALL_MAX : N := TS_MAX * 250 + 249.

Inductive hlc_err := ClockDrift | Overflow | DuplicatedNode.

Inductive hres :=
| HOk (t : N)
| HErr (e : hlc_err)
| HPanic.

(** [send]: returns the result and the clock afterwards. *)
Definition send (wall c : N) : hres * N :=
  let ts_old := ts_tick c in
  let c_old := ts_counter c in
  let ts_new := N.max ts_old wall in
  if DRIFT <? ts_new - wall then (HErr ClockDrift, c)
  else if ts_old =? ts_new then
         if c_old =? 65535 then (HErr Overflow, c)
         else let c' := mk_ts ts_new (c_old + 1) (ts_node c) in (HOk c', c')
       else let c' := mk_ts ts_new 0 (ts_node c) in (HOk c', c').

(** Counter selection of [recv]; [None] = overflow of [checked_add]. *)
Definition recv_counter (ts_new ts_old ts_msg c_old c_msg : N) : option N :=
  if (ts_new =? ts_old) && (ts_new =? ts_msg) then
    let m := N.max c_old c_msg in if m =? 65535 then None else Some (m + 1)
  else if ts_new =? ts_old then
    if c_old =? 65535 then None else Some (c_old + 1)
  else if ts_new =? ts_msg then
    if c_msg =? 65535 then None else Some (c_msg + 1)
  else Some 0.

(** [recv]: the returned stamp carries the *message's* node id and is built with
    [HLCTimestamp::new], whose range assert is the [HPanic] outcome (the clock has
    already been updated at that point). *)
Definition recv (wall c msg : N) : hres * N :=
  if ts_node c =? ts_node msg then (HErr DuplicatedNode, c)
  else
    let ts_msg := ts_tick msg in
    let c_msg := ts_counter msg in
    if DRIFT <? ts_msg - wall then (HErr ClockDrift, c)
    else
      let ts_old := ts_tick c in
      let c_old := ts_counter c in
      let ts_new := N.max (N.max ts_old wall) ts_msg in
      if DRIFT <? ts_new - wall then (HErr ClockDrift, c)
      else match recv_counter ts_new ts_old ts_msg c_old c_msg with
           | None => (HErr Overflow, c)
           | Some c_new =>
               let c' := mk_ts ts_new c_new (ts_node c) in
               if TS_MAX <? ts_new / 250 then (HPanic, c')
               else (HOk (mk_ts ts_new (ts_counter c') (ts_node msg)), c')
           end.

(** ** Histories of one clock *)

Inductive hlc_event :=
| ESend (wall : N)
| ERecv (wall msg : N).

Definition hlc_step (c : N) (e : hlc_event) : hres * N :=
  match e with
  | ESend w => send w c
  | ERecv w m => recv w c m
  end.

(** Runs a history; returns the results in order and the final clock. *)
Fixpoint hlc_run (c : N) (evs : list hlc_event) : list hres * N :=
  match evs with
  | [] => ([], c)
  | e :: evs' =>
      let '(r, c') := hlc_step c e in
      let '(rs, c'') := hlc_run c' evs' in
      (r :: rs, c'')
  end.

(** ** The node clock actor ([datacake_node::Clock], [run_clock])

    One task owns the stamp and serves a FIFO queue of [Get] and [Register]
    requests: [Get] = [send().expect(..)] (an error is a panic of the actor task),
    [Register ts] = [let _ = recv(&ts)] (errors ignored). *)
Inductive clock_req :=
| CGet (task : N) (wall : N)
| CRegister (wall : N) (ts : N).

Inductive clock_out :=
| CStamp (task : N) (t : N)   (* reply to a Get *)
| CNone                        (* Register has no reply *)
| CPanic.                      (* the actor task died *)

Fixpoint clock_run (c : N) (q : list clock_req) : list clock_out :=
  match q with
  | [] => []
  | CGet task w :: q' =>
      match send w c with
      | (HOk t, c') => CStamp task t :: clock_run c' q'
      | _ => [CPanic]
      end
  | CRegister w ts :: q' =>
      match recv w c ts with
      | (HPanic, _) => [CPanic]
      | (_, c') => CNone :: clock_run c' q'
      end
  end.
