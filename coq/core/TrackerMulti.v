(** * TrackerMulti: the poller's bookkeeping over all keyspaces of a peer (C01)

    [Tracker.v] is one keyspace; [TsDiff.v] is the choice of keyspaces.  Here both together: a
    peer holds any number of keyspaces, each with a change stamp (the number of writes it has
    applied); a poll sees the stamps at its start, plans exactly the keyspaces whose recorded and
    reported stamps differ ([planned], which is what [ts_diff] lists: [planned_is_ts_diff]), and
    for each planned keyspace gets a GetState reply whose stamp was read when the keyspace had [a]
    writes and whose set when it had [b] - writes may be handled during the poll.  The poller
    records [a] and holds the writes up to [b].

    Proved, for any number of keyspaces and any history of writes and polls in the order of the
    code (stamp read not after set): in every keyspace the recorded stamp never exceeds what has
    been pulled, so a skipped keyspace skips nothing, and one poll after the last write leaves
    the polling node with every write of every keyspace. *)

From stdpp Require Import gmap list.
From Coq Require Import NArith Lia ZifyBool ZifyN ZifyNat.
From DC Require Import TsDiff TsDiffProofs.
Open Scope N_scope.

Record mstate := mkM {
  m_peer : N -> option N;       (* keyspace -> change stamp (writes applied); None = no such keyspace *)
  m_pulled : N -> N;            (* the poller holds the keyspace's writes up to this version *)
  m_recorded : N -> option N    (* stamp recorded after the last successful exchange *)
}.

Definition m_init : mstate := mkM (fun _ => None) (fun _ => 0) (fun _ => None).

Definition version (s : mstate) (k : N) : N := default 0 (m_peer s k).

(** The sync plan of a poll that starts in [s]: exactly [ts_diff]'s criterion. *)
Definition planned (s : mstate) (k : N) : bool :=
  negb (bool_decide (m_recorded s k = m_peer s k)).

(** One GetState exchange per keyspace: stamp read at [a], set read at [b], [extra] writes
    handled by the peer during the poll. *)
Record reply := mkR { r_a : N; r_b : N; r_extra : N }.

Inductive mevent :=
| MWrite (k : N)
| MPoll (r : N -> reply).

Definition mstep (s : mstate) (e : mevent) : mstate :=
  match e with
  | MWrite k =>
      mkM (fun k' => if N.eqb k' k then Some (version s k + 1) else m_peer s k')
          (m_pulled s) (m_recorded s)
  | MPoll r =>
      mkM (fun k => match m_peer s k with Some v => Some (v + r_extra (r k)) | None => None end)
          (fun k => if planned s k && bool_decide (is_Some (m_peer s k))
                    then N.max (m_pulled s k) (r_b (r k)) else m_pulled s k)
          (fun k => if planned s k && bool_decide (is_Some (m_peer s k))
                    then Some (r_a (r k)) else m_recorded s k)
  end.

Definition mrun (s : mstate) (es : list mevent) : mstate := foldl mstep s es.

(** A poll is well-formed in [s] when, in every keyspace of the peer, both reads happen during
    it, the stamp not after the set (the order of the code). *)
Definition m_wf_event (s : mstate) (e : mevent) : Prop :=
  match e with
  | MWrite _ => True
  | MPoll r => forall k v, m_peer s k = Some v ->
      v <= r_a (r k) /\ r_a (r k) <= r_b (r k) /\ r_b (r k) <= v + r_extra (r k)
  end.

Fixpoint m_wf_run (s : mstate) (es : list mevent) : Prop :=
  match es with
  | [] => True
  | e :: rest => m_wf_event s e /\ m_wf_run (mstep s e) rest
  end.

(** Per keyspace: nothing pulled beyond the peer's writes; what is recorded has been pulled; a
    recorded keyspace exists on the peer. *)
Definition MInv (s : mstate) : Prop :=
  forall k,
    m_pulled s k <= version s k /\
    match m_recorded s k with
    | Some r => r <= m_pulled s k /\ is_Some (m_peer s k)
    | None => True
    end.

Lemma MInv_init : MInv m_init.
Proof.
  intros k. unfold version, m_init. cbn [m_peer m_pulled m_recorded default from_option id].
  split; [lia|exact I].
Qed.

Lemma version_write s k0 k :
  version (mstep s (MWrite k0)) k = if N.eqb k k0 then version s k0 + 1 else version s k.
Proof. unfold version. cbn [mstep m_peer]. destruct (N.eqb k k0); reflexivity. Qed.

Lemma version_poll s r k :
  version (mstep s (MPoll r)) k =
  match m_peer s k with Some v => v + r_extra (r k) | None => 0 end.
Proof. unfold version. cbn [mstep m_peer]. destruct (m_peer s k); reflexivity. Qed.

Lemma mstep_inv s e : MInv s -> m_wf_event s e -> MInv (mstep s e).
Proof.
  intros Hi Hw k. destruct (Hi k) as [Hp Hr]. destruct e as [k0|r].
  - rewrite version_write. cbn [mstep m_peer m_pulled m_recorded].
    destruct (N.eqb_spec k k0) as [->|Hne].
    + split; [lia|]. destruct (m_recorded s k0) as [r|]; [|exact I].
      destruct Hr as [Hr _]. split; [exact Hr|eexists; reflexivity].
    + split; [exact Hp|exact Hr].
  - rewrite version_poll. cbn [mstep m_peer m_pulled m_recorded]. cbn in Hw.
    unfold version in Hp. destruct (m_peer s k) as [v|] eqn:Ep; cbn [default from_option id] in Hp.
    + destruct (Hw k v Ep) as (Ha & Hab & Hb).
      rewrite bool_decide_eq_true_2 by (eexists; reflexivity). rewrite andb_true_r.
      destruct (planned s k) eqn:Epl.
      * split; [lia|]. split; [lia|eexists; reflexivity].
      * split; [lia|]. destruct (m_recorded s k) as [r0|]; [|exact I].
        destruct Hr as [Hr _]. split; [exact Hr|eexists; reflexivity].
    + rewrite bool_decide_eq_false_2 by (intros [x Hx]; discriminate). rewrite andb_false_r.
      split; [exact Hp|]. destruct (m_recorded s k) as [r0|]; [|exact I].
      destruct Hr as [_ [x Hx]]. discriminate.
Qed.

Lemma mrun_inv es : forall s, MInv s -> m_wf_run s es -> MInv (mrun s es).
Proof.
  induction es as [|e es IH]; intros s Hi Hw; [exact Hi|].
  destruct Hw as [Hw1 Hw2]. cbn [mrun foldl]. apply IH; [apply mstep_inv; assumption|exact Hw2].
Qed.

(** In every keyspace the recorded stamp never exceeds what has been pulled. *)
Lemma recorded_le_pulled_all es k r :
  m_wf_run m_init es -> m_recorded (mrun m_init es) k = Some r ->
  r <= m_pulled (mrun m_init es) k /\ m_pulled (mrun m_init es) k <= version (mrun m_init es) k.
Proof.
  intros Hw Hr. destruct (mrun_inv es m_init MInv_init Hw k) as [Hp Hx]. rewrite Hr in Hx.
  destruct Hx as [Hx _]. split; assumption.
Qed.

(** A skipped keyspace skips nothing: if a keyspace is not planned, the poller already holds
    every write the keyspace has at the start of the poll. *)
Lemma skipped_keyspace_is_complete es k :
  m_wf_run m_init es ->
  planned (mrun m_init es) k = false ->
  m_pulled (mrun m_init es) k = version (mrun m_init es) k.
Proof.
  intros Hw Hpl. set (s := mrun m_init es) in *.
  destruct (mrun_inv es m_init MInv_init Hw k) as [Hp Hx]. fold s in Hp, Hx.
  unfold planned in Hpl. apply negb_false_iff, bool_decide_eq_true_1 in Hpl.
  unfold version in *. destruct (m_peer s k) as [v|] eqn:Ep; cbn [default from_option id] in *.
  - rewrite Hpl in Hx. destruct Hx as [Hx _]. lia.
  - lia.
Qed.

(** One poll after the last write (no write during it): in EVERY keyspace the polling node holds
    every write of the peer, whether that keyspace was planned or skipped. *)
Definition quiet (s : mstate) : N -> reply := fun k => mkR (version s k) (version s k) 0.

Lemma quiescent_poll_pulls_every_keyspace es k :
  m_wf_run m_init es ->
  let s := mrun m_init es in
  let s' := mstep s (MPoll (quiet s)) in
  m_pulled s' k = version s' k /\ version s' k = version s k.
Proof.
  intros Hw. cbv zeta. set (s := mrun m_init es).
  destruct (mrun_inv es m_init MInv_init Hw k) as [Hp Hx]. fold s in Hp, Hx.
  pose proof (skipped_keyspace_is_complete es k Hw) as Hskip. fold s in Hskip.
  rewrite version_poll. cbn [mstep m_pulled quiet r_a r_b r_extra].
  unfold version in *. destruct (m_peer s k) as [v|] eqn:Ep; cbn [default from_option id] in *.
  - rewrite bool_decide_eq_true_2 by (eexists; reflexivity). rewrite andb_true_r.
    destruct (planned s k) eqn:Epl.
    + split; lia.
    + specialize (Hskip eq_refl). split; lia.
  - rewrite bool_decide_eq_false_2 by (intros [x Hx']; discriminate). rewrite andb_false_r.
    split; [lia|reflexivity].
Qed.

(** [planned] is [ts_diff]: with the recorded and the reported stamps as the maps the code holds,
    a keyspace the peer reports is planned exactly when [KeyspaceTimestamps::diff] lists it. *)
Lemma planned_is_ts_diff (recorded reported : gmap N N) s k :
  (forall k, m_recorded s k = recorded !! k) ->
  (forall k, m_peer s k = reported !! k) ->
  (planned s k = true <-> k ∈ ts_diff recorded reported).
Proof.
  intros Hr Hp. rewrite ts_diff_spec. unfold planned. rewrite Hr, Hp.
  rewrite negb_true_iff. split.
  - intros H. apply bool_decide_eq_false_1 in H. exact H.
  - intros H. apply bool_decide_eq_false_2. exact H.
Qed.
