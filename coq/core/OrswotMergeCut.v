(** * OrswotMergeCut: merging another replica's state never moves a cut-off backwards

    [C08_purged_delete_stays_rejected] quantifies over further operations and purges of the
    replica; [merge] is one more thing a user of the set can do to it.  The merged version
    vector takes, per source and origin, the newer of the two stamps, and recomputes the cut-offs
    of the origins the other side knows: a stamp that was before the cut-off of its origin stays
    before it.  (Seeded change C08/F made [NodeVersions::merge] overwrite instead of taking the
    newer stamp: the cut-off moved back and a purged delete was accepted again.) *)

From stdpp Require Import gmap list.
From Coq Require Import NArith Lia ZArith.
From Coq Require Import ZifyBool ZifyN ZifyNat.
From DC Require Import Ts TsProofs Hlc HlcProofs Orswot OrswotInv OrswotLww OrswotTimely OrswotPurge OrswotMerge.
Open Scope N_scope.

Lemma merge_max_src_stamp_mono n ma mb :
  (forall e, mb !! n = Some e -> valid_ts e = true /\ ts_node e = n) ->
  n <= 255 ->
  src_stamp n ma <= src_stamp n (merge_max ma mb).
Proof.
  intros Hb Hn. unfold src_stamp. rewrite merge_max_lookup.
  destruct (ma !! n) as [a|], (mb !! n) as [b|]; cbn [default from_option id].
  - destruct (N.ltb_spec b a); lia.
  - lia.
  - destruct (Hb b eq_refl) as [Hv Hnode].
    pose proof (zero_ts_le b Hv) as Hz. rewrite Hnode in Hz. lia.
  - lia.
Qed.

Lemma before_persist_merge va vb d :
  VInv va -> VInv vb -> length (maxs va) = length (maxs vb) ->
  valid_ts d = true -> 1 <= ts_tick d ->
  before va d = true -> before (vers_merge va vb) d = true.
Proof.
  intros HVa HVb Hlen Hvd H1 Hb.
  pose proof (vers_merge_VInv va vb HVa HVb Hlen) as HV'.
  destruct HVa as (Hne & Hok & Hsync). destruct HV' as (Hne' & Hok' & Hsync').
  destruct HVb as (_ & Hokb & _).
  destruct (valid_bounds d Hvd) as (_ & _ & _ & Hnd & _).
  assert (Hmono : forall s0 m0 m0', maxs va !! s0 = Some m0 -> maxs (vers_merge va vb) !! s0 = Some m0' ->
                    src_stamp (ts_node d) m0 <= src_stamp (ts_node d) m0').
  { intros s0 m0 m0' Hl0 Hl0'. rewrite vers_merge_maxs in Hl0'.
    destruct (merged_maxs_lookup va vb s0 m0' Hl0') as (ma & mb & Hla & Hlb & ->).
    rewrite Hl0 in Hla. injection Hla as <-.
    apply merge_max_src_stamp_mono; [|exact Hnd].
    intros e He. exact (Hokb s0 mb (ts_node d) e Hlb He). }
  assert (Hlen' : length (maxs va) = length (maxs (vers_merge va vb))).
  { rewrite vers_merge_maxs. unfold merged_maxs. rewrite zip_with_length. lia. }
  unfold before in *. destruct (safe va !! ts_node d) as [c|] eqn:Hs; [|discriminate].
  destruct (Hsync (ts_node d)) as [[_ Hnone]|(x & Hmin & Hsafe)]; [congruence|].
  rewrite Hs in Hsafe. injection Hsafe as ->.
  destruct (Hsync' (ts_node d)) as [[Hun _]|(x' & Hmin' & Hsafe')].
  - exfalso.
    destruct (min_stamp_in _ _ _ Hmin) as (s0 & m0 & Hl0 & ->).
    assert (Hlt : (s0 < length (maxs (vers_merge va vb)))%nat) by (rewrite <- Hlen'; eapply lookup_lt_Some; exact Hl0).
    destruct (lookup_lt_is_Some_2 _ _ Hlt) as [m0' Hl0'].
    pose proof (Hun s0 m0' Hl0') as Hnone.
    pose proof (Hmono s0 m0 m0' Hl0 Hl0') as Hm.
    unfold src_stamp at 2 in Hm. rewrite Hnone in Hm. cbn in Hm.
    destruct (src_stamp_valid va s0 m0 (ts_node d) Hok Hnd Hl0) as (Hvx & Hnx).
    destruct (shiftW_fields _ Hvx) as (A & B & C & D).
    apply ts_lt_lex in Hb; try assumption. rewrite A, B, C in Hb.
    assert (Hz : src_stamp (ts_node d) m0 = zero_ts (ts_node d)).
    { pose proof (zero_ts_le (src_stamp (ts_node d) m0) Hvx) as Hz. rewrite Hnx in Hz. lia. }
    rewrite Hz in Hb. destruct (zero_ts_fields _ Hnd) as (A0 & B0 & C0).
    rewrite A0, B0, C0 in Hb. lia.
  - rewrite Hsafe'.
    destruct (min_stamp_valid va _ x Hok Hnd Hmin) as (Hvx & Hnx).
    destruct (min_stamp_valid (vers_merge va vb) _ x' Hok' Hnd Hmin') as (Hvx' & Hnx').
    apply (shiftW_mono_on x x' d); try assumption; [congruence|].
    assert (x <= x'); [|lia].
    apply (min_stamp_mono (ts_node d) (maxs va) (maxs (vers_merge va vb)) x x' Hlen'); assumption.
Qed.

(** The set-level statement: after merging any other replica's state, a stamp that was before
    the cut-off is still before it. *)
Lemma merge_keeps_cutoff a b d :
  Inv a -> Inv b -> length (maxs (versions a)) = length (maxs (versions b)) ->
  valid_ts d = true -> 1 <= ts_tick d ->
  before (versions a) d = true -> before (versions (set_merge a b)) d = true.
Proof.
  intros [_ HVa] [_ HVb] Hlen Hvd H1 Hb.
  assert (E : versions (set_merge a b) = vers_merge (versions a) (versions b)).
  { unfold set_merge.
    destruct (foldl (merge_step (versions a)) _ _) as [[ents dd] old].
    destruct (foldl (merge_leftover (versions b)) _ _) as [ents' dd']. reflexivity. }
  rewrite E. apply before_persist_merge; assumption.
Qed.

(** ** A replica's life with merges in it *)

Inductive mev :=
| MEv (e : ev)            (* an operation or a purge *)
| MMerge (b : oset).      (* another replica's state is merged in *)

Definition apply_mev (s : oset) (e : mev) : oset :=
  match e with
  | MEv e => apply_ev false s e
  | MMerge b => set_merge s b
  end.

Definition run_mevs (s : oset) (es : list mev) : oset := foldl apply_mev s es.

(** A merged state is a state of a replica with the same number of sources. *)
Definition mev_valid (nsrc : nat) (e : mev) : Prop :=
  match e with
  | MEv e => ev_valid e
  | MMerge b => Inv b /\ length (maxs (versions b)) = nsrc
  end.

Lemma set_merge_versions a b : versions (set_merge a b) = vers_merge (versions a) (versions b).
Proof.
  unfold set_merge.
  destruct (foldl (merge_step (versions a)) _ _) as [[ents dd] old].
  destruct (foldl (merge_leftover (versions b)) _ _) as [ents' dd']. reflexivity.
Qed.

Lemma apply_mev_length s e nsrc :
  length (maxs (versions s)) = nsrc -> mev_valid nsrc e ->
  length (maxs (versions (apply_mev s e))) = nsrc.
Proof.
  intros Hl Hv. destruct e as [[o|]|b]; cbn [apply_mev apply_ev].
  - rewrite apply_op_versions.
    pose proof (try_update_length false (versions s) (op_src o) (op_ts o)) as H. lia.
  - exact Hl.
  - destruct Hv as [_ Hb]. rewrite set_merge_versions, vers_merge_maxs. unfold merged_maxs.
    rewrite zip_with_length. lia.
Qed.

Lemma apply_mev_Inv s e nsrc :
  Inv s -> length (maxs (versions s)) = nsrc -> mev_valid nsrc e -> Inv (apply_mev s e).
Proof.
  intros Hi Hl Hv. destruct e as [e|b]; cbn [apply_mev mev_valid] in *.
  - apply apply_ev_Inv; assumption.
  - destruct Hv as [Hb Hlb]. apply merge_Inv; [assumption|assumption|lia].
Qed.

Lemma before_persist_mevs es : forall s d nsrc,
  Inv s -> length (maxs (versions s)) = nsrc -> Forall (mev_valid nsrc) es ->
  valid_ts d = true -> 1 <= ts_tick d ->
  before (versions s) d = true ->
  before (versions (run_mevs s es)) d = true /\ Inv (run_mevs s es) /\
  length (maxs (versions (run_mevs s es))) = nsrc.
Proof.
  induction es as [|e es IH]; intros s d nsrc Hi Hl Hv Hvd H1 Hb; [auto|].
  apply Forall_cons in Hv as [He Hv']. unfold run_mevs. cbn [foldl].
  apply IH; try assumption.
  - eapply apply_mev_Inv; eauto.
  - apply apply_mev_length; assumption.
  - destruct e as [[o|]|b]; cbn [apply_mev apply_ev mev_valid ev_valid] in *.
    + rewrite apply_op_versions. apply before_persist_try_update; try assumption. apply Hi.
    + exact Hb.
    + destruct He as [Hib Hlb]. apply merge_keeps_cutoff; try assumption. lia.
Qed.

(** After a purge removed the delete [d]: whatever the replica does next - operations, purges,
    merges of other replicas' states - an operation of the deleting node that is not newer than
    [d] is refused and changes nothing. *)
Lemma purged_delete_stays_rejected_merges s k d es o :
  Inv s -> (k, d) ∈ (set_purge s).1 ->
  valid_ts d = true -> 1 <= ts_tick d ->
  Forall (mev_valid (length (maxs (versions s)))) es ->
  valid_ts (op_ts o) = true -> ts_node (op_ts o) = ts_node d -> (d <? op_ts o) = false ->
  let s' := run_mevs (set_purge s).2 es in
  (op_src o < length (maxs (versions s)))%nat ->
  (apply_op false s' o).2 = false /\
  entries (apply_op false s' o).1 = entries s' /\ dead (apply_op false s' o).1 = dead s'.
Proof.
  intros Hi Hp Hvd H1 Hev Hvo Hn Hle s' Hsrc.
  apply purge_purged in Hp as [_ Hb].
  destruct (before_persist_mevs es (set_purge s).2 d (length (maxs (versions s))))
    as (Hb' & Hi' & Hlen'); try assumption; [apply purge_Inv; assumption|reflexivity|].
  fold s' in Hb', Hi', Hlen'.
  assert (Hbo : before (versions s') (op_ts o) = true).
  { unfold before in *. rewrite Hn. destruct (safe (versions s') !! ts_node d); [|discriminate]. lia. }
  assert (Hrej : (try_update false (versions s') (op_src o) (op_ts o)).2 = false).
  { destruct (try_update false (versions s') (op_src o) (op_ts o)) as [v' ok] eqn:Htu.
    assert (Hsrc' : (op_src o < length (maxs (versions s')))%nat) by lia.
    destruct (try_update_accept _ _ _ _ _ (proj2 Hi') Hvo Hsrc' Htu) as [-> _].
    cbn [snd]. rewrite Hbo. reflexivity. }
  destruct o as [src k0 t|src k0 t]; cbn [apply_op op_src op_ts] in *.
  - destruct (insert_ws_refused false s' src k0 t Hrej) as (A & B & C). auto.
  - destruct (delete_ws_refused false s' src k0 t Hrej) as (A & B & C). auto.
Qed.
