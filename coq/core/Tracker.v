(** * Tracker: skipping an unchanged keyspace never skips an unseen write (C01)

    The repair poller does not fetch a peer's keyspace whose change stamp equals the one it
    recorded after its last successful exchange ([KeyspaceTracker]).  The stamp and the set
    travel in ONE GetState reply but are read from the keyspace actor by TWO messages
    ([LastUpdated], then [Serialize]); client writes may be handled in between.  This file
    models exactly that: the peer's keyspace is the list of writes applied so far, its change
    stamp is their number, a GetState reply pairs the stamp read at one moment with the set
    read at another, and the poller's bookkeeping is the recorded stamp.

    Proved: if the handler reads the stamp NOT AFTER the set (the order in the code), the
    recorded stamp never exceeds what has been pulled, hence a skipped poll skips nothing and one
    poll after the last write leaves the repairing node with every write.  With the two reads
    swapped the invariant fails and a write is never pulled (refuted by a witness) - the
    seeded change C01/A. *)

From Coq Require Import List Arith Lia.
Import ListNotations.

Section tracker.

  (** The repairing node's knowledge of one peer's keyspace. *)
  Record poller := mkPoller {
    pulled : nat;            (* it holds every write of the peer up to this version *)
    recorded : option nat    (* the stamp recorded after the last successful exchange *)
  }.

  Definition poller_init : poller := mkPoller 0 None.

  (** Events: the peer applies a write; the poller polls.  A poll that is not skipped gets a
      reply whose stamp was read when the peer had [a] writes and whose set was read when it
      had [b] writes, both between the version at the start of the poll and the version at its
      end (writes handled while the reply is assembled are part of the event). *)
  Inductive event :=
  | EWrite
  | EPoll (a b extra : nat).   (* extra writes handled during the poll: a, b in [v, v+extra] *)

  Definition peer := nat.  (* number of writes applied *)

  Definition step (st : peer * poller) (e : event) : peer * poller :=
    let '(v, p) := st in
    match e with
    | EWrite => (S v, p)
    | EPoll a b extra =>
        (* the poll compares the recorded stamp with the peer's stamp at the START of the poll *)
        if match recorded p with Some r => Nat.eqb r v | None => false end
        then (v + extra, p)
        else (v + extra, mkPoller (Nat.max (pulled p) b) (Some a))
    end.

  Definition run (es : list event) : peer * poller := fold_left step es (0, poller_init).

  (** A poll is well-formed when both reads happen during it. *)
  Definition reads_within (v : nat) (e : event) : Prop :=
    match e with
    | EWrite => True
    | EPoll a b extra => v <= a <= v + extra /\ v <= b <= v + extra
    end.

  (** The order of the code: the stamp is read not after the set. *)
  Definition stamp_first (e : event) : Prop :=
    match e with EWrite => True | EPoll a b _ => a <= b end.

  Fixpoint wf (v : nat) (es : list event) : Prop :=
    match es with
    | [] => True
    | e :: r => reads_within v e /\ wf (fst (step (v, poller_init) e)) r
    end.

  Lemma step_peer v p p' e : fst (step (v, p) e) = fst (step (v, p') e).
  Proof.
    destruct e as [|a b extra]; cbn; [reflexivity|].
    destruct (match recorded p with Some r => Nat.eqb r v | None => false end),
             (match recorded p' with Some r => Nat.eqb r v | None => false end); reflexivity.
  Qed.

  (** Invariant: what is recorded has been pulled, and nothing beyond the peer's writes. *)
  Definition Inv (st : peer * poller) : Prop :=
    pulled (snd st) <= fst st /\
    match recorded (snd st) with Some r => r <= pulled (snd st) | None => True end.

  Lemma step_inv st e :
    Inv st -> reads_within (fst st) e -> stamp_first e -> Inv (step st e).
  Proof.
    destruct st as [v p]. unfold Inv. cbn [fst snd]. intros [Hp Hr] Hw Ho.
    destruct e as [|a b extra]; cbn [step fst snd].
    - split; [lia|exact Hr].
    - cbn in Hw, Ho. destruct (match recorded p with Some r => Nat.eqb r v | None => false end) eqn:E; cbn [fst snd].
      + split; [lia|exact Hr].
      + cbn [pulled recorded]. split; lia.
  Qed.

  Lemma run_inv_gen es : forall st,
    Inv st -> wf (fst st) es -> Forall stamp_first es -> Inv (fold_left step es st).
  Proof.
    induction es as [|e es IH]; intros st Hi Hw Ho; [exact Hi|].
    cbn [fold_left]. destruct Hw as [Hw1 Hw2]. inversion Ho as [|? ? Ho1 Ho2]; subst.
    apply IH; [apply step_inv; assumption| |exact Ho2].
    destruct st as [v p]. cbn [fst] in *. rewrite (step_peer v p poller_init). exact Hw2.
  Qed.

  (** After any well-formed history in the code's order: the recorded stamp never exceeds what
      has been pulled. *)
  Lemma recorded_le_pulled es :
    wf 0 es -> Forall stamp_first es ->
    let st := run es in
    pulled (snd st) <= fst st /\
    match recorded (snd st) with Some r => r <= pulled (snd st) | None => True end.
  Proof.
    intros Hw Ho. apply (run_inv_gen es (0, poller_init)); [|exact Hw|exact Ho].
    unfold Inv. cbn. split; [lia|exact I].
  Qed.

  (** Hence: one poll after the last write (no write during it) leaves the repairing node with
      every write of the peer - whether the poll is skipped or not. *)
  Lemma quiescent_poll_pulls_everything es :
    wf 0 es -> Forall stamp_first es ->
    let v := fst (run es) in
    let st' := step (run es) (EPoll v v 0) in
    pulled (snd st') = fst st' /\ fst st' = v.
  Proof.
    intros Hw Ho. cbv zeta. destruct (recorded_le_pulled es Hw Ho) as [Hp Hr].
    destruct (run es) as [v p]. cbn [fst snd] in *. cbn [step].
    destruct (recorded p) as [r|] eqn:Er.
    - destruct (Nat.eqb_spec r v) as [->|Hne]; cbn [fst snd pulled].
      + split; lia.
      + split; lia.
    - cbn [fst snd pulled]. split; lia.
  Qed.
End tracker.

(** With the two reads swapped (set first, stamp after a write handled in between) the recorded
    stamp runs ahead of what was pulled, the next poll is skipped, and the write is never
    pulled although every later poll "succeeds". *)
Lemma swapped_reads_refuted :
  let es := [EWrite; EPoll 2 1 1; EPoll 2 2 0; EPoll 2 2 0] in
  wf 0 es /\ ~ Forall stamp_first es /\
  fst (run es) = 2 /\ pulled (snd (run es)) = 1 /\ recorded (snd (run es)) = Some 2.
Proof.
  cbv zeta. split; [|split; [|split; [|split]]].
  - cbn. repeat split; lia.
  - intros H. inversion H as [|? ? _ H2]; subst. inversion H2 as [|? ? H3 _]; subst. cbn in H3. lia.
  - reflexivity.
  - reflexivity.
  - reflexivity.
Qed.
