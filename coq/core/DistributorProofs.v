(** * DistributorProofs: the batches of the task distributor partition the stream of
      registered mutations, and go to exactly the live members. *)

From stdpp Require Import gmap list.
From Coq Require Import NArith Lia.
From DC Require Import Ts Orswot Actor Cluster Distributor.

(** ** The drain *)

Lemma mutations_of_app q1 q2 : mutations_of (q1 ++ q2) = mutations_of q1 ++ mutations_of q2.
Proof. unfold mutations_of. apply omap_app. Qed.

Lemma live_of_app live q1 q2 : live_of live (q1 ++ q2) = live_of (live_of live q1) q2.
Proof. unfold live_of. apply foldl_app. Qed.

Lemma ops_of_app e1 e2 : ops_of (e1 ++ e2) = ops_of e1 ++ ops_of e2.
Proof. unfold ops_of. apply omap_app. Qed.

Lemma drain_gen q : forall live ms,
  foldl drain_op (live, ms) q = (live_of live q, ms ++ mutations_of q).
Proof.
  induction q as [|op q IH]; intros live ms; cbn [foldl].
  - cbn. rewrite app_nil_r. reflexivity.
  - destruct op as [j l|m]; cbn [drain_op fst snd].
    + rewrite IH. reflexivity.
    + rewrite IH. cbn. rewrite <- app_assoc. reflexivity.
Qed.

Lemma drain_spec live q : drain live q = (live_of live q, mutations_of q).
Proof. unfold drain. rewrite drain_gen. reflexivity. Qed.

Lemma d_tick_spec s :
  d_tick s =
  (mkD (live_of (d_live s) (d_queue s)) [],
   match mutations_of (d_queue s) with
   | [] => None
   | _ => Some (mkSend (map_to_list (live_of (d_live s) (d_queue s))) (mutations_of (d_queue s)))
   end).
Proof. unfold d_tick. rewrite drain_spec. reflexivity. Qed.

Lemma registers_spec ops : forall s,
  foldl d_register s ops = mkD (d_live s) (d_queue s ++ ops).
Proof.
  induction ops as [|op ops IH]; intros [live q]; cbn [foldl].
  - cbn. rewrite app_nil_r. reflexivity.
  - rewrite IH. cbn. rewrite <- app_assoc. reflexivity.
Qed.

(** A mutation registered before a tick leaves with that tick's batch, in registration order
    together with everything else registered since the previous tick, addressed to the members
    the map holds after all membership changes handed over before the tick. *)
Lemma registered_goes_out s ops m :
  DMutation m ∈ ops ->
  exists x, (d_tick (foldl d_register s ops)).2 = Some x /\
            m ∈ s_batch x /\
            s_batch x = mutations_of (d_queue s ++ ops) /\
            s_to x = map_to_list (live_of (d_live s) (d_queue s ++ ops)).
Proof.
  intros Hin. rewrite registers_spec, d_tick_spec. cbn [d_live d_queue snd].
  assert (Hm : m ∈ mutations_of (d_queue s ++ ops)).
  { unfold mutations_of. apply elem_of_list_omap. exists (DMutation m). split; [|reflexivity].
    apply elem_of_app. right. exact Hin. }
  destruct (mutations_of (d_queue s ++ ops)) as [|m0 ms] eqn:E.
  - apply elem_of_nil in Hm. destruct Hm.
  - eexists. split; [reflexivity|]. cbn. repeat split; try reflexivity. exact Hm.
Qed.

(** Nothing registered: no batch is sent (the interval passes silently). *)
Lemma idle_tick_sends_nothing s :
  mutations_of (d_queue s) = [] -> (d_tick s).2 = None.
Proof. intros E. rewrite d_tick_spec. cbn. rewrite E. reflexivity. Qed.

(** ** Histories *)

Lemma d_run_snoc s es e : d_run s (es ++ [e]) = d_step (d_run s es) e.
Proof. unfold d_run. rewrite foldl_app. reflexivity. Qed.

(** The batches sent so far, followed by what is still queued, are the registered mutations in
    registration order: nothing is lost, duplicated, merged or reordered. *)
Lemma batches_partition_the_stream s0 es :
  concat (map s_batch (d_run s0 es).2) ++ mutations_of (d_queue (d_run s0 es).1)
  = mutations_of (d_queue s0) ++ mutations_of (ops_of es).
Proof.
  induction es as [|e es IH] using rev_ind.
  - cbn. rewrite app_nil_r. reflexivity.
  - rewrite d_run_snoc, ops_of_app, mutations_of_app, app_assoc, <- IH.
    destruct (d_run s0 es) as [s log]. cbn [fst snd] in *.
    destruct e as [op|]; cbn [d_step fst snd].
    + cbn [d_register d_queue ops_of omap]. rewrite mutations_of_app, app_assoc.
      destruct op; reflexivity.
    + rewrite d_tick_spec. cbn [fst snd d_queue ops_of omap]. cbn [mutations_of omap].
      rewrite !app_nil_r.
      destruct (mutations_of (d_queue s)) as [|m ms] eqn:E.
      * rewrite app_nil_r. reflexivity.
      * rewrite map_app, concat_app. cbn. rewrite app_nil_r. reflexivity.
Qed.

(** The live map is a function of the membership changes alone (in the order they were handed
    over): neither the mutations nor the fate of any batch enter it. *)
Lemma live_after_run s0 es :
  let s := (d_run s0 es).1 in
  live_of (d_live s) (d_queue s) = live_of (d_live s0) (d_queue s0 ++ ops_of es).
Proof.
  cbn zeta. induction es as [|e es IH] using rev_ind.
  - cbn. rewrite app_nil_r. reflexivity.
  - rewrite d_run_snoc, ops_of_app, app_assoc, live_of_app, <- IH.
    destruct (d_run s0 es) as [s log]. cbn [fst snd] in *.
    destruct e as [op|]; cbn [d_step fst snd].
    + cbn [d_register d_live d_queue ops_of omap]. rewrite live_of_app. reflexivity.
    + rewrite d_tick_spec. cbn. reflexivity.
Qed.

(** Every batch in the log of a history is addressed to the whole live map of its tick. *)
Lemma every_send_addresses_its_live_map s0 es x :
  x ∈ (d_run s0 es).2 ->
  exists pre, pre `prefix_of` es /\
    s_to x = map_to_list (live_of (d_live s0) (d_queue s0 ++ ops_of pre)) /\ s_batch x <> [].
Proof.
  induction es as [|e es IH] using rev_ind; intros Hx.
  - cbn in Hx. apply elem_of_nil in Hx. destruct Hx.
  - rewrite d_run_snoc in Hx.
    pose proof (live_after_run s0 es) as Hlive. cbn zeta in Hlive.
    destruct (d_run s0 es) as [s log] eqn:Erun. cbn [fst snd] in *.
    destruct e as [op|]; cbn [d_step fst snd] in Hx.
    + destruct (IH Hx) as (pre & Hp & Hto). exists pre. split; [|exact Hto].
      apply prefix_app_r. exact Hp.
    + rewrite d_tick_spec in Hx. cbn [fst snd] in Hx.
      destruct (mutations_of (d_queue s)) as [|m ms] eqn:E.
      * destruct (IH Hx) as (pre & Hp & Hto). exists pre. split; [|exact Hto].
        apply prefix_app_r. exact Hp.
      * apply elem_of_app in Hx. destruct Hx as [Hx|Hx].
        -- destruct (IH Hx) as (pre & Hp & Hto). exists pre. split; [|exact Hto].
           apply prefix_app_r. exact Hp.
        -- apply elem_of_list_singleton in Hx. subst x. exists es. split.
           ++ apply prefix_app_r. reflexivity.
           ++ cbn. rewrite Hlive. split; [reflexivity|discriminate].
Qed.

(** ** Membership changes on the live map *)

Lemma foldl_delete_none (l : list (nat * N)) : forall (live : gmap nat N) i,
  live !! i = None -> foldl (fun l m => delete m.1 l) live l !! i = None.
Proof.
  induction l as [|m l IH]; intros live i Hn; cbn [foldl]; [exact Hn|].
  apply IH. destruct (decide (m.1 = i)) as [->|Hne].
  - apply lookup_delete.
  - rewrite lookup_delete_ne by exact Hne. exact Hn.
Qed.

Lemma foldl_delete_other (l : list (nat * N)) : forall (live : gmap nat N) i,
  i ∉ l.*1 -> foldl (fun l m => delete m.1 l) live l !! i = live !! i.
Proof.
  induction l as [|m l IH]; intros live i Hn; cbn [foldl]; [reflexivity|].
  cbn in Hn. apply not_elem_of_cons in Hn. destruct Hn as [Hne Hn].
  rewrite IH by exact Hn. apply lookup_delete_ne. congruence.
Qed.

Lemma foldl_delete_in (l : list (nat * N)) : forall (live : gmap nat N) i,
  i ∈ l.*1 -> foldl (fun l m => delete m.1 l) live l !! i = None.
Proof.
  induction l as [|m l IH]; intros live i Hin; cbn [foldl].
  - cbn in Hin. apply elem_of_nil in Hin. destruct Hin.
  - cbn in Hin. apply elem_of_cons in Hin. destruct Hin as [->|Hin].
    + apply foldl_delete_none. apply lookup_delete.
    + apply IH. exact Hin.
Qed.

Lemma foldl_insert_other (l : list (nat * N)) : forall (live : gmap nat N) i,
  i ∉ l.*1 -> foldl (fun l m => <[m.1 := m.2]> l) live l !! i = live !! i.
Proof.
  induction l as [|m l IH]; intros live i Hn; cbn [foldl]; [reflexivity|].
  cbn in Hn. apply not_elem_of_cons in Hn. destruct Hn as [Hne Hn].
  rewrite IH by exact Hn. apply lookup_insert_ne. congruence.
Qed.

Lemma foldl_insert_in (l : list (nat * N)) : forall (live : gmap nat N) i a,
  NoDup l.*1 -> (i, a) ∈ l -> foldl (fun l m => <[m.1 := m.2]> l) live l !! i = Some a.
Proof.
  induction l as [|m l IH]; intros live i a Hnd Hin; cbn [foldl].
  - apply elem_of_nil in Hin. destruct Hin.
  - cbn in Hnd. apply NoDup_cons in Hnd. destruct Hnd as [Hnotin Hnd].
    apply elem_of_cons in Hin. destruct Hin as [<-|Hin].
    + cbn [fst snd]. rewrite foldl_insert_other by exact Hnotin. apply lookup_insert.
    + apply IH; assumption.
Qed.

(** A node that joined is live with the address it joined with - also when the same change
    lists it as having left (an address change). *)
Lemma member_apply_joined live joined left i a :
  NoDup joined.*1 -> (i, a) ∈ joined -> member_apply live joined left !! i = Some a.
Proof. intros Hnd Hin. unfold member_apply. apply foldl_insert_in; assumption. Qed.

(** A node that left (and did not join again) is gone. *)
Lemma member_apply_left live joined left i :
  i ∈ left.*1 -> i ∉ joined.*1 -> member_apply live joined left !! i = None.
Proof.
  intros Hl Hj. unfold member_apply. rewrite foldl_insert_other by exact Hj.
  apply foldl_delete_in. exact Hl.
Qed.

(** Every other node is untouched. *)
Lemma member_apply_other live joined left i :
  i ∉ left.*1 -> i ∉ joined.*1 -> member_apply live joined left !! i = live !! i.
Proof.
  intros Hl Hj. unfold member_apply. rewrite foldl_insert_other by exact Hj.
  apply foldl_delete_other. exact Hl.
Qed.

(** ** The batch on the cluster *)

Lemma node_upd' c i x j : (i < length c)%nat ->
  node (upd c i x) j = if decide (j = i) then x else node c j.
Proof.
  intros Hi. unfold node, upd. destruct (decide (j = i)) as [->|Hne].
  - rewrite list_lookup_insert by exact Hi. reflexivity.
  - rewrite list_lookup_insert_ne by congruence. reflexivity.
Qed.

Lemma batches_on_cluster b (l : list (nat * N)) : forall c j,
  NoDup l.*1 -> Forall (fun m => (m.1 < length c)%nat) l ->
  node (crun c (map (fun m => CBatch m.1 b) l)) j =
  if decide (j ∈ l.*1) then apply_reqs (node c j) (batch_requests b) else node c j.
Proof.
  induction l as [|m l IH]; intros c j Hnd Hlen.
  - cbn. destruct (decide (j ∈ [])) as [Hin|_]; [apply elem_of_nil in Hin; destruct Hin|reflexivity].
  - cbn in Hnd. apply NoDup_cons in Hnd. destruct Hnd as [Hnotin Hnd].
    apply Forall_cons in Hlen. destruct Hlen as [Hm Hlen].
    cbn [map]. unfold crun. cbn [foldl]. fold (crun (cstep c (CBatch m.1 b)) (map (fun m0 => CBatch m0.1 b) l)).
    cbn [cstep].
    rewrite IH; [|exact Hnd|].
    2:{ unfold upd. rewrite insert_length. exact Hlen. }
    rewrite node_upd' by exact Hm.
    destruct (decide (j = m.1)) as [->|Hne].
    + destruct (decide (m.1 ∈ l.*1)) as [Hin|_]; [contradiction|].
      destruct (decide (m.1 ∈ (m :: l).*1)) as [_|Hn]; [reflexivity|].
      exfalso. apply Hn. cbn. apply elem_of_cons. left. reflexivity.
    + destruct (decide (j ∈ l.*1)) as [Hin|Hnin].
      * destruct (decide (j ∈ (m :: l).*1)) as [_|Hn]; [reflexivity|].
        exfalso. apply Hn. cbn. apply elem_of_cons. right. exact Hin.
      * destruct (decide (j ∈ (m :: l).*1)) as [Hin|_]; [|reflexivity].
        cbn in Hin. apply elem_of_cons in Hin. destruct Hin as [->|Hin]; contradiction.
Qed.

(** One tick's batch on the cluster: every member of the live map whose link is up applies the
    whole batch; every other node is untouched. *)
Lemma tick_on_cluster (up : nat -> bool) (live : gmap nat N) ms c j :
  (forall i a, live !! i = Some a -> (i < length c)%nat) ->
  node (crun c (tick_events up (mkSend (map_to_list live) ms))) j =
  if decide (is_Some (live !! j) /\ up j = true)
  then apply_reqs (node c j) (batch_requests ms) else node c j.
Proof.
  intros Hrange. unfold tick_events. cbn [s_to s_batch].
  rewrite batches_on_cluster.
  - destruct (decide (j ∈ (filter (fun m => up m.1 = true) (map_to_list live)).*1)) as [Hin|Hnin].
    + apply elem_of_list_fmap in Hin. destruct Hin as ([i a] & -> & Hin).
      apply elem_of_list_filter in Hin. destruct Hin as [Hup Hin]. cbn in Hup.
      apply elem_of_map_to_list in Hin. cbn [fst].
      destruct (decide (is_Some (live !! i) /\ up i = true)) as [_|Hn]; [reflexivity|].
      exfalso. apply Hn. split; [eexists; exact Hin|exact Hup].
    + destruct (decide (is_Some (live !! j) /\ up j = true)) as [[[a Ha] Hup]|_]; [|reflexivity].
      exfalso. apply Hnin. apply elem_of_list_fmap. exists (j, a). split; [reflexivity|].
      apply elem_of_list_filter. split; [exact Hup|]. apply elem_of_map_to_list. exact Ha.
  - apply NoDup_fmap_fst.
    + intros i a1 a2 H1 H2. apply elem_of_list_filter in H1. apply elem_of_list_filter in H2.
      destruct H1 as [_ H1]. destruct H2 as [_ H2].
      apply elem_of_map_to_list in H1. apply elem_of_map_to_list in H2. congruence.
    + apply NoDup_filter. apply NoDup_map_to_list.
  - apply Forall_forall. intros [i a] Hin. apply elem_of_list_filter in Hin.
    destruct Hin as [_ Hin]. apply elem_of_map_to_list in Hin. cbn. eapply Hrange. exact Hin.
Qed.

(** Dropping a peer whose batch failed (seeded change C16/F) is refuted: member 1 never leaves,
    is unreachable for one tick, reachable again - and the next batch is not addressed to it,
    whereas [d_tick] addresses it. *)
Lemma dropping_refuted :
  let p := MPut (mkDoc 7 100 1) in
  let q := MPut (mkDoc 9 102 2) in
  let s0 := foldl d_register d_init [DMember [(1%nat, 11%N); (2%nat, 12%N)] []; DMutation p] in
  let s1 := d_register (d_tick_dropping (fun j => negb (Nat.eqb j 1)) s0).1 (DMutation q) in
  let s1' := d_register (d_tick s0).1 (DMutation q) in
  option_map s_to (d_tick_dropping (fun _ => true) s1).2 = Some [(2%nat, 12%N)] /\
  option_map s_to (d_tick s1').2 = Some [(1%nat, 11%N); (2%nat, 12%N)].
Proof. vm_compute. split; reflexivity. Qed.
