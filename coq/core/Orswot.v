(** * Orswot: model of [datacake_crdt::OrSWotSet<N>] (datacake-crdt/src/orswot.rs)

    Definitions only.  Keys and stamps are [N]; [BTreeMap]/[HashMap] become std++
    [gmap] (canonical, so equal contents = equal maps).  The number of sources [N] of
    the Rust type is the length of [maxs]. *)

From stdpp Require Import gmap list sorting.
From Coq Require Import NArith.
From DC Require Import Ts.
Open Scope N_scope.

(** [FORGIVENESS_PERIOD] = 3600 s, in 4 ms ticks (the value of every non-test build). *)
Definition W : N := 900000.

(** [HLCTimestamp::new(Duration::from_secs(0), 0, node)] *)
Definition zero_ts (n : N) : N := n.

(** The cut-off of [compute_safe_last_stamp]:
    [new(min.datacake_timestamp().saturating_sub(FORGIVENESS_PERIOD), min.counter(), min.node())]. *)
Definition shiftW (m : N) : N := mk_ts (ts_tick m - W) (ts_counter m) (ts_node m).

Record vers := mkVers {
  maxs : list (gmap N N);      (* nodes_max_stamps[source][origin] *)
  safe : gmap N N              (* safe_last_stamps[origin] *)
}.

Record oset := mkSet {
  entries : gmap N N;
  dead : gmap N N;
  versions : vers
}.

Definition empty_vers (nsrc : nat) : vers := mkVers (replicate nsrc ∅) ∅.
Definition empty_set (nsrc : nat) : oset := mkSet ∅ ∅ (empty_vers nsrc).

Definition src_stamp (n : N) (m : gmap N N) : N := default (zero_ts n) (m !! n).

Definition min_stamp (n : N) (ms : list (gmap N N)) : option N :=
  match ms with
  | [] => None
  | m :: ms' => Some (foldr (fun m' acc => N.min (src_stamp n m') acc) (src_stamp n m) ms')
  end.

Definition compute_safe (v : vers) (n : N) : vers :=
  match min_stamp n (maxs v) with
  | Some m => mkVers (maxs v) (<[n := shiftW m]> (safe v))
  | None => v
  end.

(** [is_ts_before_last_observed_event] *)
Definition before (v : vers) (t : N) : bool :=
  match safe v !! ts_node t with
  | Some c => t <? c
  | None => false
  end.

Definition set_max (v : vers) (src : nat) (t : N) : vers :=
  mkVers (alter (fun m => <[ts_node t := t]> m) src (maxs v)) (safe v).

(** [try_update_max_stamp].  [legacy = true] is the rule before the repair of defect
    D1 (an operation older than the newest stamp seen from the same origin on the same
    source is always refused); [legacy = false] is the repaired rule (it is refused
    only if it is older than the safe cut-off, as [will_apply], [diff] and
    [purge_old_deletes] already decide). *)
Definition try_update (legacy : bool) (v : vers) (src : nat) (t : N) : vers * bool :=
  match (maxs v !! src) ≫= (fun m => m !! ts_node t) with
  | Some e =>
      if t <? e then
        let v' := compute_safe v (ts_node t) in
        (v', if legacy then false else negb (before v' t))
      else (compute_safe (set_max v src t) (ts_node t), true)
  | None => (compute_safe (set_max v src t) (ts_node t), true)
  end.

(** [insert_with_source]: returns the new set and [has_set]. *)
Definition insert_ws (legacy : bool) (s : oset) (src : nat) (k t : N) : oset * bool :=
  let '(v', ok) := try_update legacy (versions s) src t in
  if negb ok then (mkSet (entries s) (dead s) v', false)
  else
    let ins (dead' : gmap N N) :=
      match entries s !! k with
      | Some e => if e <? t then (mkSet (<[k := t]> (entries s)) dead' v', true)
                  else (mkSet (entries s) dead' v', false)
      | None => (mkSet (<[k := t]> (entries s)) dead' v', true)
      end in
    match dead s !! k with
    | Some d => if t <? d then (mkSet (entries s) (dead s) v', false)
                else ins (delete k (dead s))
    | None => ins (dead s)
    end.

(** [delete_with_source] *)
Definition delete_ws (legacy : bool) (s : oset) (src : nat) (k t : N) : oset * bool :=
  let '(v', ok) := try_update legacy (versions s) src t in
  if negb ok then (mkSet (entries s) (dead s) v', false)
  else
    let del (entries' : gmap N N) :=
      match dead s !! k with
      | Some d => if d <? t then (mkSet entries' (<[k := t]> (dead s)) v', true)
                  else (mkSet entries' (dead s) v', false)
      | None => (mkSet entries' (<[k := t]> (dead s)) v', true)
      end in
    match entries s !! k with
    | Some e => if t <=? e then (mkSet (entries s) (dead s) v', false)
                else del (delete k (entries s))
    | None => del (entries s)
    end.

Definition will_apply (s : oset) (k t : N) : bool :=
  if before (versions s) t then false
  else match entries s !! k with
       | Some e => e <? t
       | None => match dead s !! k with
                 | Some d => d <? t
                 | None => true
                 end
       end.

Definition set_get (s : oset) (k : N) : option N := entries s !! k.

(** [check_self_then_insert_to] *)
Definition diff_wants (a : oset) (k t : N) : bool :=
  match entries a !! k with
  | Some e => e <? t
  | None => match dead a !! k with
            | Some d => d <? t
            | None => negb (before (versions a) t)
            end
  end.

(** [a.diff(&b)]: (modified, removed); the order of the lists is the map order here and
    arbitrary in Rust — compared after sorting. *)
Definition set_diff (a b : oset) : list (N * N) * list (N * N) :=
  (filter (fun kt => diff_wants a kt.1 kt.2 = true) (map_to_list (entries b)),
   filter (fun kt => diff_wants a kt.1 kt.2 = true) (map_to_list (dead b))).

(** [purge_old_deletes]: returns the purged tombstones and the new set. *)
Definition set_purge (s : oset) : list (N * N) * oset :=
  let purged := filter (fun kt => before (versions s) kt.2 = true) (map_to_list (dead s)) in
  (purged,
   mkSet (entries s) (filter (fun kt => before (versions s) kt.2 = false) (dead s)) (versions s)).

Definition add_raw_tombstones (s : oset) (l : list (N * N)) : oset :=
  mkSet (entries s) (foldl (fun d kt => <[kt.1 := kt.2]> d) (dead s) l) (versions s).

(** ** merge *)

(** [NodeVersions::merge]: pointwise maxima of the per-source stamps, then the safe
    stamps of every origin the other side knows are recomputed. *)
Definition merge_max (m o : gmap N N) : gmap N N :=
  union_with (fun a b => Some (if b <? a then a else b)) m o.

Definition vers_merge (v o : vers) : vers :=
  let ms := zip_with merge_max (maxs v) (maxs o) in
  let nodes := remove_dups (concat (map (fun m => (map_to_list m).*1) (maxs o))) in
  foldl compute_safe (mkVers ms (safe v)) nodes.

Record logent := mkLog { l_key : N; l_ts : N; l_del : bool }.

(** State of the main loop of [merge]: (entries, dead, old_entries). *)
Definition merge_step (av : vers) (st : gmap N N * gmap N N * gmap N N) (e : logent)
  : gmap N N * gmap N N * gmap N N :=
  let '(ents, dd, old) := st in
  let k := l_key e in
  let ts := l_ts e in
  if l_del e then
    if before av ts then st
    else
      let dead_max := match dd !! k with
                      | Some d => <[k := (if ts <? d then d else ts)]> dd
                      | None => <[k := ts]> dd
                      end in
      match ents !! k with
      | Some e' => if ts <? e' then st else (delete k ents, dead_max, old)
      | None => (ents, dead_max, old)
      end
  else
    let timestamp := match old !! k with
                     | Some ex => if ts <? ex then ex else ts
                     | None => ts
                     end in
    let old' := delete k old in
    match dd !! k with
    | Some d => if timestamp <? d then (ents, dd, old')
                else (<[k := timestamp]> ents, delete k dd, old')
    | None => (<[k := timestamp]> ents, dd, old')
    end.

Definition merge_leftover (bv : vers) (st : gmap N N * gmap N N) (kt : N * N)
  : gmap N N * gmap N N :=
  let '(ents, dd) := st in
  let k := kt.1 in
  let ts := kt.2 in
  if before bv ts then st
  else match dd !! k with
       | Some d => if ts <? d then st else (<[k := ts]> ents, delete k dd)
       | None => (<[k := ts]> ents, dd)
       end.

Definition log_le (x y : logent) : Prop := (l_ts x <=? l_ts y) = true.
Global Instance log_le_dec : RelDecision log_le.
Proof. intros x y. unfold log_le. apply bool_eq_dec. Defined.

(** [a.merge(b)] *)
Definition set_merge (a b : oset) : oset :=
  let log := map (fun kt => mkLog kt.1 kt.2 false) (map_to_list (entries b)) ++
             map (fun kt => mkLog kt.1 kt.2 true) (map_to_list (dead b)) in
  let log := merge_sort log_le log in
  let '(ents, dd, old) := foldl (merge_step (versions a)) (∅, dead a, entries a) log in
  let '(ents', dd') := foldl (merge_leftover (versions b)) (ents, dd) (map_to_list old) in
  mkSet ents' dd' (vers_merge (versions a) (versions b)).

(** ** Observations used by the theorems and by the correspondence check *)

(** What the set holds for a key: [(t, false)] live at [t], [(t, true)] tombstone at [t]. *)
Definition view (s : oset) (k : N) : option (N * bool) :=
  match entries s !! k with
  | Some t => Some (t, false)
  | None => match dead s !! k with
            | Some d => Some (d, true)
            | None => None
            end
  end.

(** An operation of a history. *)
Inductive op :=
| OIns (src : nat) (k t : N)
| ODel (src : nat) (k t : N).

Definition op_key (o : op) : N := match o with OIns _ k _ | ODel _ k _ => k end.
Definition op_ts (o : op) : N := match o with OIns _ _ t | ODel _ _ t => t end.
Definition op_src (o : op) : nat := match o with OIns s _ _ | ODel s _ _ => s end.
Definition op_del (o : op) : bool := match o with OIns _ _ _ => false | ODel _ _ _ => true end.

Definition apply_op (legacy : bool) (s : oset) (o : op) : oset * bool :=
  match o with
  | OIns src k t => insert_ws legacy s src k t
  | ODel src k t => delete_ws legacy s src k t
  end.

Definition run_ops (legacy : bool) (s : oset) (ops : list op) : oset :=
  foldl (fun s o => (apply_op legacy s o).1) s ops.

(** Monomorphic observers for the extracted driver. *)
Definition entries_list (s : oset) : list (N * N) := map_to_list (entries s).
Definition dead_list (s : oset) : list (N * N) := map_to_list (dead s).
Definition before_set (s : oset) (t : N) : bool := before (versions s) t.
