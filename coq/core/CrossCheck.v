(** * CrossCheck: the extracted model re-evaluated inside Coq

    The correspondence leg runs the EXTRACTED model (OCaml).  To keep extraction and the
    hand-written OCaml driver out of the places where a wrong answer could hide, every check on
    the set model re-evaluates a sample of its cases with [vm_compute] inside Coq: the harness
    writes, for each sampled case, the tokens together with the outputs the extracted model
    printed, and [xcheck] says whether the Gallina definitions give the same outputs. *)

From stdpp Require Import gmap list.
From Coq Require Import NArith.
From DC Require Import Ts Orswot.
Open Scope N_scope.

Inductive xtok :=
| XI (src : nat) (k t : N) (out : bool)
| XD (src : nat) (k t : N) (out : bool)
| XW (k t : N) (out : bool)
| XG (k : N) (out : option N)
| XP (out : list (N * N))
| XS (probes : list N) (e d : list (N * N)) (b : list bool).

Definition same_pairs (m : gmap N N) (l : list (N * N)) : bool :=
  Nat.eqb (length l) (size m) &&
  forallb (fun kt : N * N => match m !! kt.1 with Some t => t =? kt.2 | None => false end) l.

Definition same_pair_list (got l : list (N * N)) : bool :=
  same_pairs (list_to_map got) l && Nat.eqb (length got) (length l).

Definition opt_eqb (a b : option N) : bool :=
  match a, b with Some x, Some y => x =? y | None, None => true | _, _ => false end.

Fixpoint list_eqb (a b : list bool) : bool :=
  match a, b with
  | [], [] => true
  | x :: r, y :: r' => Bool.eqb x y && list_eqb r r'
  | _, _ => false
  end.

Fixpoint xcheck (s : oset) (ts : list xtok) : bool :=
  match ts with
  | [] => true
  | XI src k t out :: r => let '(s', b) := insert_ws false s src k t in Bool.eqb b out && xcheck s' r
  | XD src k t out :: r => let '(s', b) := delete_ws false s src k t in Bool.eqb b out && xcheck s' r
  | XW k t out :: r => Bool.eqb (will_apply s k t) out && xcheck s r
  | XG k out :: r => opt_eqb (set_get s k) out && xcheck s r
  | XP out :: r => let '(purged, s') := set_purge s in same_pair_list purged out && xcheck s' r
  | XS probes e d b :: r =>
      same_pairs (entries s) e && same_pairs (dead s) d &&
      list_eqb (map (before_set s) probes) b && xcheck s r
  end.
