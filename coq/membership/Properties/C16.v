(** * C16 — Membership change events add up to the live membership

    This file contains only the property theorems (each closed by [exact] of a lemma proved
    in [MembershipProofs.v]) and a non-vacuity example.

    Reading guide.  A snapshot is the list of cluster members [(node id, address, data
    centre)] the membership layer reports live; [netset self s] is the set of *other* nodes
    of [s] as [(id, address)] pairs — what replication and repair must address.  A history
    [h] is: the snapshots published before the subscriber was created ([h_pre]), then the
    interleaving of further snapshots and polls of the subscriber ([h_post]); the run ends
    with a poll (membership is quiescent).  [holds self h]: the map the subscriber built
    from the events it was handed equals [netset self (last_snapshot h)].

    [Late] and [Coalesced] are the two known classes of defect D9 (deltas travel on a
    latest-value watch channel): a delta published before the subscription, respectively
    after it, was overwritten before the subscriber polled.  Outside them the property is
    proved for every history; inside each of them it is refuted by a witness. *)

From Coq Require Import NArith List.
From DC Require Import Membership MembershipProofs.
Import ListNotations.
Open Scope N_scope.

(** (1) The differ is exact: [joined] = the members of [new] (other than the node itself)
    whose (id, address) was not in [prev]; [left] = the members of [prev] — with the data
    they had in [prev] — whose (id, address) is not in [new]. *)
Theorem C16_differ_exact :
  forall self prev new, wf_snapshot prev -> wf_snapshot new ->
    (forall m, In m (ch_joined (differ self prev new)) <->
               In m new /\ m_id m <> self /\ ~ In (m_id m, m_addr m) (netset self prev)) /\
    (forall m, In m (ch_left (differ self prev new)) <->
               In m prev /\ m_id m <> self /\ ~ In (m_id m, m_addr m) (netset self new)).
Proof. exact differ_exact. Qed.

(** Every node that disappears is reported as having left, with the address it had. *)
Theorem C16_departed_node_is_reported_left :
  forall self prev new m, wf_snapshot prev -> wf_snapshot new ->
    In m prev -> m_id m <> self -> get_member (m_id m) new = None ->
    In m (ch_left (differ self prev new)).
Proof. exact differ_gone_is_left. Qed.

(** An address change is a leave (with the old data) plus a join (with the new data). *)
Theorem C16_address_change_is_leave_plus_join :
  forall self prev new m m', wf_snapshot prev -> wf_snapshot new ->
    In m prev -> In m' new -> m_id m = m_id m' -> m_id m <> self -> m_addr m <> m_addr m' ->
    In m (ch_left (differ self prev new)) /\ In m' (ch_joined (differ self prev new)).
Proof. exact differ_address_change. Qed.

(** One event applied the way the consumers do turns the previous set of live peers into
    the new one. *)
Theorem C16_applying_a_change_gives_the_new_peers :
  forall self prev new l, wf_snapshot prev -> wf_snapshot new ->
    same_map l (netset self prev) ->
    same_map (apply l (differ self prev new)) (netset self new).
Proof. exact apply_differ. Qed.

(** (2) For every history outside the two known classes the events add up. *)
Theorem C16_events_add_up :
  forall self h, wf_history h -> ~ Late h -> ~ Coalesced h -> holds self h.
Proof. exact events_add_up. Qed.

(** In particular: a subscriber present from the start that polls between every two
    publications holds exactly the last snapshot's other nodes. *)
Theorem C16_diligent_subscriber_holds_live_peers :
  forall self h, wf_history h -> diligent h -> holds self h.
Proof. exact diligent_holds. Qed.

Theorem C16_diligent_is_outside_known_classes :
  forall h, diligent h -> ~ Late h /\ ~ Coalesced h.
Proof. exact diligent_not_late_not_coalesced. Qed.

(** (3) Inside each known class the property fails (defect D9, not repaired). *)
Theorem C16_late_witness :
  exists self h, wf_history h /\ Late h /\ ~ holds self h.
Proof.
  exact (ex_intro _ 0 (ex_intro _ late_witness
    (conj (proj1 late_witness_fails)
      (conj (proj1 (proj2 late_witness_fails))
            (proj2 (proj2 (proj2 (proj2 late_witness_fails)))))))).
Qed.

Theorem C16_coalesced_witness :
  exists self h, wf_history h /\ Coalesced h /\ ~ Late h /\ ~ holds self h.
Proof.
  exact (ex_intro _ 0 (ex_intro _ coalesced_witness
    (conj (proj1 coalesced_witness_fails)
      (conj (proj1 (proj2 coalesced_witness_fails))
        (conj (proj1 (proj2 (proj2 coalesced_witness_fails)))
              (proj2 (proj2 (proj2 (proj2 coalesced_witness_fails))))))))).
Qed.

(** Both classes are decidable predicates on the shape of the history. *)
Theorem C16_late_decidable : forall h, {Late h} + {~ Late h}.
Proof. exact late_dec. Qed.
Theorem C16_coalesced_decidable : forall h, {Coalesced h} + {~ Coalesced h}.
Proof. exact coalesced_dec. Qed.

(** The executable verdict that the correspondence compares with the implementation's
    oracle decides the property; the subscriber's map has one entry per node. *)
Theorem C16_executable_verdict_decides :
  forall self h, wf_history h -> (holds_b self h = true <-> holds self h).
Proof. exact holds_b_iff. Qed.

Theorem C16_one_entry_per_node :
  forall self h, NoDup (map fst (final_live self h)).
Proof. exact final_live_nodup. Qed.

(** The code as it stood before the repair of D8: a departed node is not reported in
    [left] (so a subscriber that misses nothing still keeps it as a live peer), and on an
    address change [left] carries the new data. *)
Theorem C16_legacy_left_refuted :
  wf_snapshot w_s0 /\ wf_snapshot w_s2 /\
  In (1, 10, 1) w_s0 /\ get_member 1 w_s2 = None /\
  ch_left (legacy_differ 0 w_s0 w_s2) = [] /\
  ch_left (differ 0 w_s0 w_s2) = [(1, 10, 1)].
Proof. exact legacy_left_empty. Qed.

Theorem C16_legacy_events_refuted :
  exists self h, wf_history h /\ diligent h /\ ~ Late h /\ ~ Coalesced h /\
                 ~ holds_with legacy_differ_step self h /\ holds self h.
Proof.
  exact (ex_intro _ 0 (ex_intro _ legacy_witness
    (conj (proj1 legacy_events_do_not_add_up)
      (conj (proj1 (proj2 legacy_events_do_not_add_up))
        (conj (proj1 (proj2 (proj2 legacy_events_do_not_add_up)))
          (conj (proj1 (proj2 (proj2 (proj2 legacy_events_do_not_add_up))))
                (proj2 (proj2 (proj2 (proj2 (proj2 legacy_events_do_not_add_up))))))))))).
Qed.

(** The consumers remove the [left] members BEFORE inserting the [joined] ones.  The order
    matters: an address change carries one node id in both lists.  Applied joined-first (seeded
    change C16/B) the freshly inserted peer is removed again and the consumer ends up without
    it, although it was handed every change in order. *)
Definition apply_joined_first (l : live_map) (c : change) : live_map :=
  let l1 := fold_left (fun acc m => live_insert (m_id m) (m_addr m) acc) (ch_joined c) l in
  fold_left (fun acc m => live_remove (m_id m) acc) (ch_left c) l1.

Theorem C16_joined_before_left_refuted :
  let prev := [(0, 65535, 0); (1, 10, 1)] in
  let new := [(0, 65535, 0); (1, 11, 1)] in      (* node 1 came back under another address *)
  let l := netset 0 prev in
  apply l (differ 0 prev new) = [(1, 11)] /\
  apply_joined_first l (differ 0 prev new) = [] /\
  netset 0 new = [(1, 11)].
Proof. vm_compute. repeat split; reflexivity. Qed.

(** Non-vacuity: a concrete history with a join, an address change, a leave and a rejoin,
    read by a subscriber created after the first publication, meets the hypotheses of
    [C16_events_add_up]; and a late + slow subscriber does not. *)
Example C16_nonvacuous :
  let a : snapshot := [(0, 65535, 0); (1, 10, 1)] in
  let b : snapshot := [(0, 65535, 0); (1, 11, 1); (2, 12, 0)] in
  let c : snapshot := [(0, 65535, 0); (2, 12, 0)] in
  let d : snapshot := [(0, 65535, 0); (1, 10, 0); (2, 12, 0)] in
  let h := mk_hist [a] [Read; Snap b; Read; Read; Snap c; Read; Snap d] in
  wf_history h /\ ~ Late h /\ ~ Coalesced h /\ ~ diligent h /\
  final_live 0 h = [(1, 10); (2, 12)] /\
  trace_of 0 h = [Some (mk_change [(1, 10, 1)] []);
                  Some (mk_change [(1, 11, 1); (2, 12, 0)] [(1, 10, 1)]);
                  None;
                  Some (mk_change [] [(1, 11, 1)]);
                  Some (mk_change [(1, 10, 0)] [])] /\
  Late (mk_hist [a; b] [Snap c]) /\ Coalesced (mk_hist [a; b] [Snap c; Snap d]).
Proof.
  cbv zeta.
  split; [repeat constructor; cbn; intuition discriminate|].
  split; [intros H; discriminate H|]. split; [intros H; discriminate H|].
  split; [intros [H _]; discriminate H|].
  repeat split; reflexivity.
Qed.
