(** * Membership: model of the membership change events of [datacake-node]

    Definitions only (the executable model).  Proofs are in [MembershipProofs.v].

    Modelled code:
    - [datacake-node/src/lib.rs] [watch_membership_changes]: the set difference between
      consecutive membership snapshots ([differ_step]), published on a tokio
      [watch] channel (a single cell holding the latest value and a version);
    - [DatacakeNode::membership_changes] / [DatacakeHandle::membership_changes]:
      [WatchStream::new(receiver.clone())] — a fresh subscriber yields the cell's current
      value first, afterwards only when the version is one it has not seen ([sub_read]);
    - the consumers in [datacake-eventual-consistency] ([replication/distributor.rs],
      [replication/poller.rs]): [live_members] maps driven by these events ([apply]).

    A cluster member is [(node_id, public_addr, data_center)], all three abstracted to
    numbers.  A snapshot ([NodeMembership = BTreeMap<NodeId, ClusterMember>]) is the list of
    its values in key order; keys are the members' own node ids, so ids are unique
    ([wf_snapshot]). *)

From Coq Require Import NArith List Bool Arith.
Import ListNotations.
Open Scope N_scope.

Definition member : Type := (N * N * N)%type.
Definition m_id (m : member) : N := fst (fst m).
Definition m_addr (m : member) : N := snd (fst m).
Definition m_dc (m : member) : N := snd m.

Definition snapshot : Type := list member.

(** [MembershipChange { joined, left }] *)
Record change : Type := mk_change { ch_joined : list member; ch_left : list member }.
Definition empty_change : change := mk_change [] [].   (* MembershipChange::default() *)

(** ** The differ: one iteration of the loop in [watch_membership_changes] *)

(** [members.iter().filter(|(id,_)| id != self).map(|(_,m)| (m.node_id, m.public_addr))]
    collected into a [BTreeSet]. *)
Definition netset (self : N) (s : snapshot) : list (N * N) :=
  map (fun m => (m_id m, m_addr m)) (filter (fun m => negb (m_id m =? self)) s).

Definition pair_eqb (x y : N * N) : bool := (fst x =? fst y) && (snd x =? snd y).
Definition mem_pair (x : N * N) (l : list (N * N)) : bool := existsb (pair_eqb x) l.

(** [a.difference(&b)] *)
Definition set_diff (a b : list (N * N)) : list (N * N) :=
  filter (fun x => negb (mem_pair x b)) a.

(** [members.get(node_id)] *)
Definition get_member (i : N) (s : snapshot) : option member :=
  find (fun m => m_id m =? i) s.

(** [for (node_id, _) in set { if let Some(member) = map.get(node_id) { out.push(member.clone()) } }] *)
Definition lookup_all (ids : list (N * N)) (s : snapshot) : list member :=
  flat_map (fun x => match get_member (fst x) s with Some m => [m] | None => [] end) ids.

(** State the watcher task keeps between two snapshots: [last_network_set] and (since
    the repair of defect D8) the previous membership map. *)
Record publisher : Type := mk_pub { last_set : list (N * N); last_members : snapshot }.
Definition init_pub : publisher := mk_pub [] [].

Definition differ_step (self : N) (pb : publisher) (members : snapshot) : change * publisher :=
  let new_set := netset self members in
  let l := lookup_all (set_diff (last_set pb) new_set) (last_members pb) in
  let j := lookup_all (set_diff new_set (last_set pb)) members in
  (mk_change j l, mk_pub new_set members).

(** The code before the repair of D8: departed nodes are looked up in the *new* snapshot. *)
Definition legacy_differ_step (self : N) (pb : publisher) (members : snapshot) : change * publisher :=
  let new_set := netset self members in
  let l := lookup_all (set_diff (last_set pb) new_set) members in
  let j := lookup_all (set_diff new_set (last_set pb)) members in
  (mk_change j l, mk_pub new_set members).

(** The change published when the watcher, having last seen [prev], sees [new]. *)
Definition differ (self : N) (prev new : snapshot) : change :=
  fst (differ_step self (mk_pub (netset self prev) prev) new).
Definition legacy_differ (self : N) (prev new : snapshot) : change :=
  fst (legacy_differ_step self (mk_pub (netset self prev) prev) new).

(** ** The watch channel and the watcher task

    [sys] = the watcher's state plus the watch cell [(value, version)].  The channel is
    created with [MembershipChange::default()] at version 0; every [send] replaces the value
    and increments the version. *)
Record sys : Type := mk_sys { s_pub : publisher; s_val : change; s_ver : nat }.
Definition init_sys : sys := mk_sys init_pub empty_change 0.

Definition publish_with (step : N -> publisher -> snapshot -> change * publisher)
           (self : N) (st : sys) (members : snapshot) : sys :=
  let cp := step self (s_pub st) members in
  mk_sys (snd cp) (fst cp) (S (s_ver st)).
Definition publish := publish_with differ_step.

(** ** The subscriber: a [WatchStream] plus the consumer's [live_members] map *)

Definition live_map : Type := list (N * N).          (* node_id -> public_addr *)

Definition live_remove (i : N) (l : live_map) : live_map :=
  filter (fun x => negb (fst x =? i)) l.
Definition live_insert (i a : N) (l : live_map) : live_map := (i, a) :: live_remove i l.

(** [for m in changes.left { live.remove(&m.node_id) }; for m in changes.joined { live.insert(m.node_id, m.public_addr) }] *)
Definition apply (l : live_map) (c : change) : live_map :=
  let l1 := fold_left (fun acc m => live_remove (m_id m) acc) (ch_left c) l in
  fold_left (fun acc m => live_insert (m_id m) (m_addr m) acc) (ch_joined c) l1.

Definition lookup (i : N) (l : live_map) : option N :=
  option_map snd (find (fun x => fst x =? i) l).

Record subscriber : Type := mk_sub { sb_fresh : bool; sb_seen : nat; sb_live : live_map }.
Definition new_sub : subscriber := mk_sub true 0 [].

(** Does a poll of the stream yield a value now? *)
Definition unread (st : sys) (sb : subscriber) : bool :=
  sb_fresh sb || (sb_seen sb <? s_ver st)%nat.

(** One poll of the subscriber's stream: the value it yields (if any; [None] = pending) and
    the subscriber after it has applied that value. *)
Definition sub_read (st : sys) (sb : subscriber) : option change * subscriber :=
  if unread st sb
  then (Some (s_val st), mk_sub false (s_ver st) (apply (sb_live sb) (s_val st)))
  else (None, sb).

(** ** Histories

    [pre]: the snapshots the watcher processed before the subscriber was created;
    [post]: what happens afterwards — further snapshots and polls of the subscriber, in
    order.  The run ends with one more poll (membership is quiescent and the subscriber
    catches up). *)
Inductive event : Type := Snap (s : snapshot) | Read.
Record history : Type := mk_hist { h_pre : list snapshot; h_post : list event }.

Definition step_with (stp : N -> publisher -> snapshot -> change * publisher)
           (self : N) (q : sys * subscriber) (e : event) : sys * subscriber :=
  match e with
  | Snap s => (publish_with stp self (fst q) s, snd q)
  | Read => (fst q, snd (sub_read (fst q) (snd q)))
  end.
Definition step := step_with differ_step.

Definition run_with stp (self : N) (h : history) : sys * subscriber :=
  fold_left (step_with stp self) (h_post h ++ [Read])
            (fold_left (publish_with stp self) (h_pre h) init_sys, new_sub).
Definition run := run_with differ_step.

(** What each poll of the subscriber yields, in order (the final catch-up poll included). *)
Fixpoint trace_with stp (self : N) (q : sys * subscriber) (es : list event) : list (option change) :=
  match es with
  | [] => []
  | Snap s :: r => trace_with stp self (step_with stp self q (Snap s)) r
  | Read :: r => fst (sub_read (fst q) (snd q)) :: trace_with stp self (step_with stp self q Read) r
  end.
Definition trace_of_with stp (self : N) (h : history) : list (option change) :=
  trace_with stp self (fold_left (publish_with stp self) (h_pre h) init_sys, new_sub)
             (h_post h ++ [Read]).
Definition trace_of := trace_of_with differ_step.

Definition final_live_with stp (self : N) (h : history) : live_map := sb_live (snd (run_with stp self h)).
Definition final_live := final_live_with differ_step.

Fixpoint snaps_of (es : list event) : list snapshot :=
  match es with
  | [] => []
  | Snap s :: r => s :: snaps_of r
  | Read :: r => snaps_of r
  end.
Definition all_snaps (h : history) : list snapshot := h_pre h ++ snaps_of (h_post h).
Definition last_snapshot (h : history) : snapshot := last (all_snaps h) [].

(** ** The property: the subscriber's map is the live membership minus the node itself *)
Definition same_map (a b : live_map) : Prop := forall i, lookup i a = lookup i b.

Definition holds_with stp (self : N) (h : history) : Prop :=
  same_map (final_live_with stp self h) (netset self (last_snapshot h)).
Definition holds := holds_with differ_step.

Definition map_incl_b (a b : live_map) : bool :=
  forallb (fun x => match lookup (fst x) b with Some v => v =? snd x | None => false end) a.
Definition same_map_b (a b : live_map) : bool := map_incl_b a b && map_incl_b b a.
Definition holds_b_with stp (self : N) (h : history) : bool :=
  same_map_b (final_live_with stp self h) (netset self (last_snapshot h)).
Definition holds_b := holds_b_with differ_step.

(** ** The two known classes of histories (defect D9), decided on the shape of the history

    A publication is *missed* when the cell is overwritten before the subscriber polls it.
    [Late]: a publication made before the subscription is missed (the first poll finds
    version >= 2 although something had been published when the subscriber was created).
    [Coalesced]: a publication made after the subscription is missed. *)
Record cls : Type :=
  mk_cls { k_ver : nat; k_fresh : bool; k_seen : nat; k_late : bool; k_coal : bool }.

Definition cls_step (p : nat) (k : cls) (e : event) : cls :=
  match e with
  | Snap _ => mk_cls (S (k_ver k)) (k_fresh k) (k_seen k) (k_late k) (k_coal k)
  | Read =>
    let v := k_ver k in
    if k_fresh k then
      mk_cls v false v
             (k_late k || ((1 <=? p)%nat && (2 <=? v)%nat))
             (k_coal k || (p + 2 <=? v)%nat)
    else
      mk_cls v false v (k_late k) (k_coal k || (k_seen k + 2 <=? v)%nat)
  end.

Definition classify (h : history) : cls :=
  let p := length (h_pre h) in
  fold_left (cls_step p) (h_post h ++ [Read]) (mk_cls p true 0 false false).

Definition late_b (h : history) : bool := k_late (classify h).
Definition coalesced_b (h : history) : bool := k_coal (classify h).
Definition Late (h : history) : Prop := late_b h = true.
Definition Coalesced (h : history) : Prop := coalesced_b h = true.

(** ** Well-formedness of the input: node ids are unique within a snapshot *)
Definition wf_snapshot (s : snapshot) : Prop := NoDup (map m_id s).
Definition wf_history (h : history) : Prop := Forall wf_snapshot (all_snaps h).

(** The simple sufficient condition of the property text: the subscriber exists from
    the start and polls between every two publications. *)
Fixpoint no_two_snaps (es : list event) : bool :=
  match es with
  | Snap _ :: ((Snap _ :: _) as r) => false
  | _ :: r => no_two_snaps r
  | [] => true
  end.
Definition diligent (h : history) : Prop := h_pre h = [] /\ no_two_snaps (h_post h) = true.
