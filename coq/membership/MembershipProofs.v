(** * MembershipProofs: lemmas about the membership model ([Membership.v]) *)

From Coq Require Import NArith ZArith List Bool Arith Lia ZifyBool ZifyN ZifyNat.
From DC Require Import Membership.
Import ListNotations.
Open Scope N_scope.
Ltac Zify.zify_post_hook ::= Z.div_mod_to_equations.

(** ** Basic facts about [find] on keyed lists *)

Lemma get_member_some_in : forall i s m, get_member i s = Some m -> In m s /\ m_id m = i.
Proof.
  unfold get_member. intros i s m Hf. apply find_some in Hf.
  destruct Hf as [Hin Heq]. apply N.eqb_eq in Heq. auto.
Qed.

Lemma get_member_none : forall i s, get_member i s = None -> forall m, In m s -> m_id m <> i.
Proof.
  unfold get_member. intros i s Hn m Hin Heq.
  pose proof (find_none _ _ Hn m Hin) as Hf. cbv beta in Hf. apply N.eqb_neq in Hf. auto.
Qed.

Lemma get_member_in_wf : forall s m, wf_snapshot s -> In m s -> get_member (m_id m) s = Some m.
Proof.
  unfold wf_snapshot, get_member. induction s as [|x s IH]; intros m Hwf Hin.
  - destruct Hin.
  - cbn [map] in Hwf. inversion Hwf as [|? ? Hnotin Hnd]; subst.
    cbn [find]. destruct (m_id x =? m_id m) eqn:E.
    + apply N.eqb_eq in E. destruct Hin as [->|Hin]; [reflexivity|].
      exfalso. apply Hnotin. rewrite E. apply in_map. exact Hin.
    + destruct Hin as [->|Hin].
      * rewrite N.eqb_refl in E. discriminate.
      * apply IH; assumption.
Qed.

(** ** [netset] *)

Lemma mem_pair_true : forall x l, mem_pair x l = true <-> In x l.
Proof.
  unfold mem_pair. intros x l. rewrite existsb_exists. split.
  - intros [y [Hin Heq]]. unfold pair_eqb in Heq. apply andb_true_iff in Heq.
    destruct Heq as [H1 H2]. apply N.eqb_eq in H1. apply N.eqb_eq in H2.
    destruct x, y. cbn in *. subst. exact Hin.
  - intros Hin. exists x. split; [exact Hin|]. unfold pair_eqb. rewrite !N.eqb_refl. reflexivity.
Qed.

Lemma in_netset : forall self s i a,
  In (i, a) (netset self s) <-> exists m, In m s /\ m_id m = i /\ m_addr m = a /\ i <> self.
Proof.
  unfold netset. intros self s i a. rewrite in_map_iff. split.
  - intros [m [Heq Hin]]. apply filter_In in Hin. destruct Hin as [Hin Hne].
    inversion Heq; subst. exists m. repeat split; auto.
    apply negb_true_iff in Hne. apply N.eqb_neq in Hne. exact Hne.
  - intros [m [Hin [Hi [Ha Hne]]]]. exists m. subst. split; [reflexivity|].
    apply filter_In. split; [exact Hin|]. apply negb_true_iff. apply N.eqb_neq. exact Hne.
Qed.

Lemma in_netset_wf : forall self s i a, wf_snapshot s ->
  (In (i, a) (netset self s) <->
   i <> self /\ exists m, get_member i s = Some m /\ m_addr m = a).
Proof.
  intros self s i a Hwf. rewrite in_netset. split.
  - intros [m [Hin [Hi [Ha Hne]]]]. split; [exact Hne|]. exists m. split; [|exact Ha].
    subst i. apply get_member_in_wf; assumption.
  - intros [Hne [m [Hg Ha]]]. apply get_member_some_in in Hg. destruct Hg as [Hin Hi].
    exists m. auto.
Qed.

Lemma lookup_netset : forall self s i,
  lookup i (netset self s) =
  if i =? self then None else option_map m_addr (get_member i s).
Proof.
  unfold lookup, netset, get_member. intros self s i. induction s as [|x s IH].
  - cbn. destruct (i =? self); reflexivity.
  - cbn [filter]. destruct (m_id x =? self) eqn:Es; cbn [negb].
    + cbn [find]. destruct (m_id x =? i) eqn:Ei.
      * apply N.eqb_eq in Es. apply N.eqb_eq in Ei. subst.
        rewrite N.eqb_refl. rewrite N.eqb_refl in IH. exact IH.
      * exact IH.
    + cbn [map find fst]. destruct (m_id x =? i) eqn:Ei.
      * apply N.eqb_eq in Ei. subst i. rewrite Es. reflexivity.
      * exact IH.
Qed.

(** ** The differ is exact *)

Lemma lookup_all_in : forall ids s m,
  In m (lookup_all ids s) <-> exists x, In x ids /\ get_member (fst x) s = Some m.
Proof.
  unfold lookup_all. intros ids s m. rewrite in_flat_map. split.
  - intros [x [Hin Hm]]. exists x. split; [exact Hin|].
    destruct (get_member (fst x) s) as [m'|]; [|destruct Hm].
    destruct Hm as [->|[]]. reflexivity.
  - intros [x [Hin Hg]]. exists x. split; [exact Hin|]. rewrite Hg. left. reflexivity.
Qed.

Lemma in_set_diff : forall x a b, In x (set_diff a b) <-> In x a /\ ~ In x b.
Proof.
  unfold set_diff. intros x a b. rewrite filter_In. rewrite negb_true_iff.
  rewrite <- (mem_pair_true x b). destruct (mem_pair x b).
  - split; intros [H1 H2]; [discriminate|exfalso; apply H2; reflexivity].
  - split; intros [H1 H2]; split; auto; discriminate.
Qed.

(** The members a publisher step reports as joined / left, under the invariant that
    [last_set] is the network set of [last_members]. *)
Lemma differ_step_joined : forall self pb new m,
  wf_snapshot new ->
  (In m (ch_joined (fst (differ_step self pb new))) <->
   In m new /\ m_id m <> self /\ ~ In (m_id m, m_addr m) (last_set pb)).
Proof.
  intros self pb new m Hwf. unfold differ_step. cbn [fst ch_joined].
  rewrite lookup_all_in. split.
  - intros [x [Hd Hg]]. apply in_set_diff in Hd. destruct Hd as [Hin Hnot].
    destruct x as [i a]. cbn [fst] in Hg.
    apply (in_netset_wf self new i a Hwf) in Hin. destruct Hin as [Hne [m' [Hg' Ha]]].
    rewrite Hg in Hg'. inversion Hg'; subst m'.
    apply get_member_some_in in Hg. destruct Hg as [Hin Hi]. subst. auto.
  - intros [Hin [Hne Hnot]]. exists (m_id m, m_addr m). split.
    + apply in_set_diff. split; [|exact Hnot]. apply in_netset. exists m. auto.
    + cbn [fst]. apply get_member_in_wf; assumption.
Qed.

Lemma differ_step_left : forall self pb new m,
  wf_snapshot (last_members pb) -> last_set pb = netset self (last_members pb) ->
  (In m (ch_left (fst (differ_step self pb new))) <->
   In m (last_members pb) /\ m_id m <> self /\ ~ In (m_id m, m_addr m) (netset self new)).
Proof.
  intros self pb new m Hwf Hset. unfold differ_step. cbn [fst ch_left].
  rewrite lookup_all_in. split.
  - intros [x [Hd Hg]]. apply in_set_diff in Hd. destruct Hd as [Hin Hnot].
    destruct x as [i a]. cbn [fst] in Hg. rewrite Hset in Hin.
    apply (in_netset_wf self _ i a Hwf) in Hin. destruct Hin as [Hne [m' [Hg' Ha]]].
    rewrite Hg in Hg'. inversion Hg'; subst m'.
    apply get_member_some_in in Hg. destruct Hg as [Hin Hi]. subst. auto.
  - intros [Hin [Hne Hnot]]. exists (m_id m, m_addr m). split.
    + apply in_set_diff. split; [|exact Hnot]. rewrite Hset. apply in_netset. exists m. auto.
    + cbn [fst]. apply get_member_in_wf; assumption.
Qed.

(** Theorem (1): [differ] is exact. *)
Lemma differ_exact : forall self prev new, wf_snapshot prev -> wf_snapshot new ->
  (forall m, In m (ch_joined (differ self prev new)) <->
             In m new /\ m_id m <> self /\ ~ In (m_id m, m_addr m) (netset self prev)) /\
  (forall m, In m (ch_left (differ self prev new)) <->
             In m prev /\ m_id m <> self /\ ~ In (m_id m, m_addr m) (netset self new)).
Proof.
  intros self prev new Hp Hn. unfold differ. split; intros m.
  - rewrite differ_step_joined by assumption. reflexivity.
  - rewrite differ_step_left by (cbn; auto). reflexivity.
Qed.

(** Every node that disappears is reported as having left, with the data it had. *)
Lemma differ_gone_is_left : forall self prev new m, wf_snapshot prev -> wf_snapshot new ->
  In m prev -> m_id m <> self -> get_member (m_id m) new = None ->
  In m (ch_left (differ self prev new)).
Proof.
  intros self prev new m Hp Hn Hin Hne Hg.
  apply (proj2 (differ_exact self prev new Hp Hn)). repeat split; auto.
  intros Hc. apply in_netset in Hc. destruct Hc as [m' [Hin' [Hi _]]].
  exact (get_member_none _ _ Hg m' Hin' Hi).
Qed.

(** An address change is a leave (old data) plus a join (new data). *)
Lemma differ_address_change : forall self prev new m m', wf_snapshot prev -> wf_snapshot new ->
  In m prev -> In m' new -> m_id m = m_id m' -> m_id m <> self -> m_addr m <> m_addr m' ->
  In m (ch_left (differ self prev new)) /\ In m' (ch_joined (differ self prev new)).
Proof.
  intros self prev new m m' Hp Hn Hin Hin' Hid Hne Haddr.
  destruct (differ_exact self prev new Hp Hn) as [Hj Hl]. split.
  - apply Hl. repeat split; auto. intros Hc.
    apply (in_netset_wf self new _ _ Hn) in Hc. destruct Hc as [_ [x [Hg Ha]]].
    rewrite Hid in Hg. rewrite (get_member_in_wf new m' Hn Hin') in Hg.
    inversion Hg; subst x. congruence.
  - apply Hj. repeat split; auto; try congruence. intros Hc.
    apply (in_netset_wf self prev _ _ Hp) in Hc. destruct Hc as [_ [x [Hg Ha]]].
    rewrite <- Hid in Hg. rewrite (get_member_in_wf prev m Hp Hin) in Hg.
    inversion Hg; subst x. congruence.
Qed.

(** A node that keeps its id and address produces no event. *)
Lemma differ_unchanged_silent : forall self prev new m m', wf_snapshot prev -> wf_snapshot new ->
  In m prev -> In m' new -> m_id m = m_id m' -> m_addr m = m_addr m' ->
  ~ In m (ch_left (differ self prev new)) /\ ~ In m' (ch_joined (differ self prev new)).
Proof.
  intros self prev new m m' Hp Hn Hin Hin' Hid Haddr.
  destruct (differ_exact self prev new Hp Hn) as [Hj Hl]. split; intros Hc.
  - apply Hl in Hc. destruct Hc as [_ [Hne Hnot]]. apply Hnot.
    apply in_netset. exists m'. repeat split; auto; congruence.
  - apply Hj in Hc. destruct Hc as [_ [Hne Hnot]]. apply Hnot.
    apply in_netset. exists m. repeat split; auto; congruence.
Qed.

(** ** The consumers' [apply], seen through [lookup] *)

Lemma lookup_remove : forall i j l,
  lookup i (live_remove j l) = if i =? j then None else lookup i l.
Proof.
  unfold lookup, live_remove. intros i j l. induction l as [|x l IH].
  - cbn. destruct (i =? j); reflexivity.
  - cbn [filter]. destruct (fst x =? j) eqn:Ej; cbn [negb].
    + cbn [find]. destruct (fst x =? i) eqn:Ei.
      * apply N.eqb_eq in Ej. apply N.eqb_eq in Ei. subst. rewrite N.eqb_refl.
        rewrite N.eqb_refl in IH. exact IH.
      * exact IH.
    + cbn [find]. destruct (fst x =? i) eqn:Ei.
      * apply N.eqb_eq in Ei. subst i. rewrite Ej. reflexivity.
      * exact IH.
Qed.

Lemma lookup_insert : forall i j a l,
  lookup i (live_insert j a l) = if i =? j then Some a else lookup i l.
Proof.
  intros i j a l. unfold live_insert. unfold lookup at 1. cbn [find fst].
  rewrite (N.eqb_sym j i). destruct (i =? j) eqn:E.
  - reflexivity.
  - fold (lookup i (live_remove j l)). rewrite lookup_remove. rewrite E. reflexivity.
Qed.

Lemma lookup_fold_remove : forall ms l i,
  lookup i (fold_left (fun acc m => live_remove (m_id m) acc) ms l) =
  if existsb (fun m => m_id m =? i) ms then None else lookup i l.
Proof.
  induction ms as [|m ms IH]; intros l i.
  - reflexivity.
  - cbn [fold_left existsb]. rewrite IH. rewrite lookup_remove.
    rewrite (N.eqb_sym (m_id m) i).
    destruct (i =? m_id m); destruct (existsb (fun m0 => m_id m0 =? i) ms); reflexivity.
Qed.

(** Later inserts win: the result for [i] is the last member of [ms] with id [i]. *)
Lemma lookup_fold_insert : forall ms l i,
  lookup i (fold_left (fun acc m => live_insert (m_id m) (m_addr m) acc) ms l) =
  match find (fun m => m_id m =? i) (rev ms) with
  | Some m => Some (m_addr m)
  | None => lookup i l
  end.
Proof.
  induction ms as [|m ms IH]; intros l i.
  - reflexivity.
  - cbn [fold_left rev]. rewrite IH.
    assert (Hfa : forall (a : list member) b, find (fun m0 => m_id m0 =? i) (a ++ b) =
              match find (fun m0 => m_id m0 =? i) a with
              | Some x => Some x | None => find (fun m0 => m_id m0 =? i) b end).
    { induction a as [|y a IHa]; intros b; cbn [app find]; [reflexivity|].
      destruct (m_id y =? i); [reflexivity|apply IHa]. }
    rewrite Hfa. destruct (find (fun m0 => m_id m0 =? i) (rev ms)); [reflexivity|].
    cbn [find]. rewrite lookup_insert. rewrite (N.eqb_sym (m_id m) i).
    destruct (i =? m_id m); reflexivity.
Qed.

Lemma find_rev_unique : forall (ms : list member) i m,
  (forall x y, In x ms -> In y ms -> m_id x = i -> m_id y = i -> x = y) ->
  In m ms -> m_id m = i -> find (fun x => m_id x =? i) (rev ms) = Some m.
Proof.
  intros ms i m Huniq Hin Hi.
  destruct (find (fun x => m_id x =? i) (rev ms)) as [y|] eqn:Hf.
  - apply find_some in Hf. destruct Hf as [Hy Hyi]. apply N.eqb_eq in Hyi.
    apply in_rev in Hy. f_equal. apply Huniq; auto.
  - exfalso. pose proof (find_none _ _ Hf m) as Hn. cbv beta in Hn.
    rewrite <- in_rev in Hn. specialize (Hn Hin). apply N.eqb_neq in Hn. auto.
Qed.

Lemma find_rev_none : forall (ms : list member) i,
  (forall x, In x ms -> m_id x <> i) -> find (fun x => m_id x =? i) (rev ms) = None.
Proof.
  intros ms i Hno. destruct (find (fun x => m_id x =? i) (rev ms)) as [y|] eqn:Hf; [|reflexivity].
  apply find_some in Hf. destruct Hf as [Hy Hyi]. apply N.eqb_eq in Hyi.
  apply in_rev in Hy. exfalso. exact (Hno y Hy Hyi).
Qed.

Lemma existsb_id_false : forall (ms : list member) i,
  (forall x, In x ms -> m_id x <> i) -> existsb (fun m => m_id m =? i) ms = false.
Proof.
  intros ms i Hno. destruct (existsb (fun m => m_id m =? i) ms) eqn:E; [|reflexivity].
  apply existsb_exists in E. destruct E as [x [Hin Hx]]. apply N.eqb_eq in Hx.
  exfalso. exact (Hno x Hin Hx).
Qed.

Lemma existsb_id_true : forall (ms : list member) i m,
  In m ms -> m_id m = i -> existsb (fun m => m_id m =? i) ms = true.
Proof.
  intros ms i m Hin Hi. apply existsb_exists. exists m. split; [exact Hin|].
  apply N.eqb_eq. exact Hi.
Qed.

(** ** The key step: applying the published change to the previous live set gives the new one *)

Lemma apply_differ_step : forall self pb new l,
  wf_snapshot (last_members pb) -> last_set pb = netset self (last_members pb) ->
  wf_snapshot new ->
  same_map l (netset self (last_members pb)) ->
  same_map (apply l (fst (differ_step self pb new))) (netset self new).
Proof.
  intros self pb new l Hwfp Hset Hwfn Hl i.
  pose proof (differ_step_joined self pb new) as HJ.
  pose proof (differ_step_left self pb new) as HL.
  set (c := fst (differ_step self pb new)) in *.
  unfold apply. rewrite lookup_fold_insert. rewrite lookup_fold_remove.
  rewrite (Hl i). rewrite !lookup_netset.
  (* ids of joined members are unique *)
  assert (Huniq : forall x y, In x (ch_joined c) -> In y (ch_joined c) ->
                              m_id x = i -> m_id y = i -> x = y).
  { intros x y Hx Hy Hxi Hyi. apply HJ in Hx; [|exact Hwfn]. apply HJ in Hy; [|exact Hwfn].
    destruct Hx as [Hx _]. destruct Hy as [Hy _].
    pose proof (get_member_in_wf new x Hwfn Hx) as Gx.
    pose proof (get_member_in_wf new y Hwfn Hy) as Gy.
    rewrite Hxi in Gx. rewrite Hyi in Gy. congruence. }
  destruct (i =? self) eqn:Eself.
  - (* the node itself is never reported *)
    apply N.eqb_eq in Eself. subst i.
    rewrite find_rev_none.
    + destruct (existsb (fun m => m_id m =? self) (ch_left c)); reflexivity.
    + intros x Hx. apply HJ in Hx; [|exact Hwfn]. tauto.
  - apply N.eqb_neq in Eself.
    destruct (get_member i new) as [mn|] eqn:Gn; cbn [option_map].
    + pose proof (get_member_some_in _ _ _ Gn) as [Hinn Hidn].
      destruct (get_member i (last_members pb)) as [mp|] eqn:Gp; cbn [option_map].
      * pose proof (get_member_some_in _ _ _ Gp) as [Hinp Hidp].
        destruct (N.eq_dec (m_addr mp) (m_addr mn)) as [Ea|Ea].
        -- (* same id and address: no event *)
           rewrite find_rev_none.
           ++ rewrite existsb_id_false; [rewrite Ea; reflexivity|].
              intros x Hx Hxi. apply HL in Hx; [|exact Hwfp|exact Hset].
              destruct Hx as [Hxin [_ Hnot]].
              pose proof (get_member_in_wf _ x Hwfp Hxin) as Gx. rewrite Hxi in Gx.
              rewrite Gp in Gx. inversion Gx; subst x. apply Hnot.
              apply in_netset. exists mn. rewrite Hxi. repeat split; auto.
           ++ intros x Hx Hxi. apply HJ in Hx; [|exact Hwfn]. destruct Hx as [Hxin [_ Hnot]].
              pose proof (get_member_in_wf _ x Hwfn Hxin) as Gx. rewrite Hxi in Gx.
              rewrite Gn in Gx. inversion Gx; subst x. apply Hnot. rewrite Hset.
              apply in_netset. exists mp. rewrite Hxi. repeat split; auto.
        -- (* address change: the new member is joined *)
           rewrite (find_rev_unique (ch_joined c) i mn Huniq); [reflexivity| |exact Hidn].
           apply HJ; [exact Hwfn|]. split; [exact Hinn|]. split; [congruence|].
           rewrite Hset. intros Hc. apply (in_netset_wf self _ _ _ Hwfp) in Hc.
           destruct Hc as [_ [x [Gx Hax]]]. rewrite Hidn in Gx. rewrite Gp in Gx.
           inversion Gx; subst x. congruence.
      * (* new node *)
        rewrite (find_rev_unique (ch_joined c) i mn Huniq); [reflexivity| |exact Hidn].
        apply HJ; [exact Hwfn|]. split; [exact Hinn|]. split; [congruence|].
        rewrite Hset. intros Hc. apply in_netset in Hc. destruct Hc as [x [Hxin [Hxi _]]].
        rewrite Hidn in Hxi. exact (get_member_none _ _ Gp x Hxin Hxi).
    + (* absent from the new snapshot *)
      rewrite find_rev_none.
      * destruct (get_member i (last_members pb)) as [mp|] eqn:Gp; cbn [option_map].
        -- pose proof (get_member_some_in _ _ _ Gp) as [Hinp Hidp].
           rewrite (existsb_id_true (ch_left c) i mp); [reflexivity| |exact Hidp].
           apply HL; [exact Hwfp|exact Hset|]. split; [exact Hinp|]. split; [congruence|].
           intros Hc. apply in_netset in Hc. destruct Hc as [x [Hxin [Hxi _]]].
           rewrite Hidp in Hxi. exact (get_member_none _ _ Gn x Hxin Hxi).
        -- destruct (existsb (fun m => m_id m =? i) (ch_left c)); reflexivity.
      * intros x Hx Hxi. apply HJ in Hx; [|exact Hwfn]. destruct Hx as [Hxin _].
        exact (get_member_none _ _ Gn x Hxin Hxi).
Qed.

(** ** The run of a history: invariant *)

Definition pub_ok (self : N) (pb : publisher) : Prop :=
  wf_snapshot (last_members pb) /\ last_set pb = netset self (last_members pb).

Lemma pub_ok_init : forall self, pub_ok self init_pub.
Proof. intros self. split; [constructor|reflexivity]. Qed.

Lemma pub_ok_step : forall self pb s, wf_snapshot s -> pub_ok self (snd (differ_step self pb s)).
Proof. intros self pb s Hwf. split; [exact Hwf|reflexivity]. Qed.

Lemma last_members_step : forall self pb s, last_members (snd (differ_step self pb s)) = s.
Proof. reflexivity. Qed.

(** The state of the classification fold mirrors version / freshness / seen of the run. *)
Definition coupled (q : sys * subscriber) (k : cls) : Prop :=
  k_ver k = s_ver (fst q) /\ k_fresh k = sb_fresh (snd q) /\ k_seen k = sb_seen (snd q) /\
  (k_seen k <= k_ver k)%nat.

(** No delta was missed so far and at most one is pending. *)
Definition inv (self : N) (q : sys * subscriber) : Prop :=
  let st := fst q in let sb := snd q in
  pub_ok self (s_pub st) /\
  (sb_fresh sb = true -> sb_live sb = [] /\ (s_ver st <= 1)%nat) /\
  (sb_fresh sb = false -> (sb_seen sb <= s_ver st <= sb_seen sb + 1)%nat) /\
  (s_ver st = 0%nat -> s_val st = empty_change /\ last_members (s_pub st) = []) /\
  (unread st sb = false -> same_map (sb_live sb) (netset self (last_members (s_pub st)))) /\
  (unread st sb = true ->
   same_map (apply (sb_live sb) (s_val st)) (netset self (last_members (s_pub st)))).

(** A delta has been or will inevitably be reported as missed. *)
Definition doomed (k : cls) : Prop :=
  k_late k = true \/ k_coal k = true \/
  (k_fresh k = true /\ (2 <= k_ver k)%nat) \/
  (k_fresh k = false /\ (k_seen k + 2 <= k_ver k)%nat).

Lemma doomed_step : forall p k e, doomed k -> doomed (cls_step p k e).
Proof.
  intros p k e Hd. unfold doomed in *. destruct e as [s|]; cbn [cls_step].
  - cbn. destruct Hd as [H|[H|[[H1 H2]|[H1 H2]]]]; auto.
    + right; right; left. split; [exact H1|lia].
    + right; right; right. split; [exact H1|lia].
  - destruct (k_fresh k) eqn:Ef; cbn [k_late k_coal k_fresh k_ver k_seen];
      rewrite ?orb_true_iff, ?andb_true_iff, ?Nat.leb_le.
    + destruct Hd as [H|[H|[[H1 H2]|[H1 H2]]]].
      * left. left. exact H.
      * right; left. left. exact H.
      * destruct (Nat.eq_dec p 0) as [Ep|Ep].
        -- right; left. right. lia.
        -- left. right. lia.
      * discriminate.
    + destruct Hd as [H|[H|[[H1 H2]|[H1 H2]]]].
      * left. exact H.
      * right; left. left. exact H.
      * discriminate.
      * right; left. right. lia.
Qed.

Lemma doomed_fold : forall p es k, doomed k -> doomed (fold_left (cls_step p) es k).
Proof.
  intros p es. induction es as [|e es IH]; intros k Hd; [exact Hd|].
  cbn [fold_left]. apply IH. apply doomed_step. exact Hd.
Qed.

(** After a poll, [doomed] means a flag is set. *)
Lemma doomed_after_read : forall p k, doomed (cls_step p k Read) ->
  k_late (cls_step p k Read) = true \/ k_coal (cls_step p k Read) = true.
Proof.
  intros p k Hd. unfold doomed in Hd. destruct Hd as [H|[H|[[H1 H2]|[H1 H2]]]]; auto.
  - cbn [cls_step] in H1. destruct (k_fresh k); cbn in H1; discriminate.
  - cbn [cls_step] in H2. destruct (k_fresh k); cbn in H2; lia.
Qed.

Lemma empty_apply : forall l, apply l empty_change = l.
Proof. reflexivity. Qed.

(** One event preserves "coupled and (doomed or inv)". *)
Lemma step_good : forall self p q k e,
  (match e with Snap s => wf_snapshot s | Read => True end) ->
  coupled q k -> (doomed k \/ inv self q) ->
  coupled (step self q e) (cls_step p k e) /\
  (doomed (cls_step p k e) \/ inv self (step self q e)).
Proof.
  intros self p [st sb] k e Hwf [Cv [Cf [Cs Cle]]] Hgood. cbn [fst snd] in Cv, Cf, Cs.
  assert (Hc : coupled (step self (st, sb) e) (cls_step p k e)).
  { unfold coupled. destruct e as [s|]; cbn [step step_with fst snd cls_step].
    - cbn. repeat split; auto; lia.
    - unfold sub_read, unread. rewrite <- Cf, <- Cs, <- Cv.
      destruct (k_fresh k) eqn:Ef; cbn [orb].
      + cbn. repeat split; auto; lia.
      + destruct (k_seen k <? k_ver k)%nat eqn:El; cbn.
        * repeat split; auto; lia.
        * apply Nat.ltb_ge in El. repeat split; auto; lia. }
  split; [exact Hc|].
  destruct Hgood as [Hd|Hi]; [left; apply doomed_step; exact Hd|].
  destruct Hi as [Hpub [Hfr [Hnf [Hz [Hcur Hpend]]]]]. cbn [fst snd] in *.
  pose proof Hpub as [Hpw Hps].
  destruct e as [s|].
  - (* a snapshot is published *)
    destruct (sb_fresh sb) eqn:Ef.
    + destruct (Hfr eq_refl) as [Hlive Hle].
      destruct (Nat.eq_dec (s_ver st) 0) as [Ev0|Ev0].
      * (* first publication, the fresh subscriber has not polled yet *)
        right. destruct (Hz Ev0) as [Hval Hlm].
        unfold inv. cbn [step step_with fst snd publish_with s_pub s_val s_ver].
        split; [apply pub_ok_step; exact Hwf|].
        split; [intros _; split; [exact Hlive|lia]|].
        split; [intros Hx; rewrite Ef in Hx; discriminate|].
        split; [intros Hx; discriminate|].
        unfold unread. cbn [s_ver]. rewrite Ef. cbn [orb].
        split; [intros Hx; discriminate|]. intros _.
        rewrite last_members_step. apply apply_differ_step; try assumption.
        rewrite Hlive, Hlm. intros i. reflexivity.
      * left. unfold doomed. right; right; left. cbn [cls_step]. cbn. split; [congruence|lia].
    + specialize (Hnf eq_refl).
      destruct (Nat.eq_dec (s_ver st) (sb_seen sb)) as [Eseen|Eseen].
      * (* the subscriber is up to date: exactly one delta is now pending *)
        right.
        assert (Hu : unread st sb = false).
        { unfold unread. rewrite Ef. cbn [orb]. apply Nat.ltb_ge. lia. }
        specialize (Hcur Hu).
        unfold inv. cbn [step step_with fst snd publish_with s_pub s_val s_ver].
        split; [apply pub_ok_step; exact Hwf|].
        split; [intros Hx; rewrite Ef in Hx; discriminate|].
        split; [intros _; lia|].
        split; [intros Hx; discriminate|].
        unfold unread. rewrite Ef. cbn [orb].
        change (s_ver (publish_with differ_step self st s)) with (S (s_ver st)).
        assert (Hlt : (sb_seen sb <? S (s_ver st))%nat = true) by (apply Nat.ltb_lt; lia).
        rewrite Hlt. split; [intros Hx; discriminate|]. intros _.
        rewrite last_members_step. apply apply_differ_step; assumption.
      * left. unfold doomed. right; right; right. cbn [cls_step]. cbn. split; [congruence|lia].
  - (* the subscriber polls *)
    right. unfold inv. cbn [step step_with fst snd]. unfold sub_read.
    destruct (unread st sb) eqn:Hu.
    + specialize (Hpend eq_refl). cbn [snd sb_fresh sb_seen sb_live].
      split; [exact Hpub|].
      split; [intros Hx; discriminate|].
      split; [intros _; lia|].
      split; [exact Hz|].
      unfold unread. cbn [sb_fresh sb_seen orb]. rewrite Nat.ltb_irrefl.
      split; [intros _; exact Hpend|intros Hx; discriminate].
    + cbn [snd]. split; [exact Hpub|]. split; [exact Hfr|]. split; [exact Hnf|].
      split; [exact Hz|]. rewrite Hu. split; [exact Hcur|exact Hpend].
Qed.

Lemma fold_good : forall self p es q k,
  Forall wf_snapshot (snaps_of es) ->
  coupled q k -> (doomed k \/ inv self q) ->
  coupled (fold_left (step self) es q) (fold_left (cls_step p) es k) /\
  (doomed (fold_left (cls_step p) es k) \/ inv self (fold_left (step self) es q)).
Proof.
  intros self p es. induction es as [|e es IH]; intros q k Hwf Hc Hg.
  - cbn. auto.
  - cbn [fold_left].
    assert (He : match e with Snap s => wf_snapshot s | Read => True end).
    { destruct e; [|exact I]. cbn in Hwf. inversion Hwf; assumption. }
    assert (Hwf' : Forall wf_snapshot (snaps_of es)).
    { destruct e; [|exact Hwf]. cbn in Hwf. inversion Hwf; assumption. }
    destruct (step_good self p q k e He Hc Hg) as [Hc' Hg'].
    apply IH; assumption.
Qed.

(** ** Which snapshot the watcher saw last *)

Lemma last_indep : forall (A : Type) (l : list A) x d d', last (x :: l) d = last (x :: l) d'.
Proof.
  induction l as [|y l IH]; intros x d d'; [reflexivity|].
  change (last (y :: l) d = last (y :: l) d'). apply IH.
Qed.

Lemma last_cons : forall (A : Type) (l : list A) x d, last (x :: l) d = last l x.
Proof.
  destruct l as [|y l]; intros x d; [reflexivity|].
  change (last (y :: l) d = last (y :: l) x). apply last_indep.
Qed.

Lemma last_app_default : forall (A : Type) (a b : list A) d, last (a ++ b) d = last b (last a d).
Proof.
  induction a as [|x a IH]; intros b d; [reflexivity|].
  cbn [app]. rewrite !last_cons. apply IH.
Qed.

Lemma snaps_of_app : forall a b, snaps_of (a ++ b) = snaps_of a ++ snaps_of b.
Proof.
  induction a as [|e a IH]; intros b; [reflexivity|].
  destruct e; cbn [app snaps_of]; rewrite IH; reflexivity.
Qed.

Lemma last_members_pre : forall self pre st,
  last_members (s_pub (fold_left (publish self) pre st)) = last pre (last_members (s_pub st)).
Proof.
  intros self pre. induction pre as [|s pre IH]; intros st; [reflexivity|].
  cbn [fold_left]. rewrite IH. rewrite last_cons. reflexivity.
Qed.

Lemma last_members_post : forall self es q,
  last_members (s_pub (fst (fold_left (step self) es q))) =
  last (snaps_of es) (last_members (s_pub (fst q))).
Proof.
  intros self es. induction es as [|e es IH]; intros q; [reflexivity|].
  cbn [fold_left]. rewrite IH. destruct e as [s|]; cbn [snaps_of].
  - rewrite last_cons. reflexivity.
  - reflexivity.
Qed.

Lemma run_last_members : forall self h,
  last_members (s_pub (fst (run self h))) = last_snapshot h.
Proof.
  intros self h. unfold run, run_with, last_snapshot, all_snaps.
  fold (step self). fold (publish self).
  rewrite last_members_post. cbn [fst]. rewrite last_members_pre.
  rewrite snaps_of_app. cbn [snaps_of]. rewrite app_nil_r.
  rewrite last_app_default. reflexivity.
Qed.

(** ** State after the pre-subscription publications *)

Lemma pre_ver : forall self pre st,
  s_ver (fold_left (publish self) pre st) = (length pre + s_ver st)%nat.
Proof.
  intros self pre. induction pre as [|s pre IH]; intros st; [reflexivity|].
  cbn [fold_left length]. rewrite IH. cbn. lia.
Qed.

Lemma pre_pub_ok : forall self pre st, Forall wf_snapshot pre -> pub_ok self (s_pub st) ->
  pub_ok self (s_pub (fold_left (publish self) pre st)).
Proof.
  intros self pre. induction pre as [|s pre IH]; intros st Hwf Hok; [exact Hok|].
  cbn [fold_left]. inversion Hwf; subst. apply IH; [assumption|].
  apply pub_ok_step. assumption.
Qed.

Lemma same_map_nil : forall self, same_map [] (netset self []).
Proof. intros self i. reflexivity. Qed.

Lemma inv_start : forall self pre, Forall wf_snapshot pre -> (length pre <= 1)%nat ->
  inv self (fold_left (publish self) pre init_sys, new_sub).
Proof.
  intros self pre Hwf Hlen. destruct pre as [|s [|s' pre]]; [| |cbn in Hlen; lia].
  - cbn [fold_left]. unfold inv. cbn [fst snd].
    split; [apply pub_ok_init|].
    split; [intros _; split; [reflexivity|cbn; lia]|].
    split; [intros Hx; discriminate|].
    split; [intros _; split; reflexivity|].
    split; [intros Hx; discriminate|].
    intros _. apply same_map_nil.
  - inversion Hwf as [|? ? Hs _]; subst. cbn [fold_left]. unfold inv. cbn [fst snd].
    split; [apply pub_ok_step; exact Hs|].
    split; [intros _; split; [reflexivity|cbn; lia]|].
    split; [intros Hx; discriminate|].
    split; [intros Hx; discriminate|].
    split; [intros Hx; discriminate|].
    intros _. unfold publish, publish_with. cbn [s_pub s_val sb_live new_sub init_sys].
    rewrite last_members_step. apply apply_differ_step.
    + constructor.
    + reflexivity.
    + exact Hs.
    + apply same_map_nil.
Qed.

(** ** The main theorem: outside the two known classes the events add up *)

Lemma unread_after_read : forall st sb, unread st (snd (sub_read st sb)) = false.
Proof.
  intros st sb. unfold sub_read. destruct (unread st sb) eqn:Hu.
  - cbn [snd]. unfold unread. cbn [sb_fresh sb_seen orb]. apply Nat.ltb_irrefl.
  - exact Hu.
Qed.

Lemma fold_left_snoc : forall (A B : Type) (f : A -> B -> A) l x a,
  fold_left f (l ++ [x]) a = f (fold_left f l a) x.
Proof. intros. rewrite fold_left_app. reflexivity. Qed.

Lemma events_add_up : forall self h,
  wf_history h -> ~ Late h -> ~ Coalesced h -> holds self h.
Proof.
  intros self h Hwf HnL HnC.
  unfold wf_history, all_snaps in Hwf. apply Forall_app in Hwf. destruct Hwf as [Hwpre Hwpost].
  set (p := length (h_pre h)).
  set (q0 := (fold_left (publish self) (h_pre h) init_sys, new_sub)).
  set (k0 := mk_cls p true 0 false false).
  assert (Hc0 : coupled q0 k0).
  { unfold coupled, q0, k0. cbn [fst snd k_ver k_fresh k_seen sb_fresh sb_seen new_sub].
    rewrite pre_ver. cbn. repeat split; lia. }
  assert (Hg0 : doomed k0 \/ inv self q0).
  { destruct (le_lt_dec p 1) as [Hle|Hgt].
    - right. apply inv_start; assumption.
    - left. unfold doomed, k0. cbn. right; right; left. split; [reflexivity|lia]. }
  assert (Hwf' : Forall wf_snapshot (snaps_of (h_post h ++ [Read]))).
  { rewrite snaps_of_app. cbn [snaps_of]. rewrite app_nil_r. exact Hwpost. }
  destruct (fold_good self p (h_post h ++ [Read]) q0 k0 Hwf' Hc0 Hg0) as [Hc Hg].
  assert (Hrun : fold_left (step self) (h_post h ++ [Read]) q0 = run self h) by reflexivity.
  assert (Hcls : fold_left (cls_step p) (h_post h ++ [Read]) k0 = classify h) by reflexivity.
  rewrite Hrun in Hg. rewrite Hcls in Hg.
  destruct Hg as [Hd|Hi].
  - exfalso. unfold classify in Hd. fold p in Hd. fold k0 in Hd. rewrite fold_left_snoc in Hd.
    apply doomed_after_read in Hd. rewrite <- fold_left_snoc in Hd.
    destruct Hd as [Hd|Hd]; [apply HnL|apply HnC]; exact Hd.
  - unfold holds, holds_with, final_live_with. fold (run self h).
    rewrite <- run_last_members with (self := self).
    destruct Hi as [_ [_ [_ [_ [Hcur _]]]]]. apply Hcur.
    unfold run, run_with. fold (step self). fold (publish self). fold q0.
    rewrite fold_left_snoc. cbn [step step_with fst snd]. apply unread_after_read.
Qed.

(** ** The simple sufficient condition *)

Lemma diligent_flags : forall p es k,
  no_two_snaps es = true ->
  k_late k = false -> k_coal k = false ->
  ((k_fresh k = true /\ p = 0%nat /\ (k_ver k <= 1)%nat /\
    (k_ver k = 1%nat -> match es with Snap _ :: _ => False | _ => True end)) \/
   (k_fresh k = false /\ (k_seen k <= k_ver k <= k_seen k + 1)%nat /\
    (k_ver k = (k_seen k + 1)%nat -> match es with Snap _ :: _ => False | _ => True end))) ->
  let k' := fold_left (cls_step p) (es ++ [Read]) k in
  k_late k' = false /\ k_coal k' = false.
Proof.
  intros p es. induction es as [|e es IH]; intros k Hn Hl Hc Hst.
  - cbn [app fold_left cls_step]. destruct Hst as [[Hf [Hp [Hv _]]]|[Hf [Hv _]]]; rewrite Hf; cbn.
    + rewrite Hl, Hc. subst p. cbn [orb andb Nat.leb].
      split; [reflexivity|]. apply Nat.leb_gt. lia.
    + rewrite Hl, Hc. split; [reflexivity|]. cbn [orb]. apply Nat.leb_gt. lia.
  - cbn [app fold_left]. apply IH.
    + destruct e; [destruct es as [|[|] es]; cbn in Hn |- *; try discriminate; auto|exact Hn].
    + destruct e; cbn [cls_step]; [exact Hl|].
      destruct Hst as [[Hf [Hp [Hv _]]]|[Hf [Hv _]]]; rewrite Hf; cbn; [|exact Hl].
      rewrite Hl. subst p. reflexivity.
    + destruct e; cbn [cls_step]; [exact Hc|].
      destruct Hst as [[Hf [Hp [Hv _]]]|[Hf [Hv _]]]; rewrite Hf; cbn; rewrite Hc; cbn [orb].
      * subst p. apply Nat.leb_gt. lia.
      * apply Nat.leb_gt. lia.
    + destruct e as [s|].
      * (* Snap: the next event is not a Snap *)
        assert (Hnext : match es with Snap _ :: _ => False | _ => True end).
        { destruct es as [|[|] es]; cbn in Hn; try discriminate; exact I. }
        cbn [cls_step k_fresh k_ver k_seen].
        destruct Hst as [[Hf [Hp [Hv Hx]]]|[Hf [Hv Hx]]].
        -- left. split; [exact Hf|]. split; [exact Hp|]. split.
           ++ destruct (Nat.eq_dec (k_ver k) 1) as [E|E]; [exfalso; exact (Hx E)|lia].
           ++ intros _. exact Hnext.
        -- right. split; [exact Hf|].
           destruct (Nat.eq_dec (k_ver k) (k_seen k + 1)) as [E|E]; [exfalso; exact (Hx E)|].
           split; [lia|]. intros _. exact Hnext.
      * (* Read *)
        right. cbn [cls_step]. destruct (k_fresh k); cbn [k_fresh k_ver k_seen].
        -- split; [reflexivity|]. split; [lia|]. intros Hx. lia.
        -- split; [reflexivity|]. split; [lia|]. intros Hx. lia.
Qed.

Lemma diligent_not_late_not_coalesced : forall h, diligent h -> ~ Late h /\ ~ Coalesced h.
Proof.
  intros h [Hpre Hn]. unfold Late, Coalesced, late_b, coalesced_b, classify.
  rewrite Hpre. cbn [length].
  destruct (diligent_flags 0 (h_post h) (mk_cls 0 true 0 false false) Hn eq_refl eq_refl) as [H1 H2].
  - left. cbn. repeat split; auto. intros Hx. discriminate.
  - cbv zeta in H1, H2. rewrite H1, H2. split; intros Hx; discriminate.
Qed.

Lemma diligent_holds : forall self h, wf_history h -> diligent h -> holds self h.
Proof.
  intros self h Hwf Hd. destruct (diligent_not_late_not_coalesced h Hd) as [HL HC].
  apply events_add_up; assumption.
Qed.

(** ** The executable verdict [holds_b] is sound for [holds] *)

Lemma lookup_some_in : forall i v (l : live_map), lookup i l = Some v -> In (i, v) l.
Proof.
  unfold lookup. intros i v l H.
  destruct (find (fun x => fst x =? i) l) as [[j w]|] eqn:Hf; [|discriminate].
  cbn in H. inversion H; subst w. apply find_some in Hf. destruct Hf as [Hin Heq].
  cbn in Heq. apply N.eqb_eq in Heq. subst j. exact Hin.
Qed.

Lemma map_incl_b_spec : forall a b, map_incl_b a b = true ->
  forall i v, lookup i a = Some v -> lookup i b = Some v.
Proof.
  unfold map_incl_b. intros a b H i v Hl. apply lookup_some_in in Hl.
  rewrite forallb_forall in H. specialize (H (i, v) Hl). cbn [fst snd] in H.
  destruct (lookup i b) as [w|]; [|discriminate]. apply N.eqb_eq in H. subst w. reflexivity.
Qed.

Lemma same_map_b_sound : forall a b, same_map_b a b = true -> same_map a b.
Proof.
  unfold same_map_b. intros a b H i. apply andb_true_iff in H. destruct H as [Hab Hba].
  destruct (lookup i a) as [v|] eqn:Ea.
  - symmetry. exact (map_incl_b_spec a b Hab i v Ea).
  - destruct (lookup i b) as [w|] eqn:Eb; [|reflexivity].
    rewrite (map_incl_b_spec b a Hba i w Eb) in Ea. discriminate.
Qed.

Lemma holds_b_sound : forall self h, holds_b self h = true -> holds self h.
Proof. intros self h H. apply same_map_b_sound. exact H. Qed.

(** ** Decidability of the two classes *)

Lemma late_dec : forall h, {Late h} + {~ Late h}.
Proof. intros h. unfold Late. destruct (late_b h); [left; reflexivity|right; discriminate]. Qed.

Lemma coalesced_dec : forall h, {Coalesced h} + {~ Coalesced h}.
Proof.
  intros h. unfold Coalesced. destruct (coalesced_b h); [left; reflexivity|right; discriminate].
Qed.

(** ** Witnesses: inside the two classes the property does fail (defect D9) *)

Definition w_s0 : snapshot := [(0, 65535, 0); (1, 10, 1)].
Definition w_s1 : snapshot := [(0, 65535, 0); (1, 10, 1); (2, 11, 0)].
Definition w_s2 : snapshot := [(0, 65535, 0)].

Lemma wf_w_s0 : wf_snapshot w_s0.
Proof. repeat constructor; cbn; intuition discriminate. Qed.
Lemma wf_w_s1 : wf_snapshot w_s1.
Proof. repeat constructor; cbn; intuition discriminate. Qed.
Lemma wf_w_s2 : wf_snapshot w_s2.
Proof. repeat constructor; cbn; intuition discriminate. Qed.

(** Two snapshots were published before the subscription: node 1's join is never seen. *)
Definition late_witness : history := mk_hist [w_s0; w_s1] [].
(** Two snapshots are published before the subscriber's poll: node 1's join is overwritten. *)
Definition coalesced_witness : history := mk_hist [] [Snap w_s0; Snap w_s1].

Lemma late_witness_fails :
  wf_history late_witness /\ Late late_witness /\ ~ Coalesced late_witness /\
  final_live 0 late_witness = [(2, 11)] /\ ~ holds 0 late_witness.
Proof.
  split; [repeat constructor; cbn; intuition discriminate|].
  split; [reflexivity|]. split; [intros H; discriminate H|].
  split; [reflexivity|]. intros H. specialize (H 1). vm_compute in H. discriminate H.
Qed.

Lemma coalesced_witness_fails :
  wf_history coalesced_witness /\ Coalesced coalesced_witness /\ ~ Late coalesced_witness /\
  final_live 0 coalesced_witness = [(2, 11)] /\ ~ holds 0 coalesced_witness.
Proof.
  split; [repeat constructor; cbn; intuition discriminate|].
  split; [reflexivity|]. split; [intros H; discriminate H|].
  split; [reflexivity|]. intros H. specialize (H 1). vm_compute in H. discriminate H.
Qed.

(** ** The code before the repair of D8 *)

Lemma legacy_left_empty :
  wf_snapshot w_s0 /\ wf_snapshot w_s2 /\
  In (1, 10, 1) w_s0 /\ get_member 1 w_s2 = None /\
  ch_left (legacy_differ 0 w_s0 w_s2) = [] /\
  ch_left (differ 0 w_s0 w_s2) = [(1, 10, 1)].
Proof.
  split; [exact wf_w_s0|]. split; [exact wf_w_s2|].
  split; [cbn; auto|]. repeat split; reflexivity.
Qed.

(** On an address change the legacy code reports the *new* data as having left. *)
Lemma legacy_left_new_address :
  ch_left (legacy_differ 0 [(0, 65535, 0); (1, 10, 1)] [(0, 65535, 0); (1, 11, 1)]) = [(1, 11, 1)] /\
  ch_left (differ 0 [(0, 65535, 0); (1, 10, 1)] [(0, 65535, 0); (1, 11, 1)]) = [(1, 10, 1)].
Proof. split; reflexivity. Qed.

(** A subscriber present from the start that polls after every publication ends up with
    a departed node still in its map. *)
Definition legacy_witness : history := mk_hist [] [Snap w_s0; Read; Snap w_s2; Read].

Lemma legacy_events_do_not_add_up :
  wf_history legacy_witness /\ diligent legacy_witness /\
  ~ Late legacy_witness /\ ~ Coalesced legacy_witness /\
  final_live_with legacy_differ_step 0 legacy_witness = [(1, 10)] /\
  ~ holds_with legacy_differ_step 0 legacy_witness /\
  holds 0 legacy_witness.
Proof.
  split; [repeat constructor; cbn; intuition discriminate|].
  split; [split; reflexivity|].
  split; [intros H; discriminate H|]. split; [intros H; discriminate H|].
  split; [reflexivity|]. split.
  - intros H. specialize (H 1). vm_compute in H. discriminate H.
  - apply holds_b_sound. reflexivity.
Qed.

(** The step lemma stated on [differ]. *)
Lemma apply_differ : forall self prev new l,
  wf_snapshot prev -> wf_snapshot new ->
  same_map l (netset self prev) ->
  same_map (apply l (differ self prev new)) (netset self new).
Proof.
  intros self prev new l Hp Hn Hl. unfold differ.
  apply apply_differ_step; cbn [last_members last_set]; auto.
Qed.

(** ** [holds_b] is also complete: it decides [holds] on well-formed histories *)

Definition nodup_keys (l : live_map) : Prop := NoDup (map fst l).

Lemma in_lookup_nodup : forall (l : live_map) i v, nodup_keys l -> In (i, v) l -> lookup i l = Some v.
Proof.
  unfold nodup_keys, lookup. induction l as [|[j w] l IH]; intros i v Hnd Hin; [destruct Hin|].
  cbn [map fst] in Hnd. inversion Hnd as [|? ? Hnotin Hnd']; subst.
  cbn [find fst]. destruct (j =? i) eqn:E.
  - apply N.eqb_eq in E. subst j. destruct Hin as [Heq|Hin].
    + inversion Heq; subst. reflexivity.
    + exfalso. apply Hnotin. change i with (fst (i, v)). apply in_map. exact Hin.
  - destruct Hin as [Heq|Hin].
    + inversion Heq; subst. rewrite N.eqb_refl in E. discriminate.
    + apply IH; assumption.
Qed.

Lemma map_incl_b_complete : forall a b, nodup_keys a -> same_map a b -> map_incl_b a b = true.
Proof.
  intros a b Hnd Hs. unfold map_incl_b. apply forallb_forall. intros [i v] Hin. cbn [fst snd].
  rewrite <- (Hs i). rewrite (in_lookup_nodup a i v Hnd Hin). apply N.eqb_refl.
Qed.

Lemma same_map_b_complete : forall a b, nodup_keys a -> nodup_keys b -> same_map a b ->
  same_map_b a b = true.
Proof.
  intros a b Ha Hb Hs. unfold same_map_b. apply andb_true_iff. split.
  - apply map_incl_b_complete; assumption.
  - apply map_incl_b_complete; [assumption|]. intros i. symmetry. apply Hs.
Qed.

Lemma nodup_map_filter : forall (A B : Type) (f : A -> B) (p : A -> bool) (l : list A),
  NoDup (map f l) -> NoDup (map f (filter p l)).
Proof.
  intros A B f p l. induction l as [|x l IH]; intros Hnd; [constructor|].
  cbn [map] in Hnd. inversion Hnd as [|? ? Hnotin Hnd']; subst.
  cbn [filter]. destruct (p x); [|apply IH; exact Hnd'].
  cbn [map]. constructor; [|apply IH; exact Hnd'].
  intros Hc. apply Hnotin. apply in_map_iff in Hc. destruct Hc as [y [Hy Hin]].
  apply filter_In in Hin. destruct Hin as [Hin _]. rewrite <- Hy. apply in_map. exact Hin.
Qed.

Lemma nodup_keys_netset : forall self s, wf_snapshot s -> nodup_keys (netset self s).
Proof.
  unfold nodup_keys, netset, wf_snapshot. intros self s Hwf.
  rewrite map_map. cbn [fst]. apply nodup_map_filter. exact Hwf.
Qed.

Lemma nodup_keys_remove : forall i l, nodup_keys l -> nodup_keys (live_remove i l).
Proof. intros i l H. unfold nodup_keys, live_remove. apply nodup_map_filter. exact H. Qed.

Lemma nodup_keys_insert : forall i a l, nodup_keys l -> nodup_keys (live_insert i a l).
Proof.
  intros i a l H. unfold live_insert, nodup_keys. cbn [map fst]. constructor.
  - intros Hc. apply in_map_iff in Hc. destruct Hc as [[j w] [Hj Hin]]. cbn in Hj. subst j.
    unfold live_remove in Hin. apply filter_In in Hin. destruct Hin as [_ Hne].
    cbn in Hne. rewrite N.eqb_refl in Hne. discriminate.
  - apply nodup_keys_remove. exact H.
Qed.

Lemma nodup_keys_apply : forall c l, nodup_keys l -> nodup_keys (apply l c).
Proof.
  intros c l H. unfold apply.
  assert (H1 : forall ms l0, nodup_keys l0 ->
            nodup_keys (fold_left (fun acc m => live_remove (m_id m) acc) ms l0)).
  { induction ms as [|m ms IH]; intros l0 H0; [exact H0|]. cbn [fold_left].
    apply IH. apply nodup_keys_remove. exact H0. }
  assert (H2 : forall ms l0, nodup_keys l0 ->
            nodup_keys (fold_left (fun acc m => live_insert (m_id m) (m_addr m) acc) ms l0)).
  { induction ms as [|m ms IH]; intros l0 H0; [exact H0|]. cbn [fold_left].
    apply IH. apply nodup_keys_insert. exact H0. }
  apply H2. apply H1. exact H.
Qed.

Lemma nodup_keys_run : forall stp self es q, nodup_keys (sb_live (snd q)) ->
  nodup_keys (sb_live (snd (fold_left (step_with stp self) es q))).
Proof.
  intros stp self es. induction es as [|e es IH]; intros q H; [exact H|].
  cbn [fold_left]. apply IH. destruct e as [s|]; cbn [step_with snd]; [exact H|].
  unfold sub_read. destruct (unread (fst q) (snd q)); [|exact H].
  cbn [snd sb_live]. apply nodup_keys_apply. exact H.
Qed.

Lemma nodup_keys_final_live : forall stp self h, nodup_keys (final_live_with stp self h).
Proof.
  intros stp self h. unfold final_live_with, run_with. apply nodup_keys_run. constructor.
Qed.

Lemma Forall_last : forall (A : Type) (P : A -> Prop) (l : list A) d,
  Forall P l -> P d -> P (last l d).
Proof.
  intros A P l. induction l as [|x l IH]; intros d Hl Hd; [exact Hd|].
  rewrite last_cons. inversion Hl; subst. apply IH; assumption.
Qed.

Lemma wf_last_snapshot : forall h, wf_history h -> wf_snapshot (last_snapshot h).
Proof. intros h H. unfold last_snapshot. apply Forall_last; [exact H|constructor]. Qed.

Lemma holds_b_iff : forall self h, wf_history h -> (holds_b self h = true <-> holds self h).
Proof.
  intros self h Hwf. split; [apply holds_b_sound|].
  intros H. apply same_map_b_complete.
  - apply nodup_keys_final_live.
  - apply nodup_keys_netset. apply wf_last_snapshot. exact Hwf.
  - exact H.
Qed.

(** The subscriber's map never holds two entries for one node. *)
Lemma final_live_nodup : forall self h, NoDup (map fst (final_live self h)).
Proof. intros self h. apply nodup_keys_final_live. Qed.
