(** Extraction of the executable membership model to OCaml ([ExtrOcamlBasic] only). *)
From Coq Require Import ExtrOcamlBasic NArith List.
From DC Require Import Membership.
Extraction Language OCaml.
Extraction "model.ml"
  N.eqb N.ltb N.of_nat N.to_nat
  differ legacy_differ differ_step legacy_differ_step
  trace_of_with final_live_with holds_b_with
  trace_of final_live holds_b late_b coalesced_b last_snapshot netset apply init_pub.
